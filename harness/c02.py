"""C02 — solve() returns a tree / StopIteration / TimeoutError and stays so.

Correspondence of Solver/Loop.v (control skeleton of ISLaSolver.solve, proved sticky in
Solver/LoopFacts.v, Props/C02.v) with isla.solver.ISLaSolver.solve on generated
(grammar, constraint, settings, clock) instances and call sequences.

Observation without touching /repo: the names `time` and `heapq` in the namespace of
isla.solver are replaced (in the worker process only) by recording shims — a deterministic
fake clock and a pass-through heap that notes which state is popped — and solve() is entered
through a subclass that only counts the nesting depth.  Per call the harness records the
skeleton's clock readings, the popped states, the queue / pending solutions between iterations,
and the outcome; the model is then run in Coq on the same inputs (process table = the observed
per-state results) and must reproduce outcome, queue length, number of pending solutions,
step_cnt and start_time after every call.  Independently of the model the property itself is
evaluated on the observed outcome sequence (spec-side oracle: `sticky` / `allowed`)."""
import json, os, random, signal, sys, time as real_time, heapq as real_heapq
import concurrent.futures as cf
import multiprocessing as mp
import lib

# ----------------------------------------------------------------------------------------
# grammars
# ----------------------------------------------------------------------------------------
LANG = {"<start>": ["<stmt>"], "<stmt>": ["<assgn> ; <stmt>", "<assgn>"], "<assgn>": ["<var> := <rhs>"],
        "<rhs>": ["<var>", "<digit>"], "<var>": list("abc"), "<digit>": list("0123")}
NUMS = {"<start>": ["<pair>"], "<pair>": ["<num>,<num>"], "<num>": ["<digit><num>", "<digit>"],
        "<digit>": list("0123456789")}
WORDS = {"<start>": ["<list>"], "<list>": ["<word> <list>", "<word>"], "<word>": ["<ch><word>", "<ch>"],
         "<ch>": ["x", "y", "7"]}
BLOCKS = {"<start>": ["<blk>"], "<blk>": ["{<items>}"], "<items>": ["<item><items>", ""],
          "<item>": ["<blk>", "<digit>"], "<digit>": ["0", "1", "9"]}
KV = {"<start>": ["<kv>"], "<kv>": ["<key>=<val>"], "<key>": ["<ch>", "<ch><key>"], "<val>": ["<num>", "<key>"],
      "<num>": ["<digit>", "<digit><num>"], "<ch>": ["k", "q"], "<digit>": ["0", "1", "2", "5"]}
SIGNED = {"<start>": ["<int>"], "<int>": ["<sign><digits>"], "<sign>": ["", "-", "+"],
          "<digits>": ["<digit>", "<digit><digits>"], "<digit>": list("0123456789")}
GRAMMARS = {"lang": LANG, "nums": NUMS, "words": WORDS, "blocks": BLOCKS, "kv": KV, "signed": SIGNED}
# nonterminals deriving numerals / short strings, per grammar, used by the type-directed generator
NUMERIC = {"lang": ["<digit>"], "nums": ["<num>", "<digit>"], "words": [], "blocks": ["<digit>"],
           "kv": ["<num>", "<digit>"], "signed": ["<int>", "<digits>", "<digit>"]}


# AMBIGUOUS grammars: several alternatives derive the same strings with DIFFERENT tree shapes (flat vs.
# recursive, left vs. right recursion, optional parts).  A solution that Z3 / the parser delivers for a
# partially expanded tree may then have fewer children at some position than the tree it replaces.
AMB_NUM = {"<start>": ["<num>"], "<num>": ["<digit>", "<digit><num>", "<digit><digit><digit>"],
           "<digit>": list("0123456789")}
# (alternatives of one nonterminal have pairwise different lengths: with equally long alternatives the
#  grammar-graph library fails first — recorded class gg-children — and masks everything behind it;
#  AMB_WORD2 keeps one such grammar in the stream)
AMB_LIST = {"<start>": ["<list>"], "<list>": ["<item>", "<item>,<list>", "<item>,<item>,<item>"],
            "<item>": ["a", "b", "<digit>"], "<digit>": ["1", "2"]}
AMB_WORD = {"<start>": ["<word>"], "<word>": ["<ch>", "<ch><word>", "<ch><ch><ch>", "<ch><ch><ch><ch>"],
            "<ch>": ["x", "y", "7"]}
AMB_WORD2 = {"<start>": ["<word>"], "<word>": ["<ch>", "<ch><word>", "<word><ch>", "<ch><ch>"], "<ch>": ["x", "y", "7"]}
AMB_SUM = {"<start>": ["<sum>"], "<sum>": ["<n>", "<n>+<sum>", "<n>+<n>+<n>"], "<n>": ["<d>", "<d><n>", "<d><d><d>"],
           "<d>": ["0", "1", "5"]}
AMB_OPT = {"<start>": ["<seq>"], "<seq>": ["", "<a><seq>", "<a><a><a>"], "<a>": ["p", "q"]}
AMB_REC = {"<start>": ["<rec>"], "<rec>": ["<f>", "<f>;<rec>", "<f>;<f>;<f>"], "<f>": ["<d>", "<d><f>", "<d><d><d>"],
           "<d>": ["3", "4"]}
AMBIGUOUS = {"amb_num": (AMB_NUM, ["<num>"]), "amb_list": (AMB_LIST, ["<list>"]), "amb_word": (AMB_WORD, ["<word>"]),
             "amb_sum": (AMB_SUM, ["<sum>", "<n>"]), "amb_opt": (AMB_OPT, ["<seq>"]), "amb_word2": (AMB_WORD2, ["<word>"]),
             "amb_rec": (AMB_REC, ["<rec>", "<f>"])}
AMB_TEMPLATES = [
    lambda nt, r: f"forall {nt} n in start: str.len(n) < {r.choice([3, 4, 5, 6])}",
    lambda nt, r: f"forall {nt} n in start: str.len(n) < 5",
    lambda nt, r: f"forall {nt} n: (>= (str.len n) {r.choice([1, 2])})",
    lambda nt, r: f"forall {nt} n: (<= (str.len n) {r.choice([3, 4, 7])})",
    lambda nt, r: f"forall {nt} n: (< (str.to.int n) {r.choice([50, 500, 1000])})",
    lambda nt, r: f"forall {nt} n: (not (= n {r.choice(STR_LITS)}))",
    lambda nt, r: f"exists {nt} n: (= (str.len n) {r.choice([2, 3, 4])})",
    lambda nt, r: f"forall {nt} n: (str.in_re n (re.+ (re.union (re.range \"0\" \"9\") (re.range \"a\" \"z\") (str.to_re \",\") (str.to_re \"+\") (str.to_re \";\"))))",
    lambda nt, r: f"str.len({nt}) < {r.choice([4, 5])}",
    lambda nt, r: f"forall {nt} n: forall {nt} m in n: (<= (str.len m) (str.len n))",
    lambda nt, r: f"forall {nt} n in start: (str.len(n) < 6 and str.len(n) > 0)",
]


def gen_ambiguous_instance(rng, idx, i):
    """ambiguous grammar, SMT constraint over a nonterminal with differently shaped alternatives, 10-12 calls"""
    sub = rng.getrandbits(40)
    r = random.Random(sub)
    gname = list(AMBIGUOUS)[i % len(AMBIGUOUS)]
    g, nts = AMBIGUOUS[gname]
    nt = r.choice(nts)
    first_pass = i < len(AMBIGUOUS)      # every grammar once with `str.len(n) < 5` and small instantiation limits
    tpl = AMB_TEMPLATES[1] if first_pass else AMB_TEMPLATES[0] if i < 2 * len(AMBIGUOUS) else r.choice(AMB_TEMPLATES)
    settings = {
        "max_number_free_instantiations": r.choice([2, 2, 3]),
        "max_number_smt_instantiations": r.choice([2, 2, 3, 5]),
        "enable_optimized_z3_queries": r.random() < 0.7,
        "enforce_unique_trees_in_queue": r.random() < 0.7,
        "tree_insertion_methods": None,
        "timeout_seconds": r.choice([None, None, 60]),
        "activate_unsat_support": False,
    }
    if first_pass:
        nt = nts[0]
        settings.update({"max_number_free_instantiations": 2, "max_number_smt_instantiations": 2,
                         "enable_optimized_z3_queries": True, "enforce_unique_trees_in_queue": True})
    return {"idx": idx, "sub_seed": sub, "gname": gname, "grammar": g, "formula": tpl(nt, r), "ops": ["ambiguous"],
            "kind": "ambiguous", "settings": settings, "clock": r.choice(["frozen", "slow"]),
            "ncalls": 12, "real_clock": False, "focus": None, "budget": 15.0}


def nonterminals(g):
    return [k for k in g if k != "<start>"]


def rand_grammar(rng):
    """small random CFG: 2-4 nonterminals besides <start>, every nonterminal has a terminal alternative"""
    n = rng.randint(2, 4)
    nts = [f"<n{i}>" for i in range(n)]
    terms = ["a", "b", "0", "1", "12", " ", ";", "", "-"]
    g = {"<start>": [nts[0]]}
    for i, nt in enumerate(nts):
        alts = [rng.choice(terms[:5])]
        for _ in range(rng.randint(1, 3)):
            syms = []
            for _ in range(rng.randint(1, 3)):
                if rng.random() < 0.55:
                    syms.append(rng.choice(nts[i:] if rng.random() < 0.7 else nts))
                else:
                    syms.append(rng.choice(terms))
            alt = "".join(syms)
            # no unit rules back to the same or an earlier nonterminal (unit cycles make the grammar
            # infinitely ambiguous; such grammars are outside the property's "valid grammar")
            if alt in nts and nts.index(alt) <= i:
                continue
            if alt not in alts:
                alts.append(alt)
        rng.shuffle(alts)
        g[nt] = alts
    # drop unreachable
    reach, todo = {"<start>"}, ["<start>"]
    while todo:
        k = todo.pop()
        for alt in g[k]:
            for nt in nts:
                if nt in alt and nt not in reach:
                    reach.add(nt); todo.append(nt)
    return {k: v for k, v in g.items() if k in reach}


# ----------------------------------------------------------------------------------------
# constraints: type-directed over the operators of the lexer grammar (IslaLanguage.g4)
# ----------------------------------------------------------------------------------------
STR_LITS = ['"a"', '"b"', '"0"', '"1"', '"12"', '"x"', '""', '"7"', '"a := 1"', '"-"', '"k"', '"007"', '"+1"']
INT_LITS = ["0", "1", "2", "3", "7", "10", "-1", "100"]
ALL_OPS = ["=", ">=", "<=", ">", "<", "*", "div", "mod", "+", "-", "^", "re.++", "str.++", "str.<=", "and", "or",
           "=>", "xor", "abs", "re.+", "re.*", "str.len", "str.in_re", "str.to_re", "re.none", "re.all",
           "re.allchar", "str.at", "str.substr", "str.prefixof", "str.suffixof", "str.contains", "str.indexof",
           "str.replace", "str.replace_all", "str.replace_re", "str.replace_re_all", "re.union", "re.inter",
           "re.comp", "re.diff", "re.opt", "re.range", "re.loop", "str.is_digit", "str.to_code", "str.from_code",
           "str.to.int", "str.from_int", "not", "ite"]


class FGen:
    def __init__(self, rng, svars, focus=None):
        self.rng, self.svars, self.focus, self.used = rng, svars, focus, set()

    def op(self, name):
        self.used.add(name)
        return name

    RE_OPS = {"re.++", "re.union", "re.inter", "re.diff", "re.comp", "re.*", "re.+", "re.opt", "re.loop", "re.range",
              "str.to_re", "re.allchar", "re.all", "re.none"}
    S_OPS = {"str.++", "str.at", "str.substr", "str.replace", "str.replace_all", "str.replace_re", "str.replace_re_all",
             "str.from_int", "str.from_code", "ite"}
    I_OPS = {"str.len", "str.to.int", "str.to_code", "str.indexof", "+", "-", "*", "div", "mod", "^", "abs"}
    ROUTE = {  # (current sort, sort of the focus operator) -> operators that lead there
        ("b", "re"): ["str.in_re"], ("b", "s"): ["str.prefixof", "str.contains", "str.<="], ("b", "i"): [">", "<=", ">="],
        ("s", "re"): ["str.replace_re", "str.replace_re_all"], ("s", "i"): ["str.at", "str.from_int"], ("s", "b"): ["ite"],
        ("i", "s"): ["str.len", "str.to.int", "str.indexof"], ("i", "re"): ["str.len"], ("i", "b"): ["str.len"],
        ("re", "s"): ["str.to_re"], ("re", "i"): ["str.to_re"], ("re", "b"): ["str.to_re"]}

    def pick(self, cands, sort="b"):
        """prefer the focus operator when it is among the candidates, else an operator that leads to its sort"""
        names = [c[0] for c in cands]
        f = self.focus
        if f is not None and f not in self.used:
            if f in names:
                return cands[names.index(f)]
            fs = "re" if f in self.RE_OPS else "s" if f in self.S_OPS else "i" if f in self.I_OPS else "b"
            via = [c for c in cands if c[0] in self.ROUTE.get((sort, fs), [])]
            if via:
                return self.rng.choice(via)
        return self.rng.choice(cands)

    def s(self, d):
        r = self.rng
        leaf = [("var", lambda: r.choice(self.svars)), ("lit", lambda: r.choice(STR_LITS))]
        if d <= 0 or (r.random() < 0.35 and self.focus in self.used | {None}):
            name, f = r.choice(leaf if self.svars else leaf[1:])
            if self.svars and r.random() < 0.6:
                return r.choice(self.svars)
            return f()
        c = [("str.++", lambda: f"(str.++ {self.s(d-1)} {self.s(d-1)})"),
             ("str.at", lambda: f"(str.at {self.s(d-1)} {self.i(d-1)})"),
             ("str.substr", lambda: f"(str.substr {self.s(d-1)} {self.i(d-1)} {self.i(d-1)})"),
             ("str.replace", lambda: f"(str.replace {self.s(d-1)} {self.s(d-1)} {self.s(d-1)})"),
             ("str.replace_all", lambda: f"(str.replace_all {self.s(d-1)} {self.s(d-1)} {self.s(d-1)})"),
             ("str.replace_re", lambda: f"(str.replace_re {self.s(d-1)} {self.re(d-1)} {self.s(d-1)})"),
             ("str.replace_re_all", lambda: f"(str.replace_re_all {self.s(d-1)} {self.re(d-1)} {self.s(d-1)})"),
             ("str.from_int", lambda: f"(str.from_int {self.i(d-1)})"),
             ("str.from_code", lambda: f"(str.from_code {self.i(d-1)})"),
             ("ite", lambda: f"(ite {self.b(d-1)} {self.s(d-1)} {self.s(d-1)})")]
        name, f = self.pick(c, "s")
        self.op(name)
        return f()

    def i(self, d):
        r = self.rng
        if d <= 0 or (r.random() < 0.3 and self.focus in self.used | {None}):
            if self.svars and r.random() < 0.5:
                self.op("str.to.int" if r.random() < 0.5 else "str.len")
                return f"({'str.to.int' if 'str.to.int' in self.used and r.random() < 0.7 else 'str.len'} {r.choice(self.svars)})"
            return r.choice(INT_LITS)
        c = [("str.len", lambda: f"(str.len {self.s(d-1)})"),
             ("str.to.int", lambda: f"(str.to.int {self.s(d-1)})"),
             ("str.to_code", lambda: f"(str.to_code {self.s(d-1)})"),
             ("str.indexof", lambda: f"(str.indexof {self.s(d-1)} {self.s(d-1)} {self.i(d-1)})"),
             ("+", lambda: f"(+ {self.i(d-1)} {self.i(d-1)})"),
             ("-", lambda: f"(- {self.i(d-1)} {self.i(d-1)})"),
             ("*", lambda: f"(* {self.i(d-1)} {self.i(d-1)})"),
             ("div", lambda: f"(div {self.i(d-1)} {self.i(d-1)})"),
             ("mod", lambda: f"(mod {self.i(d-1)} {self.i(d-1)})"),
             ("^", lambda: f"(^ {self.i(d-1)} {self.i(d-1)})"),
             ("abs", lambda: f"(abs {self.i(d-1)})")]
        name, f = self.pick(c, "i")
        self.op(name)
        return f()

    def re(self, d):
        r = self.rng
        if d <= 0 or (r.random() < 0.3 and self.focus in self.used | {None}):
            k = r.random()
            if k < 0.6:
                self.op("str.to_re"); return f"(str.to_re {r.choice(STR_LITS)})"
            if k < 0.8:
                self.op("re.range"); return r.choice(['(re.range "0" "9")', '(re.range "a" "c")'])
            name = r.choice(["re.allchar", "re.all", "re.none"])
            self.op(name); return name
        c = [("re.++", lambda: f"(re.++ {self.re(d-1)} {self.re(d-1)})"),
             ("re.union", lambda: f"(re.union {self.re(d-1)} {self.re(d-1)})"),
             ("re.inter", lambda: f"(re.inter {self.re(d-1)} {self.re(d-1)})"),
             ("re.diff", lambda: f"(re.diff {self.re(d-1)} {self.re(d-1)})"),
             ("re.comp", lambda: f"(re.comp {self.re(d-1)})"),
             ("re.*", lambda: f"(re.* {self.re(d-1)})"),
             ("re.+", lambda: f"(re.+ {self.re(d-1)})"),
             ("re.opt", lambda: f"(re.opt {self.re(d-1)})"),
             ("re.loop", lambda: f"(re.loop {self.re(d-1)} {r.randint(0, 2)} {r.randint(1, 3)})"),
             ("re.range", lambda: '(re.range "0" "9")'),
             ("str.to_re", lambda: f"(str.to_re {self.s(d-1)})"),
             ("re.allchar", lambda: "re.allchar"), ("re.all", lambda: "re.all"), ("re.none", lambda: "re.none")]
        name, f = self.pick(c, "re")
        self.op(name)
        return f()

    def b(self, d):
        r = self.rng
        c = [("=", lambda: f"(= {self.s(d-1)} {self.s(d-1)})" if r.random() < 0.5 else f"(= {self.i(d-1)} {self.i(d-1)})"),
             (">", lambda: f"(> {self.i(d-1)} {self.i(d-1)})"), (">=", lambda: f"(>= {self.i(d-1)} {self.i(d-1)})"),
             ("<", lambda: f"(< {self.i(d-1)} {self.i(d-1)})"), ("<=", lambda: f"(<= {self.i(d-1)} {self.i(d-1)})"),
             ("str.in_re", lambda: f"(str.in_re {self.s(d-1)} {self.re(d-1)})"),
             ("str.prefixof", lambda: f"(str.prefixof {self.s(d-1)} {self.s(d-1)})"),
             ("str.suffixof", lambda: f"(str.suffixof {self.s(d-1)} {self.s(d-1)})"),
             ("str.contains", lambda: f"(str.contains {self.s(d-1)} {self.s(d-1)})"),
             ("str.<=", lambda: f"(str.<= {self.s(d-1)} {self.s(d-1)})"),
             ("str.is_digit", lambda: f"(str.is_digit {self.s(d-1)})")]
        if d >= 2:
            c += [("not", lambda: f"(not {self.b(d-1)})"), ("and", lambda: f"(and {self.b(d-1)} {self.b(d-1)})"),
                  ("or", lambda: f"(or {self.b(d-1)} {self.b(d-1)})"), ("=>", lambda: f"(=> {self.b(d-1)} {self.b(d-1)})"),
                  ("xor", lambda: f"(xor {self.b(d-1)} {self.b(d-1)})")]
        name, f = self.pick(c, "b")
        self.op(name)
        return f()


INFIX_TEMPLATES = [
    lambda a, b: f'{a} = {b}', lambda a, b: f'str.len({a}) > str.len({b})', lambda a, b: f'str.len({a}) + 1 = str.len({b})',
    lambda a, b: f'str.to.int({a}) > str.to.int({b})', lambda a, b: f'str.to.int({a}) * 2 = str.to.int({b})',
    lambda a, b: f'str.to.int({a}) mod 2 = 0', lambda a, b: f'str.to.int({a}) div 2 = 1',
    lambda a, b: f'{a} str.++ "x" = {b}', lambda a, b: f'str.len({a}) - 1 >= 0 and not {a} = {b}',
    lambda a, b: f'str.in_re({a}, re.+(re.range("0", "9")))', lambda a, b: f'str.prefixof({a}, {b})',
    lambda a, b: f'str.contains({b}, {a})', lambda a, b: f'str.to.int({a}) >= 5 and str.to.int({a}) <= 20',
]
OPS_INFIX = ["EQ", "GE", "LE", "GT", "LT"]


def gen_formula(rng, gname, g, focus=None):
    """a constraint in concrete syntax + the set of SMT operators in solver position + a kind tag"""
    nts = nonterminals(g)
    numeric = [n for n in NUMERIC.get(gname, []) if n in g]
    kind = rng.choice(["free", "free", "forall", "exists", "exists2", "forall_exists", "pred", "count",
                       "infix", "infix", "conj", "existsint", "true", "neg"])
    if focus is not None:
        kind = rng.choice(["free", "forall", "exists", "free"])

    def ntpick(pref_numeric=False):
        if pref_numeric and numeric and rng.random() < 0.8:
            return rng.choice(numeric)
        return rng.choice(nts)

    def smt(vars_, depth=None):
        fg = FGen(rng, vars_, focus)
        depth = depth if depth is not None else (3 if focus is not None else rng.choice([1, 1, 2, 2, 3]))
        txt = fg.b(depth)
        return txt, fg.used

    if kind == "true":
        return "true", set(), kind
    if kind == "free":
        a, b = ntpick(True), ntpick(True)
        txt, used = smt([a] if rng.random() < 0.6 else [a, b])
        return txt, used, kind
    if kind == "infix":
        a, b = ntpick(True), ntpick(True)
        return rng.choice(INFIX_TEMPLATES)(a, b), {"infix"}, kind
    if kind in ("forall", "exists"):
        a = ntpick(True)
        txt, used = smt(["v"])
        return f"{kind} {a} v: {txt}", used, kind
    if kind == "exists2":
        a, b = ntpick(True), ntpick(True)
        txt, used = smt(["v", "w"])
        return f"exists {a} v: exists {b} w: {txt}", used, kind
    if kind == "forall_exists":
        a, b = ntpick(), ntpick(True)
        txt, used = smt(["v", "w"], 1)
        pred = rng.choice(["before(v, w)", "before(w, v)", "inside(w, v)", "different_position(v, w)", "true"])
        return f"forall {a} v: exists {b} w: ({pred} and {txt})", used, kind
    if kind == "pred":
        a, b = ntpick(), ntpick()
        p = rng.choice([f"before(v, w)", f"after(v, w)", f"inside(v, w)", f"same_position(v, w)",
                        f"different_position(v, w)", f"direct_child(v, w)", f"consecutive(v, w)",
                        f'level("{rng.choice(OPS_INFIX)}", "{rng.choice(nts)}", v, w)', f'nth("{rng.randint(1, 3)}", v, w)'])
        q1, q2 = rng.choice([("forall", "forall"), ("exists", "exists"), ("forall", "exists"), ("exists", "forall")])
        txt, used = smt(["v", "w"], 1)
        body = rng.choice([p, f"({p} and {txt})", f"({p} implies {txt})", f"(not {p} or {txt})"])
        return f"{q1} {a} v: {q2} {b} w: {body}", used | {"pred"}, kind
    if kind == "count":
        a = ntpick()
        n = rng.choice(["0", "1", "2", "3", "5"])
        if rng.random() < 0.5:
            return f'count(start, "{a}", "{n}")', {"count"}, kind
        return f'exists int n: (count(start, "{a}", n) and (> (str.to.int n) {rng.randint(0, 3)}))', {"count"}, kind
    if kind == "existsint":
        a = ntpick(True)
        return (f"exists int n: forall {a} v: (= (str.len v) (str.to.int n))" if rng.random() < 0.5 else
                f"forall int n: exists {a} v: (> (str.to.int v) (str.to.int n))"), {"numq"}, kind
    if kind == "conj":
        a, b = ntpick(True), ntpick(True)
        t1, u1 = smt([a], 1)
        t2, u2 = smt([b], 1)
        con = rng.choice(["and", "or", "implies", "xor", "iff"])
        return f"({t1} {con} {t2})", u1 | u2, kind
    if kind == "neg":
        a = ntpick(True)
        txt, used = smt(["v"], 1)
        return f"not (exists {a} v: {txt})", used, kind
    raise AssertionError(kind)


def gen_instance(rng, idx, tier, focus=None):
    sub = rng.getrandbits(40)
    r = random.Random(sub)
    if r.random() < 0.2:
        gname, g = "rand", rand_grammar(r)
    else:
        gname = r.choice(list(GRAMMARS))
        g = GRAMMARS[gname]
    formula, used, kind = gen_formula(r, gname, g, focus)
    settings = {
        "max_number_free_instantiations": r.choice([1, 1, 2, 3, 10]),
        "max_number_smt_instantiations": r.choice([1, 1, 2, 3, 10]),
        "enable_optimized_z3_queries": r.random() < 0.6,
        "enforce_unique_trees_in_queue": r.random() < 0.6,
        "tree_insertion_methods": r.choice([None, None, 0, 1, 2, 3, 4, 5, 6, 7]),
        "timeout_seconds": r.choice([None, None, None, 0, 0, 1, 2, 5]),
        "activate_unsat_support": r.random() < 0.2,
    }
    if settings["activate_unsat_support"] and settings["tree_insertion_methods"] is not None:
        settings["tree_insertion_methods"] = None   # the constructor prints a recommendation otherwise
    clock = r.choice(["frozen", "slow", "slow", "jumpy", "step", "percall", "percall"])
    if settings["timeout_seconds"] is None and not settings["activate_unsat_support"]:
        clock = "slow"
    return {"idx": idx, "sub_seed": sub, "gname": gname, "grammar": g, "formula": formula, "ops": sorted(used),
            "kind": kind, "settings": settings, "clock": clock, "ncalls": r.choice([4, 6, 8, 10, 12, 12]),
            "real_clock": False, "focus": focus}


# ----------------------------------------------------------------------------------------
# worker: run one instance on the implementation, with recording shims
# ----------------------------------------------------------------------------------------
class Budget(BaseException):
    pass


FIRED = [False]


def _alarm(*_):
    FIRED[0] = True
    raise Budget()


class Trace:
    def __init__(self, rng, profile):
        self.depth = 0
        self.solver = None
        self.rng, self.profile = rng, profile
        self.now = 1000
        self.events = None          # events of the current top-level call
        self.keep = []              # keep observed objects alive (ids stay unique)
        self.sid, self.tid = {}, {}
        self.nreads = 0
        self.nested_steps = 0

    # --- ids
    def state_id(self, st):
        k = id(st)
        if k not in self.sid:
            self.sid[k] = len(self.sid); self.keep.append(st)
        return self.sid[k]

    def tree_id(self, t):
        k = id(t)
        if k not in self.tid:
            self.tid[k] = len(self.tid); self.keep.append(t)
        return self.tid[k]

    def snap(self):
        s = self.solver
        return ([self.state_id(st) for _, st in s.queue], [self.tree_id(t) for t in s.solutions])

    # --- fake clock
    def tick(self):
        r, p = self.rng, self.profile
        self.nreads += 1
        if p == "frozen":
            d = 0
        elif p == "slow":
            d = 1 if r.random() < 0.15 else 0
        elif p == "percall":   # time passes between the calls only (see run_instance)
            d = 0
        elif p == "jumpy":
            d = r.choice([0, 0, 0, 0, 1, 1, 4, 9])
        else:   # step: one second every read
            d = 1
        self.now += d
        return float(self.now) + 0.25


class FakeTime:
    def __init__(self, tr):
        self._tr = tr

    def time(self):
        tr = self._tr
        v = tr.tick()
        caller = sys._getframe(1).f_code.co_name
        if tr.depth == 1 and tr.events is not None and caller != "process_new_state":
            q, s = tr.snap()
            tr.events.append(("read", int(v), q, s))
        return v

    def __getattr__(self, name):
        return getattr(real_time, name)


class FakeHeapq:
    def __init__(self, tr):
        self._tr = tr

    def heappop(self, heap):
        tr = self._tr
        if tr.depth == 1 and tr.events is not None and heap is tr.solver.queue:
            q, s = tr.snap()
            item = real_heapq.heappop(heap)
            tr.events.append(("pop", tr.state_id(item[1]), q, s))
            return item
        return real_heapq.heappop(heap)

    def __getattr__(self, name):
        return getattr(real_heapq, name)


def exn_class(e):
    return lib.exn_name(e)


def run_instance(inst):
    """returns a JSON-able record of what the implementation did"""
    import isla.solver as S
    from isla.solver import ISLaSolver
    from isla.isla_predicates import STANDARD_STRUCTURAL_PREDICATES, STANDARD_SEMANTIC_PREDICATES
    import logging
    logging.disable(logging.CRITICAL)
    rec = {"idx": inst["idx"], "calls": [], "ctor": "ok", "aborted": False}
    r = random.Random(inst["sub_seed"] ^ 0x5A5A)
    random.seed(inst["sub_seed"])
    tr = Trace(r, inst["clock"])

    class Traced(ISLaSolver):
        def solve(self):
            tr.depth += 1
            before = self.step_cnt
            try:
                return super().solve()
            finally:
                if tr.depth == 2:     # nested solve() of the unsat check also counts its iterations in step_cnt
                    tr.nested_steps += self.step_cnt - before
                tr.depth -= 1

    budget = inst.get("budget", 2.5)     # seconds of CPU time of this process (robust to machine load)
    FIRED[0] = False
    t_end = real_time.process_time() + budget
    signal.signal(signal.SIGPROF, _alarm)
    old_time, old_heapq = S.time, S.heapq
    if not inst["real_clock"]:
        S.time, S.heapq = FakeTime(tr), FakeHeapq(tr)
    try:
        signal.setitimer(signal.ITIMER_PROF, max(0.05, t_end - real_time.process_time()), 0.5)
        try:
            cls = ISLaSolver if inst["real_clock"] else Traced
            solver = cls(inst["grammar"], inst["formula"],
                         structural_predicates=STANDARD_STRUCTURAL_PREDICATES,
                         semantic_predicates=STANDARD_SEMANTIC_PREDICATES, **inst["settings"])
        except Budget:
            rec["ctor"] = "budget"; return rec
        except BaseException as e:
            if FIRED[0]:      # the alarm went off inside a C callback / __del__ and was converted
                rec["ctor"] = "budget"; return rec
            rec["ctor"] = f"{type(e).__name__}: {str(e)[:160]}"; return rec
        finally:
            signal.setitimer(signal.ITIMER_PROF, 0)
        tr.solver = solver
        rec["init_queue"] = tr.snap()[0]
        for k in range(inst["ncalls"]):
            left = t_end - real_time.process_time()
            if left <= 0.05:
                rec["aborted"] = True; rec["abort_info"] = ("no time left", k); break
            tr.events = []
            out = None
            if inst["clock"] == "percall" and k > 0:
                tr.now += r.choice([0, 1, 1, 2])
            signal.setitimer(signal.ITIMER_PROF, left, 0.5)
            try:
                t = solver.solve()
                signal.setitimer(signal.ITIMER_PROF, 0)
                if FIRED[0]:  # the alarm was swallowed somewhere below: the result is not trustworthy
                    rec["aborted"] = True; break
                out = {"kind": "tree", "tid": tr.tree_id(t), "str": str(t)[:60]}
            except Budget:
                signal.setitimer(signal.ITIMER_PROF, 0)
                rec["aborted"] = True; rec["abort_info"] = ("budget", round(real_time.process_time() - t_end + budget, 2)); break
            except BaseException as e:
                signal.setitimer(signal.ITIMER_PROF, 0)
                if FIRED[0]:  # the alarm went off inside a C callback / __del__ and was converted
                    rec["aborted"] = True; rec["abort_info"] = ("fired-exc", type(e).__name__, round(real_time.process_time() - t_end + budget, 2)); break
                import traceback
                tb = traceback.extract_tb(e.__traceback__)
                out = {"kind": "raise", "exn": exn_class(e), "type": type(e).__name__, "msg": str(e)[:200],
                       "where": [f"{os.path.basename(f.filename)}:{f.lineno}:{f.name}" for f in tb[-4:]]}
            ev, tr.events = tr.events, None
            q, s = tr.snap()
            rec["calls"].append({"out": out, "events": ev, "queue": q, "sols": s, "steps": solver.step_cnt - tr.nested_steps,
                                 "start": solver.start_time, "timeout": solver.timeout_seconds})
    finally:
        signal.setitimer(signal.ITIMER_PROF, 0)
        S.time, S.heapq = old_time, old_heapq
    return rec


def _worker(inst):
    w0, c0 = real_time.time(), real_time.process_time()
    rec = _worker1(inst)
    rec["wall"], rec["cpu"] = round(real_time.time() - w0, 2), round(real_time.process_time() - c0, 2)
    return rec


def _worker1(inst):
    try:
        return run_instance(inst)
    except Budget:
        return {"idx": inst["idx"], "calls": [], "ctor": "budget", "aborted": True}
    except BaseException as e:  # harness problem: make it visible
        import traceback
        return {"idx": inst["idx"], "calls": [], "ctor": "harness-error", "error": traceback.format_exc()[-1500:]}


def _worker_loop(conn):
    """long-lived worker: receives instances, sends records; never returns"""
    try:
        while True:
            try:
                inst = conn.recv()
            except (EOFError, OSError):
                break
            if inst is None:
                break
            conn.send(_worker(inst))
    finally:
        os._exit(0)      # no interpreter teardown (Z3 finalizers can block)


def _inconclusive(inst, why):
    return {"idx": inst["idx"], "calls": [], "ctor": "inconclusive-" + why, "aborted": True, "abort_info": why}


def run_pool(insts, workers):
    """Own process pool (a worker that dies or hangs makes ITS instance inconclusive and is replaced; it never
    breaks the run).  Workers are forked from this process, which never imports isla/Z3 itself (forking a
    process that already used Z3 deadlocks).  Budgets inside the workers are CPU time (robust to machine load);
    the wall-clock limit here only catches workers that hang without consuming CPU or are stuck in C code.
    Tasks are handed out in list order, so the first `workers` instances run in fresh processes."""
    from multiprocessing.connection import wait
    ctx = mp.get_context("fork")

    def spawn():
        pc, cc = ctx.Pipe()
        p = ctx.Process(target=_worker_loop, args=(cc,), daemon=True)
        p.start()
        cc.close()
        return (p, pc)

    pending, out = list(insts), {}
    idle = [spawn() for _ in range(min(workers, max(1, len(insts))))]
    running = {}      # conn -> (proc, inst, t0)

    def retire(conn, proc):
        try:
            conn.close()
        except OSError:
            pass
        if proc.is_alive():
            proc.kill()
        proc.join(2.0)

    while pending or running:
        while pending and idle:
            p, c = idle.pop()
            inst = pending.pop(0)
            try:
                c.send(inst)
                running[c] = (p, inst, real_time.time())
            except (OSError, ValueError):
                retire(c, p)
                out[inst["idx"]] = _inconclusive(inst, "worker-died")
                idle.append(spawn())
        for c in wait(list(running), timeout=0.5):
            p, inst, t0 = running.pop(c)
            try:
                out[inst["idx"]] = c.recv()
                idle.append((p, c))
            except (EOFError, OSError):
                retire(c, p)
                out[inst["idx"]] = _inconclusive(inst, "worker-died")
                idle.append(spawn())
        now = real_time.time()
        for c, (p, inst, t0) in list(running.items()):
            if now - t0 > min(200.0, 12.0 * inst.get("budget", 2.5) + 40.0):
                del running[c]
                retire(c, p)
                out[inst["idx"]] = _inconclusive(inst, "worker-hung")
                idle.append(spawn())
    for p, c in idle:
        try:
            c.send(None)
        except (OSError, ValueError):
            pass
        p.join(0.5)
        retire(c, p)
    return out


# ----------------------------------------------------------------------------------------
# analysis of one record: process table, per-call observations, property oracle
# ----------------------------------------------------------------------------------------
BIG = 10 ** 6


def analyze(inst, rec):
    """-> dict(calls=[obs...], table, readings, init_queue, anomalies, crashes, seq, ...)"""
    res = {"anomalies": [], "crashes": [], "seq": "", "obs": [], "table": {}, "readings": [],
           "npops": 0, "inner": []}
    pop_rank = {}
    table = {}
    for ci, c in enumerate(rec["calls"]):
        out = c["out"]
        pend = None
        npop = 0
        evs = list(c["events"]) + [("end", None, c["queue"], c["sols"])]
        last_kind = None
        for e in evs:
            kind, val, q_now, s_now = e
            if pend is not None:
                sid, rest, s_before = pend
                if s_before:
                    res["anomalies"].append({"call": ci, "what": "state popped while solutions were pending"})
                crash = None
                if kind == "end":
                    if out["kind"] == "tree":
                        new = [out["tid"]] + list(s_now)
                    elif out["exn"] == "StopIter" and not q_now and not s_now:
                        new = []
                    else:
                        new, crash = list(s_now), out["exn"]
                else:
                    new = list(s_now)
                pushed = [x for x in q_now if x not in rest]
                vanished = [x for x in rest if x not in q_now]
                if vanished:
                    res["anomalies"].append({"call": ci, "what": "queue entries vanished during process", "n": len(vanished)})
                table[sid] = (pushed, crash, new)
                if crash is not None:
                    inner = crash in ("StopIter", "TimeoutErr")
                    res["crashes"].append({"call": ci, "exn": crash, "type": out["type"], "msg": out["msg"],
                                           "where": out["where"], "inner": inner})
                    if inner:
                        res["inner"].append(crash)
                pend = None
            if kind == "pop":
                if val not in q_now:
                    res["anomalies"].append({"call": ci, "what": "popped state was not in the observed queue"})
                pop_rank[val] = len(pop_rank)
                pend = (val, [x for x in q_now if x != val], list(s_now))
                npop += 1
            elif kind == "read":
                res["readings"].append(val)
            last_kind = kind
        # exceptions raised by the skeleton itself or outside any process phase
        if out["kind"] == "raise" and not any(cr["call"] == ci for cr in res["crashes"]):
            skeleton_timeout = out["exn"] == "TimeoutErr" and (
                (len(c["events"]) > 0 and c["events"][-1][0] == "read") if not inst["real_clock"]
                else (inst["settings"]["timeout_seconds"] is not None and not inst["settings"]["activate_unsat_support"]))
            skeleton_stop = out["exn"] == "StopIter" and not c["queue"] and not c["sols"]
            if not (skeleton_timeout or skeleton_stop):
                res["crashes"].append({"call": ci, "exn": out["exn"], "type": out["type"], "msg": out["msg"],
                                       "where": out["where"], "inner": out["exn"] in ("StopIter", "TimeoutErr"),
                                       "outside_process": True})
        res["npops"] += npop
        o = ("T", out["tid"]) if out["kind"] == "tree" else ("R", out["exn"])
        res["obs"].append({"fuel": npop + 1, "out": o, "qlen": len(c["queue"]), "nsols": len(c["sols"]),
                           "steps": c["steps"], "start": c["start"]})
        res["seq"] += "T" if out["kind"] == "tree" else {"StopIter": "S", "TimeoutErr": "O"}.get(out["exn"], "X")
    res["table"], res["pop_rank"] = table, pop_rank
    return res


def g_prio(sid, pop_rank):
    return f"({pop_rank.get(sid, BIG + sid)}%N, {sid}%N)"


def g_tq(sids, pop_rank):
    return "(@nil (N * N))" if not sids else "[" + "; ".join(g_prio(x, pop_rank) for x in sids) + "]"


def g_Nlist(xs):
    return "(@nil N)" if not xs else "[" + "; ".join(f"{x}%N" for x in xs) + "]"


def g_case(inst, rec, an):
    pr = an["pop_rank"]
    tmo = inst["settings"]["timeout_seconds"]
    rs = "(@nil Z)" if not an["readings"] else "[" + "; ".join(lib.g_Z(v) for v in an["readings"]) + "]"
    tb = "(@nil (N * (tq * res (list N))))" if not an["table"] else "[" + "; ".join(
        f"({sid}%N, ({g_tq(pushed, pr)}, {'(Raise ' + crash + ')' if crash else '(Ok ' + g_Nlist(new) + ')'}))"
        for sid, (pushed, crash, new) in an["table"].items()) + "]"
    calls = "[" + "; ".join(
        f"({lib.g_nat(o['fuel'])}, mkObs {'(OTree ' + str(o['out'][1]) + '%N)' if o['out'][0] == 'T' else '(ORaise ' + o['out'][1] + ')'} "
        f"{o['qlen']}%N {o['nsols']}%N {o['steps']}%N {lib.g_option(o['start'], lib.g_Z)})" for o in an["obs"]) + "]"
    return f"(({lib.g_option(tmo, lib.g_Z)}, {g_tq(rec['init_queue'], pr)}, {rs}, {tb}, {calls}) : tcase)"


def sticky_break(seq, ch):
    """index of the first later call that differs after the first `ch`, or None (spec-side oracle)"""
    if ch not in seq:
        return None
    i = seq.index(ch)
    for j in range(i + 1, len(seq)):
        if seq[j] != ch:
            return (i, j)
    return None


# recorded crash classes: (key, exception type, regex on message, function that must be among the
# innermost frames or None).  The entries live in harness/meta/C02.findings.json.
import re
CLASSES = [
    ("noimpl", "TypeError", r"not_implemented_failure\(\) takes from 0 to 1 positional arguments", None),
    ("numeric-parse", "RuntimeError", r"Could not parse a numeric solution", None),
    ("length-tree", "RuntimeError", r"Could not create a tree with the start symbol", None),
    ("str-to-int-domain", "DomainError", r"cannot be converted to int", None),
    ("to-code-ord", "TypeError", r"ord\(\) expected a character", None),
    ("gg-children", "RuntimeError", r"Child symbols .* seem to be incorrect for parent", None),
    ("regularize-assert", "AssertionError", r"", "file:cfg2regex.py|grammar_to_regular.py"),
    ("prev-solution-assert", "AssertionError", r"", "previous_solution_formula"),
    ("insert-assert", "AssertionError", r"", "add_to_result"),
    ("sempred-assert", "AssertionError", r"", "last:eliminate_all_ready_semantic_predicate_formulas"),
    ("seq-at-index", "IndexError", r"string index out of range", "evaluate_z3_seq_at"),
    ("ground-unknown-assert", "AssertionError", r"", "file+fn:three_valued_truth.py:to_bool"),
    ("zero-div", "ZeroDivisionError", r"", None),
]


def crash_class(cr):
    if cr.get("inner") and cr["exn"] == "TimeoutErr":
        # TimeoutError of the nested solve() of the unsat check (process_new_state) escaping
        return "unsat-nested-timeout" if any(w.endswith(":process_new_state") for w in cr["where"]) else None
    if cr.get("inner"):
        return None
    for key, typ, rx, fn in CLASSES:
        if fn is not None and fn.startswith("last:"):     # the innermost frame is this function
            site = bool(cr["where"]) and cr["where"][-1].endswith(":" + fn[5:])
        elif fn is not None and fn.startswith("file+fn:"):
            f_, n_ = fn[8:].split(":")
            site = any(w.split(":")[0] == f_ and w.endswith(":" + n_) for w in cr["where"])
        elif fn is not None and fn.startswith("file:"):
            site = any(w.split(":")[0] in fn[5:].split("|") for w in cr["where"])
        else:
            site = fn is None or any(w.endswith(":" + fn) for w in cr["where"])
        if cr["type"] == typ and re.search(rx, cr["msg"]) and site:
            return key
    return None


# ----------------------------------------------------------------------------------------
# the check
# ----------------------------------------------------------------------------------------
def witness_of(inst, rec=None, extra=None):
    w = {k: inst[k] for k in ("gname", "grammar", "formula", "settings", "clock", "ncalls", "sub_seed", "real_clock")}
    w["idx"] = inst["idx"]
    if rec is not None:
        w["outcomes"] = [c["out"] for c in rec["calls"]]
    if extra:
        w.update(extra)
    return w


def plain_instance(w, idx, budget=6.0):
    """witness of a finding -> instance.  real_clock=True (default): untouched ISLaSolver and real time;
    real_clock=False: the recording shims with the deterministic fake clock profile of the witness"""
    return {"idx": idx, "sub_seed": w.get("sub_seed", 0), "gname": w.get("gname", "w"), "grammar": w["grammar"],
            "formula": w["formula"], "settings": w["settings"], "clock": w.get("clock", "slow"),
            "ncalls": w.get("ncalls", 4), "real_clock": w.get("real_clock", True), "budget": budget,
            "kind": "witness", "ops": [], "focus": None}


def load_findings():
    """known_findings.json is generated from harness/meta/*.findings.json; read the source so that the
    check does not depend on the generator having been re-run"""
    p = os.path.join(lib.VERIF, "harness", "meta", "C02.findings.json")
    own = json.load(open(p)) if os.path.exists(p) else []
    keys = {e["key"] for e in own}
    return own + [e for e in lib.known_findings("C02") if e["key"] not in keys]


def run(run):
    rng = random.Random(run.seed)
    thorough = run.tier == "thorough"
    run.cov["rule"] = (
        "instances = (grammar from 6 fixed + random small CFGs, constraint generated type-directed over the "
        "operators of IslaLanguage.g4 incl. one stream focused on every SMT operator, quantifiers, structural "
        "predicates, count, numeric quantifiers; settings max_number_free/smt_instantiations, optimized queries, "
        "unique trees, tree_insertion_methods, timeout_seconds in {None,0,1,2,5}, activate_unsat_support; fake "
        "non-decreasing clock frozen/slow/jumpy/step/percall) x call sequences of 4-12 solve() calls; plus a stream on "
        "AMBIGUOUS grammars (same string, differently shaped trees) with SMT constraints over the ambiguous "
        "nonterminals and 10-12 calls. Witnesses of repaired findings are corpus cases that must pass. Per call: outcome, "
        "queue length, pending solutions, step_cnt, start_time compared with the Coq model run on the observed "
        "process table; property oracle on the outcome sequence. non-trivial = the history has >=1 call after the "
        "first StopIteration/TimeoutError")
    proof_ok = run.proof_stage()

    n_focus = len(ALL_OPS) * (4 if thorough else 1)
    n_rand = 900 if thorough else 56
    insts = []
    for i in range(n_focus):
        insts.append(gen_instance(rng, len(insts), run.tier, focus=ALL_OPS[i % len(ALL_OPS)]))
    for i in range(n_rand):
        insts.append(gen_instance(rng, len(insts), run.tier))
    # histories in which the deadline passes while solutions are still pending (order of the timeout test
    # and the pending-solution test inside the loop)
    for i in range(40 if thorough else 10):
        it = gen_instance(rng, len(insts), run.tier)
        gname = ["lang", "nums", "kv", "words"][i % 4]
        it.update({"gname": gname, "grammar": GRAMMARS[gname], "kind": "pending", "ops": [],
                   "formula": ["true", "forall <digit> v: (>= (str.to.int v) 0)" if gname != "words" else "true"][i % 2],
                   "clock": ["percall", "percall", "percall", "slow"][i % 4], "ncalls": 12})
        it["settings"].update({"max_number_free_instantiations": [10, 3, 5][i % 3], "timeout_seconds": [2, 5, 1, 2, 5][i % 5],
                               "activate_unsat_support": False})
        insts.append(it)
    # ambiguous grammars, SMT atoms over nonterminals with differently shaped alternatives, 10-12 calls
    # (crashes that need a solution whose tree shape differs from the partially expanded tree it replaces)
    for i in range(72 if thorough else 18):
        insts.append(gen_ambiguous_instance(rng, len(insts), i))
    # a few instances on the untouched class with the real clock (tiny real timeouts)
    n_plain = 24 if thorough else 6
    for i in range(n_plain):
        it = gen_instance(rng, len(insts), run.tier)
        it["real_clock"] = True
        it["settings"]["timeout_seconds"] = [0, 0, None, 1][i % 4]
        it["settings"]["activate_unsat_support"] = False
        it["ncalls"] = 6
        it["budget"] = 3.0
        insts.append(it)
    # witnesses of the recorded findings (replayed on the implementation every run)
    findings = load_findings()
    known = [e for e in findings if e.get("status") == "open"]
    fixed = [e for e in findings if e.get("status") == "fixed"]
    wit = []
    for e in known + fixed:     # fixed entries: their witnesses are corpus cases that must pass
        wi = plain_instance(e["witness"], len(insts) + len(wit))
        wi["finding"] = e["key"]
        wit.append(wi)
    workers = int(os.environ.get("VERIF_C02_WORKERS", "12"))
    t0 = real_time.time()
    # witnesses first (fresh worker processes), then the long ambiguous histories (they overlap with the rest)
    order = wit + [i for i in insts if i["kind"] == "ambiguous"] + [i for i in insts if i["kind"] != "ambiguous"]
    recs = run_pool(order, workers)
    run.cov["impl_seconds"] = round(real_time.time() - t0, 1)
    slow = sorted(recs.values(), key=lambda r: -r.get("wall", 0))[:6]
    by_idx = {i["idx"]: i for i in wit + insts}
    run.cov["slowest_instances"] = [{"wall": r.get("wall"), "cpu": r.get("cpu"), "ctor": r["ctor"][:40], "calls": len(r["calls"]),
                                     "kind": by_idx[r["idx"]]["kind"], "formula": by_idx[r["idx"]]["formula"][:80],
                                     "abort": str(r.get("abort_info"))} for r in slow]

    by_key = {e["key"]: e for e in known}          # OPEN classes only: anything else is reported
    all_by_key = {e["key"]: e for e in known + fixed}
    hist = {"outcome": {}, "ctor": {}, "kind": {}, "ops": {}, "crash_class": {}, "timeout_setting": {}, "seq_shapes": {}}

    def bump(h, k):
        hist[h][str(k)] = hist[h].get(str(k), 0) + 1

    # ---- known-finding witnesses: still present?
    regressions = []
    for wi in wit:
        rec = recs[wi["idx"]]
        e = all_by_key[wi["finding"]]
        an = analyze(wi, rec) if rec["ctor"] == "ok" else None
        present = False
        if an:
            seq = an["seq"]
            if e["key"] == "unsat-nested-timeout":
                present = "O" in seq and (wi["settings"]["timeout_seconds"] is None or sticky_break(seq, "O") is not None)
            else:
                for c in rec["calls"]:
                    o = c["out"]
                    if o["kind"] == "raise" and crash_class({"type": o["type"], "msg": o["msg"], "where": o["where"],
                                                             "exn": o["exn"], "inner": False}) == e["key"]:
                        present = True
        if e["status"] == "fixed":
            # corpus case of a repaired defect: it must pass (allowed outcomes, sticky); no KNOWN-FINDING line
            bad = present
            if an:
                tm = wi["settings"]["timeout_seconds"]
                bad = bad or sticky_break(an["seq"], "S") is not None or sticky_break(an["seq"], "O") is not None \
                    or ("O" in an["seq"] and tm is None) \
                    or any(crash_class(cr) not in by_key for cr in an["crashes"])
            run.cov.setdefault("fixed_corpus_replay", {})[e["key"]] = (
                "REGRESSION" if bad else "passes (%s)" % (an["seq"] if an else "ctor: " + rec["ctor"][:40]))
            if bad:
                regressions.append({"kind": "regression of a repaired defect: " + e["key"], "fixed_by": e.get("commit"),
                                    "what": e.get("what") or e.get("fixed_line"), "witness": witness_of(wi, rec)})
            continue
        if present:
            run.known(e["what"])
        run.cov.setdefault("known_witness_replay", {})[e["key"]] = "present" if present else (
            "absent (ctor: %s, outcomes: %s, aborted: %s)" % (rec["ctor"][:60], an["seq"] if an else "", rec.get("aborted")))

    # ---- generated instances
    cases, case_meta = [], []
    viol_prop, viol_corr = list(regressions), []
    for inst in insts:
        rec = recs[inst["idx"]]
        bump("kind", inst["kind"])
        bump("timeout_setting", inst["settings"]["timeout_seconds"])
        bump("ctor", rec["ctor"].split(":")[0] if rec["ctor"] != "ok" else "ok")
        if rec["ctor"] == "harness-error":
            viol_corr.append({"kind": "harness error in worker", "error": rec.get("error"), "instance": witness_of(inst)})
            continue
        if rec["ctor"] != "ok" or not rec["calls"]:
            continue
        an = analyze(inst, rec)
        seq = an["seq"]
        for o in inst["ops"]:
            bump("ops", o)
        for ch in seq:
            bump("outcome", {"T": "tree", "S": "StopIteration", "O": "TimeoutError", "X": "other exception"}[ch])
        if any(c["out"]["kind"] == "raise" and c["out"]["exn"] == "TimeoutErr" and c["sols"] for c in rec["calls"]):
            run.cov["timeout_with_pending_solutions"] = run.cov.get("timeout_with_pending_solutions", 0) + 1
        shape = re.sub(r"(.)\1+", r"\1+", seq)
        bump("seq_shapes", shape)
        first = min([seq.index(ch) for ch in "SO" if ch in seq] or [len(seq)])
        run.count((inst["sub_seed"], inst["formula"]), first < len(seq) - 1)
        if len(run.cov["samples"]) < 4 and first < len(seq) - 1 and "T" in seq:
            run.sample({"grammar": inst["gname"], "formula": inst["formula"], "settings": inst["settings"],
                        "clock": inst["clock"], "outcomes": seq})
        # --- property oracle (spec side) on the observed outcomes
        tmo = inst["settings"]["timeout_seconds"]
        unknown = []
        for cr in an["crashes"]:
            k = crash_class(cr)
            bump("crash_class", k or "UNRECORDED " + cr["type"])
            if k is not None and k in by_key:
                run.known(by_key[k]["what"])
            else:
                unknown.append(cr)
        known_timeout = any(crash_class(cr) == "unsat-nested-timeout" for cr in an["crashes"]) \
            and "unsat-nested-timeout" in by_key and inst["settings"]["activate_unsat_support"]
        for cr in unknown:
            run.cov.setdefault("unrecorded_crashes", []).append(
                {"formula": inst["formula"], "grammar": inst["gname"], "type": cr["type"], "msg": cr["msg"][:120],
                 "where": cr["where"], "inner": cr["inner"], "class_guess": crash_class(cr)})
            if os.environ.get("VERIF_C02_DUMP"):
                with open(os.environ["VERIF_C02_DUMP"], "a") as df:
                    df.write(json.dumps({"class": crash_class(cr), "crash": cr, "witness": witness_of(inst)}) + "\n")
            viol_prop.append({"kind": "exception other than StopIteration/TimeoutError escapes solve()"
                              if not cr["inner"] else "StopIteration/TimeoutError raised from inside the search, not by the loop",
                              "crash": cr, "witness": witness_of(inst, rec)})
        sb = sticky_break(seq, "S")
        if sb:
            viol_prop.append({"kind": "StopIteration not sticky", "calls": sb, "witness": witness_of(inst, rec)})
        ob = sticky_break(seq, "O")
        if ob and not known_timeout:
            viol_prop.append({"kind": "TimeoutError not sticky", "calls": ob, "witness": witness_of(inst, rec)})
        if "O" in seq and tmo is None and not known_timeout:
            viol_prop.append({"kind": "TimeoutError although no timeout is configured", "witness": witness_of(inst, rec)})
        if inst["real_clock"]:
            continue
        for a in an["anomalies"]:
            viol_corr.append({"kind": "observed trace is not a behaviour of the loop skeleton", "detail": a,
                              "witness": witness_of(inst, rec)})
        if an["npops"] <= 1500:
            cases.append(g_case(inst, rec, an))
            case_meta.append((inst, rec, an))
    if not run.cov["samples"] and case_meta:
        i0, r0, a0 = case_meta[0]
        run.sample({"grammar": i0["gname"], "formula": i0["formula"], "settings": i0["settings"],
                    "clock": i0["clock"], "outcomes": a0["seq"]})
    run.cov["histograms"] = hist
    run.cov["instances"] = len(insts)
    run.cov["model_cases"] = len(cases)
    run.cov["operators_in_solver_position"] = sorted(hist["ops"])

    # ---- model vs implementation, evaluated in Coq
    try:
        bad, dt = lib.coq_mismatches("c02", "Outcome Loop", "tcase_ok", cases, shard=25)
        run.cov["coq_seconds"] = round(dt, 1)
        for n, i in enumerate(bad):
            inst, rec, an = case_meta[i]
            model = lib.coq_eval("c02_diag", "Outcome Loop", f"trun {cases[i]}") if n < 2 else "(not evaluated)"
            viol_corr.append({"kind": "model and implementation disagree on a call history",
                              "observed": an["obs"], "model": model[-1500:], "witness": witness_of(inst, rec)})
    except RuntimeError as e:
        run.violation({"kind": "correspondence-not-evaluable", "obligation": "Loop.v cases", "error": str(e)[-2000:]},
                      found_input=False)

    # ---- classify
    run.cov["disagreements_checked"] = len(viol_corr) + len(viol_prop)
    if viol_prop:
        viol_prop.sort(key=lambda d: len(json.dumps(d, default=str)))
        d = viol_prop[0]
        run.violation({**d, "all_failing": len(viol_prop), "other_kinds": sorted({v["kind"] for v in viol_prop}),
                       "how_to_replay": "./check C02 --replay <this file>",
                       "theorem": "Props/C02.v: premise of C02_no_crash / C02_stop_sticky / C02_timeout_sticky_partial fails on the implementation"})
    elif viol_corr:
        run.violation({**viol_corr[0], "all": len(viol_corr),
                       "obligation": "correspondence Solver/Loop.v <-> isla.solver.ISLaSolver.solve"}, found_input=False)
    if not proof_ok:
        run.violation({"kind": "proof obligation failed", "problems": run.proof_problems,
                       "obligation": "Props/C02.v"}, found_input=False)
    run.cov["trusted_base"] = lib.TRUSTED_BASE_COMMON + [
        "observation shims: names `time` and `heapq` of module isla.solver replaced in the worker process, solve() entered "
        "through a depth-counting subclass (6 instances per run use the untouched class and the real clock)",
        "process/pop/clock are parameters of the theorems: crash-freedom of the search itself is searched, not proved",
        "heap order is taken from the observation (priorities = observed pop ranks)",
        "time.time() is assumed non-decreasing (premise `monotone` of C02_timeout_sticky_partial)"]


def replay(path):
    d = json.load(open(path))
    w = d.get("witness")
    if not w:
        print("replay file names an obligation, not an input:", d.get("obligation")); return 1
    inst = {"idx": 0, "sub_seed": w["sub_seed"], "gname": w["gname"], "grammar": w["grammar"], "formula": w["formula"],
            "settings": w["settings"], "clock": w["clock"], "ncalls": w["ncalls"], "real_clock": w["real_clock"],
            "budget": 20.0, "kind": "replay", "ops": [], "focus": None}
    rec = run_pool([inst], 1)[0]
    if rec["ctor"] != "ok":
        print("constructor:", rec["ctor"]); return 0
    an = analyze(inst, rec)
    print("formula:", w["formula"]); print("settings:", w["settings"]); print("outcomes:", an["seq"])
    for c in rec["calls"]:
        print("  ", c["out"])
    bad = bool(an["crashes"]) or sticky_break(an["seq"], "S") or sticky_break(an["seq"], "O") or (
        "O" in an["seq"] and w["settings"]["timeout_seconds"] is None)
    print("property violated on this input:", bool(bad))
    return 1 if bad else 0
