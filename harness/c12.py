"""C12 — fuzzer expansions and mutations produce valid trees of the same kind.

Correspondence for NONDETERMINISTIC procedures = ACCEPTANCE: every observed output of
GrammarCoverageFuzzer(g).expand_tree(t) and of Mutator(g).mutate / replace_subtree_randomly /
swap_subtrees / generalize_subtree must be accepted by the executable procedures of
coq/Grammar/Fuzz.v, Mutate.v (accept_expand, accept_mutate, accept_replace, accept_swap,
accept_generalize), evaluated inside Coq.  FuzzFacts.v / MutateFacts.v prove that acceptance
implies the property (valid, closed, completion of the input / same root) and that every
behaviour of the abstract transition systems is accepted-as-valid (Props/C12.v).

Inputs (grammars, derivation trees) come from generators in THIS file, not from the code under
test.  Exceptions raised by the implementation are classified against the recorded findings
(harness/meta/C12.findings.json); anything unrecognised is a violation with the input as witness."""
import contextlib
import io
import json
import os
import random
import re
import signal

import lib
from lib import g_tree, g_grammar, g_str, g_nat
from gen_trees import tree_json, tree_from_json
from isla.derivation_tree import DerivationTree as T
from isla.fuzzer import GrammarCoverageFuzzer, GrammarFuzzer
from isla.mutator import Mutator
from isla.helpers import canonical, is_valid_grammar

NT_RE = re.compile(r"<[^<> ]*>")
IMPORTS = "Outcome Fuzz Mutate"


def is_nt(s):
    return NT_RE.match(s) is not None


# --------------------------------------------------------------------------
# generators (independent of the code under test)
# --------------------------------------------------------------------------
TERMS_SIMPLE = ["a", "b", "0", "1", "x", ";"]
TERMS_MULTI = ["ab", ":=", " ", "<", "é", "\n", "(", ")", "x y", '"', "\\", "00", "a", ";"]
PROFILES = ["flat", "eps", "rec", "multi", "mixed", "startrec"]

FIXED = {
    "assgn": {"<start>": ["<stmt>"], "<stmt>": ["<assgn> ; <stmt>", "<assgn>"],
              "<assgn>": ["<var> := <rhs>"], "<rhs>": ["<var>", "<digit>"],
              "<var>": list("abc"), "<digit>": list("012")},
    "csv": {"<start>": ["<file>"], "<file>": ["<rec>\n", "<rec>\n<file>"], "<rec>": ["<f>", "<f>;<rec>"],
            "<f>": ["", "<ch><f>", '"<f>"'], "<ch>": ["a", "b", " "]},
    "xml": {"<start>": ["<t>"], "<t>": ["<o><in><c>", "<o><c>", "<<id>/>"], "<o>": ["<<id>>", "<<id> <at>>"],
            "<c>": ["</<id>>"], "<in>": ["<tx>", "<t>", "<in><in>"], "<at>": ["<id>=\"<tx>\"", "<at> <at>"],
            "<id>": ["a", "b"], "<tx>": ["", "x<tx>"]},
    "expr": {"<start>": ["<e>"], "<e>": ["<t>+<e>", "<t>"], "<t>": ["<f>*<t>", "<f>"],
             "<f>": ["(<e>)", "<d>", "-<f>"], "<d>": ["0", "1", "<d><d>"]},
    "nullable-start": {"<start>": ["", "<a><start>"], "<a>": ["a", ""]},
    # several recursive alternatives placing the nonterminal at different positions (generalize_subtree)
    "multirec": {"<start>": ["<e>"], "<e>": ["<e>+<t>", "(<e>)", "<t>*<e>", "<e><e>", "<t>"],
                 "<t>": ["a", "<t><t>", "[<e>]", "b<t>", "<t>c"]},
}


def min_depths(cg):
    """own productivity table: least derivation depth per nonterminal (None: not productive)"""
    d = {}
    changed = True
    while changed:
        changed = False
        for A, alts in cg.items():
            best = None
            for a in alts:
                ds = [d.get(s) if is_nt(s) else 0 for s in a]
                if any(x is None for x in ds):
                    continue
                v = 1 + max(ds, default=0)
                best = v if best is None else min(best, v)
            if best is not None and d.get(A) != best and (A not in d or best < d[A]):
                d[A] = best
                changed = True
    return d


def grammar_ok(g):
    cg = canonical(g)
    used = {s for alts in cg.values() for a in alts for s in a if is_nt(s)}
    if not used <= set(cg) or any(not is_nt(k) or NT_RE.fullmatch(k) is None for k in cg):
        return False
    # reachability from <start>
    seen, todo = set(), ["<start>"]
    while todo:
        x = todo.pop()
        if x in seen:
            continue
        seen.add(x)
        todo += [s for a in cg[x] for s in a if is_nt(s)]
    if seen != set(cg):
        return False
    return len(min_depths(cg)) == len(cg)


def rand_grammar(rng, profile):
    for _ in range(500):
        n = rng.randint(1, 4)
        nts = ["<start>"] + ["<%s>" % c for c in "abcd"[:n]]
        terms = TERMS_MULTI if profile in ("multi", "mixed") else TERMS_SIMPLE
        g = {}
        for i, A in enumerate(nts):
            k = 1 if (A == "<start>" and rng.random() < 0.6) else rng.randint(1, 3)
            alts = []
            for _ in range(k):
                if profile in ("eps", "mixed") and rng.random() < (0.1 if A == "<start>" else 0.35):
                    alts.append("")
                    continue
                toks = []
                for _ in range(rng.randint(1, 3)):
                    pool = nts[i + 1:] if profile == "flat" else (nts if profile == "startrec" else nts[1:])
                    if pool and rng.random() < 0.55:
                        toks.append(rng.choice(pool))
                    else:
                        toks.append(rng.choice(terms))
                alts.append("".join(toks))
            g[A] = list(dict.fromkeys(alts))
        if profile == "startrec" and not any("<start>" in a for alts in g.values() for a in alts):
            continue
        if grammar_ok(g):
            return g
    raise RuntimeError("no grammar generated for profile " + profile)


def rand_derivation(cg, depths, rng, sym, budget):
    """random valid closed derivation tree; epsilon in both shapes ISLa produces"""
    if not is_nt(sym):
        return T(sym, [])
    alts = cg[sym]
    if budget <= 0:
        def dep(a):
            return 1 + max([depths[s] if is_nt(s) else 0 for s in a], default=0)
        m = min(dep(a) for a in alts)
        alts = [a for a in alts if dep(a) == m]
    a = rng.choice(alts)
    if not a:
        return T(sym, [T("", [])]) if rng.random() < 0.6 else T(sym, [])
    return T(sym, [rand_derivation(cg, depths, rng, s, budget - 1) for s in a])


def prune(t, paths, rng):
    """open the nonterminal nodes at `paths` (keeping or refreshing their id); all other ids kept"""
    def go(n, p):
        if p in paths and is_nt(n.value):
            return T(n.value, None, id=n.id if rng.random() < 0.5 else None)
        if n.children is None:
            return n
        return T(n.value, [go(c, p + (i,)) for i, c in enumerate(n.children)], id=n.id)
    return go(t, ())


def n_nodes(t):
    return len(t.paths())


def self_reachable(cg):
    succ = {A: {s for a in alts for s in a if is_nt(s)} for A, alts in cg.items()}
    res = set()
    for A in cg:
        seen, todo = set(), list(succ[A])
        while todo:
            x = todo.pop()
            if x in seen:
                continue
            seen.add(x)
            todo += list(succ.get(x, ()))
        if A in seen:
            res.add(A)
    return res


# --------------------------------------------------------------------------
# running the implementation
# --------------------------------------------------------------------------
class _Timeout(Exception):
    pass


def _alarm(_sig, _frm):
    raise _Timeout()


def call_impl(f, *a, seconds=15):
    """('ok', value) | ('raise', exception)"""
    old = signal.signal(signal.SIGALRM, _alarm)
    signal.alarm(seconds)
    try:
        with contextlib.redirect_stderr(io.StringIO()):
            return ("ok", f(*a))
    except _Timeout as e:
        return ("raise", TimeoutError(f"no result after {seconds}s"))
    except Exception as e:  # noqa: the outcome is the observable
        return ("raise", e)
    finally:
        signal.alarm(0)
        signal.signal(signal.SIGALRM, old)


def load_findings():
    p = os.path.join(lib.VERIF, "harness", "meta", "C12.findings.json")
    return json.load(open(p)) if os.path.exists(p) else []


def classify_exception(op, e, g, t):
    """key of the recorded finding that this exception belongs to (class + divergence kind), or None"""
    msg = f"{type(e).__name__}: {e}"
    if op in ("swap", "mutate") and isinstance(e, TypeError) and "safe()" in msg:
        return "swap-safe-kwarg"                                  # class K_swap_any: every input
    if op in ("generalize", "mutate") and isinstance(e, AttributeError) and "nothing" in msg:
        return "generalize-maybe-nothing"                         # class: no candidate node
    if isinstance(e, AssertionError) and any("<start>" in a for alts in g.values() for a in alts):
        return "coverage-start-on-rhs"                            # class K_start_rhs g
    if op in ("replace", "mutate") and isinstance(e, IndexError) and not t.children:
        return "replace-no-inner-node"                            # class K_no_inner t
    return None


def replay_finding(entry):
    """re-run an entry's witness on the implementation: True iff the defect is still present"""
    w = entry["witness"]
    g = w["grammar"]
    t = tree_from_json(w["tree"])
    random.seed(w.get("pyseed", 0))
    op = w["op"]
    if op == "expand":
        r = call_impl(lambda: GrammarCoverageFuzzer(g).expand_tree(t))
    else:
        m = call_impl(lambda: Mutator(g))
        if m[0] != "ok":
            return True
        fn = {"mutate": m[1].mutate, "replace": m[1].replace_subtree_randomly,
              "swap": m[1].swap_subtrees, "generalize": m[1].generalize_subtree}[op]
        r = call_impl(fn, t)
    return r[0] == "raise" and classify_exception(op, r[1], g, t) == entry["key"]


OK_DEF = (
    "fun c : nat * nat * tree * tree => let '(gi, k, t, out) := c in "
    "let G := nth gi GS [] in "
    "match k with "
    "| 0 => wf_treeb G t && accept_expand G t out "
    "| 1 => wf_treeb G t && closedb t && accept_mutate G t out "
    "| 2 => wf_treeb G t && closedb t && accept_mutate G t out && accept_replace G t out "
    "| 3 => wf_treeb G t && closedb t && accept_mutate G t out && accept_swap t out "
    "| 4 => wf_treeb G t && closedb t && accept_mutate G t out && accept_generalize G t out "
    "| 5 => wf_treeb G t && closedb t && negb (swappable t) "
    "| 6 => cost_okb G (cost_of (nth gi CTS [])) (ecost_of (nth gi ETS [])) "
    "| _ => uses_definedb G && nonempty_altsb G && keys_ntb G "
    "end")
N_SHARDS = 14
KIND = {"expand": 0, "mutate": 1, "replace": 2, "swap": 3, "generalize": 4, "swap-nothing": 5, "cost": 6, "grammar": 7}


def g_alt(a):
    return "[" + "; ".join(g_str(s) for s in a) + "]" if a else "(@nil str)"


def cost_tables(g, cg):
    """Python's symbol_cost / expansion_cost(e, {A}) as Gallina association lists"""
    f = GrammarFuzzer(g)
    ct = "[" + "; ".join(f"({g_str(A)}, {g_nat(int(f.symbol_cost(A)))})" for A in g) + "]"
    rows = []
    for A in g:
        row = []
        for e, a in zip(g[A], cg[A]):
            c = f.expansion_cost(e, {A})
            row.append(f"({g_alt(a)}, {g_nat(4999 if c == float('inf') else int(c))})")
        rows.append(f"({g_str(A)}, [" + "; ".join(row) + "])")
    return ct, "[" + "; ".join(rows) + "]"


def diagnose(gl, kind, t, out):
    """which conjunct of the acceptance failed (text from Coq), for the replay file"""
    defs = f"Definition G := {gl}.\nDefinition T0 := {g_tree(t)}.\nDefinition T1 := {g_tree(out)}.\n"
    expr = ("(wf_treeb G T0, closedb T0, wf_treeb G T1, closedb T1, str_eqb (lbl T1) (lbl T0), "
            "is_completionb G T0 T1, accept_replace G T0 T1, accept_swap T0 T1, accept_generalize G T0 T1)")
    txt = lib.coq_eval("c12diag", IMPORTS, expr, extra_defs=defs)
    m = re.search(r"=\s*\((.*?)\)\s*:", txt, re.S)
    names = ["input_wf", "input_closed", "out_wf", "out_closed", "same_root", "is_completion",
             "accept_replace", "accept_swap", "accept_generalize"]
    if not m:
        return {"coq_output": txt[-500:]}
    vals = [v.strip() == "true" for v in m.group(1).split(",")]
    return dict(zip(names, vals))


def run(run):
    rng = random.Random(run.seed)
    thorough = run.tier == "thorough"
    run.cov["rule"] = (
        "grammars: 5 fixed (assignment, csv, xml, arithmetic, nullable start) + random CFGs over profiles "
        "flat/eps/rec/multi/mixed/startrec (valid: used=defined, all reachable from <start>; productive). "
        "expand: GrammarCoverageFuzzer(g,[min,max]_nonterminals varied).expand_tree(t) on open leaves and on "
        "random derivations pruned at 1-3 nonterminal nodes (ids kept or refreshed, both epsilon shapes); "
        "non-trivial = input has >=1 expanded node and >=1 open leaf. mutations: Mutator(g).mutate and the three "
        "mutators called directly on random closed derivations (<= 30 nodes); non-trivial = input has >= 3 nodes. "
        "Every output is judged inside Coq by accept_expand / accept_mutate / accept_replace / accept_swap / "
        "accept_generalize (wf_treeb, closedb, is_completionb, same root); Nothing from swap_subtrees is checked "
        "against `swappable`, from generalize_subtree against an own cycle computation; Python's symbol_cost / "
        "expansion_cost tables are checked against the hypothesis of the termination theorem (cost_okb).")
    proof_ok = run.proof_stage()

    findings = {e["key"]: e for e in load_findings()}
    # every recorded witness is replayed on the implementation on every run:
    #  open entry  -> KNOWN-FINDING line iff the defect is still present;
    #  fixed entry -> corpus case: the call must return and its output must be accepted in Coq like any
    #                 generated case (a recurrence is a VIOLATION, never a KNOWN-FINDING line)
    corpus = []
    for key, e in findings.items():
        if e["status"] != "open":
            corpus.append((key, e["witness"]))
            continue
        try:
            present = replay_finding(e)
        except Exception as ex:  # noqa
            present = False
            run.cov.setdefault("finding_replay_errors", []).append(f"{key}: {type(ex).__name__}: {ex}")
        if present:
            run.known(e["what"])
    run.cov["corpus_cases"] = [k for k, _ in corpus]

    n_gram = 60 if thorough else 20
    per_exp = 70 if thorough else 44
    per_mut = 70 if thorough else 44
    grammars = [("corpus:" + key, w["grammar"]) for key, w in corpus] + [(name, g) for name, g in FIXED.items()]
    n_gram += len(corpus)
    while len(grammars) < n_gram:
        prof = PROFILES[len(grammars) % len(PROFILES)]
        grammars.append((prof, rand_grammar(rng, prof)))

    shards, smeta = [], []
    hist = {"expand": 0, "mutate": 0, "replace": 0, "swap": 0, "generalize": 0, "swap-nothing": 0,
            "generalize-nothing": 0, "raised-known": 0}
    prof_hist = {}
    unknown_exc = []      # (payload)
    nothing_mismatch = []
    sizes_in, sizes_out = [], []

    def known_or_violation(op, e, g, t, pyseed):
        key = classify_exception(op, e, g, t)
        if key and key in findings and findings[key]["status"] == "open":
            run.known(findings[key]["what"])
            hist["raised-known"] += 1
            return
        unknown_exc.append({"op": op, "grammar": g, "tree": tree_json(t), "pyseed": pyseed,
                            "exception": f"{type(e).__name__}: {e}"[:300],
                            "finding_class": key, "n": n_nodes(t)})

    MAX_UNKNOWN = 6     # a violation is certain by then; do not spend the budget on more timeouts
    for gi, (prof, g) in enumerate(grammars):
        if len(unknown_exc) >= MAX_UNKNOWN:
            run.cov["stopped_early"] = f"after {len(unknown_exc)} unrecognised exceptions/timeouts"
            break
        prof_hist[prof] = prof_hist.get(prof, 0) + 1
        cg = canonical(g)
        depths = min_depths(cg)
        gl = g_grammar(cg)
        selfreach = self_reachable(cg)
        ct, et = cost_tables(g, cg)
        k_sh = gi % (30 if thorough else N_SHARDS)
        while len(shards) <= k_sh:
            shards.append(([], [], [], []))      # grammars, cost tables, ecost tables, cases
            smeta.append([])
        sh_g, sh_ct, sh_et, cases = shards[k_sh]
        metas = smeta[k_sh]
        li = len(sh_g)                            # index of this grammar inside its shard
        sh_g.append(gl); sh_ct.append(ct); sh_et.append(et)
        dummy = "(Node (@nil N) 0%N false [])"
        cases += [f"({li}%nat, 6%nat, {dummy}, {dummy})", f"({li}%nat, 7%nat, {dummy}, {dummy})"]
        metas += [("cost", None, None, None, g, gl), ("grammar", None, None, None, g, gl)]
        run.count(("grammar", gi), True)

        def add(op, t, out, pyseed):
            cases.append(f"({li}%nat, {KIND[op]}%nat, {g_tree(t)}, {g_tree(out)})")
            metas.append((op, t, out, pyseed, g, gl))
            hist[op] += 1
            sizes_in.append(n_nodes(t))
            sizes_out.append(n_nodes(out))

        # ---- corpus case of a fixed finding (old witness; must pass) ----
        if prof.startswith("corpus:"):
            key, w = corpus[gi]
            t0, op0, seed0 = tree_from_json(w["tree"]), w["op"], w.get("pyseed", 0)
            for rep in range(3):
                random.seed(seed0 + rep)
                if op0 == "expand":
                    res = call_impl(lambda: GrammarCoverageFuzzer(g).expand_tree(t0))
                else:
                    res = call_impl(lambda: getattr(Mutator(g), {"mutate": "mutate", "replace": "replace_subtree_randomly",
                                                                 "swap": "swap_subtrees", "generalize": "generalize_subtree"}[op0])(t0))
                run.count(("corpus", key, rep), True)
                if res[0] == "raise":
                    unknown_exc.append({"op": op0, "grammar": g, "tree": w["tree"], "pyseed": seed0 + rep,
                                        "exception": f"{type(res[1]).__name__}: {res[1]}"[:300],
                                        "finding_class": key, "regression_of_fixed_finding": key, "n": n_nodes(t0)})
                    break
                v = res[1]
                if op0 in ("expand", "mutate"):
                    add(op0, t0, v, seed0 + rep)
                else:
                    out = v.value_or(None)
                    if out is not None:
                        add(op0, t0, out, seed0 + rep)
                    elif op0 == "swap":
                        add("swap-nothing", t0, t0, seed0 + rep)

        # ---- expansions ----
        shared_fuzzer = call_impl(lambda: GrammarCoverageFuzzer(g))
        for ci in range(per_exp):
            if len(unknown_exc) >= MAX_UNKNOWN:
                break
            r = rng.random()
            if r < 0.08:
                t = T("<start>", None)
            elif r < 0.16:
                t = T(rng.choice(list(cg)), None)
            else:
                base = rand_derivation(cg, depths, rng, "<start>" if rng.random() < 0.7 else rng.choice(list(cg)),
                                       rng.randint(1, 5))
                nts = [p for p, s in base.paths() if is_nt(s.value)]
                t = prune(base, set(rng.sample(nts, min(len(nts), rng.randint(1, 3)))), rng)
            if n_nodes(t) > 60:
                continue
            pyseed = rng.getrandbits(32)
            random.seed(pyseed)
            if rng.random() < 0.5 and shared_fuzzer[0] == "ok":
                fz = shared_fuzzer
            else:
                fz = call_impl(lambda: GrammarCoverageFuzzer(g, max_nonterminals=rng.choice([0, 3, 10, 10])))
            res = call_impl(fz[1].expand_tree, t) if fz[0] == "ok" else fz
            nontrivial = t.children is not None and t.is_open()
            run.count(("expand", gi, ci), nontrivial)
            if res[0] == "raise":
                known_or_violation("expand", res[1], g, t, pyseed)
                continue
            add("expand", t, res[1], pyseed)
            if gi < 2 and ci < 2:
                run.sample({"op": "expand_tree", "grammar": g, "input": str(t.to_string(show_open_leaves=True)),
                            "output": str(res[1]), "input_nodes": n_nodes(t), "output_nodes": n_nodes(res[1])})

        # ---- mutations ----
        mut = call_impl(lambda: Mutator(g))
        if mut[0] == "raise":
            known_or_violation("mutate", mut[1], g, T("<start>", None), 0)
        else:
            ops = ["mutate", "replace", "swap", "generalize"]
            for ci in range(per_mut):
                if len(unknown_exc) >= MAX_UNKNOWN:
                    break
                t = rand_derivation(cg, depths, rng, "<start>" if rng.random() < 0.7 else rng.choice(list(cg)),
                                    rng.randint(1, 4))
                if n_nodes(t) > 30:
                    continue
                op = ops[ci % 4]
                fn = {"mutate": mut[1].mutate, "replace": mut[1].replace_subtree_randomly,
                      "swap": mut[1].swap_subtrees, "generalize": mut[1].generalize_subtree}[op]
                pyseed = rng.getrandbits(32)
                random.seed(pyseed)
                res = call_impl(fn, t)
                run.count((op, gi, ci), n_nodes(t) >= 3)
                if res[0] == "raise":
                    known_or_violation(op, res[1], g, t, pyseed)
                    continue
                v = res[1]
                if op == "mutate":
                    add("mutate", t, v, pyseed)
                    continue
                out = v.value_or(None)
                if out is None:
                    if op == "swap":
                        add("swap-nothing", t, t, pyseed)
                    elif op == "generalize":
                        hist["generalize-nothing"] += 1
                        cand = [p for p, s in t.paths() if s.children and s.value in selfreach]
                        if cand:
                            nothing_mismatch.append({"op": op, "grammar": g, "tree": tree_json(t), "pyseed": pyseed,
                                                     "candidates": [list(p) for p in cand]})
                    else:
                        nothing_mismatch.append({"op": op, "grammar": g, "tree": tree_json(t), "pyseed": pyseed})
                    continue
                add(op, t, out, pyseed)
                if gi == 0 and ci < 4:
                    run.sample({"op": op, "input": str(t), "output": str(out)})

    run.cov["histogram_ops"] = hist
    run.cov["histogram_profiles"] = prof_hist
    run.cov["grammars"] = len(grammars)
    if sizes_in:
        run.cov["input_nodes_max_mean"] = [max(sizes_in), round(sum(sizes_in) / len(sizes_in), 1)]
        run.cov["output_nodes_max_mean"] = [max(sizes_out), round(sum(sizes_out) / len(sizes_out), 1)]

    bad = []
    try:
        coq_shards = [("Definition GS : list grammar := [" + ";\n ".join(a) + "].\n"
                       "Definition CTS := [" + ";\n ".join(b) + "].\n"
                       "Definition ETS := [" + ";\n ".join(c) + "].\n", cs) for (a, b, c, cs) in shards]
        bad, dt = lib.coq_run_shards("c12", IMPORTS, OK_DEF, coq_shards)
        run.cov["coq_seconds"] = round(dt, 1)
    except RuntimeError as e:
        run.violation({"kind": "correspondence-not-evaluable", "obligation": "acceptance of fuzzer/mutator outputs (Fuzz.v, Mutate.v)",
                       "error": str(e)[-2000:]}, found_input=False)

    # ---- classify ----
    run.cov["disagreements_checked"] = len(bad) + len(unknown_exc) + len(nothing_mismatch)
    failing, corr_only = [], []
    run.cov["rejected_cases"] = len(bad)
    # every rejected case counts; the conjunct-by-conjunct diagnosis (one coqc each) is done for the
    # smallest few only
    bad = sorted(bad, key=lambda ki: (0 if smeta[ki[0]][ki[1]][1] is None else
                                      n_nodes(smeta[ki[0]][ki[1]][1]) + n_nodes(smeta[ki[0]][ki[1]][2])))
    for (k, i) in bad[:6]:
        op, t, out, pyseed, g, gl = smeta[k][i]
        if op in ("cost", "grammar"):
            corr_only.append({"op": op, "grammar": g,
                              "obligation": ("hypothesis cost_ok of C12_mincost_terminates <-> GrammarFuzzer.symbol_cost/expansion_cost"
                                             if op == "cost" else "generated grammar violates uses_defined/nonempty_alts (generator)")})
            continue
        d = diagnose(gl, KIND[op], t, out)
        w = {"op": op, "grammar": g, "tree": tree_json(t), "output": tree_json(out), "pyseed": pyseed,
             "verdicts": d, "input_str": t.to_string(show_open_leaves=True), "output_str": str(out)}
        if not d.get("input_wf", True) or (op != "expand" and not d.get("input_closed", True)):
            corr_only.append(dict(w, obligation="harness generator produced an invalid input (not a finding)"))
            continue
        prop_ok = d.get("out_wf") and d.get("out_closed") and d.get("same_root") and \
            (op != "expand" or d.get("is_completion"))
        (corr_only if prop_ok else failing).append(w)
    for x in unknown_exc:
        failing.append(dict(x, verdicts={"raised": True}))
    if failing:
        failing.sort(key=lambda w: len(json.dumps(w)))
        w = failing[0]
        run.violation({"kind": "output of fuzzer/mutator rejected: not a closed valid tree of the same kind / no tree returned",
                       "witness": w, "all_failing": len(failing),
                       "theorem": "Props/C12.v (C12_accept_*_sound, C12_expand_valid, C12_mutate_valid) + acceptance correspondence",
                       "how_to_replay": "./check C12 --replay <this file>"})
    elif corr_only or nothing_mismatch:
        first = (corr_only + nothing_mismatch)[0]
        run.violation({"kind": "correspondence broken but the property holds on the observed output", "first": first,
                       "count": len(corr_only) + len(nothing_mismatch),
                       "obligation": first.get("obligation", "correspondence Mutate.v (accept_replace/accept_swap/accept_generalize/swappable) <-> isla/mutator.py")},
                      found_input=False)
    if not proof_ok:
        run.violation({"kind": "proof obligation failed", "problems": run.proof_problems,
                       "obligation": "Props/C12.v"}, found_input=False)
    run.cov["trusted_base"] = lib.TRUSTED_BASE_COMMON + [
        "strength partial: the choice of leaf/alternative/mutator (cost heuristics, coverage bookkeeping, random) is abstracted to 'any choice'",
        "helpers.canonical(grammar) is the grammar the model sees (token split shared with the fuzzer's expansion_to_children)",
        "termination theorem: Python's symbol_cost enters as a Section variable with hypothesis cost_ok, checked per grammar by cost_okb on the real tables",
        "fresh node ids are arbitrary in the model (uniqueness of ids is not claimed)"]


def replay(path):
    d = json.load(open(path))
    w = d.get("witness")
    if not w:
        print("replay file names an obligation, not an input:", d.get("obligation") or d.get("first"))
        return 1
    g = w["grammar"]
    t = tree_from_json(w["tree"])
    op = w["op"]
    random.seed(w.get("pyseed", 0))
    if op == "expand":
        r = call_impl(lambda: GrammarCoverageFuzzer(g).expand_tree(t))
    else:
        m = Mutator(g)
        fn = {"mutate": m.mutate, "replace": m.replace_subtree_randomly, "swap": m.swap_subtrees,
              "generalize": m.generalize_subtree, "swap-nothing": m.swap_subtrees}[op]
        r = call_impl(fn, t)
    if r[0] == "raise":
        print("impl raised:", type(r[1]).__name__, r[1])
        return 1
    out = r[1]
    if op not in ("expand", "mutate"):
        out = out.value_or(None)
        if out is None:
            print("impl returned Nothing")
            return 0
    v = diagnose(g_grammar(canonical(g)), KIND.get(op, 1), t, out)
    print("impl output:", out, "verdicts:", v)
    ok = v.get("out_wf") and v.get("out_closed") and v.get("same_root") and (op != "expand" or v.get("is_completion"))
    return 0 if ok else 1
