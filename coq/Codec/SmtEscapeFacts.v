(* C17 -- facts about the model Codec/SmtEscape.v.

   1. denotes        : an independent declarative reading of the body of an SMT-LIB 2.6 string
                       literal with Z3 unicode escapes (relation text -> value).
   2. load_denotes   : the Z3 lexer model (load_lit) respects that reading.
   3. codec_denotes_*: the character-level codec writes texts that denote the original value.
   4. isla_lit_codec : the printed literal (as_string + python replaces) IS quote ++ codec ++ quote;
                       setstate_text is the identity.
   5. smt_pickle_roundtrip_fixed / _partial.
   6. refutations for the current code and non-vacuity examples. *)
From ISLA Require Import Str Outcome SmtEscape.
From Coq Require Import List NArith Bool Lia ZifyBool.
Import ListNotations.
Local Open Scope N_scope.

(* ================================================================================== *)
(* 1. Declarative specification                                                        *)
(* ================================================================================== *)

(* upper or lower case hexadecimal digit *)
Definition is_hexdigit (c : N) : Prop :=
  (48 <= c /\ c <= 57) \/ (65 <= c /\ c <= 70) \/ (97 <= c /\ c <= 102).

Definition digit_value (c : N) : N :=
  if c <=? 57 then c - 48 else if c <=? 70 then c - 55 else c - 87.

Definition hex_step (a c : N) : N := 16 * a + digit_value c.
Definition hex_value (ds : str) : N := fold_left hex_step ds 0.

(* denotes t v : the literal body t (the text between the two delimiting quotes) denotes the
   string value v.  Only ASCII text is covered (that is all a well-formed pickled literal uses):
   - two quotes stand for one quote,
   - backslash u open-brace 1..5 hex digits close-brace stands for that code point (<= 0x2FFFF),
   - any other ASCII character stands for itself; a backslash may only be read as itself when it
     is not followed by the letter u. *)
Inductive denotes : str -> str -> Prop :=
| den_nil : denotes [] []
| den_quote t v : denotes t v -> denotes (34 :: 34 :: t) (34 :: v)
| den_esc ds n t v :
    (1 <= length ds <= 5)%nat ->
    Forall is_hexdigit ds ->
    hex_value ds = n ->
    n <= max_char ->
    denotes t v ->
    denotes ([92; 117; 123] ++ ds ++ [125] ++ t) (n :: v)
| den_raw c t v :
    c < 128 -> c <> 34 ->
    (c = 92 -> forall r, t <> 117 :: r) ->
    denotes t v ->
    denotes (c :: t) (c :: v).

Lemma is_hexdigit_ascii c : is_hexdigit c -> c < 128.
Proof. unfold is_hexdigit. lia. Qed.

Lemma is_hexdigit_not_quote c : is_hexdigit c -> c <> 34.
Proof. unfold is_hexdigit. lia. Qed.

Lemma denotes_ascii t v : denotes t v -> Forall (fun c => c < 128) t.
Proof.
  intros H. induction H as [|t v H IH|ds n t v Hl Hd Hv Hn H IH|c t v Hc Hq Hu H IH].
  - constructor.
  - constructor; [lia|]. constructor; [lia|]. exact IH.
  - apply Forall_app. split.
    + repeat (constructor; [lia|]). constructor.
    + apply Forall_app. split.
      * eapply Forall_impl; [|exact Hd]. intros a Ha. apply is_hexdigit_ascii. exact Ha.
      * apply Forall_app. split; [|exact IH]. constructor; [lia|]. constructor.
  - constructor; [exact Hc|exact IH].
Qed.

(* ================================================================================== *)
(* 2. The lexer model respects the specification                                       *)
(* ================================================================================== *)

Lemma esc_chunk_assoc (ds t r : list N) :
  ([92; 117; 123] ++ ds ++ [125] ++ t) ++ r = ([92; 117; 123] ++ ds ++ [125]) ++ (t ++ r).
Proof. simpl. rewrite <- !app_assoc. reflexivity. Qed.

Lemma esc_chunk_cons (ds r : list N) :
  ([92; 117; 123] ++ ds ++ [125]) ++ r = 92 :: ([117; 123] ++ ds ++ 125 :: r).
Proof. simpl. rewrite <- !app_assoc. reflexivity. Qed.

Lemma utf8_sx_ascii t : Forall (fun c => c < 128) t -> map sx (flat_map utf8 t) = t.
Proof.
  intros H. induction H as [|c t Hc H IH].
  - reflexivity.
  - simpl. unfold utf8 at 1. destruct (c <? 128) eqn:E; [|lia].
    simpl. unfold sx at 1. rewrite E. rewrite IH. reflexivity.
Qed.

Lemma scan_no_quote p r :
  Forall (fun c => c <> 34) p ->
  scan_string (p ++ r) =
  match scan_string r with Some (c, rest) => Some (p ++ c, rest) | None => None end.
Proof.
  intros H. induction H as [|a p Ha H IH].
  - simpl. destruct (scan_string r) as [[c rest]|]; reflexivity.
  - simpl. destruct (a =? 34) eqn:E; [lia|].
    rewrite IH. destruct (scan_string r) as [[c rest]|]; reflexivity.
Qed.

Lemma scan_quote_quote r :
  scan_string (34 :: 34 :: r) =
  match scan_string r with Some (c, rest) => Some (34 :: c, rest) | None => None end.
Proof. reflexivity. Qed.

Lemma scan_raw a r :
  a <> 34 ->
  scan_string (a :: r) =
  match scan_string r with Some (c, rest) => Some (a :: c, rest) | None => None end.
Proof. intros H. simpl. destruct (a =? 34) eqn:E; [lia|]. reflexivity. Qed.

Lemma hexval_digit c : is_hexdigit c -> hexval c = Some (digit_value c).
Proof.
  unfold is_hexdigit, hexval, digit_value. intros H.
  destruct ((48 <=? c) && (c <=? 57)) eqn:E1.
  - destruct (c <=? 57) eqn:E2; [reflexivity|lia].
  - destruct ((97 <=? c) && (c <=? 102)) eqn:E2.
    + destruct (c <=? 57) eqn:E3; [lia|]. destruct (c <=? 70) eqn:E4; [lia|]. reflexivity.
    + destruct ((65 <=? c) && (c <=? 70)) eqn:E3; [|lia].
      destruct (c <=? 57) eqn:E4; [lia|]. destruct (c <=? 70) eqn:E5; [reflexivity|lia].
Qed.

Lemma esc_braces_digits t ds : forall n acc,
  (length ds < n)%nat -> Forall is_hexdigit ds ->
  esc_braces n acc (ds ++ 125 :: t) =
  if fold_left hex_step ds acc <=? max_char then Some (fold_left hex_step ds acc, t) else None.
Proof.
  induction ds as [|x ds IH]; intros n acc Hl Hd.
  - destruct n as [|n']; [simpl in Hl; lia|]. reflexivity.
  - destruct n as [|n']; [simpl in Hl; lia|].
    inversion Hd as [|x' ds' Hx Hds]; subst.
    simpl. rewrite (hexval_digit x Hx).
    rewrite IH; [reflexivity| simpl in Hl; lia | exact Hds].
Qed.

Lemma escape_at_esc ds t :
  (1 <= length ds <= 5)%nat -> Forall is_hexdigit ds -> hex_value ds <= max_char ->
  escape_at ([92; 117; 123] ++ ds ++ 125 :: t) = Some (hex_value ds, t).
Proof.
  intros Hl Hd Hv. destruct ds as [|x ds]; [simpl in Hl; lia|].
  inversion Hd as [|x' ds' Hx Hds]; subst.
  assert (Hx125 : (x =? 125) = false) by (unfold is_hexdigit in Hx; lia).
  change (escape_at ([92; 117; 123] ++ (x :: ds) ++ 125 :: t))
    with (if x =? 125 then None else esc_braces 6 0 ((x :: ds) ++ 125 :: t)).
  rewrite Hx125. rewrite esc_braces_digits; [|simpl in *; lia|exact Hd].
  fold (hex_value (x :: ds)).
  destruct (hex_value (x :: ds) <=? max_char) eqn:E; [reflexivity|lia].
Qed.

Lemma escape_at_not_bs c r : c <> 92 -> escape_at (c :: r) = None.
Proof.
  intros H. destruct r as [|u r1]; [reflexivity|].
  unfold escape_at. destruct (c =? 92) eqn:E; [lia|]. reflexivity.
Qed.

Lemma escape_at_bs_not_u r : (forall r', r <> 117 :: r') -> escape_at (92 :: r) = None.
Proof.
  intros H. destruct r as [|u r1]; [reflexivity|].
  unfold escape_at. destruct (u =? 117) eqn:E.
  - exfalso. apply (H r1). f_equal. lia.
  - reflexivity.
Qed.

Lemma z3_unescape_raw f c r :
  escape_at (c :: r) = None -> z3_unescape (S f) (c :: r) = c :: z3_unescape f r.
Proof.
  intros H. change (z3_unescape (S f) (c :: r))
    with (match escape_at (c :: r) with
          | Some (v, rest) => v :: z3_unescape f rest
          | None => c :: z3_unescape f r end).
  rewrite H. reflexivity.
Qed.

Lemma z3_unescape_esc f c r v rest :
  escape_at (c :: r) = Some (v, rest) -> z3_unescape (S f) (c :: r) = v :: z3_unescape f rest.
Proof.
  intros H. change (z3_unescape (S f) (c :: r))
    with (match escape_at (c :: r) with
          | Some (v, rest) => v :: z3_unescape f rest
          | None => c :: z3_unescape f r end).
  rewrite H. reflexivity.
Qed.

(* scanning then unescaping, with the invariant that the scanned content starts with the letter u
   only if the text does *)
Lemma scan_unescape_denotes t v :
  denotes t v ->
  exists content,
    scan_string (t ++ [34]) = Some (content, []) /\
    (forall r, content = 117 :: r -> exists r', t = 117 :: r') /\
    (forall fuel, (length content < fuel)%nat -> z3_unescape fuel content = v).
Proof.
  intros H. induction H as [|t v H IH|ds n t v Hl Hd Hv Hn H IH|c t v Hc Hq Hu H IH];
    unfold str, chr in *.
  - exists []. split; [reflexivity|]. split.
    + intros r Hr. discriminate Hr.
    + intros fuel Hf. destruct fuel as [|f]; reflexivity.
  - destruct IH as [c0 [Hs [Hh Hz]]].
    exists (34 :: c0). split; [|split].
    + change ((34 :: 34 :: t) ++ [34]) with (34 :: 34 :: (t ++ [34])).
      rewrite scan_quote_quote. rewrite Hs. reflexivity.
    + intros r Hr. discriminate Hr.
    + intros fuel Hf. destruct fuel as [|f]; [simpl in Hf; lia|].
      rewrite z3_unescape_raw; [|apply escape_at_not_bs; lia].
      rewrite Hz; [reflexivity|simpl in Hf; lia].
  - destruct IH as [c0 [Hs [Hh Hz]]].
    exists (([92; 117; 123] ++ ds ++ [125]) ++ c0). split; [|split].
    + rewrite esc_chunk_assoc.
      rewrite scan_no_quote; [rewrite Hs; reflexivity|].
      apply Forall_app. split; [repeat (constructor; [lia|]); constructor|].
      apply Forall_app. split; [|constructor; [lia|constructor]].
      eapply Forall_impl; [|exact Hd]. intros a Ha. apply is_hexdigit_not_quote. exact Ha.
    + intros r Hr. discriminate Hr.
    + intros fuel Hf. destruct fuel as [|f]; [simpl in Hf; lia|].
      rewrite esc_chunk_cons.
      rewrite (z3_unescape_esc f 92 _ n c0).
      * rewrite Hz; [reflexivity|].
        rewrite !app_length in Hf. simpl in Hf. lia.
      * subst n. apply (escape_at_esc ds c0 Hl Hd Hn).
  - destruct IH as [c0 [Hs [Hh Hz]]].
    exists (c :: c0). split; [|split].
    + change ((c :: t) ++ [34]) with (c :: (t ++ [34])).
      rewrite (scan_raw c _ Hq). rewrite Hs. reflexivity.
    + intros r Hr. inversion Hr; subst. exists t. reflexivity.
    + intros fuel Hf. destruct fuel as [|f]; [simpl in Hf; lia|].
      rewrite z3_unescape_raw.
      * rewrite Hz; [reflexivity|simpl in Hf; lia].
      * destruct (N.eq_dec c 92) as [E|E].
        -- subst c. apply escape_at_bs_not_u. intros r' Hr'.
           destruct (Hh r' Hr') as [r'' Hr'']. exact (Hu eq_refl r'' Hr'').
        -- apply escape_at_not_bs. exact E.
Qed.

Lemma load_lit_ascii r :
  Forall (fun c => c < 128) r ->
  load_lit (34 :: r) =
  match scan_string r with
  | Some (content, []) => Ok (z3_unescape (S (length content)) content)
  | _ => Raise OtherErr
  end.
Proof.
  intros H. unfold load_lit. rewrite utf8_sx_ascii; [reflexivity|].
  constructor; [lia|exact H].
Qed.

Theorem load_denotes : forall t v, denotes t v -> load_lit ([34] ++ t ++ [34]) = Ok v.
Proof.
  intros t v H. change ([34] ++ t ++ [34]) with (34 :: (t ++ [34])).
  rewrite load_lit_ascii.
  - destruct (scan_unescape_denotes t v H) as [c0 [Hs [_ Hz]]].
    unfold str, chr in *. rewrite Hs. rewrite Hz; [reflexivity|lia].
  - apply Forall_app. split.
    + apply (denotes_ascii t v H).
    + constructor; [lia|constructor].
Qed.

(* ================================================================================== *)
(* 3. hex prints digits whose value is the number; the codec denotes the value         *)
(* ================================================================================== *)

Definition is_lowerhex (c : N) : Prop := (48 <= c /\ c <= 57) \/ (97 <= c /\ c <= 102).

Lemma lowerhex_hexdigit c : is_lowerhex c -> is_hexdigit c.
Proof. unfold is_lowerhex, is_hexdigit. lia. Qed.

Lemma hexdig_lower d : d < 16 -> is_lowerhex (hexdig d).
Proof.
  intros H. unfold hexdig, is_lowerhex. destruct (d <? 10) eqn:E; lia.
Qed.

Lemma hexdig_value d : d < 16 -> digit_value (hexdig d) = d.
Proof.
  intros H. unfold hexdig, digit_value. destruct (d <? 10) eqn:E.
  - destruct (48 + d <=? 57) eqn:E1; [lia|lia].
  - destruct (87 + d <=? 57) eqn:E1; [lia|]. destruct (87 + d <=? 70) eqn:E2; [lia|lia].
Qed.

Fixpoint pow16 (k : nat) : N := match k with O => 1 | S k' => 16 * pow16 k' end.

Lemma pow16_S k : pow16 (S k) = 16 * pow16 k.
Proof. reflexivity. Qed.

Lemma mod16_lt n : n mod 16 < 16.
Proof. apply N.mod_lt. lia. Qed.

Lemma div16_eq n : n = 16 * (n / 16) + n mod 16.
Proof. apply N.div_mod. lia. Qed.

Lemma hex_aux_spec : forall fuel n acc,
  n < pow16 fuel ->
  exists ds,
    hex_aux fuel n acc = ds ++ acc /\
    Forall is_lowerhex ds /\
    (forall a, fold_left hex_step ds a = a * pow16 (length ds) + n) /\
    (0 < n -> ds <> []) /\
    (forall k, n < pow16 k -> (length ds <= k)%nat).
Proof.
  induction fuel as [|f IH]; intros n acc Hn.
  - change (pow16 0) with 1 in Hn. exists []. simpl. split; [reflexivity|]. split; [constructor|].
    split; [intros a; lia|]. split; [intros H0; lia|]. intros k Hk. lia.
  - simpl. destruct (n =? 0) eqn:E0.
    + exists []. simpl. split; [reflexivity|]. split; [constructor|].
      split; [intros a; lia|]. split; [intros H0; lia|]. intros k Hk. lia.
    + pose proof (mod16_lt n) as Hm. pose proof (div16_eq n) as Hdm.
      assert (Hq : n / 16 < pow16 f).
      { rewrite pow16_S in Hn. clear IH.
        remember (pow16 f) as P. remember (n / 16) as q. remember (n mod 16) as m.
        clear HeqP Heqq Heqm. lia. }
      destruct (IH (n / 16) (hexdig (n mod 16) :: acc) Hq) as [ds [He [Hl [Hv [Hne Hlen]]]]].
      exists (ds ++ [hexdig (n mod 16)]).
      split; [|split; [|split; [|split]]].
      * rewrite He. rewrite <- app_assoc. reflexivity.
      * apply Forall_app. split; [exact Hl|]. constructor; [|constructor].
        apply hexdig_lower. exact Hm.
      * intros a. rewrite fold_left_app. simpl. rewrite Hv. unfold hex_step at 1.
        rewrite (hexdig_value _ Hm). rewrite app_length. simpl length.
        replace (length ds + 1)%nat with (S (length ds)) by lia. rewrite pow16_S.
        remember (pow16 (length ds)) as P. remember (n / 16) as q. remember (n mod 16) as m.
        rewrite Hdm. lia.
      * intros _ Hnil. destruct ds; discriminate Hnil.
      * intros k Hk. destruct k as [|k'].
        -- change (pow16 0) with 1 in Hk. lia.
        -- rewrite pow16_S in Hk. assert (Hq' : n / 16 < pow16 k').
           { clear IH Hlen Hv Hq He.
             remember (pow16 k') as P. remember (n / 16) as q. remember (n mod 16) as m.
             clear HeqP Heqq Heqm. lia. }
           pose proof (Hlen k' Hq') as Hle. rewrite app_length. simpl. lia.
Qed.

Lemma hex_spec n :
  0 < n -> n <= max_char ->
  (1 <= length (hex n) <= 5)%nat /\ Forall is_lowerhex (hex n) /\ hex_value (hex n) = n.
Proof.
  intros H0 Hmax. unfold max_char in Hmax. unfold hex.
  assert (H8 : n < pow16 8) by (change (pow16 8) with 4294967296; lia).
  destruct (hex_aux_spec 8 n [] H8) as [ds [He [Hl [Hv [Hne Hlen]]]]].
  rewrite app_nil_r in He. rewrite He.
  split; [|split].
  - assert (H5 : n < pow16 5) by (change (pow16 5) with 1048576; lia).
    pose proof (Hlen 5%nat H5) as Hle. pose proof (Hne H0) as Hnn.
    destruct ds as [|x ds']; [contradiction|]. simpl length in *. lia.
  - exact Hl.
  - unfold hex_value. rewrite Hv. lia.
Qed.

(* the three kinds of chunk the codec writes *)
Lemma denotes_esc_char c t v :
  0 < c -> c <= max_char -> denotes t v -> denotes (esc c ++ t) (c :: v).
Proof.
  intros H0 Hm H. destruct (hex_spec c H0 Hm) as [Hl [Hd Hv]].
  unfold esc, esc_open. rewrite <- !app_assoc.
  apply den_esc.
  - exact Hl.
  - eapply Forall_impl; [|exact Hd]. intros a Ha. apply lowerhex_hexdigit. exact Ha.
  - exact Hv.
  - exact Hm.
  - exact H.
Qed.

Lemma denotes_nul t v : denotes t v -> denotes ([92; 117; 123; 48; 125] ++ t) (0 :: v).
Proof.
  intros H. apply (den_esc [48] 0 t v).
  - simpl. lia.
  - constructor; [unfold is_hexdigit; lia|constructor].
  - reflexivity.
  - unfold max_char. lia.
  - exact H.
Qed.

Lemma codec_char_head fx d nx x r :
  codec_char fx d nx ++ x = 117 :: r -> d = 117.
Proof.
  unfold codec_char, esc, esc_open. intros H.
  destruct (d =? 0) eqn:E0; [discriminate H|].
  destruct (255 <? d) eqn:E1; [discriminate H|].
  destruct ((d =? 92) && match nx with Some d0 => d0 =? 117 | None => false end) eqn:E2;
    [discriminate H|].
  destruct (d =? 34) eqn:E3; [destruct fx; discriminate H|].
  destruct (fx && (128 <=? d)) eqn:E4; [discriminate H|].
  simpl in H. inversion H. reflexivity.
Qed.

Lemma codec_head fx s r : codec fx s = 117 :: r -> exists s', s = 117 :: s'.
Proof.
  destruct s as [|d s']; intros H.
  - discriminate H.
  - simpl in H. apply codec_char_head in H. subst d. exists s'. reflexivity.
Qed.

Lemma valid_str_cons c r : valid_str (c :: r) = true -> c <= max_char /\ valid_str r = true.
Proof.
  unfold valid_str. simpl. unfold valid_char at 1. intros H.
  apply andb_true_iff in H. destruct H as [H1 H2]. split; [lia|exact H2].
Qed.

Definition next_of (r : list N) : option N :=
  match r with d :: _ => Some d | [] => None end.

Lemma codec_cons fx c r : codec fx (c :: r) = codec_char fx c (next_of r) ++ codec fx r.
Proof. reflexivity. Qed.

Lemma codec_denotes_gen fx s :
  valid_str s = true ->
  (fx = false -> K_smt_quote s = false /\ K_smt_latin1 s = false) ->
  denotes (codec fx s) s.
Proof.
  induction s as [|c r IH]; intros Hv Hk.
  - apply den_nil.
  - apply valid_str_cons in Hv. destruct Hv as [Hc Hr].
    assert (Hk' : fx = false -> K_smt_quote r = false /\ K_smt_latin1 r = false).
    { intros Hfx. destruct (Hk Hfx) as [Hq Hl]. unfold K_smt_quote, K_smt_latin1 in *.
      simpl in Hq, Hl. apply orb_false_iff in Hq. apply orb_false_iff in Hl.
      destruct Hq as [_ Hq]. destruct Hl as [_ Hl]. split; assumption. }
    assert (Hkc : fx = false -> c <> 34 /\ (c < 128 \/ 255 < c)).
    { intros Hfx. destruct (Hk Hfx) as [Hq Hl]. unfold K_smt_quote, K_smt_latin1 in *.
      simpl in Hq, Hl. apply orb_false_iff in Hq. apply orb_false_iff in Hl.
      destruct Hq as [Hq _]. destruct Hl as [Hl _]. lia. }
    pose proof (IH Hr Hk') as Hden.
    rewrite codec_cons.
    remember (next_of r) as nx eqn:Hnx.
    unfold codec_char.
    destruct (c =? 0) eqn:E0.
    { assert (c = 0) by lia. subst c. apply denotes_nul. exact Hden. }
    destruct (255 <? c) eqn:E1.
    { apply denotes_esc_char; [lia|exact Hc|exact Hden]. }
    destruct ((c =? 92) && match nx with Some d => d =? 117 | None => false end) eqn:E2.
    { assert (c = 92) by lia. subst c.
      apply (denotes_esc_char 92); [lia|unfold max_char; lia|exact Hden]. }
    destruct (c =? 34) eqn:E3.
    { assert (c = 34) by lia. subst c. destruct fx.
      - apply den_quote. exact Hden.
      - exfalso. destruct (Hkc eq_refl) as [Hne _]. apply Hne. reflexivity. }
    destruct (fx && (128 <=? c)) eqn:E4.
    { apply denotes_esc_char; [lia|exact Hc|exact Hden]. }
    simpl. apply den_raw.
    + destruct fx.
      * simpl in E4. lia.
      * destruct (Hkc eq_refl) as [_ Hrange]. lia.
    + lia.
    + intros H92 r' Hr'. subst c. apply codec_head in Hr'. destruct Hr' as [s' Hs'].
      subst r. subst nx. simpl in E2. discriminate E2.
    + exact Hden.
Qed.

Theorem codec_denotes_fixed : forall s, valid_str s = true -> denotes (codec true s) s.
Proof.
  intros s Hv. apply codec_denotes_gen; [exact Hv|]. intros H. discriminate H.
Qed.

Theorem codec_denotes_cur : forall s,
  valid_str s = true -> K_smt_quote s = false -> K_smt_latin1 s = false ->
  denotes (codec false s) s.
Proof.
  intros s Hv Hq Hl. apply codec_denotes_gen; [exact Hv|]. intros _. split; assumption.
Qed.
(* ================================================================================== *)
(* 4. The printed literal is quote ++ codec ++ quote                                   *)
(* ================================================================================== *)

(* ---- unfolding lemmas for the python replace ---- *)
Lemma replace_aux_0 old new c r :
  replace_aux old new 0 (c :: r) =
  if prefixb_s old (c :: r) then new ++ replace_aux old new (length old - 1) r
  else c :: replace_aux old new 0 r.
Proof. reflexivity. Qed.

Lemma prefixb_cons a p b s : prefixb_s (a :: p) (b :: s) = (a =? b) && prefixb_s p s.
Proof. reflexivity. Qed.

(* ---- 4a. replacing a one-character pattern is a flat_map ---- *)
Definition qrep (new a : list N) : list N :=
  flat_map (fun c => if c =? 34 then new else [c]) a.

Lemma py_replace_quote new a : py_replace [34] new a = qrep new a.
Proof.
  unfold py_replace. induction a as [|c r IH]; [reflexivity|].
  rewrite replace_aux_0. rewrite prefixb_cons.
  unfold qrep. simpl flat_map. fold (qrep new r). rewrite <- IH.
  destruct (34 =? c) eqn:E1; destruct (c =? 34) eqn:E2; try lia; reflexivity.
Qed.

(* ---- 4b. the no-op replace of __setstate__ ---- *)
Lemma setstate_aux t :
  replace_aux [92; 34] [92; 34] 0 t = t /\
  forall c, replace_aux [92; 34] [92; 34] 0 (c :: t) = c :: t.
Proof.
  induction t as [|a t IH].
  - split; [reflexivity|]. intros c. rewrite replace_aux_0. rewrite prefixb_cons.
    change (prefixb_s [34] []) with false. rewrite andb_false_r. reflexivity.
  - destruct IH as [IH1 IH2]. split; [apply IH2|].
    intros c. rewrite replace_aux_0. rewrite !prefixb_cons.
    change (prefixb_s [] t) with true. rewrite andb_true_r.
    destruct (92 =? c) eqn:E1; destruct (34 =? a) eqn:E2; simpl andb; cbv iota.
    + change (replace_aux [92; 34] [92; 34] (length [92; 34] - 1) (a :: t))
        with (replace_aux [92; 34] [92; 34] 0 t).
      rewrite IH1. assert (c = 92) by lia. assert (a = 34) by lia. subst. reflexivity.
    + rewrite IH2. reflexivity.
    + rewrite IH2. reflexivity.
    + rewrite IH2. reflexivity.
Qed.

Lemma setstate_text_id : forall t, setstate_text t = t.
Proof. intros t. unfold setstate_text, py_replace. apply (setstate_aux t). Qed.

(* ---- characters printed by esc ---- *)
Lemma hex_aux_lower : forall f n acc,
  Forall is_lowerhex acc -> Forall is_lowerhex (hex_aux f n acc).
Proof.
  induction f as [|f IH]; intros n acc H; simpl.
  - exact H.
  - destruct (n =? 0) eqn:E; [exact H|]. apply IH. constructor; [|exact H].
    apply hexdig_lower. apply mod16_lt.
Qed.

Lemma hex_lower n : Forall is_lowerhex (hex n).
Proof. unfold hex. apply hex_aux_lower. constructor. Qed.

Lemma hex_aux_nonempty : forall f n acc, acc <> [] -> hex_aux f n acc <> [].
Proof.
  induction f as [|f IH]; intros n acc H; simpl.
  - exact H.
  - destruct (n =? 0) eqn:E; [exact H|]. apply IH. discriminate.
Qed.

Lemma hex_nonempty n : n <> 0 -> hex n <> [].
Proof.
  intros H. unfold hex.
  change (hex_aux 8 n []) with (if n =? 0 then [] else hex_aux 7 (n / 16) [hexdig (n mod 16)]).
  destruct (n =? 0) eqn:E; [lia|]. apply hex_aux_nonempty. discriminate.
Qed.

Definition plain (c : N) : Prop := c < 128 /\ c <> 34 /\ c <> 92.

Lemma lowerhex_plain c : is_lowerhex c -> plain c.
Proof. unfold is_lowerhex, plain. lia. Qed.

Lemma esc_shape c : exists ds, esc c = [92; 117; 123] ++ ds ++ [125] /\ Forall is_lowerhex ds /\ ds = hex c.
Proof. exists (hex c). split; [reflexivity|]. split; [apply hex_lower|reflexivity]. Qed.

Lemma ascii_escape_id a : Forall (fun c => c < 128) a -> ascii_escape a = a.
Proof.
  intros H. induction H as [|c a Hc H IH]; [reflexivity|].
  unfold ascii_escape. simpl flat_map. fold (ascii_escape a). rewrite IH.
  destruct (c <? 128) eqn:E; [reflexivity|lia].
Qed.

Lemma qrep_id new a : Forall (fun c => c <> 34) a -> qrep new a = a.
Proof.
  intros H. induction H as [|c a Hc H IH]; [reflexivity|].
  unfold qrep. simpl flat_map. fold (qrep new a). rewrite IH.
  destruct (c =? 34) eqn:E; [lia|reflexivity].
Qed.

Lemma esc_ascii c : Forall (fun x => x < 128) (esc c).
Proof.
  unfold esc, esc_open. apply Forall_app. split; [repeat (constructor; [lia|]); constructor|].
  apply Forall_app. split; [|constructor; [lia|constructor]].
  eapply Forall_impl; [|apply hex_lower]. intros a Ha. unfold is_lowerhex in Ha. lia.
Qed.

Lemma esc_no_quote c : Forall (fun x => x <> 34) (esc c).
Proof.
  unfold esc, esc_open. apply Forall_app. split; [repeat (constructor; [lia|]); constructor|].
  apply Forall_app. split; [|constructor; [lia|constructor]].
  eapply Forall_impl; [|apply hex_lower]. intros a Ha. unfold is_lowerhex in Ha. lia.
Qed.

(* ---- z3_as_string and the quoted body, one source character at a time ---- *)
Definition zchunk (c : N) (nx : option N) : list N :=
  if (c =? 0) || (255 <? c) then esc c
  else if (c =? 92) && (match nx with Some d => d =? 117 | None => false end) then esc 92
  else [c].

Lemma z3_as_string_cons c r : z3_as_string (c :: r) = zchunk c (next_of r) ++ z3_as_string r.
Proof. destruct r as [|d r']; reflexivity. Qed.

Definition body (fx : bool) (s : list N) : list N :=
  if fx then qrep [34; 34] (ascii_escape (z3_as_string s)) else qrep [92; 34] (z3_as_string s).

(* the body differs from the codec only on NUL, which as_string prints with no digits *)
Definition bchunk (fx : bool) (c : N) (nx : option N) : list N :=
  if c =? 0 then [92; 117; 123; 125] else codec_char fx c nx.

Lemma qrep_app new a b : qrep new (a ++ b) = qrep new a ++ qrep new b.
Proof. unfold qrep. apply flat_map_app. Qed.

Lemma ascii_escape_app a b : ascii_escape (a ++ b) = ascii_escape a ++ ascii_escape b.
Proof. unfold ascii_escape. apply flat_map_app. Qed.

Lemma chunk_fixed c nx : qrep [34; 34] (ascii_escape (zchunk c nx)) = bchunk true c nx.
Proof.
  unfold zchunk, bchunk, codec_char.
  destruct (c =? 0) eqn:E0.
  { assert (c = 0) by lia. subst c. reflexivity. }
  destruct (255 <? c) eqn:E1.
  { simpl orb. cbv iota. rewrite ascii_escape_id by apply esc_ascii.
    apply qrep_id. apply esc_no_quote. }
  simpl orb. cbv iota.
  destruct ((c =? 92) && match nx with Some d => d =? 117 | None => false end) eqn:E2.
  { rewrite ascii_escape_id by apply esc_ascii. apply qrep_id. apply esc_no_quote. }
  unfold ascii_escape. simpl flat_map. rewrite app_nil_r.
  destruct (c <? 128) eqn:E3.
  - unfold qrep. simpl flat_map. rewrite app_nil_r.
    destruct (c =? 34) eqn:E4; [reflexivity|].
    destruct (128 <=? c) eqn:E5; [lia|]. reflexivity.
  - destruct (c =? 34) eqn:E4; [lia|].
    destruct (128 <=? c) eqn:E5; [|lia]. simpl andb. cbv iota.
    apply qrep_id. apply esc_no_quote.
Qed.

Lemma chunk_cur c nx : qrep [92; 34] (zchunk c nx) = bchunk false c nx.
Proof.
  unfold zchunk, bchunk, codec_char.
  destruct (c =? 0) eqn:E0.
  { assert (c = 0) by lia. subst c. reflexivity. }
  destruct (255 <? c) eqn:E1.
  { simpl orb. cbv iota. apply qrep_id. apply esc_no_quote. }
  simpl orb. cbv iota.
  destruct ((c =? 92) && match nx with Some d => d =? 117 | None => false end) eqn:E2.
  { apply qrep_id. apply esc_no_quote. }
  unfold qrep. simpl flat_map. rewrite app_nil_r. simpl andb. cbv iota. reflexivity.
Qed.

Lemma body_nil fx : body fx [] = [].
Proof. destruct fx; reflexivity. Qed.

Lemma body_cons fx c r : body fx (c :: r) = bchunk fx c (next_of r) ++ body fx r.
Proof.
  unfold body. rewrite z3_as_string_cons. destruct fx.
  - rewrite ascii_escape_app. rewrite qrep_app. rewrite chunk_fixed. reflexivity.
  - rewrite qrep_app. rewrite chunk_cur. reflexivity.
Qed.

(* ---- the outer replace of the empty escape, chunk by chunk ---- *)
Definition nul_pat : list N := [92; 117; 123; 125].
Definition nul_new : list N := [92; 117; 123; 48; 125].
Definition rep0 (a : list N) : list N := replace_aux nul_pat nul_new 0 a.

Lemma rep0_not_bs c r : c <> 92 -> rep0 (c :: r) = c :: rep0 r.
Proof.
  intros H. unfold rep0. rewrite replace_aux_0. unfold nul_pat at 1. rewrite prefixb_cons.
  destruct (92 =? c) eqn:E; [lia|]. reflexivity.
Qed.

Lemma rep0_no_bs p r : Forall (fun c => c <> 92) p -> rep0 (p ++ r) = p ++ rep0 r.
Proof.
  intros H. induction H as [|a p Ha H IH]; [reflexivity|].
  cbn [app]. rewrite rep0_not_bs by exact Ha. rewrite IH. reflexivity.
Qed.

Lemma rep0_bs_not_u r : (forall r', r <> 117 :: r') -> rep0 (92 :: r) = 92 :: rep0 r.
Proof.
  intros H. unfold rep0. rewrite replace_aux_0. unfold nul_pat at 1.
  destruct r as [|u r1]; [reflexivity|].
  rewrite !prefixb_cons. destruct (117 =? u) eqn:E.
  - exfalso. apply (H r1). f_equal. lia.
  - reflexivity.
Qed.

Lemma rep0_nul r : rep0 (92 :: 117 :: 123 :: 125 :: r) = nul_new ++ rep0 r.
Proof. reflexivity. Qed.

Lemma rep0_esc_open d r :
  d <> 125 -> rep0 (92 :: 117 :: 123 :: d :: r) = 92 :: 117 :: 123 :: rep0 (d :: r).
Proof.
  intros H. unfold rep0 at 1. rewrite replace_aux_0.
  change (prefixb_s nul_pat (92 :: 117 :: 123 :: d :: r)) with ((125 =? d) && true).
  destruct (125 =? d) eqn:E; [lia|]. simpl andb. cbv iota.
  fold (rep0 (117 :: 123 :: d :: r)).
  rewrite rep0_not_bs by lia. rewrite rep0_not_bs by lia. reflexivity.
Qed.

Lemma rep0_esc c x : c <> 0 -> rep0 (esc c ++ x) = esc c ++ rep0 x.
Proof.
  intros H. pose proof (hex_nonempty c H) as Hne. pose proof (hex_lower c) as Hl.
  unfold esc, esc_open. destruct (hex c) as [|d ds]; [contradiction|].
  inversion Hl as [|d' ds' Hd Hds]; subst.
  change (([92; 117; 123] ++ (d :: ds) ++ [125]) ++ x)
    with (92 :: 117 :: 123 :: d :: ((ds ++ [125]) ++ x)).
  rewrite rep0_esc_open by (unfold is_lowerhex in Hd; lia).
  change (d :: (ds ++ [125]) ++ x) with (((d :: ds) ++ [125]) ++ x).
  rewrite rep0_no_bs; [reflexivity|].
  apply Forall_app. split; [|constructor; [lia|constructor]].
  eapply Forall_impl; [|exact Hl]. intros a Ha. unfold is_lowerhex in Ha. lia.
Qed.

Lemma bchunk_head fx d nx x r : bchunk fx d nx ++ x = 117 :: r -> d = 117.
Proof.
  unfold bchunk. destruct (d =? 0) eqn:E; [intros H; discriminate H|].
  apply codec_char_head.
Qed.

Lemma body_head fx s x r : body fx s ++ x = 117 :: r -> (exists s', s = 117 :: s') \/ s = [].
Proof.
  destruct s as [|d s']; intros H; [right; reflexivity|left].
  rewrite body_cons in H. rewrite <- app_assoc in H. apply bchunk_head in H.
  subst d. exists s'. reflexivity.
Qed.

Lemma rep0_body fx s : rep0 (body fx s ++ [34]) = codec fx s ++ [34].
Proof.
  induction s as [|c r IH].
  - rewrite body_nil. reflexivity.
  - rewrite body_cons, codec_cons. rewrite <- !app_assoc.
    remember (next_of r) as nx eqn:Hnx.
    unfold bchunk, codec_char.
    destruct (c =? 0) eqn:E0.
    { change ([92; 117; 123; 125] ++ body fx r ++ [34])
        with (92 :: 117 :: 123 :: 125 :: (body fx r ++ [34])).
      rewrite rep0_nul. rewrite IH. reflexivity. }
    destruct (255 <? c) eqn:E1.
    { rewrite rep0_esc by lia. rewrite IH. reflexivity. }
    destruct ((c =? 92) && match nx with Some d => d =? 117 | None => false end) eqn:E2.
    { rewrite rep0_esc by lia. rewrite IH. reflexivity. }
    destruct (c =? 34) eqn:E3.
    { destruct fx.
      - cbn [app]. rewrite rep0_not_bs by lia. rewrite rep0_not_bs by lia.
        rewrite IH. reflexivity.
      - cbn [app]. rewrite rep0_bs_not_u by (intros r' Hr'; discriminate Hr').
        rewrite rep0_not_bs by lia. rewrite IH. reflexivity. }
    destruct (fx && (128 <=? c)) eqn:E4.
    { rewrite rep0_esc by lia. rewrite IH. reflexivity. }
    cbn [app]. destruct (N.eq_dec c 92) as [E|E].
    + subst c. rewrite rep0_bs_not_u.
      * rewrite IH. reflexivity.
      * intros r' Hr'. pose proof (body_head _ _ _ _ Hr') as Hh.
        destruct Hh as [[s' Hs']|Hs'].
        -- subst r. subst nx. simpl in E2. discriminate E2.
        -- subst r. rewrite body_nil in Hr'. discriminate Hr'.
    + rewrite rep0_not_bs by exact E. rewrite IH. reflexivity.
Qed.

Theorem isla_lit_codec : forall fx s, isla_lit fx s = [34] ++ codec fx s ++ [34].
Proof.
  intros fx s. unfold isla_lit. cbv zeta.
  assert (Hb : (if fx then py_replace [34] [34; 34] (ascii_escape (z3_as_string s))
                else py_replace [34] [92; 34] (z3_as_string s)) = body fx s).
  { unfold body. destruct fx; apply py_replace_quote. }
  rewrite Hb. unfold py_replace. fold nul_pat. fold nul_new.
  change (replace_aux nul_pat nul_new 0 ([34] ++ body fx s ++ [34]))
    with (rep0 (34 :: (body fx s ++ [34]))).
  rewrite rep0_not_bs by lia. rewrite rep0_body. reflexivity.
Qed.

(* ================================================================================== *)
(* 5. Round trip of one pickled string literal                                         *)
(* ================================================================================== *)

Lemma smt_pickle_lit_codec fx s : smt_pickle_lit fx s = load_lit ([34] ++ codec fx s ++ [34]).
Proof. unfold smt_pickle_lit. rewrite setstate_text_id. rewrite isla_lit_codec. reflexivity. Qed.

Theorem smt_pickle_roundtrip_fixed : forall s,
  valid_str s = true -> smt_pickle_lit true s = Ok s.
Proof.
  intros s Hv. rewrite smt_pickle_lit_codec. apply load_denotes.
  apply codec_denotes_fixed. exact Hv.
Qed.

Theorem smt_pickle_roundtrip_partial : forall s,
  valid_str s = true -> K_smt_quote s = false -> K_smt_latin1 s = false ->
  smt_pickle_lit false s = Ok s.
Proof.
  intros s Hv Hq Hl. rewrite smt_pickle_lit_codec. apply load_denotes.
  apply codec_denotes_cur; assumption.
Qed.

(* ================================================================================== *)
(* 6. Refutations for the current code, and non-vacuity                                *)
(* ================================================================================== *)

(* a quote in the value: the current code writes backslash quote, the lexer stops at the quote *)
Example smt_pickle_quote_refuted : smt_pickle_lit false [97; 34; 98] = Raise OtherErr.
Proof. vm_compute. reflexivity. Qed.

(* a latin-1 character: read back as two sign-extended UTF-8 bytes, silently a different value *)
Example smt_pickle_latin1_refuted : smt_pickle_lit false [228] = Ok [4294967235; 4294967204].
Proof. vm_compute. reflexivity. Qed.

(* the guards of the partial theorem are exactly what these two inputs violate *)
Example quote_refuted_guard : K_smt_quote [97; 34; 98] = true.
Proof. reflexivity. Qed.
Example latin1_refuted_guard : K_smt_latin1 [228] = true.
Proof. reflexivity. Qed.

(* backslash, backslash followed by u, NUL, a character above 255, the largest character *)
Definition sample_cur : str := [97; 92; 98; 92; 117; 0; 955; 92; 196607; 117; 125; 123].
(* additionally a quote and a latin-1 character *)
Definition sample_fixed : str := sample_cur ++ [34; 228; 34; 34; 255; 128; 92].

Example sample_cur_valid : valid_str sample_cur = true.
Proof. reflexivity. Qed.
Example sample_cur_no_quote : K_smt_quote sample_cur = false.
Proof. reflexivity. Qed.
Example sample_cur_no_latin1 : K_smt_latin1 sample_cur = false.
Proof. reflexivity. Qed.
Example sample_cur_roundtrip : smt_pickle_lit false sample_cur = Ok sample_cur.
Proof.
  apply smt_pickle_roundtrip_partial;
    [exact sample_cur_valid|exact sample_cur_no_quote|exact sample_cur_no_latin1].
Qed.
Example sample_cur_roundtrip_computed : smt_pickle_lit false sample_cur = Ok sample_cur.
Proof. vm_compute. reflexivity. Qed.

Example sample_fixed_valid : valid_str sample_fixed = true.
Proof. reflexivity. Qed.
Example sample_fixed_has_quote : K_smt_quote sample_fixed = true.
Proof. reflexivity. Qed.
Example sample_fixed_has_latin1 : K_smt_latin1 sample_fixed = true.
Proof. reflexivity. Qed.
Example sample_fixed_roundtrip : smt_pickle_lit true sample_fixed = Ok sample_fixed.
Proof. apply smt_pickle_roundtrip_fixed. exact sample_fixed_valid. Qed.
Example sample_fixed_roundtrip_computed : smt_pickle_lit true sample_fixed = Ok sample_fixed.
Proof. vm_compute. reflexivity. Qed.
(* the current code does not round trip on it *)
Example sample_fixed_cur_fails : smt_pickle_lit false sample_fixed <> Ok sample_fixed.
Proof. vm_compute. intros H. discriminate H. Qed.

(* the text written for the samples *)
Example sample_cur_text :
  isla_lit false [92; 117; 0; 955] =
  [34; 92; 117; 123; 53; 99; 125; 117; 92; 117; 123; 48; 125; 92; 117; 123; 51; 98; 98; 125; 34].
Proof. vm_compute. reflexivity. Qed.
Example sample_fixed_text :
  isla_lit true [34; 228] = [34; 34; 34; 92; 117; 123; 101; 52; 125; 34].
Proof. vm_compute. reflexivity. Qed.

(* validity is needed: a character above 0x2FFFF is not a Z3 character and its escape is rejected *)
Example invalid_char_not_roundtrip : smt_pickle_lit true [196608] <> Ok [196608].
Proof. vm_compute. intros H. discriminate H. Qed.

(* the specification is not vacuous and is independent of the codec: upper case digits, leading
   zeros, raw backslashes *)
Example denotes_example :
  denotes [92; 117; 123; 48; 48; 69; 52; 125; 34; 34; 92; 92; 117; 123; 52; 49; 125]
          [228; 34; 92; 65].
Proof.
  apply (den_esc [48; 48; 69; 52] 228 _ [34; 92; 65]).
  - simpl. lia.
  - repeat (constructor; [unfold is_hexdigit; lia|]). constructor.
  - reflexivity.
  - unfold max_char. lia.
  - apply den_quote. apply den_raw; [lia|lia| |].
    + intros _ r Hr. discriminate Hr.
    + apply (den_esc [52; 49] 65 [] []).
      * simpl. lia.
      * repeat (constructor; [unfold is_hexdigit; lia|]). constructor.
      * reflexivity.
      * unfold max_char. lia.
      * apply den_nil.
Qed.

Print Assumptions load_denotes.
Print Assumptions codec_denotes_fixed.
Print Assumptions codec_denotes_cur.
Print Assumptions isla_lit_codec.
Print Assumptions setstate_text_id.
Print Assumptions smt_pickle_roundtrip_fixed.
Print Assumptions smt_pickle_roundtrip_partial.
