(* C17 — model of the string-literal path of SMTFormula.__getstate__/__setstate__
   (src/isla/language.py) through smt_expr_to_str (src/isla/z3_helpers.py) and Z3 4.11.2.

   A Z3 string VALUE is a sequence of Z3 characters (code points 0 .. 0x2FFFF): `str`.

     pickle.dumps:  formula text = smt_expr_to_str(formula)
         string value v  |->  QUOTE + v.as_string().replace(QUOTE, BACKSLASH QUOTE) + QUOTE   then  .replace(r'\u{}', r'\u{0}')
         (v.as_string() = Z3_get_lstring decoded latin-1: model z3_as_string)
     bytes = text.encode("utf-8");  text = bytes.decode("utf-8")                (trusted inverse pair)
     pickle.loads:  text.replace(BACKSLASH QUOTE, BACKSLASH QUOTE)  [a no-op];  z3.parse_smt2_string(text)
         python z3 passes text as UTF-8 bytes; Z3's scanner reads a string literal up to the
         closing QUOTE (QUOTE QUOTE is an escaped quote; bytes are `signed char`, so bytes >= 0x80 become
         0xFFFFFFxx), then zstring decodes \u{h..h} (1-5 hex digits, value <= 0x2FFFF) and \uhhhh.

   `fx = true` models the proposed fix (proposed_fixes/C17-smt-literal.diff): the pickled text escapes
   every non-ASCII byte of as_string() as \u{..} and doubles QUOTE (SMT-LIB 2.6).  No proofs here. *)
From ISLA Require Import Str Outcome.
From Coq Require Import List NArith Bool.
Import ListNotations.
Local Open Scope N_scope.

Definition max_char : N := 196607.            (* 0x2FFFF, zstring::max_char() *)
Definition valid_char (c : N) : bool := c <=? max_char.
Definition valid_str (s : str) : bool := forallb valid_char s.

(* ---- hexadecimal, lower case, no leading zeros ("%x"); 0 prints as the empty string,
        as Z3_get_lstring does for the NUL character ---- *)
Definition hexdig (d : N) : N := if d <? 10 then 48 + d else 87 + d.
Fixpoint hex_aux (fuel : nat) (n : N) (acc : str) : str :=
  match fuel with
  | O => acc
  | S f => if n =? 0 then acc else hex_aux f (n / 16) (hexdig (n mod 16) :: acc)
  end.
Definition hex (n : N) : str := hex_aux 8 n [].

Definition esc_open : str := [92; 117; 123].      (* \u{ *)
Definition esc (n : N) : str := esc_open ++ hex n ++ [125].

(* ---- Z3_get_lstring (what SeqRef.as_string returns, one latin-1 char per byte) ----
   NUL and characters above 0xFF are printed as \u{hex}; a backslash directly followed by 'u'
   is printed as \u{5c}; every other character 1..255 is a raw byte. *)
Fixpoint z3_as_string (s : str) : str :=
  match s with
  | [] => []
  | c :: r =>
      (if (c =? 0) || (255 <? c) then esc c
       else if (c =? 92) && (match r with d :: _ => d =? 117 | [] => false end) then esc 92
       else [c]) ++ z3_as_string r
  end.

(* ---- Python str.replace(old, new) for non-empty old: leftmost, non-overlapping ---- *)
Fixpoint prefixb_s (p s : str) : bool :=
  match p, s with
  | [], _ => true
  | a :: p', b :: s' => (a =? b) && prefixb_s p' s'
  | _ :: _, [] => false
  end.
Fixpoint replace_aux (old new : str) (skip : nat) (s : str) : str :=
  match s with
  | [] => []
  | c :: r =>
      match skip with
      | S k => replace_aux old new k r
      | O => if prefixb_s old s then new ++ replace_aux old new (length old - 1) r
             else c :: replace_aux old new O r
      end
  end.
Definition py_replace (old new s : str) : str := replace_aux old new O s.

(* ---- smt_expr_to_str on a string value ---- *)
Definition ascii_escape (a : str) : str :=
  flat_map (fun c => if c <? 128 then [c] else esc c) a.

Definition isla_lit (fx : bool) (s : str) : str :=
  let a := z3_as_string s in
  let body := if fx then py_replace [34] [34; 34] (ascii_escape a)
              else py_replace [34] [92; 34] a in
  py_replace [92; 117; 123; 125] [92; 117; 123; 48; 125] ([34] ++ body ++ [34]).

(* ---- python str -> UTF-8 bytes (z3 python: _str_to_bytes) -> C `signed char` -> unsigned ---- *)
Definition utf8 (c : N) : list N :=
  if c <? 128 then [c]
  else if c <? 2048 then [192 + c / 64; 128 + c mod 64]
  else if c <? 65536 then [224 + c / 4096; 128 + (c / 64) mod 64; 128 + c mod 64]
  else [240 + c / 262144; 128 + (c / 4096) mod 64; 128 + (c / 64) mod 64; 128 + c mod 64].
Definition sx (b : N) : N := if b <? 128 then b else 4294967040 + b.

(* ---- Z3 smt2 scanner, inside a string literal (after the opening quote):
        content up to the closing quote, two quotes stand for one quote; returns (content, rest) ---- *)
Fixpoint scan_string (bs : list N) : option (list N * list N) :=
  match bs with
  | [] => None                                   (* unexpected end of string *)
  | b :: r =>
      if b =? 34 then
        match r with
        | b2 :: r2 =>
            if b2 =? 34 then
              match scan_string r2 with Some (c, rest) => Some (34 :: c, rest) | None => None end
            else Some ([], r)
        | [] => Some ([], [])
        end
      else match scan_string r with Some (c, rest) => Some (b :: c, rest) | None => None end
  end.

(* ---- zstring constructor from a C string : escape decoding ---- *)
Definition hexval (c : N) : option N :=
  if (48 <=? c) && (c <=? 57) then Some (c - 48)
  else if (97 <=? c) && (c <=? 102) then Some (c - 87)
  else if (65 <=? c) && (c <=? 70) then Some (c - 55)
  else None.

(* after \u{ : positions 0..5; a hex digit accumulates, '}' ends (value must be <= max_char) *)
Fixpoint esc_braces (n : nat) (acc : N) (s : str) : option (N * str) :=
  match n with
  | O => None
  | S n' =>
      match s with
      | [] => None
      | c :: r =>
          match hexval c with
          | Some d => esc_braces n' (16 * acc + d) r
          | None => if c =? 125 then (if acc <=? max_char then Some (acc, r) else None) else None
          end
      end
  end.

Definition esc4 (s : str) : option (N * str) :=
  match s with
  | a :: b :: c :: d :: r =>
      match hexval a, hexval b, hexval c, hexval d with
      | Some x, Some y, Some z, Some w => Some (((x * 16 + y) * 16 + z) * 16 + w, r)
      | _, _, _, _ => None
      end
  | _ => None
  end.

(* is_escape_char at the head of s: Some (char, remaining input) *)
Definition escape_at (s : str) : option (N * str) :=
  match s with
  | c :: u :: r1 =>
      if (c =? 92) && (u =? 117) then
        match r1 with
        | lb :: r2 =>
            if lb =? 123 then
              match r2 with
              | x :: _ => if x =? 125 then None else esc_braces 6 0 r2
              | [] => None
              end
            else esc4 r1
        | [] => None
        end
      else None
  | _ => None
  end.

Fixpoint z3_unescape (fuel : nat) (s : str) : str :=
  match fuel with
  | O => []
  | S f =>
      match s with
      | [] => []
      | c :: r =>
          match escape_at s with
          | Some (v, rest) => v :: z3_unescape f rest
          | None => c :: z3_unescape f r
          end
      end
  end.

(* ---- loading ONE literal: the text must be exactly one string literal; anything left over
        after the closing quote makes the enclosing (assert ...) ill-formed -> Z3Exception ---- *)
Definition load_lit (src : str) : res str :=
  match map sx (flat_map utf8 src) with
  | q :: r =>
      if q =? 34 then
        match scan_string r with
        | Some (content, []) => Ok (z3_unescape (S (length content)) content)
        | _ => Raise OtherErr
        end
      else Raise OtherErr
  | [] => Raise OtherErr
  end.

(* __getstate__ ; __setstate__ on the literal level *)
Definition setstate_text (t : str) : str := py_replace [92; 34] [92; 34] t.   (* the no-op replace *)
Definition smt_pickle_lit (fx : bool) (s : str) : res str := load_lit (setstate_text (isla_lit fx s)).

(* ---- known-finding classes (guards of the _partial theorem) ---- *)
Definition K_smt_quote (s : str) : bool := existsb (fun c => c =? 34) s.
Definition K_smt_latin1 (s : str) : bool := existsb (fun c => (128 <=? c) && (c <=? 255)) s.

(* ---- character-level codec: what the pickled text of a literal is, one source character at
        a time (lookahead of one for the backslash rule).  Facts: isla_lit = QUOTE ++ codec ++ QUOTE. ---- *)
Definition codec_char (fx : bool) (c : N) (next : option N) : str :=
  if c =? 0 then [92; 117; 123; 48; 125]
  else if 255 <? c then esc c
  else if (c =? 92) && (match next with Some d => d =? 117 | None => false end) then esc 92
  else if c =? 34 then (if fx then [34; 34] else [92; 34])
  else if fx && (128 <=? c) then esc c
  else [c].
Fixpoint codec (fx : bool) (s : str) : str :=
  match s with
  | [] => []
  | c :: r => codec_char fx c (match r with d :: _ => Some d | [] => None end) ++ codec fx r
  end.
