(* C17 — OBJECT model of a DerivationTree instance (src/isla/derivation_tree.py): the tree
   structure plus the per-instance attribute slots that cache results, and the operations that
   read / fill / delete those slots.  Children are shared objects: an operation on a child is
   seen by the parent, hence operations are applied AT A PATH of one object tree.

   slots (Python attribute -> field; option = Python None unless said otherwise)
     __len              s_len    None until computed (constructor: 1 if not children)
     __hash             s_hash   None until computed
     __structural_hash  s_shash
     __is_open          s_open   constructor: True (children None) / False (no children) /
                                 True if some child slot is True / else None
     __k_paths          s_kp     OUTER option = attribute present in __dict__ (to_json DELETES it),
                                 inner list = the dict  k -> set of k-paths
     __concrete_k_paths s_ckp    same

   External functions enter as parameters (Section variables):
     H  structural? tree : Z      Python hash of (value[,id]) + children hashes (same process)
     KP potential? tree k : N     token for the set graph.k_paths_in_tree(tree, k, ...)
   The correspondence instantiates both with the constant 1 and canonicalises the
   implementation's hash / k-path answers to 1 (equal to the value computed on a pristine
   copy of the tree) or 0.

   fx = false : the code as it is.  to_json aliases self.__dict__ and deletes the two k-path
                slots of the LIVE object; children are serialised with all their slots and a
                non-empty k-path dict (values are sets) makes json.dumps raise AttributeError.
   fx = true  : proposed fix (proposed_fixes/C17-tojson-copy.diff): serialise a filtered copy.

   JSON is an abstract value tree; json.dumps / ijson / zlib / pickle framing are trusted as
   inverse pairs.  No proofs in this file. *)
From ISLA Require Import Str Path Outcome Tree.
From Coq Require Import List NArith ZArith Bool.
Import ListNotations.

Record slots := mkSlots {
  s_len : option N;
  s_hash : option Z;
  s_shash : option Z;
  s_open : option bool;
  s_kp : option (list (N * N));
  s_ckp : option (list (N * N)) }.

Inductive obj := ONode (l : str) (i : N) (o : bool) (s : slots) (ks : list obj).

Definition oslots (x : obj) := let 'ONode _ _ _ s _ := x in s.
Definition okids (x : obj) := let 'ONode _ _ _ _ ks := x in ks.
Definition oopn (x : obj) := let 'ONode _ _ o _ _ := x in o.

Fixpoint erase (x : obj) : tree :=
  match x with ONode l i o _ ks => Node l i o (map erase ks) end.

Definition set_len (s : slots) v := mkSlots v (s_hash s) (s_shash s) (s_open s) (s_kp s) (s_ckp s).
Definition set_hash (s : slots) v := mkSlots (s_len s) v (s_shash s) (s_open s) (s_kp s) (s_ckp s).
Definition set_shash (s : slots) v := mkSlots (s_len s) (s_hash s) v (s_open s) (s_kp s) (s_ckp s).
Definition set_open (s : slots) v := mkSlots (s_len s) (s_hash s) (s_shash s) v (s_kp s) (s_ckp s).
Definition set_kp (s : slots) v := mkSlots (s_len s) (s_hash s) (s_shash s) (s_open s) v (s_ckp s).
Definition set_ckp (s : slots) v := mkSlots (s_len s) (s_hash s) (s_shash s) (s_open s) (s_kp s) v.
Definition with_slots (x : obj) (s : slots) : obj := let 'ONode l i o _ ks := x in ONode l i o s ks.

Definition truthy (b : option bool) : bool := match b with Some true => true | _ => false end.

(* ---- DerivationTree.__init__ (bottom-up construction of a fresh tree) ---- *)
Definition init_slots (o : bool) (ks : list obj) : slots :=
  mkSlots (match ks with [] => Some 1%N | _ => None end) None None
          (if o then Some true
           else match ks with
                | [] => Some false
                | _ => if existsb (fun c => truthy (s_open (oslots c))) ks then Some true else None
                end)
          (Some []) (Some []).

Fixpoint mk_obj (t : tree) : obj :=
  match t with
  | Node l i o ks => let ks' := map mk_obj ks in ONode l i o (init_slots o ks') ks'
  end.

(* ---- JSON values ---- *)
Inductive jkey := KValue | KChildren | KId | KLen | KHash | KSHash | KKp | KCkp | KOpen.
Definition jkey_eqb (a b : jkey) : bool :=
  match a, b with
  | KValue, KValue | KChildren, KChildren | KId, KId | KLen, KLen | KHash, KHash
  | KSHash, KSHash | KKp, KKp | KCkp, KCkp | KOpen, KOpen => true
  | _, _ => false
  end.
Inductive json :=
  JNull | JBool (b : bool) | JInt (z : Z) | JStr (s : str) | JArr (l : list json)
| JObj (fs : list (jkey * json)).

Fixpoint jlookup (k : jkey) (fs : list (jkey * json)) : option json :=
  match fs with
  | [] => None
  | (k', v) :: r => if jkey_eqb k k' then Some v else jlookup k r
  end.

Section Model.
  Variable H : bool -> tree -> Z.
  Variable KP : bool -> tree -> N -> N.

  (* ---- compute_hash_iteratively: every node of the subtree without a cached value gets one ---- *)
  Fixpoint fill_hash (x : obj) : obj :=
    match x with
    | ONode l i o s ks =>
        ONode l i o (match s_hash s with
                     | Some _ => s
                     | None => set_hash s (Some (H false (Node l i o (map erase ks))))
                     end) (map fill_hash ks)
    end.
  Fixpoint fill_shash (x : obj) : obj :=
    match x with
    | ONode l i o s ks =>
        ONode l i o (match s_shash s with
                     | Some _ => s
                     | None => set_shash s (Some (H true (Node l i o (map erase ks))))
                     end) (map fill_shash ks)
    end.

  (* __hash__: cached value, else compute for the whole subtree.  Every lru_cache'd method
     (to_string, paths, ...) hashes self first. *)
  Definition touch_hash (x : obj) : obj :=
    match s_hash (oslots x) with Some _ => x | None => fill_hash x end.
  Definition touch_shash (x : obj) : obj :=
    match s_shash (oslots x) with Some _ => x | None => fill_shash x end.

  (* to_string(show_open_leaves=True): explicit stack in Python, structural recursion here *)
  Fixpoint o_string (x : obj) : str :=
    match x with
    | ONode l _ o _ ks =>
        match ks with
        | [] => if o then l else if is_nt l then [] else l
        | _ => flat_map o_string ks
        end
    end.

  Fixpoint o_size (x : obj) : nat :=
    match x with ONode _ _ _ _ ks => S (list_sum (map o_size ks)) end.

  (* __compute_is_open: pre-order search for a node with a truthy __is_open or children None *)
  Fixpoint any_open (x : obj) : bool :=
    match x with
    | ONode _ _ o s ks => truthy (s_open s) || o || existsb any_open ks
    end.

  Fixpoint dlookup (k : N) (d : list (N * N)) : option N :=
    match d with
    | [] => None
    | (k', v) :: r => if N.eqb k k' then Some v else dlookup k r
    end.

  (* ---- serialisation ---- *)
  Definition j_opt {A} (f : A -> json) (v : option A) : json :=
    match v with None => JNull | Some a => f a end.

  (* a k-path dict inside json.dumps: {} is fine, any entry holds a set -> default(set) raises *)
  Definition j_dict (d : list (N * N)) : res json :=
    match d with [] => Ok (JObj []) | _ => Raise AttrErr end.

  Definition kp_fields (filtered : bool) (s : slots) : res (list (jkey * json)) :=
    if filtered then Ok []
    else
      bind (match s_kp s with None => Ok [] | Some d => bind (j_dict d) (fun j => Ok [(KKp, j)]) end)
           (fun a =>
      bind (match s_ckp s with None => Ok [] | Some d => bind (j_dict d) (fun j => Ok [(KCkp, j)]) end)
           (fun b => Ok (a ++ b))).

  Fixpoint res_all {A} (l : list (res A)) : res (list A) :=
    match l with
    | [] => Ok []
    | r :: l' => bind r (fun a => bind (res_all l') (fun t => Ok (a :: t)))
    end.

  (* the JSON object of one node; `filtered` = leave the k-path slots out *)
  Fixpoint j_node (filtered : bool) (x : obj) : res json :=
    match x with
    | ONode l i o s ks =>
        bind (if o then Ok JNull
              else bind (res_all (map (j_node filtered) ks)) (fun js => Ok (JArr js)))
             (fun jc =>
        bind (kp_fields filtered s) (fun kpf =>
        Ok (JObj ([(KValue, JStr l); (KChildren, jc); (KId, JInt (Z.of_N i));
                   (KLen, j_opt (fun n => JInt (Z.of_N n)) (s_len s));
                   (KHash, j_opt JInt (s_hash s)); (KSHash, j_opt JInt (s_shash s))]
                  ++ kpf ++ [(KOpen, j_opt JBool (s_open s))]))))
    end.

  (* to_json.  fx=false: the two `del`s hit the live root object first; children are dumped
     through default=lambda o: o.__dict__ with their k-path slots. *)
  Definition o_to_json (fx : bool) (x : obj) : res json * obj :=
    if fx then (j_node true x, x)
    else
      let x1 := with_slots x (set_ckp (set_kp (oslots x) None) None) in
      (j_node false x1, x1).

  (* from_json / __setstate__ : from_dict.  None = out of fuel. *)
  Definition j_len (j : json) : option (option N) :=
    match j with JNull => Some None | JInt z => Some (Some (Z.to_N z)) | _ => None end.
  Definition j_int (j : json) : option (option Z) :=
    match j with JNull => Some None | JInt z => Some (Some z) | _ => None end.
  Definition j_bool (j : json) : option (option bool) :=
    match j with JNull => Some None | JBool b => Some (Some b) | _ => None end.
  Definition j_kp (j : option json) : option (option (list (N * N))) :=
    match j with None => Some (Some []) | Some (JObj []) => Some (Some []) | _ => None end.

  (* shapes that to_json never produces are outside the modelled domain: Raise NotImpl *)
  Fixpoint from_list {A} (f : json -> option (res A)) (js : list json) : option (res (list A)) :=
    match js with
    | [] => Some (Ok [])
    | j1 :: js' =>
        match f j1 with
        | None => None
        | Some (Raise e) => Some (Raise e)
        | Some (Ok c) =>
            match from_list f js' with
            | None => None
            | Some (Raise e) => Some (Raise e)
            | Some (Ok cs) => Some (Ok (c :: cs))
            end
        end
    end.

  Definition node_of_fields (fs : list (jkey * json)) (o : bool) (ks : list obj) : res obj :=
    match jlookup KValue fs, jlookup KId fs, jlookup KLen fs, jlookup KHash fs,
          jlookup KSHash fs, jlookup KOpen fs with
    | Some (JStr l), Some (JInt i), Some jl, Some jh, Some js, Some jo =>
        match j_len jl, j_int jh, j_int js, j_bool jo,
              j_kp (jlookup KKp fs), j_kp (jlookup KCkp fs) with
        | Some vl, Some vh, Some vs, Some vo, Some vk, Some vc =>
            Ok (ONode l (Z.to_N i) o (mkSlots vl vh vs vo vk vc) ks)
        | _, _, _, _, _, _ => Raise NotImpl
        end
    | _, _, _, _, _, _ => Raise NotImpl
    end.

  Fixpoint from_dict (fuel : nat) (j : json) : option (res obj) :=
    match fuel with
    | O => None
    | S f =>
        match j with
        | JObj fs =>
            match jlookup KChildren fs with
            | None => Some (Raise KeyErr)
            | Some JNull => Some (node_of_fields fs true [])
            | Some (JArr js) =>
                match from_list (from_dict f) js with
                | None => None
                | Some (Raise e) => Some (Raise e)
                | Some (Ok ks) => Some (node_of_fields fs false ks)
                end
            | Some _ => Some (Raise TypeErr)
            end
        | _ => Some (Raise TypeErr)
        end
    end.

  (* ---- operations ---- *)
  Inductive op :=
    OStr | OLen | OHash | OSHash | OIsOpen | OKPaths (pot : bool) (k : N) | OToJson | OPickle.

  Inductive ans :=
    AStr (s : str) | ANum (n : N) | AHashV (z : Z) | ABool (b : bool) | AKP (n : N)
  | AJson (j : json) | AObj (x : obj) | ANoFuel.

  Definition is_serial (p : op) : bool := match p with OToJson | OPickle => true | _ => false end.
  Definition is_kpaths (p : op) : bool := match p with OKPaths _ _ => true | _ => false end.

  Definition step (fx : bool) (fuel : nat) (p : op) (x : obj) : res ans * obj :=
    match p with
    | OStr => let x' := touch_hash x in (Ok (AStr (o_string x')), x')
    | OLen =>
        match s_len (oslots x) with
        | Some n => (Ok (ANum n), x)
        | None => let x' := touch_hash x in
                  let n := N.of_nat (o_size x') in
                  (Ok (ANum n), with_slots x' (set_len (oslots x') (Some n)))
        end
    | OHash =>
        let x' := touch_hash x in
        (match s_hash (oslots x') with Some h => Ok (AHashV h) | None => Raise AssertErr end, x')
    | OSHash =>
        let x' := touch_shash x in
        (match s_shash (oslots x') with Some h => Ok (AHashV h) | None => Raise AssertErr end, x')
    | OIsOpen =>
        match s_open (oslots x) with
        | Some b => (Ok (ABool b), x)
        | None => let b := any_open x in (Ok (ABool b), with_slots x (set_open (oslots x) (Some b)))
        end
    | OKPaths pot k =>
        let slot := if pot then s_kp (oslots x) else s_ckp (oslots x) in
        match slot with
        | None => (Raise AttrErr, x)
        | Some d =>
            match dlookup k d with
            | Some v => (Ok (AKP v), x)
            | None =>
                (* graph.k_paths_in_tree asserts that the root label is a nonterminal *)
                if negb (is_nt (lbl (erase x))) then (Raise AssertErr, x) else
                let v := KP pot (erase x) k in
                let d' := d ++ [(k, v)] in
                (Ok (AKP v),
                 with_slots x (if pot then set_kp (oslots x) (Some d') else set_ckp (oslots x) (Some d')))
            end
        end
    | OToJson =>
        let '(r, x') := o_to_json fx x in
        (bind r (fun j => Ok (AJson j)), x')
    | OPickle =>
        let '(r, x') := o_to_json fx x in
        (bind r (fun j => match from_dict fuel j with
                          | None => Ok ANoFuel
                          | Some r2 => bind r2 (fun y => Ok (AObj y))
                          end), x')
    end.

  Fixpoint replace_nth {A} (i : nat) (a : A) (l : list A) : list A :=
    match l, i with
    | [], _ => []
    | _ :: r, O => a :: r
    | b :: r, S i' => b :: replace_nth i' a r
    end.

  (* apply an operation to the object at path p (a child object is shared with its parent) *)
  Fixpoint step_at (f : obj -> res ans * obj) (p : path) (x : obj) : res ans * obj :=
    match p with
    | [] => f x
    | i :: p' =>
        match x with
        | ONode l id o s ks =>
            match nth_error ks i with
            | None => (Raise IndexErr, x)
            | Some c => let '(a, c') := step_at f p' c in (a, ONode l id o s (replace_nth i c' ks))
            end
        end
    end.

  Fixpoint run (fx : bool) (fuel : nat) (ops : list (path * op)) (x : obj) : list (res ans) * obj :=
    match ops with
    | [] => ([], x)
    | (p, o) :: r =>
        let '(a, x') := step_at (step fx fuel o) p x in
        let '(l, x'') := run fx fuel r x' in
        (a :: l, x'')
    end.

  (* ---- flat renderings (injective token lists) used only to compare with the implementation ---- *)
  Definition zb (b : bool) : Z := if b then 1%Z else 0%Z.
  Definition f_str (s : str) : list Z := Z.of_nat (length s) :: map Z.of_N s.
  Definition jkey_code (k : jkey) : Z :=
    match k with KValue => 0 | KChildren => 1 | KId => 2 | KLen => 3 | KHash => 4 | KSHash => 5
               | KKp => 6 | KCkp => 7 | KOpen => 8 end%Z.
  Fixpoint f_json (j : json) : list Z :=
    match j with
    | JNull => [0%Z]
    | JBool b => [1%Z; zb b]
    | JInt z => [2%Z; z]
    | JStr s => 3%Z :: f_str s
    | JArr l => 4%Z :: Z.of_nat (length l) :: flat_map f_json l
    | JObj fs => 5%Z :: Z.of_nat (length fs)
                 :: flat_map (fun kv => jkey_code (fst kv) :: f_json (snd kv)) fs
    end.
  Definition f_optZ (v : option Z) : list Z := match v with None => [0%Z] | Some z => [1%Z; z] end.
  Definition f_dict (v : option (list (N * N))) : list Z :=
    match v with
    | None => [(-1)%Z]
    | Some d => Z.of_nat (length d) :: flat_map (fun kv => [Z.of_N (fst kv); Z.of_N (snd kv)]) d
    end.
  Definition f_slots (s : slots) : list Z :=
    f_optZ (option_map Z.of_N (s_len s)) ++ f_optZ (s_hash s) ++ f_optZ (s_shash s)
    ++ f_optZ (option_map zb (s_open s)) ++ f_dict (s_kp s) ++ f_dict (s_ckp s).
  Fixpoint f_obj (x : obj) : list Z :=
    match x with
    | ONode l i o s ks =>
        f_str l ++ [Z.of_N i; zb o] ++ f_slots s ++ Z.of_nat (length ks) :: flat_map f_obj ks
    end.
  Fixpoint f_tree (t : tree) : list Z :=
    match t with
    | Node l i o ks => f_str l ++ [Z.of_N i; zb o] ++ Z.of_nat (length ks) :: flat_map f_tree ks
    end.
  Definition f_ans (a : ans) : list Z :=
    match a with
    | AStr s => 10%Z :: f_str s
    | ANum n => [11%Z; Z.of_N n]
    | AHashV z => [12%Z; z]
    | ABool b => [13%Z; zb b]
    | AKP n => [14%Z; Z.of_N n]
    | AJson j => 15%Z :: f_json j
    | AObj x => 16%Z :: f_obj x
    | ANoFuel => [17%Z]
    end.
  Fixpoint zlist_eqb (a b : list Z) : bool :=
    match a, b with
    | [], [] => true
    | x :: a', y :: b' => Z.eqb x y && zlist_eqb a' b'
    | _, _ => false
    end.
  Definition f_res (r : res ans) : res (list Z) :=
    match r with Ok a => Ok (f_ans a) | Raise e => Raise e end.
  Fixpoint outs_eqb (a b : list (res (list Z))) : bool :=
    match a, b with
    | [], [] => true
    | x :: a', y :: b' => res_eqb zlist_eqb x y && outs_eqb a' b'
    | _, _ => false
    end.

  (* one correspondence case: tree, operations, recorded outcomes, recorded final slot state *)
  Definition case_ok (fx : bool) (t : tree) (ops : list (path * op))
             (outs : list (res (list Z))) (final : list Z) : bool :=
    let '(l, x) := run fx 200 ops (mk_obj t) in
    outs_eqb (map f_res l) outs && zlist_eqb (f_obj x) final.

  (* ---- the command line's JSON trees: derivation_tree_to_json = json.dumps(to_parse_tree()),
          get_input_string: json.loads -> DerivationTree.from_parse_tree (fresh ids, modelled as 0) ---- *)
  Fixpoint cli_to_json (t : tree) : json :=
    match t with
    | Node l _ o ks => JArr [JStr l; if o then JNull else JArr (map cli_to_json ks)]
    end.

  Fixpoint cli_from_json (fuel : nat) (j : json) : option (res tree) :=
    match fuel with
    | O => None
    | S f =>
        match j with
        | JArr [JStr l; JNull] => Some (Ok (Node l 0%N true []))
        | JArr [JStr l; JArr js] =>
            match from_list (cli_from_json f) js with
            | None => None
            | Some (Raise e) => Some (Raise e)
            | Some (Ok ks) => Some (Ok (Node l 0%N false ks))
            end
        | _ => Some (Raise NotImpl)
        end
    end.
End Model.

(* known-finding classes over operation histories (fx = false) *)
Definition K_tojson (ops : list (path * op)) : bool :=
  existsb (fun po => is_kpaths (snd po)) ops && existsb (fun po => is_serial (snd po)) ops.

Fixpoint strip_ids (t : tree) : tree :=
  match t with Node l _ o ks => Node l 0%N o (map strip_ids ks) end.
