(* C11 — SPECIFICATION and PROOFS for Codec/BnfEscape.v.

   Specification side (declarative, independent of the model's algorithms):
     infix pat s            : pat occurs in s (exists pre post, s = pre ++ pat ++ post)
     no_placeholder s       : the text $$BESC$$ does not occur in s
     round trip             : reading back what was printed gives the original string
   Proof side: the escape table of unparse_grammar is inverted by the ORDERED replace passes
   of instantiate_escaped_symbols, for every string outside two classes (K_besc: assertion,
   K_besc_overlap: silent corruption), and the STRING token rule of the lexer cuts the printed
   terminal exactly at its closing quote. *)
From ISLA Require Import Str Outcome Grammar BnfEscape.
From Coq Require Import List NArith Bool Lia.
Import ListNotations.
Local Open Scope N_scope.

(* ------------------------------------------------------------------ *)
(* specification vocabulary                                            *)
(* ------------------------------------------------------------------ *)
Definition infix (pat s : str) : Prop := exists pre post, s = pre ++ pat ++ post.
Definition no_placeholder (s : str) : Prop := ~ infix besc s.
Definition no_overlap (s : str) : Prop := ~ infix besc_ov1 s /\ ~ infix besc_ov2 s.

Lemma str_prefixb_spec p s : str_prefixb p s = true <-> exists r, s = p ++ r.
Proof.
  revert s; induction p as [|a p IH]; intros s; simpl.
  - split; [intros _; exists s; reflexivity | reflexivity].
  - destruct s as [|b s].
    + split; [discriminate | intros [r Hr]; discriminate].
    + rewrite andb_true_iff, N.eqb_eq, IH. split.
      * intros [Hab [r Hr]]. exists r. subst. reflexivity.
      * intros [r Hr]. inversion Hr; subst. split; [reflexivity | exists r; reflexivity].
Qed.

Lemma str_infixb_spec pat s : str_infixb pat s = true <-> infix pat s.
Proof.
  induction s as [|c s IH]; simpl.
  - rewrite str_prefixb_spec. split.
    + intros [r Hr]. exists [], r. exact Hr.
    + intros [pre [post H]]. destruct pre; [|discriminate]. exists post. exact H.
  - rewrite orb_true_iff, IH, str_prefixb_spec. split.
    + intros [[r Hr] | [pre [post H]]].
      * exists [], r. exact Hr.
      * exists (c :: pre), post. simpl. rewrite H. reflexivity.
    + intros [pre [post H]]. destruct pre as [|x pre].
      * left. exists post. exact H.
      * right. simpl in H. inversion H; subst. exists pre, post. reflexivity.
Qed.

(* ------------------------------------------------------------------ *)
(* str_replace                                                         *)
(* ------------------------------------------------------------------ *)
Lemma prefixb_app_refl p r : str_prefixb p (p ++ r) = true.
Proof. induction p as [|a p IH]; simpl; [reflexivity|]. rewrite N.eqb_refl. exact IH. Qed.

Lemma replace_skip old new x rest :
  replace_go old new (length x) (x ++ rest) = replace_go old new O rest.
Proof.
  induction x as [|c x IH]; simpl.
  - destruct rest; reflexivity.
  - exact IH.
Qed.

Lemma replace_hit o old' new rest :
  str_replace (o :: old') new ((o :: old') ++ rest) = new ++ str_replace (o :: old') new rest.
Proof.
  unfold str_replace. cbn [app replace_go].
  pose proof (prefixb_app_refl (o :: old') rest) as Hp. cbn [app] in Hp. rewrite Hp.
  cbn [length pred]. rewrite replace_skip. reflexivity.
Qed.

Lemma replace_miss old new c rest :
  str_prefixb old (c :: rest) = false ->
  str_replace old new (c :: rest) = c :: str_replace old new rest.
Proof. unfold str_replace. intros H. cbn [replace_go]. rewrite H. reflexivity. Qed.

Lemma replace_absent old new s :
  str_infixb old s = false -> str_replace old new s = s.
Proof.
  induction s as [|c s IH]; intros H.
  - reflexivity.
  - simpl in H. apply orb_false_iff in H as [H1 H2].
    rewrite replace_miss by exact H1. rewrite IH by exact H2. reflexivity.
Qed.

(* units: a text is a concatenation of units; a backslash occurs only as the first
   character of a unit *)
Definition nobsb (u : str) : bool := forallb (fun x => negb (x =? 92)) u.

Fixpoint clashb (u o : str) : bool :=
  match u, o with
  | a :: u', b :: o' => if a =? b then clashb u' o' else true
  | _, _ => false
  end.

Definition unit_okb (o u : str) : bool :=
  str_eqb u o || nobsb u ||
  match u with a :: t => (a =? 92) && nobsb t && clashb u o | [] => false end.

Lemma clash_noprefix u o rest : clashb u o = true -> str_prefixb o (u ++ rest) = false.
Proof.
  revert o; induction u as [|a u IH]; intros o H; simpl in H; [discriminate|].
  destruct o as [|b o]; [discriminate|]. simpl.
  destruct (N.eqb_spec a b) as [E|E].
  - subst. rewrite N.eqb_refl. simpl. apply IH. exact H.
  - destruct (N.eqb_spec b a) as [E'|E']; [congruence | reflexivity].
Qed.

Lemma replace_nobs old' new u rest :
  nobsb u = true ->
  str_replace (92 :: old') new (u ++ rest) = u ++ str_replace (92 :: old') new rest.
Proof.
  induction u as [|c u IH]; intros H; [reflexivity|].
  simpl in H. apply andb_true_iff in H as [Hc Hu].
  cbn [app]. rewrite replace_miss.
  - rewrite IH by exact Hu. reflexivity.
  - cbn [str_prefixb]. apply negb_true_iff in Hc. rewrite N.eqb_sym in Hc. rewrite Hc. reflexivity.
Qed.

Lemma replace_unit old' new u rest :
  unit_okb (92 :: old') u = true ->
  str_replace (92 :: old') new (u ++ rest)
  = (if str_eqb u (92 :: old') then new else u) ++ str_replace (92 :: old') new rest.
Proof.
  unfold unit_okb. intros H.
  destruct (str_eqb u (92 :: old')) eqn:E.
  - apply str_eqb_eq in E. subst u. apply replace_hit.
  - simpl in H. destruct (nobsb u) eqn:Hn.
    + apply replace_nobs. exact Hn.
    + simpl in H. destruct u as [|a t]; [discriminate|].
      apply andb_true_iff in H as [H Hc]. apply andb_true_iff in H as [Ha Ht].
      apply N.eqb_eq in Ha. subst a.
      cbn [app]. rewrite replace_miss.
      * rewrite replace_nobs by exact Ht. reflexivity.
      * apply (clash_noprefix (92 :: t) (92 :: old') rest). exact Hc.
Qed.

Lemma replace_units old' new us :
  forallb (unit_okb (92 :: old')) us = true ->
  str_replace (92 :: old') new (concat us)
  = concat (map (fun u => if str_eqb u (92 :: old') then new else u) us).
Proof.
  induction us as [|u us IH]; intros H; [reflexivity|].
  simpl in H. apply andb_true_iff in H as [Hu Hus].
  cbn [concat map]. rewrite replace_unit by exact Hu. rewrite IH by exact Hus. reflexivity.
Qed.

(* ------------------------------------------------------------------ *)
(* the ordered passes, unit by unit                                    *)
(* ------------------------------------------------------------------ *)
Definition step1 (p : str * str) (u : str) : str := if str_eqb u (fst p) then snd p else u.
Fixpoint traj_okb (ps : list (str * str)) (u : str) : bool :=
  match ps with
  | [] => true
  | p :: ps' => unit_okb (fst p) u && traj_okb ps' (step1 p u)
  end.
Definition traj (ps : list (str * str)) (u : str) : str := fold_left (fun u p => step1 p u) ps u.
Definition bsled (p : str * str) : bool := match fst p with a :: _ => a =? 92 | [] => false end.

Lemma passes_units ps : forall us,
  forallb bsled ps = true -> forallb (traj_okb ps) us = true ->
  apply_passes ps (concat us) = concat (map (traj ps) us).
Proof.
  induction ps as [|p ps IH]; intros us Hb Hok.
  - simpl. rewrite map_id. reflexivity.
  - simpl in Hb. apply andb_true_iff in Hb as [Hp Hb].
    destruct p as [o n]. unfold bsled in Hp. simpl in Hp.
    destruct o as [|a old']; [discriminate|]. apply N.eqb_eq in Hp. subst a.
    unfold apply_passes. cbn [fold_left fst snd].
    rewrite replace_units.
    + change (apply_passes ps (concat (map (step1 (92 :: old', n)) us))
              = concat (map (traj ((92 :: old', n) :: ps)) us)).
      rewrite IH.
      * rewrite map_map. reflexivity.
      * exact Hb.
      * rewrite forallb_forall in *. intros x Hx. apply in_map_iff in Hx as [u [Hu Hin]].
        subst x. specialize (Hok u Hin). simpl in Hok. apply andb_true_iff in Hok as [_ Hok]. exact Hok.
    + rewrite forallb_forall in *. intros u Hin. specialize (Hok u Hin). simpl in Hok.
      apply andb_true_iff in Hok as [Hok _]. exact Hok.
Qed.

Lemma nobs_neq_bsled u o : nobsb u = true -> str_eqb u (92 :: o) = false.
Proof.
  intros H. destruct u as [|a u]; [reflexivity|]. simpl in *.
  apply andb_true_iff in H as [Ha _]. apply negb_true_iff in Ha. rewrite Ha. reflexivity.
Qed.

Lemma traj_nobs ps : forall u,
  forallb bsled ps = true -> nobsb u = true -> traj_okb ps u = true /\ traj ps u = u.
Proof.
  induction ps as [|p ps IH]; intros u Hb Hu; [split; reflexivity|].
  simpl in Hb. apply andb_true_iff in Hb as [Hp Hb].
  destruct p as [o n]. unfold bsled in Hp. simpl in Hp.
  destruct o as [|a old']; [discriminate|]. apply N.eqb_eq in Hp. subst a.
  assert (Hs : step1 (92 :: old', n) u = u).
  { unfold step1. simpl fst. rewrite nobs_neq_bsled by exact Hu. reflexivity. }
  destruct (IH u Hb Hu) as [H1 H2]. split.
  - change (unit_okb (92 :: old') u && traj_okb ps (step1 (92 :: old', n) u) = true).
    rewrite Hs, H1. unfold unit_okb. rewrite Hu. rewrite orb_true_r. reflexivity.
  - change (traj ps (step1 (92 :: old', n) u) = u). rewrite Hs. exact H2.
Qed.

Definition all_passes : list (str * str) := ([c_bs; c_bs], besc) :: repl_map.
Definition decoded (c : chr) : str := if c =? 92 then besc else [c].
Definition char_chk (c : chr) : bool :=
  traj_okb all_passes (escape_char c) && str_eqb (traj all_passes (escape_char c)) (decoded c).

Lemma all_passes_bsled : forallb bsled all_passes = true.
Proof. vm_compute. reflexivity. Qed.

(* finite sweep over the 256 code points that can be escaped *)
Lemma char_chk_small : forallb char_chk (nrange 256) = true.
Proof. vm_compute. reflexivity. Qed.

Lemma in_nrange c n : c < N.of_nat n -> In c (nrange n).
Proof.
  intros H. unfold nrange. apply in_map_iff. exists (N.to_nat c). split.
  - apply N2Nat.id.
  - apply in_seq. lia.
Qed.

Lemma escape_char_big c : 256 <= c -> escape_char c = [c].
Proof.
  intros H. unfold escape_char.
  repeat match goal with
         | |- context [c =? ?k] => destruct (N.eqb_spec c k) as [E|_]; [lia|]
         end.
  destruct (N.ltb_spec c 256) as [E|_]; [lia|]. reflexivity.
Qed.

Lemma char_traj c :
  traj_okb all_passes (escape_char c) = true /\ traj all_passes (escape_char c) = decoded c.
Proof.
  destruct (N.lt_ge_cases c 256) as [Hlt|Hge].
  - pose proof char_chk_small as H. rewrite forallb_forall in H.
    specialize (H c (in_nrange c 256 Hlt)). unfold char_chk in H.
    apply andb_true_iff in H as [H1 H2]. apply str_eqb_eq in H2. split; assumption.
  - rewrite (escape_char_big c Hge).
    assert (Hn : nobsb [c] = true).
    { simpl. destruct (N.eqb_spec c 92) as [E|_]; [lia | reflexivity]. }
    destruct (traj_nobs all_passes [c] all_passes_bsled Hn) as [H1 H2]. split; [exact H1|].
    etransitivity; [exact H2|]. unfold decoded. destruct (N.eqb_spec c 92) as [E|_]; [lia | reflexivity].
Qed.

Lemma middle_passes s : apply_passes all_passes (escape s) = concat (map decoded s).
Proof.
  unfold escape. rewrite flat_map_concat_map.
  rewrite passes_units.
  - rewrite map_map. f_equal. apply map_ext. intros c. apply char_traj.
  - exact all_passes_bsled.
  - rewrite forallb_forall. intros u Hu. apply in_map_iff in Hu as [c [Hc _]]. subst u. apply char_traj.
Qed.

(* ------------------------------------------------------------------ *)
(* the final pass: placeholder -> backslash                            *)
(* ------------------------------------------------------------------ *)
(* prefix test of a short pattern against the decoded text, read on the ORIGINAL string *)
Fixpoint pm (p : str) (s : str) : bool :=
  match p with
  | [] => true
  | a :: p' =>
      match s with
      | [] => false
      | c :: s' => if c =? 92 then str_prefixb p besc else (a =? c) && pm p' s'
      end
  end.

Lemma prefixb_short p x r : (length p <= length x)%nat -> str_prefixb p (x ++ r) = str_prefixb p x.
Proof.
  revert x; induction p as [|a p IH]; intros x H; [reflexivity|].
  destruct x as [|b x]; simpl in H; [lia|]. simpl. rewrite IH by lia. reflexivity.
Qed.

Lemma pm_ok p : forall s, (length p <= 8)%nat -> str_prefixb p (concat (map decoded s)) = pm p s.
Proof.
  induction p as [|a p IH]; intros s H; [reflexivity|].
  destruct s as [|c s]; [reflexivity|].
  cbn [map concat pm]. unfold decoded at 1.
  destruct (c =? 92).
  - apply prefixb_short. exact H.
  - simpl. rewrite IH by (simpl in H; lia). reflexivity.
Qed.

Ltac pm_step H s :=
  let c := fresh "c" in let E := fresh "E" in let H1 := fresh "H" in
  destruct s as [|c s]; [discriminate H|];
  cbn [pm] in H; destruct (c =? 92) eqn:E;
  [ apply N.eqb_eq in E; subst c; vm_compute in H; try discriminate H
  | apply andb_true_iff in H as [H1 H]; apply N.eqb_eq in H1; subst c ].

Lemma pm_patterns s :
  pm besc s = true ->
  str_prefixb besc s || str_prefixb besc_ov1 s || str_prefixb besc_ov2 s = true
  \/ exists s', s = 92 :: s'.
Proof.
  intros H. unfold besc in H.
  pm_step H s; [right; eexists; reflexivity|].
  pm_step H s.
  pm_step H s.
  pm_step H s.
  pm_step H s.
  pm_step H s.
  pm_step H s; [left; reflexivity|].
  pm_step H s; [left; reflexivity|].
  left. reflexivity.
Qed.

Lemma final_pass s :
  K_besc s = false -> K_besc_overlap s = false ->
  str_replace besc [c_bs] (concat (map decoded s)) = s.
Proof.
  unfold K_besc, K_besc_overlap.
  induction s as [|c s IH]; intros H1 H2; [reflexivity|].
  cbn [str_infixb] in H1, H2. apply orb_false_iff in H1 as [H1a H1b].
  apply orb_false_iff in H2 as [H2a H2b]. apply orb_false_iff in H2a as [H2a H2a'].
  apply orb_false_iff in H2b as [H2b H2b'].
  assert (IH' : str_replace besc [c_bs] (concat (map decoded s)) = s).
  { apply IH; [exact H1b|]. rewrite H2a', H2b'. reflexivity. }
  cbn [map concat]. unfold decoded at 1. destruct (N.eqb_spec c 92) as [E|E].
  - subst c.
    pose proof (replace_hit 36 [36; 66; 69; 83; 67; 36; 36] [c_bs] (concat (map decoded s))) as Hh.
    change (36 :: [36; 66; 69; 83; 67; 36; 36]) with besc in Hh. rewrite Hh. rewrite IH'. reflexivity.
  - cbn [app]. rewrite replace_miss; [rewrite IH'; reflexivity|].
    destruct (str_prefixb besc (c :: concat (map decoded s))) eqn:Hp; [|reflexivity].
    exfalso.
    change (c :: concat (map decoded s)) with ([c] ++ concat (map decoded s)) in Hp.
    assert (Hd : [c] = decoded c).
    { unfold decoded. destruct (N.eqb_spec c 92); [contradiction | reflexivity]. }
    rewrite Hd in Hp. change (decoded c ++ concat (map decoded s)) with (concat (map decoded (c :: s))) in Hp.
    rewrite pm_ok in Hp by (simpl; lia).
    apply pm_patterns in Hp as [Hp | [s' Hs']].
    + rewrite H1a, H2a, H2b in Hp. discriminate Hp.
    + inversion Hs'. contradiction.
Qed.

(* ------------------------------------------------------------------ *)
(* escaping creates no placeholder                                     *)
(* ------------------------------------------------------------------ *)
Lemma hexd_ge n : 48 <= hexd n.
Proof. unfold hexd. destruct (N.ltb_spec n 10); lia. Qed.

Lemma hexd_small n : n < 16 -> hexd n <= 102 /\ hexd n <> 92 /\ hexd n <> 34 /\ hexd n <> 60.
Proof. unfold hexd. intros H. destruct (N.ltb_spec n 10); lia. Qed.

(* every unit is the character itself, or a backslash followed by characters that are
   neither '$' nor '<' nor a backslash-free quote position *)
Definition tail_ok (t : str) : Prop := Forall (fun x => x <> 36 /\ x <> 60) t.

Ltac esc_branch :=
  right; eexists; split; [reflexivity|]; split; [discriminate|]; split; [repeat constructor; lia | discriminate].

Lemma esc_cases c :
  (escape_char c = [c] /\ c <> 92 /\ c <> 34) \/
  (exists t, escape_char c = 92 :: t /\ t <> [] /\ tail_ok t /\ escape_char c <> [c]).
Proof.
  unfold escape_char, c_bs, c_dq, hex_esc.
  destruct (N.eqb_spec c 9) as [E9|E9]; [esc_branch|].
  destruct (N.eqb_spec c 10) as [E10|E10]; [esc_branch|].
  destruct (N.eqb_spec c 11) as [E11|E11]; [esc_branch|].
  destruct (N.eqb_spec c 12) as [E12|E12]; [esc_branch|].
  destruct (N.eqb_spec c 13) as [E13|E13]; [esc_branch|].
  destruct (N.eqb_spec c 92) as [E92|E92]; [esc_branch|].
  destruct (N.eqb_spec c 34) as [E34|E34]; [esc_branch|].
  destruct ((c <? 256) && negb (printable c)) eqn:Hb.
  - right. eexists. split; [reflexivity|]. split; [discriminate|]. split; [|discriminate].
    apply andb_true_iff in Hb as [Hlt _]. apply N.ltb_lt in Hlt.
    assert (H16 : c / 16 < 16) by (apply N.div_lt_upper_bound; lia).
    assert (Hm : c mod 16 < 16) by (apply N.mod_lt; lia).
    pose proof (hexd_ge (c / 16)) as G1. pose proof (hexd_ge (c mod 16)) as G2.
    destruct (hexd_small _ H16) as [_ [_ [_ Ha]]]. destruct (hexd_small _ Hm) as [_ [_ [_ Hc]]].
    unfold tail_ok. constructor; [lia|]. constructor; [lia|]. constructor; [lia|]. constructor.
  - left. repeat split; assumption.
Qed.

Lemma infixb_skip a p u rest :
  Forall (fun x => x <> a) u -> str_infixb (a :: p) (u ++ rest) = str_infixb (a :: p) rest.
Proof.
  induction u as [|x u IH]; intros H; [reflexivity|].
  inversion H as [|x' u' Hx Hu]; subst. cbn [app str_infixb]. rewrite IH by exact Hu.
  simpl. destruct (N.eqb_spec a x) as [E|E]; [congruence | reflexivity].
Qed.

Definition plain_pat (p : str) : Prop := Forall (fun a => escape_char a = [a] /\ a <> 92) p.

Lemma prefixb_escape p : plain_pat p -> forall s, str_prefixb p (escape s) = str_prefixb p s.
Proof.
  induction p as [|a p IH]; intros Hp s; [reflexivity|].
  inversion Hp as [|a' p' [Ha Hbs] Hp']; subst.
  destruct s as [|c s]; [reflexivity|].
  unfold escape. cbn [flat_map]. fold (escape s).
  destruct (esc_cases c) as [[Hc _] | [t [Hc [_ [_ Hne]]]]].
  - rewrite Hc. simpl. rewrite IH by exact Hp'. reflexivity.
  - rewrite Hc. simpl.
    destruct (N.eqb_spec a 92) as [E|_]; [contradiction|].
    destruct (N.eqb_spec a c) as [E|_]; [subst; contradiction | reflexivity].
Qed.

Lemma besc_is_plain : plain_pat besc.
Proof. unfold besc. repeat constructor; try (vm_compute; reflexivity); lia. Qed.

Lemma infixb_escape_besc s : str_infixb besc (escape s) = str_infixb besc s.
Proof.
  induction s as [|c s IH]; [reflexivity|].
  cbn [str_infixb]. rewrite <- (prefixb_escape besc besc_is_plain (c :: s)).
  unfold escape. cbn [flat_map]. fold (escape s).
  destruct (esc_cases c) as [[Hc _] | [t [Hc [_ [Ht Hne]]]]].
  - rewrite Hc. cbn [app str_infixb]. rewrite IH. reflexivity.
  - rewrite Hc.
    change (92 :: t ++ escape s) with ((92 :: t) ++ escape s).
    assert (Hsk : str_infixb besc ((92 :: t) ++ escape s) = str_infixb besc (escape s)).
    { unfold besc. apply infixb_skip. constructor; [lia|].
      unfold tail_ok in Ht. rewrite Forall_forall in *. intros x Hx.
      destruct (Ht x Hx) as [Hx1 _]. exact Hx1. }
    unfold str, chr in *. rewrite Hsk, IH.
    destruct (str_prefixb besc ((92 :: t) ++ escape s)) eqn:Hp; [|reflexivity].
    unfold besc in Hp. simpl in Hp. discriminate Hp.
Qed.

(* ------------------------------------------------------------------ *)
(* the round trip                                                      *)
(* ------------------------------------------------------------------ *)
Theorem bnf_roundtrip_guarded s :
  K_besc s = false -> K_besc_overlap s = false -> unescape (escape s) = Ok s.
Proof.
  intros H1 H2. unfold unescape. rewrite infixb_escape_besc.
  unfold K_besc in H1. rewrite H1.
  unfold unescape_body.
  change (apply_passes repl_map (str_replace [c_bs; c_bs] besc (escape s)))
    with (apply_passes all_passes (escape s)).
  rewrite middle_passes. rewrite final_pass by assumption. reflexivity.
Qed.

(* the same theorem with the classes written declaratively *)
Theorem bnf_roundtrip_decl s :
  no_placeholder s -> no_overlap s -> unescape (escape s) = Ok s.
Proof.
  intros H1 [H2 H3]. apply bnf_roundtrip_guarded.
  - unfold K_besc. destruct (str_infixb besc s) eqn:E; [|reflexivity].
    apply str_infixb_spec in E. contradiction.
  - unfold K_besc_overlap. apply orb_false_iff. split.
    + destruct (str_infixb besc_ov1 s) eqn:E; [|reflexivity]. apply str_infixb_spec in E. contradiction.
    + destruct (str_infixb besc_ov2 s) eqn:E; [|reflexivity]. apply str_infixb_spec in E. contradiction.
Qed.

(* the assertion fires exactly on the class K_besc *)
Theorem besc_assert s : infix besc s <-> unescape (escape s) = Raise AssertErr.
Proof.
  unfold unescape. rewrite infixb_escape_besc. rewrite <- str_infixb_spec.
  destruct (str_infixb besc s); split; intros H; try reflexivity; discriminate H.
Qed.

(* the full statement `no_placeholder s -> unescape (escape s) = Ok s` is FALSE for the model *)
Definition wit_overlap : str := [36; 36; 66; 69; 83; 67; 92].       (* $$BESC\ *)
Theorem bnf_roundtrip_refuted :
  exists s, no_placeholder s /\ exists s', unescape (escape s) = Ok s' /\ s' <> s.
Proof.
  exists wit_overlap. split.
  - unfold no_placeholder. rewrite <- str_infixb_spec. vm_compute. discriminate.
  - exists [92; 66; 69; 83; 67; 36; 36]. split; [vm_compute; reflexivity | discriminate].
Qed.

(* non-vacuity: a string with backslash-n, backslash-x41, quote, control and wide characters *)
Definition ex_string : str := [92; 110; 92; 120; 52; 49; 34; 0; 9; 127; 255; 256; 128512; 36; 36; 66].
Example roundtrip_example :
  K_besc ex_string = false /\ K_besc_overlap ex_string = false /\
  no_placeholder ex_string /\ no_overlap ex_string /\ escape ex_string <> ex_string.
Proof.
  repeat split; try (vm_compute; reflexivity).
  - unfold no_placeholder. rewrite <- str_infixb_spec. vm_compute. discriminate.
  - rewrite <- str_infixb_spec. vm_compute. discriminate.
  - rewrite <- str_infixb_spec. vm_compute. discriminate.
  - vm_compute. discriminate.
Qed.

(* ------------------------------------------------------------------ *)
(* the STRING token rule cuts a printed terminal at its closing quote  *)
(* ------------------------------------------------------------------ *)
Lemma scan_plain c r n :
  c <> 34 -> c <> 92 -> string_scan false r = Some n -> string_scan false (c :: r) = Some (S n).
Proof.
  intros H1 H2 H. simpl. unfold c_dq, c_bs.
  destruct (N.eqb_spec c 34) as [E|_]; [contradiction|].
  destruct (N.eqb_spec c 92) as [E|_]; [contradiction|]. rewrite H. reflexivity.
Qed.

Lemma scan_esc x r n :
  string_scan false r = Some n -> string_scan false (92 :: x :: r) = Some (S (S n)).
Proof. intros H. simpl. rewrite H. reflexivity. Qed.

Lemma scan_unit c r n :
  string_scan false r = Some n ->
  string_scan false (escape_char c ++ r) = Some (length (escape_char c) + n)%nat.
Proof.
  intros H. unfold escape_char, c_bs, c_dq, hex_esc.
  destruct (N.eqb_spec c 9) as [E9|E9]; [apply scan_esc; exact H|].
  destruct (N.eqb_spec c 10) as [E10|E10]; [apply scan_esc; exact H|].
  destruct (N.eqb_spec c 11) as [E11|E11];
    [apply scan_esc; apply scan_plain; [lia | lia |]; apply scan_plain; [lia | lia | exact H]|].
  destruct (N.eqb_spec c 12) as [E12|E12];
    [apply scan_esc; apply scan_plain; [lia | lia |]; apply scan_plain; [lia | lia | exact H]|].
  destruct (N.eqb_spec c 13) as [E13|E13]; [apply scan_esc; exact H|].
  destruct (N.eqb_spec c 92) as [E92|E92]; [apply scan_esc; exact H|].
  destruct (N.eqb_spec c 34) as [E34|E34]; [apply scan_esc; exact H|].
  destruct ((c <? 256) && negb (printable c)) eqn:Hb.
  - apply andb_true_iff in Hb as [Hlt _]. apply N.ltb_lt in Hlt.
    assert (H16 : c / 16 < 16) by (apply N.div_lt_upper_bound; lia).
    assert (Hm : c mod 16 < 16) by (apply N.mod_lt; lia).
    destruct (hexd_small _ H16) as [_ [Ha [Hb _]]]. destruct (hexd_small _ Hm) as [_ [Hc [Hd _]]].
    cbn [app length]. apply scan_esc. apply scan_plain; [exact Hb | exact Ha |].
    apply scan_plain; [exact Hd | exact Hc | exact H].
  - cbn [app length]. apply scan_plain; [exact E34 | exact E92 | exact H].
Qed.

Theorem string_token s rest :
  string_scan false (escape s ++ c_dq :: rest) = Some (S (length (escape s))).
Proof.
  induction s as [|c s IH].
  - reflexivity.
  - unfold escape. cbn [flat_map]. fold (escape s). rewrite <- app_assoc.
    rewrite (scan_unit c _ _ IH). rewrite app_length. f_equal. lia.
Qed.

Lemma firstn_len_app (x r : str) : firstn (length x) (x ++ r) = x.
Proof. induction x as [|a x IH]; simpl; [reflexivity | rewrite IH; reflexivity]. Qed.
Lemma skipn_S_app (x : str) a r : skipn (S (length x)) (x ++ a :: r) = r.
Proof. induction x as [|b x IH]; [reflexivity | exact IH]. Qed.

(* hence: the lexer reads a quote, escape s, a quote, rest as one STRING token with body escape s *)
Corollary string_token_body s rest :
  match string_scan false (escape s ++ c_dq :: rest) with
  | Some n => firstn (pred n) (escape s ++ c_dq :: rest) = escape s /\
              skipn n (escape s ++ c_dq :: rest) = rest
  | None => False
  end.
Proof.
  rewrite string_token. cbn [pred]. split; [apply firstn_len_app | apply skipn_S_app].
Qed.

(* ------------------------------------------------------------------ *)
(* identity clause at the level of one alternative                     *)
(* ------------------------------------------------------------------ *)
(* the children of the parse tree that `print_alt a` denotes *)
Definition print_elems (a : list str) : list elem :=
  match a with
  | [] => [EStr []]
  | _ => map (fun e => if is_nt e then ENt e else EStr (escape e)) a
  end.

(* side conditions, written declaratively *)
Definition term_ok (t : str) : Prop := ~ In 60 t /\ no_placeholder t /\ no_overlap t.
Definition nt_ok (n : str) : Prop := ~ In 92 n /\ no_placeholder n.

Lemma nobsb_spec s : nobsb s = true <-> ~ In 92 s.
Proof.
  induction s as [|c s IH]; simpl.
  - split; [intros _ H; exact H | reflexivity].
  - rewrite andb_true_iff, IH, negb_true_iff, N.eqb_neq. split.
    + intros [H1 H2] [H|H]; [congruence | contradiction].
    + intros H. split; [intros E; apply H; left; congruence | intros H'; apply H; right; exact H'].
Qed.

Lemma nobs_infix o s : nobsb s = true -> str_infixb (92 :: o) s = false.
Proof.
  induction s as [|c s IH]; intros H; [reflexivity|].
  simpl in H. apply andb_true_iff in H as [Hc Hs]. cbn [str_infixb str_prefixb].
  apply negb_true_iff in Hc. rewrite N.eqb_sym in Hc. rewrite Hc. simpl. apply IH. exact Hs.
Qed.

Lemma passes_nobs ps : forall s, forallb bsled ps = true -> nobsb s = true -> apply_passes ps s = s.
Proof.
  induction ps as [|p ps IH]; intros s Hb Hs; [reflexivity|].
  simpl in Hb. apply andb_true_iff in Hb as [Hp Hb].
  destruct p as [o n]. unfold bsled in Hp. simpl in Hp.
  destruct o as [|a o']; [discriminate|]. apply N.eqb_eq in Hp. subst a.
  unfold apply_passes. cbn [fold_left fst snd].
  rewrite replace_absent by (apply nobs_infix; exact Hs). apply IH; assumption.
Qed.

Lemma unescape_nt n : nt_ok n -> unescape n = Ok n.
Proof.
  intros [Hbs Hpl]. apply nobsb_spec in Hbs.
  assert (Hb : str_infixb besc n = false).
  { destruct (str_infixb besc n) eqn:E; [|reflexivity]. apply str_infixb_spec in E. contradiction. }
  unfold unescape. rewrite Hb. unfold unescape_body.
  change (apply_passes repl_map (str_replace [c_bs; c_bs] besc n)) with (apply_passes all_passes n).
  rewrite passes_nobs by (exact all_passes_bsled || exact Hbs).
  rewrite replace_absent by exact Hb. reflexivity.
Qed.

Lemma no_lt_infix (s : str) : ~ In 60 s -> str_infixb [60] s = false.
Proof.
  induction s as [|c s IH]; intros H; [reflexivity|].
  cbn [str_infixb str_prefixb]. destruct (N.eqb_spec 60 c) as [E|_].
  - exfalso. apply H. left. congruence.
  - simpl. apply IH. intros H'. apply H. right. exact H'.
Qed.

Lemma escape_no_lt s : ~ In 60 s -> ~ In 60 (escape s).
Proof.
  induction s as [|c s IH]; intros H; [exact H|].
  unfold escape. cbn [flat_map]. fold (escape s). intros Hin. apply in_app_or in Hin as [Hin|Hin].
  - destruct (esc_cases c) as [[Hc _] | [t [Hc [_ [Ht _]]]]]; rewrite Hc in Hin.
    + destruct Hin as [E|[]]. apply H. left. exact E.
    + destruct Hin as [E|Hin]; [discriminate E|].
      unfold tail_ok in Ht. rewrite Forall_forall in Ht. destruct (Ht 60 Hin) as [_ Hx]. apply Hx. reflexivity.
  - apply IH; [|exact Hin]. intros H'. apply H. right. exact H'.
Qed.

Lemma emit_terminal ph t : term_ok t -> emit_elem ph (EStr (escape t)) = Ok t.
Proof.
  intros [Hlt [Hpl Hov]]. unfold emit_elem.
  rewrite replace_absent by (apply no_lt_infix; apply escape_no_lt; exact Hlt).
  apply bnf_roundtrip_decl; assumption.
Qed.

Theorem no_lt_alt_identity ph a :
  Forall (fun e => if is_nt e then nt_ok e else term_ok e) a ->
  emit_alt ph (print_elems a) = Ok (concat a).
Proof.
  intros H. destruct a as [|e0 a0]; [reflexivity|].
  unfold print_elems. remember (e0 :: a0) as a eqn:Ea. clear Ea e0 a0.
  induction H as [|e a He Ha IH]; [reflexivity|].
  cbn [map emit_alt concat].
  destruct (is_nt e).
  - unfold emit_elem. rewrite unescape_nt by exact He. cbn [bind]. rewrite IH. reflexivity.
  - rewrite emit_terminal by exact He. cbn [bind]. rewrite IH. reflexivity.
Qed.

Definition ex_alt : list str := [[60; 97; 62]; [120; 92; 110; 34; 10; 955]; [60; 98; 62]].
Example no_lt_alt_example :
  Forall (fun e => if is_nt e then nt_ok e else term_ok e) ex_alt /\
  print_elems ex_alt <> map EStr ex_alt.
Proof.
  split.
  - repeat constructor; cbn; try (intros H; repeat (destruct H as [H|H]; [discriminate H|]); exact H);
      try (unfold no_placeholder; rewrite <- str_infixb_spec; vm_compute; discriminate);
      try (rewrite <- str_infixb_spec; vm_compute; discriminate).
  - vm_compute. discriminate.
Qed.
