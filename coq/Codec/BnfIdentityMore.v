(* C11 (proof extension) — identity clause at GRAMMAR level:
   parse_bnf (unparse_grammar g) = g when no terminal contains '<', through the printer,
   the token rules, the parser rules, instantiate_escaped_symbols and BnfEmitter.exitBnf_grammar
   (free <langle> name, placeholder instantiation, dict assignment, reachability test). *)
From ISLA Require Import Str Outcome Grammar BnfEscape BnfEscapeFacts BnfSplitMore BnfLexMore.
From Coq Require Import List NArith Bool Lia.
Import ListNotations.
Local Open Scope N_scope.

(* ---------- small list facts ---------- *)
Lemma mem_str_spec x l : mem_str x l = true <-> In x l.
Proof.
  unfold mem_str. rewrite existsb_exists. split.
  - intros [y [Hy E]]. apply str_eqb_eq in E. subst. exact Hy.
  - intros H. exists x. split; [exact H | apply str_eqb_refl].
Qed.

Lemma mem_str_false x l : mem_str x l = false <-> ~ In x l.
Proof.
  split.
  - intros H Hin. apply mem_str_spec in Hin. congruence.
  - intros H. destruct (mem_str x l) eqn:E; [|reflexivity]. apply mem_str_spec in E. contradiction.
Qed.

Lemma existsb_false_in {A} (f : A -> bool) l x : existsb f l = false -> In x l -> f x = false.
Proof.
  intros H Hin. destruct (f x) eqn:E; [|reflexivity].
  assert (Ht : existsb f l = true) by (apply existsb_exists; exists x; split; assumption). congruence.
Qed.

(* ---------- dict assignment ---------- *)
Lemma dict_set_fresh d k v : ~ In k (map fst d) -> dict_set d k v = d ++ [(k, v)].
Proof.
  induction d as [|[k' v'] d IH]; intros H; [reflexivity|].
  cbn [dict_set]. destruct (str_eqb k k') eqn:E.
  - apply str_eqb_eq in E. subst. exfalso. apply H. left. reflexivity.
  - rewrite IH; [reflexivity|]. intros H'. apply H. right. exact H'.
Qed.

Lemma fold_dict_set (F : list str -> list str) : forall (l acc : pygrammar),
  NoDup (map fst acc ++ map fst l) ->
  fold_left (fun d r => dict_set d (fst r) (F (snd r))) l acc
  = acc ++ map (fun r => (fst r, F (snd r))) l.
Proof.
  induction l as [|r l IH]; intros acc Hnd.
  - cbn. rewrite app_nil_r. reflexivity.
  - cbn [fold_left map]. rewrite dict_set_fresh.
    + rewrite IH.
      * rewrite <- app_assoc. reflexivity.
      * rewrite map_app. cbn [map]. rewrite <- app_assoc. exact Hnd.
    + cbn [map] in Hnd. apply NoDup_remove_2 in Hnd. intros H. apply Hnd. apply in_or_app. left. exact H.
Qed.

(* ---------- the free <langle> name ---------- *)
Definition valN_go (v : N) (s : str) : N := fold_left (fun v c => 10 * v + (c - 48)) s v.

Lemma dec_digits_val f : forall n acc,
  n < 10 ^ N.of_nat (S f) -> valN_go 0 (dec_digits (S f) n acc) = valN_go n acc.
Proof.
  induction f as [|f IH]; intros n acc Hn.
  - cbn [dec_digits]. change (10 ^ N.of_nat 1) with 10 in Hn.
    destruct (N.ltb_spec n 10) as [_|H]; [|lia].
    unfold valN_go. cbn [fold_left]. f_equal. rewrite N.mod_small by lia. lia.
  - remember (S f) as f1 eqn:Ef. cbn [dec_digits].
    destruct (N.ltb_spec n 10) as [Hlt|Hge].
    + unfold valN_go. cbn [fold_left]. f_equal. rewrite N.mod_small by lia. lia.
    + rewrite IH.
      * unfold valN_go. cbn [fold_left]. f_equal.
        pose proof (N.div_mod' n 10) as Hd. clear - Hd. generalize dependent (n / 10). generalize (n mod 10). intros; lia.
      * rewrite Nat2N.inj_succ, N.pow_succ_r' in Hn. apply N.div_lt_upper_bound; [lia | exact Hn].
Qed.

Definition big : N := 10 ^ 20.

Lemma langle_name_inj i j :
  N.of_nat i < big -> N.of_nat j < big -> langle_name i = langle_name j -> i = j.
Proof.
  intros Hi Hj H. unfold big in *. destruct i as [|i], j as [|j].
  - reflexivity.
  - unfold langle_name in H. apply app_inv_head in H. discriminate H.
  - unfold langle_name in H. apply app_inv_head in H. discriminate H.
  - unfold langle_name in H. apply app_inv_head in H. cbn [app] in H. pose proof (f_equal (@tl N) H) as H1. cbn [tl] in H1.
    apply app_inv_tail in H1.
    assert (Bi : N.of_nat i < 10 ^ N.of_nat 20) by (change (10 ^ N.of_nat 20) with (10 ^ 20); lia).
    assert (Bj : N.of_nat j < 10 ^ N.of_nat 20) by (change (10 ^ N.of_nat 20) with (10 ^ 20); lia).
    pose proof (dec_digits_val 19 (N.of_nat i) [] Bi) as Ei.
    pose proof (dec_digits_val 19 (N.of_nat j) [] Bj) as Ej.
    change (valN_go (N.of_nat i) []) with (N.of_nat i) in Ei.
    change (valN_go (N.of_nat j) []) with (N.of_nat j) in Ej.
    rewrite H1 in Ei. assert (E : N.of_nat i = N.of_nat j) by congruence.
    apply Nat2N.inj in E. congruence.
Qed.

Lemma free_langle_name fuel : forall k d, exists j, free_langle fuel k d = langle_name j.
Proof.
  induction fuel as [|f IH]; intros k d; cbn [free_langle]; [eexists; reflexivity|].
  destruct (mem_str (langle_name k) d); [apply IH | eexists; reflexivity].
Qed.

Lemma free_langle_all fuel : forall k d,
  mem_str (free_langle fuel k d) d = true ->
  forall j, (k <= j <= k + fuel)%nat -> mem_str (langle_name j) d = true.
Proof.
  induction fuel as [|f IH]; intros k d H j Hj; cbn [free_langle] in H.
  - assert (j = k) by lia. subst. exact H.
  - destruct (mem_str (langle_name k) d) eqn:Hk.
    + destruct (Nat.eq_dec j k) as [E|E]; [subst; exact Hk|]. apply (IH (S k) d H). lia.
    + rewrite Hk in H. discriminate H.
Qed.

Lemma NoDup_map_inj {A B} (f : A -> B) l :
  (forall x y, In x l -> In y l -> f x = f y -> x = y) -> NoDup l -> NoDup (map f l).
Proof.
  intros Hinj Hnd. induction Hnd as [|a l Ha Hnd IH]; [constructor|].
  cbn [map]. constructor.
  - intros H. apply in_map_iff in H as [y [Hy Hin]]. apply Ha.
    assert (y = a) by (apply Hinj; [right; exact Hin | left; reflexivity | exact Hy]). subst. exact Hin.
  - apply IH. intros x y Hx Hy. apply Hinj; right; assumption.
Qed.

Lemma free_langle_fresh (d : list str) :
  N.of_nat (length d) < big -> ~ In (free_langle (S (length d)) O d) d.
Proof.
  intros Hb Hin. apply mem_str_spec in Hin.
  pose proof (free_langle_all _ _ _ Hin) as Hall.
  assert (Hincl : incl (map langle_name (seq 0 (S (length d)))) d).
  { intros x Hx. apply in_map_iff in Hx as [j [Hj Hs]]. subst x. apply in_seq in Hs.
    apply mem_str_spec. apply Hall. lia. }
  assert (Hnd : NoDup (map langle_name (seq 0 (S (length d))))).
  { apply NoDup_map_inj; [|apply seq_NoDup].
    intros x y Hx Hy. apply in_seq in Hx. apply in_seq in Hy. apply langle_name_inj; lia. }
  pose proof (NoDup_incl_length Hnd Hincl) as Hlen. rewrite map_length, seq_length in Hlen. lia.
Qed.

Lemma langle_not_start j : langle_name j <> s_start.
Proof. destruct j; unfold langle_name, langle_base, s_start; cbn [app]; intros H; discriminate H. Qed.

(* ---------- reachable_nonterminals: an invariant of the saturation ---------- *)
Lemma fold_add_in x l : forall acc,
  In x (fold_left (fun acc x => if mem_str x acc then acc else acc ++ [x]) l acc) -> In x acc \/ In x l.
Proof.
  induction l as [|y l IH]; intros acc H; [left; exact H|].
  cbn [fold_left] in H. apply IH in H as [H|H].
  - destruct (mem_str y acc); [left; exact H|].
    apply in_app_or in H as [H|[H|[]]]; [left; exact H | right; left; exact H].
  - right. right. exact H.
Qed.

Lemma py_alts_in (g : pygrammar) A al : In al (py_alts g A) -> exists r, In r g /\ In al (snd r).
Proof.
  induction g as [|[B bl] g IH]; intros H; [contradiction|].
  cbn [py_alts] in H. destruct (str_eqb A B).
  - exists (B, bl). split; [left; reflexivity | exact H].
  - destruct (IH H) as [r [Hr Hal]]. exists r. split; [right; exact Hr | exact Hal].
Qed.

Lemma reach_iter_inv (g : pygrammar) (P : str -> Prop) :
  (forall r s n, In r g -> In s (snd r) -> In n (nonterminals s) -> P n) ->
  forall fuel seen, (forall x, In x seen -> P x) -> forall x, In x (reach_iter fuel g seen) -> P x.
Proof.
  intros Hcl. induction fuel as [|f IH]; intros seen Hs x Hx; [apply Hs; exact Hx|].
  cbn [reach_iter] in Hx. apply (IH (reach_step g seen)); [|exact Hx].
  intros y Hy. unfold reach_step in Hy. apply fold_add_in in Hy as [Hy|Hy]; [apply Hs; exact Hy|].
  apply in_flat_map in Hy as [A [_ Hy]]. apply in_flat_map in Hy as [s [Hs1 Hn]].
  apply py_alts_in in Hs1 as [r [Hr Hs1]]. apply (Hcl r s y); assumption.
Qed.

(* ---------- declarative conditions ---------- *)
(* every nonterminal used on a right-hand side has a rule (is_valid_grammar) *)
Definition closed_py (g : pygrammar) : Prop :=
  forall r s n, In r g -> In s (snd r) -> In n (nonterminals s) -> In n (map fst g).
(* keys are NONTERMINAL tokens, every rule has an alternative, keys are distinct (a dict) *)
Definition wf_py (g : pygrammar) : Prop :=
  g <> [] /\ NoDup (map fst g) /\ Forall (fun r => ntok_shape (fst r) /\ snd r <> []) g /\ closed_py g.
(* the emitter's placeholder nonterminal does not occur in the grammar *)
Definition ph_fresh (ph : str) (g : pygrammar) : Prop :=
  forall r s, In r g -> In s (snd r) -> ~ infix (ph_nt ph) s.

(* a symbol of a canonical alternative in the identity clause *)
Definition elem_id_ok (e : str) : Prop := if is_nt e then ntok_shape e /\ nt_ok e else term_ok e.

Lemma nt_exact_shape e : nt_exact e -> e <> [c_lt; c_gt] -> ntok_shape e.
Proof.
  intros [body [He Hb]] Hne. exists body. split; [exact He|]. split.
  - intros E. subst body. apply Hne. exact He.
  - rewrite Forall_forall in *. intros x Hx. destruct (Hb x Hx) as [H1 [H2 _]]. split; assumption.
Qed.

Lemma infixb_false pat s : str_infixb pat s = false -> ~ infix pat s.
Proof. intros H Hi. apply str_infixb_spec in Hi. congruence. Qed.

Lemma existsb_eqb_false a s : existsb (N.eqb a) s = false -> ~ In a s.
Proof. intros H Hin. pose proof (existsb_false_in _ _ _ H Hin) as E. rewrite N.eqb_refl in E. discriminate E. Qed.

(* the nonterminal symbols of the canonical form obey the lexer rule and are not unescaped *)
Lemma nt_elem_ok (g : pygrammar) r s e :
  K_nt_escape g = false -> K_empty_nt g = false ->
  In r g -> In s (snd r) -> In e (split_expansion s) -> is_nt e = true ->
  ntok_shape e /\ nt_ok e.
Proof.
  intros Hesc Hemp Hr Hs He Hnt.
  assert (Hin : In e (grammar_nts g)).
  { unfold grammar_nts. apply in_or_app. right. apply in_flat_map. exists r. split; [exact Hr|].
    apply in_flat_map. exists s. split; [exact Hs|]. unfold nonterminals. apply filter_In. split; assumption. }
  destruct (split_expansion_ok s) as [Hok _]. rewrite Forall_forall in Hok.
  pose proof (Hok e He) as Hte. unfold tok_ok in Hte. rewrite Hnt in Hte.
  split.
  - apply nt_exact_shape; [exact Hte|]. intros E. subst e.
    unfold K_empty_nt in Hemp. apply mem_str_false in Hemp. contradiction.
  - unfold K_nt_escape in Hesc. pose proof (existsb_false_in _ _ _ Hesc Hin) as Hf. cbn beta in Hf.
    apply orb_false_iff in Hf as [H1 H2]. split.
    + apply (existsb_eqb_false 92). exact H1.
    + apply infixb_false. exact H2.
Qed.

Lemma elems_id_ok (g : pygrammar) r s :
  existsb (fun r => has_lt (snd r)) g = false ->
  existsb K_besc (g_terminals g) = false -> existsb K_besc_overlap (g_terminals g) = false ->
  K_nt_escape g = false -> K_empty_nt g = false ->
  In r g -> In s (snd r) -> Forall elem_id_ok (split_expansion s).
Proof.
  intros Hlt Hb Hov Hesc Hemp Hr Hs. rewrite Forall_forall. intros e He. unfold elem_id_ok.
  destruct (is_nt e) eqn:Hnt.
  - apply (nt_elem_ok g r s e); assumption.
  - assert (Hin : In e (g_terminals g)).
    { unfold g_terminals. apply in_flat_map. exists r. split; [exact Hr|]. apply filter_In.
      split; [|rewrite Hnt; reflexivity]. apply in_flat_map. exists s. split; assumption. }
    pose proof (existsb_false_in _ _ _ Hlt Hr) as H1. cbn beta in H1. unfold has_lt in H1.
    assert (He' : In e (flat_map split_expansion (snd r))) by (apply in_flat_map; exists s; split; assumption).
    pose proof (existsb_false_in _ _ _ H1 He') as H2. cbn beta in H2. rewrite Hnt in H2. cbn [negb andb] in H2.
    pose proof (existsb_false_in _ _ _ Hb Hin) as H3. pose proof (existsb_false_in _ _ _ Hov Hin) as H4.
    unfold K_besc in H3. unfold K_besc_overlap in H4. apply orb_false_iff in H4 as [H4 H5].
    split; [apply (existsb_eqb_false c_lt); exact H2|]. split; [apply infixb_false; exact H3|].
    split; apply infixb_false; assumption.
Qed.

(* ---------- lexer + parser on the printed grammar (no assumption on terminals) ---------- *)
Lemma canonical_lex_ok (g : pygrammar) :
  Forall (fun r => ntok_shape (fst r) /\ snd r <> []) g ->
  K_empty_nt g = false ->
  Forall rule_lex_ok (canonical g).
Proof.
  intros Hk Hemp. unfold canonical. rewrite Forall_forall in *. intros cr Hcr.
  apply in_map_iff in Hcr as [r [E Hr]]. subst cr. destruct (Hk r Hr) as [Hks _].
  split; [exact Hks|]. cbn [snd]. rewrite Forall_forall. intros a Ha.
  apply in_map_iff in Ha as [s [E Hs]]. subst a. rewrite Forall_forall. intros e He Hnt.
  destruct (split_expansion_ok s) as [Hok _]. rewrite Forall_forall in Hok.
  pose proof (Hok e He) as Hte. unfold tok_ok in Hte. rewrite Hnt in Hte.
  apply nt_exact_shape; [exact Hte|]. intros E. subst e.
  unfold K_empty_nt in Hemp. apply mem_str_false in Hemp. apply Hemp.
  unfold grammar_nts. apply in_or_app. right. apply in_flat_map. exists r. split; [exact Hr|].
  apply in_flat_map. exists s. split; [exact Hs|]. unfold nonterminals. apply filter_In. split; assumption.
Qed.

Theorem front_end ph (g : pygrammar) :
  g <> [] -> Forall (fun r => ntok_shape (fst r) /\ snd r <> []) g -> K_empty_nt g = false ->
  parse_bnf ph (unparse_grammar g) = emit_grammar ph (map prule_of (canonical g)).
Proof.
  intros Hne Hk Hemp. unfold parse_bnf, unparse_grammar.
  rewrite lex_printed by (apply canonical_lex_ok; assumption). cbn [bind].
  rewrite parse_printed; [reflexivity | |].
  - destruct g; [contradiction | discriminate].
  - unfold canonical. rewrite Forall_forall in *. intros cr Hcr.
    apply in_map_iff in Hcr as [r [E Hr]]. subst cr. cbn [snd]. destruct (Hk r Hr) as [_ Hal].
    destruct (snd r); [contradiction | discriminate].
Qed.

(* ---------- emitter: rules ---------- *)
Lemma elem_id_alt ph a : Forall elem_id_ok a -> emit_alt ph (print_elems a) = Ok (concat a).
Proof.
  intros H. apply no_lt_alt_identity. rewrite Forall_forall in *. intros e He.
  specialize (H e He). unfold elem_id_ok in H. destruct (is_nt e); [destruct H as [_ H]; exact H | exact H].
Qed.

Lemma emit_alts_id ph (al : list (list str)) :
  Forall (Forall elem_id_ok) al -> emit_alts ph (map print_elems al) = Ok (map (@concat chr) al).
Proof.
  induction 1 as [|a al Ha Hal IH]; [reflexivity|].
  cbn [map emit_alts]. rewrite elem_id_alt by exact Ha. cbn [bind]. rewrite IH. reflexivity.
Qed.

Lemma emit_rules_id ph (cg : grammar) :
  Forall (fun r => Forall (Forall elem_id_ok) (snd r)) cg ->
  emit_rules ph (map prule_of cg) = Ok (map (fun r => (fst r, map (@concat chr) (snd r))) cg).
Proof.
  induction 1 as [|r cg Hr Hcg IH]; [reflexivity|].
  cbn [map]. unfold prule_of at 1. cbn [emit_rules]. rewrite emit_alts_id by exact Hr. cbn [bind].
  rewrite IH. reflexivity.
Qed.

Lemma canonical_concat (g : pygrammar) :
  map (fun r => (fst r, map (@concat chr) (snd r))) (canonical g) = g.
Proof.
  unfold canonical. rewrite map_map. rewrite <- (map_id g) at 2. apply map_ext. intros [k al]. cbn [fst snd].
  f_equal. rewrite map_map. rewrite <- (map_id al) at 2. apply map_ext. intros s. apply split_expansion_concat.
Qed.

(* ---------- emitter: exitBnf_grammar when nothing was replaced ---------- *)
Lemma nonterminals_lt : nonterminals [c_lt] = [].
Proof. reflexivity. Qed.

Lemma emit_tail_id ph (g : pygrammar) :
  NoDup (map fst g) -> closed_py g -> N.of_nat (length g) < big -> ph_fresh ph g ->
  (let defined := map fst g in
   let free := free_langle (S (length defined)) O defined in
   let result := fold_left (fun d r => dict_set d (fst r)
                               (map (str_replace (ph_nt ph) free) (snd r))) g [] in
   if mem_str free (reachable (dict_set result free [[c_lt]]))
   then Ok (dict_set result free [[c_lt]]) else Ok result) = Ok g.
Proof.
  intros Hnd Hcl Hbig Hph. cbv zeta.
  set (free := free_langle (S (length (map fst g))) O (map fst g)).
  assert (Hfree : ~ In free (map fst g)).
  { apply free_langle_fresh. rewrite map_length. exact Hbig. }
  rewrite (fold_dict_set (map (str_replace (ph_nt ph) free)) g []) by exact Hnd.
  cbn [app].
  assert (Hid : map (fun r : str * list str => (fst r, map (str_replace (ph_nt ph) free) (snd r))) g = g).
  { rewrite <- (map_id g) at 2. apply map_ext_in. intros [k al] Hr. cbn [fst snd]. f_equal.
    rewrite <- (map_id al) at 2. apply map_ext_in. intros s Hs. apply replace_absent.
    destruct (str_infixb (ph_nt ph) s) eqn:E; [|reflexivity]. apply str_infixb_spec in E.
    exfalso. apply (Hph (k, al) s Hr Hs). exact E. }
  rewrite Hid. rewrite dict_set_fresh by exact Hfree.
  match goal with |- context [mem_str ?a ?b] => assert (Hm : mem_str a b = false) end; [|rewrite Hm; reflexivity].
  apply mem_str_false. intros Hm. unfold reachable in Hm.
  assert (HP : free = s_start \/ In free (map fst g)).
  { apply (reach_iter_inv (g ++ [(free, [[c_lt]])]) (fun n => n = s_start \/ In n (map fst g)))
      with (fuel := S (S (length (g ++ [(free, [[c_lt]])])))) (seen := [s_start]); [| |exact Hm].
    - intros r s n Hr Hs Hn. apply in_app_or in Hr as [Hr|[Hr|[]]].
      + right. apply (Hcl r s n); assumption.
      + subst r. cbn [snd] in Hs. destruct Hs as [Hs|[]]. subst s. rewrite nonterminals_lt in Hn. contradiction.
    - intros x [Hx|[]]. left. symmetry. exact Hx. }
  destruct HP as [E|H]; [|contradiction].
  destruct (free_langle_name (S (length (map fst g))) O (map fst g)) as [j Hj].
  fold free in Hj. rewrite Hj in E. exact (langle_not_start j E).
Qed.

(* ---------- identity clause, grammar level ---------- *)
Theorem no_lt_identity ph (g : pygrammar) :
  wf_py g -> N.of_nat (length g) < big -> ph_fresh ph g ->
  existsb (fun r => has_lt (snd r)) g = false ->
  existsb K_besc (g_terminals g) = false -> existsb K_besc_overlap (g_terminals g) = false ->
  K_nt_escape g = false -> K_empty_nt g = false ->
  parse_bnf ph (unparse_grammar g) = Ok g.
Proof.
  intros [Hne [Hnd [Hk Hcl]]] Hbig Hph Hlt Hb Hov Hesc Hemp.
  rewrite front_end by assumption. unfold emit_grammar.
  rewrite emit_rules_id.
  - rewrite canonical_concat. cbn [bind]. apply emit_tail_id; assumption.
  - unfold canonical. rewrite Forall_forall. intros cr Hcr.
    apply in_map_iff in Hcr as [r [E Hr]]. subst cr. cbn [snd]. rewrite Forall_forall. intros a Ha.
    apply in_map_iff in Ha as [s [E Hs]]. subst a. apply (elems_id_ok g r s); assumption.
Qed.

(* non-vacuity: two rules, an empty alternative, escapes, a wide character, <langle> defined *)
Definition ex_grammar : pygrammar :=
  [ ([60; 115; 116; 97; 114; 116; 62], [[60; 97; 62; 120; 92; 110; 34; 10; 955; 60; 97; 62]; [60; 108; 97; 110; 103; 108; 101; 62]]);
    ([60; 97; 62], [[]; [34; 32; 124; 32; 58; 58; 61; 35]]);
    ([60; 108; 97; 110; 103; 108; 101; 62], [[62; 59]]) ].
Definition ex_ph : str := [80; 72].

Lemma infix_dec_false pat s : str_infixb pat s = false -> ~ infix pat s.
Proof. exact (infixb_false pat s). Qed.

Example no_lt_identity_example :
  wf_py ex_grammar /\ N.of_nat (length ex_grammar) < big /\ ph_fresh ex_ph ex_grammar /\
  existsb (fun r => has_lt (snd r)) ex_grammar = false /\
  existsb K_besc (g_terminals ex_grammar) = false /\ existsb K_besc_overlap (g_terminals ex_grammar) = false /\
  K_nt_escape ex_grammar = false /\ K_empty_nt ex_grammar = false /\
  unparse_grammar ex_grammar <> [] .
Proof.
  split.
  { split; [discriminate|]. split.
    - repeat constructor; cbn; intros H; repeat (destruct H as [H|H]; [discriminate H|]); exact H.
    - split.
      + repeat constructor; try discriminate.
        * exists [115; 116; 97; 114; 116]. split; [reflexivity|]. split; [discriminate|].
          repeat constructor; discriminate.
        * exists [97]. split; [reflexivity|]. split; [discriminate|]. repeat constructor; discriminate.
        * exists [108; 97; 110; 103; 108; 101]. split; [reflexivity|]. split; [discriminate|].
          repeat constructor; discriminate.
      + intros r s n Hr Hs Hn.
        repeat (destruct Hr as [Hr|Hr]; [subst r; cbn [snd] in Hs;
          repeat (destruct Hs as [Hs|Hs]; [subst s; vm_compute in Hn;
             repeat (destruct Hn as [Hn|Hn]; [subst n; vm_compute; tauto|]); contradiction|]); contradiction|]).
        contradiction. }
  split; [vm_compute; reflexivity|]. split.
  { intros r s Hr Hs.
    repeat (destruct Hr as [Hr|Hr]; [subst r; cbn [snd] in Hs;
      repeat (destruct Hs as [Hs|Hs]; [subst s; apply infixb_false; vm_compute; reflexivity|]); contradiction|]).
    contradiction. }
  repeat split; try (vm_compute; reflexivity). vm_compute. discriminate.
Qed.
