(* C11 (proof extension) — specification of helpers.canonical / split_expansion:
   the pieces of RE_NONTERMINAL.split are exact nonterminals <[^<> ]*> and maximal,
   non-empty terminal stretches none of whose suffixes starts with a nonterminal; their
   concatenation is the original expansion string. *)
From ISLA Require Import Str Outcome Grammar BnfEscape BnfEscapeFacts.
From Coq Require Import List NArith Bool Lia.
Import ListNotations.
Local Open Scope N_scope.

Definition nt_chr (x : chr) : Prop := x <> c_lt /\ x <> c_gt /\ x <> c_sp.
(* exactly one match of <[^<> ]*> *)
Definition nt_exact (e : str) : Prop := exists body, e = c_lt :: body ++ [c_gt] /\ Forall nt_chr body.
(* no suffix starts with a nonterminal *)
Definition clean (t : str) : Prop := forall pre suf, t = pre ++ suf -> is_nt suf = false.
Definition tok_ok (e : str) : Prop := if is_nt e then nt_exact e else (e <> [] /\ clean e).

(* no empty piece, never two terminals in a row *)
Fixpoint altb (prev_term : bool) (toks : list str) : bool :=
  match toks with
  | [] => true
  | e :: r => if is_nt e then altb false r
              else negb prev_term && negb (is_nil e) && altb true r
  end.

Lemma nt_body_len_spec s : forall n, nt_body_len s = Some n ->
  exists body r, s = body ++ c_gt :: r /\ n = S (length body) /\ Forall nt_chr body.
Proof.
  induction s as [|c s IH]; intros n H; [discriminate|].
  cbn [nt_body_len] in H.
  destruct (N.eqb_spec c c_gt) as [E|E].
  - inversion H; subst. exists [], s. repeat split. constructor.
  - destruct (N.eqb_spec c c_lt) as [E1|E1]; [discriminate|].
    destruct (N.eqb_spec c c_sp) as [E2|E2]; [discriminate|]. cbn [orb] in H.
    destruct (nt_body_len s) as [m|] eqn:Hm; [|discriminate]. inversion H; subst.
    destruct (IH m eq_refl) as [body [r [Hs [Hn Hb]]]].
    exists (c :: body), r. subst. repeat split. constructor; [|exact Hb]. repeat split; assumption.
Qed.

Lemma nt_body_len_app body r :
  Forall nt_chr body -> nt_body_len (body ++ c_gt :: r) = Some (S (length body)).
Proof.
  induction body as [|c body IH]; intros H.
  - cbn. reflexivity.
  - inversion H as [|c' b' [H1 [H2 H3]] Hb]; subst. cbn [app nt_body_len length].
    destruct (N.eqb_spec c c_gt) as [E|_]; [contradiction|].
    destruct (N.eqb_spec c c_lt) as [E|_]; [contradiction|].
    destruct (N.eqb_spec c c_sp) as [E|_]; [contradiction|]. cbn [orb].
    rewrite IH by exact Hb. reflexivity.
Qed.

Lemma nt_match_spec s n : nt_match s = Some n ->
  exists body r, s = c_lt :: body ++ c_gt :: r /\ n = S (S (length body)) /\ Forall nt_chr body.
Proof.
  destruct s as [|c s]; [discriminate|]. cbn [nt_match].
  destruct (N.eqb_spec c c_lt) as [E|E]; [|discriminate]. subst c.
  destruct (nt_body_len s) as [m|] eqn:Hm; [|discriminate]. intros H. inversion H; subst.
  destruct (nt_body_len_spec s m Hm) as [body [r [Hs [Hn Hb]]]].
  exists body, r. subst. repeat split. exact Hb.
Qed.

Lemma nt_match_app body r :
  Forall nt_chr body -> nt_match (c_lt :: body ++ c_gt :: r) = Some (S (S (length body))).
Proof. intros H. cbn [nt_match]. rewrite N.eqb_refl. rewrite nt_body_len_app by exact H. reflexivity. Qed.

Lemma nt_body_len_body s : nt_body s = match nt_body_len s with Some _ => true | None => false end.
Proof.
  induction s as [|c s IH]; [reflexivity|]. cbn [nt_body nt_body_len].
  destruct (N.eqb c c_gt); [reflexivity|].
  destruct (N.eqb c c_lt || N.eqb c c_sp); [reflexivity|].
  rewrite IH. destruct (nt_body_len s); reflexivity.
Qed.

Lemma is_nt_match s : is_nt s = match nt_match s with Some _ => true | None => false end.
Proof.
  destruct s as [|c s]; [reflexivity|]. cbn [is_nt nt_match].
  destruct (N.eqb c c_lt); [|reflexivity]. cbn [andb]. rewrite nt_body_len_body.
  destruct (nt_body_len s); reflexivity.
Qed.

Lemma nt_match_mono s r n : nt_match s = Some n -> nt_match (s ++ r) = Some n.
Proof.
  intros H. destruct (nt_match_spec s n H) as [body [r0 [Hs [Hn Hb]]]]. subst.
  cbn [app]. rewrite <- app_assoc. cbn [app]. apply nt_match_app. exact Hb.
Qed.

Lemma nt_exact_is_nt e : nt_exact e -> is_nt e = true.
Proof.
  intros [body [He Hb]]. subst. rewrite is_nt_match.
  change (c_lt :: body ++ [c_gt]) with (c_lt :: body ++ c_gt :: []).
  rewrite nt_match_app by exact Hb. reflexivity.
Qed.

Lemma nt_exact_match e r : nt_exact e -> nt_match (e ++ r) = Some (length e).
Proof.
  intros [body [He Hb]]. subst. cbn [app]. rewrite <- app_assoc. cbn [app].
  rewrite nt_match_app by exact Hb. cbn [length]. rewrite app_length. cbn [length]. f_equal. lia.
Qed.

Lemma nt_match_firstn s n : nt_match s = Some n ->
  nt_exact (firstn n s) /\ length (firstn n s) = n.
Proof.
  intros H. destruct (nt_match_spec s n H) as [body [r [Hs [Hn Hb]]]]. subst.
  assert (E : firstn (S (S (length body))) (c_lt :: body ++ c_gt :: r) = c_lt :: body ++ [c_gt]).
  { replace (body ++ c_gt :: r) with ((body ++ [c_gt]) ++ r) by (rewrite <- app_assoc; reflexivity).
    replace (S (length body)) with (length (body ++ [c_gt])) by (rewrite app_length; cbn; lia).
    rewrite firstn_cons. f_equal. apply firstn_len_app. }
  rewrite E. split.
  - exists body. split; [reflexivity | exact Hb].
  - cbn [length]. rewrite app_length. cbn. lia.
Qed.

(* ---------- concatenation of the pieces ---------- *)
Lemma concat_flush buf : concat (flush buf) = buf.
Proof. destruct buf; [reflexivity|]. cbn. rewrite app_nil_r. reflexivity. Qed.

Lemma split_go_concat s : forall skip buf, concat (split_go skip buf s) = buf ++ skipn skip s.
Proof.
  induction s as [|c s IH]; intros skip buf.
  - cbn [split_go]. rewrite concat_flush. destruct skip; cbn [skipn]; rewrite app_nil_r; reflexivity.
  - cbn [split_go]. destruct skip as [|k].
    + destruct (nt_match (c :: s)) as [n|] eqn:Hm.
      * rewrite concat_app, concat_flush. cbn [concat]. rewrite IH. cbn [app skipn].
        f_equal. destruct n as [|m].
        { apply nt_match_spec in Hm as [b [r [_ [Hn _]]]]. discriminate. }
        cbn [firstn pred]. cbn [app]. f_equal. apply firstn_skipn.
      * rewrite IH. rewrite <- app_assoc. reflexivity.
    + rewrite IH. reflexivity.
Qed.

Lemma split_expansion_concat s : concat (split_expansion s) = s.
Proof. unfold split_expansion. rewrite split_go_concat. reflexivity. Qed.

(* ---------- shape of the pieces ---------- *)
Definition buf_inv (buf s : str) : Prop :=
  forall pre suf, buf = pre ++ suf -> suf <> [] -> nt_match (suf ++ s) = None.

Lemma buf_inv_clean buf s : buf_inv buf s -> clean buf.
Proof.
  intros H pre suf E. destruct suf as [|a suf]; [reflexivity|].
  rewrite is_nt_match. destruct (nt_match (a :: suf)) as [n|] eqn:Hm; [|reflexivity].
  apply (nt_match_mono _ s) in Hm. rewrite (H pre (a :: suf) E) in Hm by discriminate. discriminate.
Qed.

Lemma buf_inv_snoc buf c s : buf_inv buf (c :: s) -> nt_match (c :: s) = None -> buf_inv (buf ++ [c]) s.
Proof.
  intros H Hc pre suf E Hne.
  destruct (exists_last Hne) as [suf0 [x Hx]]. subst suf.
  rewrite app_assoc in E. apply app_inj_tail in E as [E1 E2]. subst x.
  rewrite <- app_assoc. cbn [app].
  destruct suf0 as [|a suf0]; [exact Hc|].
  apply (H pre); [exact E1 | discriminate].
Qed.

Lemma buf_inv_nil s : buf_inv [] s.
Proof. intros pre suf E Hne. destruct pre; destruct suf; try discriminate. contradiction. Qed.

Lemma tok_ok_buf buf s : buf <> [] -> buf_inv buf s -> tok_ok buf.
Proof.
  intros Hne H. pose proof (buf_inv_clean buf s H) as Hc. unfold tok_ok.
  rewrite (Hc [] buf eq_refl). split; assumption.
Qed.

Lemma altb_flush buf X : buf <> [] -> is_nt buf = false -> altb true X = true ->
  altb false (flush buf ++ X) = true.
Proof.
  intros Hne Hnt HX. destruct buf as [|a b]; [contradiction|]. cbn [flush app altb].
  rewrite Hnt. cbn. exact HX.
Qed.

Lemma split_go_ok s : forall skip buf,
  (buf = [] \/ (skip = O /\ buf_inv buf s)) ->
  Forall tok_ok (split_go skip buf s) /\ altb false (split_go skip buf s) = true.
Proof.
  induction s as [|c s IH]; intros skip buf Hinv.
  - cbn [split_go]. destruct buf as [|a b]; [split; [constructor | reflexivity]|].
    destruct Hinv as [Hinv | [_ Hinv]]; [discriminate|].
    pose proof (tok_ok_buf (a :: b) [] ltac:(discriminate) Hinv) as Hok.
    split; [constructor; [exact Hok | constructor]|].
    cbn [flush altb]. pose proof (buf_inv_clean _ _ Hinv [] (a :: b) eq_refl) as Hn. rewrite Hn. reflexivity.
  - cbn [split_go]. destruct skip as [|k].
    + assert (Hinv' : buf_inv buf (c :: s)).
      { destruct Hinv as [E | [_ H]]; [subst; apply buf_inv_nil | exact H]. }
      destruct (nt_match (c :: s)) as [n|] eqn:Hm.
      * destruct (nt_match_firstn _ _ Hm) as [Hex _].
        destruct (IH (pred n) [] (or_introl eq_refl)) as [H1 H2].
        pose proof (nt_exact_is_nt _ Hex) as Hnt.
        assert (Hm_ok : tok_ok (firstn n (c :: s))) by (unfold tok_ok; rewrite Hnt; exact Hex).
        destruct buf as [|a b].
        { cbn [flush app]. split; [constructor; assumption|]. cbn [altb]. rewrite Hnt. exact H2. }
        split.
        { cbn [flush app]. constructor; [|constructor; assumption].
          apply (tok_ok_buf _ (c :: s)); [discriminate | exact Hinv']. }
        apply altb_flush; [discriminate | |].
        { apply (buf_inv_clean _ _ Hinv' [] (a :: b) eq_refl). }
        cbn [altb]. rewrite Hnt. exact H2.
      * apply IH. right. split; [reflexivity|]. apply buf_inv_snoc; assumption.
    + destruct Hinv as [E | [E _]]; [|discriminate]. subst buf. apply IH. left. reflexivity.
Qed.

Lemma split_expansion_ok s :
  Forall tok_ok (split_expansion s) /\ altb false (split_expansion s) = true.
Proof. apply split_go_ok. left. reflexivity. Qed.
