(* C17 — specification and proofs for the object model of Codec/TreeJson.v.

   Specification vocabulary (independent of the operations):
     erase x            the tree a live object denotes (labels, ids, open flags, children)
     yield (erase x)    its string                       (Tree.yield)
     healthy x          both k-path cache attributes exist on every node (k_paths cannot raise
                        AttributeError for a missing attribute)
     reset_kp x         x with empty k-path caches everywhere, every other slot unchanged
     observe / strip    the answers of the non-serialising operations of a history / the history
                        without its serialisations *)
From ISLA Require Import Str Path Outcome Tree TreeJson.
From Coq Require Import List NArith ZArith Bool Lia.
Import ListNotations.

Section ObjInd.
  Variable P : obj -> Prop.
  Hypothesis HN : forall l i o s ks, Forall P ks -> P (ONode l i o s ks).
  Fixpoint obj_ind' (x : obj) : P x :=
    match x with
    | ONode l i o s ks =>
        HN l i o s ks
           ((fix go (ks : list obj) : Forall P ks :=
               match ks with
               | [] => Forall_nil P
               | k :: r => Forall_cons k (obj_ind' k) (go r)
               end) ks)
    end.
End ObjInd.

(* ---------- specification side ---------- *)
Fixpoint healthy (x : obj) : Prop :=
  match x with
  | ONode _ _ _ s ks =>
      s_kp s <> None /\ s_ckp s <> None /\
      (fix all (ks : list obj) : Prop := match ks with [] => True | k :: r => healthy k /\ all r end) ks
  end.

Fixpoint reset_kp (x : obj) : obj :=
  match x with
  | ONode l i o s ks =>
      ONode l i o (mkSlots (s_len s) (s_hash s) (s_shash s) (s_open s) (Some []) (Some []))
            (map reset_kp ks)
  end.

Fixpoint odepth (x : obj) : nat :=
  match x with ONode _ _ _ _ ks => S (list_max (map odepth ks)) end.

(* open nodes have no children (representation invariant of encoded Python trees) *)
Fixpoint oshape (x : obj) : Prop :=
  match x with
  | ONode _ _ o _ ks =>
      (o = true -> ks = []) /\
      (fix all (ks : list obj) : Prop := match ks with [] => True | k :: r => oshape k /\ all r end) ks
  end.

Definition strip (ops : list (path * op)) : list (path * op) :=
  filter (fun po => negb (is_serial (snd po))) ops.

Fixpoint observe (ops : list (path * op)) (outs : list (res ans)) : list (res ans) :=
  match ops, outs with
  | (_, o) :: r, a :: outs' => if is_serial o then observe r outs' else a :: observe r outs'
  | _, _ => []
  end.

(* ---------- generic list facts ---------- *)
Lemma all_Forall (P : obj -> Prop) ks :
  (fix all (ks : list obj) : Prop := match ks with [] => True | k :: r => P k /\ all r end) ks
  <-> Forall P ks.
Proof.
  induction ks as [|k r IH]; split; intro Hx; auto.
  - destruct Hx as [Hk Hr]. constructor; [exact Hk | apply IH; exact Hr].
  - inversion Hx as [|k' r' Hk Hr]; subst. split; [exact Hk | apply IH; exact Hr].
Qed.

Lemma replace_nth_same {A} (l : list A) : forall i c,
  nth_error l i = Some c -> replace_nth i c l = l.
Proof.
  induction l as [|b r IH]; intros [|i] c Hn; simpl in *; try discriminate; auto.
  - inversion Hn; reflexivity.
  - rewrite IH; auto.
Qed.

Lemma map_replace_nth {A B} (f : A -> B) (l : list A) : forall i c c0,
  nth_error l i = Some c0 -> f c = f c0 -> map f (replace_nth i c l) = map f l.
Proof.
  induction l as [|b r IH]; intros [|i] c c0 Hn Hf; simpl in *; try discriminate; auto.
  - inversion Hn; subst. rewrite Hf. reflexivity.
  - erewrite IH; eauto.
Qed.

(* ---------- erase is preserved by every operation ---------- *)
Section Facts.
  Variable H : bool -> tree -> Z.
  Variable KP : bool -> tree -> N -> N.

  Lemma erase_fill_hash x : erase (fill_hash H x) = erase x.
  Proof.
    induction x as [l i o s ks IH] using obj_ind'. simpl. f_equal.
    rewrite map_map. apply map_ext_in. intros k Hk.
    rewrite Forall_forall in IH. apply IH. exact Hk.
  Qed.

  Lemma erase_fill_shash x : erase (fill_shash H x) = erase x.
  Proof.
    induction x as [l i o s ks IH] using obj_ind'. simpl. f_equal.
    rewrite map_map. apply map_ext_in. intros k Hk.
    rewrite Forall_forall in IH. apply IH. exact Hk.
  Qed.

  Lemma erase_touch_hash x : erase (touch_hash H x) = erase x.
  Proof. unfold touch_hash. destruct (s_hash (oslots x)); [reflexivity | apply erase_fill_hash]. Qed.

  Lemma erase_touch_shash x : erase (touch_shash H x) = erase x.
  Proof. unfold touch_shash. destruct (s_shash (oslots x)); [reflexivity | apply erase_fill_shash]. Qed.

  Lemma erase_with_slots x s : erase (with_slots x s) = erase x.
  Proof. destruct x; reflexivity. Qed.

  Lemma step_erase fx fuel p x : erase (snd (step H KP fx fuel p x)) = erase x.
  Proof.
    destruct p as [| | | | |pot k| |]; simpl.
    - apply erase_touch_hash.
    - destruct (s_len (oslots x)); simpl; [reflexivity|].
      rewrite erase_with_slots. apply erase_touch_hash.
    - apply erase_touch_hash.
    - apply erase_touch_shash.
    - destruct (s_open (oslots x)); simpl; [reflexivity | apply erase_with_slots].
    - destruct (if pot then s_kp (oslots x) else s_ckp (oslots x)) as [d|]; simpl; [|reflexivity].
      destruct (dlookup k d); simpl; [reflexivity|].
      destruct (negb (is_nt (lbl (erase x)))); simpl; [reflexivity | apply erase_with_slots].
    - unfold o_to_json. destruct fx; simpl; [reflexivity | apply erase_with_slots].
    - unfold o_to_json. destruct fx; simpl; [reflexivity | apply erase_with_slots].
  Qed.

  Lemma step_at_erase (f : obj -> res ans * obj) :
    (forall x, erase (snd (f x)) = erase x) ->
    forall p x, erase (snd (step_at f p x)) = erase x.
  Proof.
    intros Hf p. induction p as [|i p IH]; intros x; simpl; [apply Hf|].
    destruct x as [l id o s ks]. destruct (nth_error ks i) as [c|] eqn:Hn; [|reflexivity].
    specialize (IH c). destruct (step_at f p c) as [a c'] eqn:Hs. simpl in *.
    f_equal. eapply map_replace_nth; eauto.
  Qed.

  (* serialising, caching, hashing: the denoted tree (structure, ids) never changes *)
  Theorem run_erase fx fuel ops : forall x, erase (snd (run H KP fx fuel ops x)) = erase x.
  Proof.
    induction ops as [|[p o] r IH]; intros x; simpl; [reflexivity|].
    pose proof (step_at_erase (step H KP fx fuel o) (fun y => step_erase fx fuel o y) p x) as He.
    destruct (step_at (step H KP fx fuel o) p x) as [a x'] eqn:Hs. simpl in He.
    specialize (IH x'). destruct (run H KP fx fuel r x') as [l x''] eqn:Hr. simpl in *.
    congruence.
  Qed.

  (* str(tree) is the yield of the denoted tree *)
  Lemma o_string_yield x : o_string x = yield (erase x).
  Proof.
    induction x as [l i o s ks IH] using obj_ind'. simpl.
    destruct ks as [|k r]; [reflexivity|].
    change (flat_map o_string (k :: r) = flat_map yield (map erase (k :: r))).
    induction IH as [|k' r' Hk Hr IHr]; simpl; [reflexivity|].
    rewrite Hk, IHr. reflexivity.
  Qed.

  Theorem str_answer fx fuel x :
    fst (step H KP fx fuel OStr x) = Ok (AStr (yield (erase x))).
  Proof. simpl. rewrite o_string_yield, erase_touch_hash. reflexivity. Qed.

  (* ---------- to_json / from_json ---------- *)
  Lemma res_all_ok {A} (l : list (res A)) (vs : list A) :
    res_all l = Ok vs -> Forall2 (fun r v => r = Ok v) l vs.
  Proof.
    revert vs. induction l as [|r l IH]; intros vs Hr; simpl in Hr.
    - inversion Hr. constructor.
    - destruct r as [a|e]; simpl in Hr; [|discriminate].
      destruct (res_all l) as [t|e]; simpl in Hr; [|discriminate].
      inversion Hr; subst. constructor; [reflexivity | apply IH; reflexivity].
  Qed.

  Lemma from_list_ok (f : json -> option (res obj)) (g : obj -> obj) ks js flt :
    Forall2 (fun r v => r = Ok v) (map (j_node flt) ks) js ->
    Forall (fun k => forall j, j_node flt k = Ok j -> f j = Some (Ok (g k))) ks ->
    from_list f js = Some (Ok (map g ks)).
  Proof.
    revert js. induction ks as [|k r IH]; intros js H2 Hall; simpl in H2.
    - inversion H2. reflexivity.
    - inversion H2 as [|r0 j l0 js' Hj Hrest]; subst.
      inversion Hall as [|k0 r1 Hk Hr]; subst.
      simpl. rewrite (Hk j Hj). rewrite (IH js' Hrest Hr). reflexivity.
  Qed.

  Lemma jlookup_app_none k pre fs : jlookup k pre = None -> jlookup k (pre ++ fs) = jlookup k fs.
  Proof.
    induction pre as [|[k' v] pre IH]; simpl; [reflexivity|].
    destruct (jkey_eqb k k'); [discriminate | exact IH].
  Qed.

  Lemma kp_fields_lookup flt s kpf :
    kp_fields flt s = Ok kpf ->
    forall pre post,
      (forall k, k = KKp \/ k = KCkp -> jlookup k pre = None) ->
      (forall k, k = KKp \/ k = KCkp -> jlookup k post = None) ->
      j_kp (jlookup KKp (pre ++ kpf ++ post)) = Some (Some []) /\
      j_kp (jlookup KCkp (pre ++ kpf ++ post)) = Some (Some []).
  Proof.
    intros Hk pre post Hpre Hpost.
    rewrite (jlookup_app_none KKp pre) by (apply Hpre; auto).
    rewrite (jlookup_app_none KCkp pre) by (apply Hpre; auto).
    pose proof (Hpost KKp (or_introl eq_refl)) as Hp1.
    pose proof (Hpost KCkp (or_intror eq_refl)) as Hp2.
    unfold kp_fields in Hk. destruct flt.
    - inversion Hk; subst. simpl. rewrite Hp1, Hp2. split; reflexivity.
    - destruct (s_kp s) as [[|e1 d1]|]; simpl in Hk; try discriminate;
      destruct (s_ckp s) as [[|e2 d2]|]; simpl in Hk; try discriminate;
      inversion Hk; subst; simpl; rewrite ?Hp1, ?Hp2; split; reflexivity.
  Qed.

  Lemma list_max_In (l : list nat) n : In n l -> n <= list_max l.
  Proof.
    intro Hi. pose proof (proj1 (list_max_le l (list_max l)) (le_n _)) as Hf.
    rewrite Forall_forall in Hf. apply Hf. exact Hi.
  Qed.

  (* decoding what to_json wrote gives the same object with empty k-path caches *)
  Lemma from_dict_j_node flt x :
    forall j, oshape x -> j_node flt x = Ok j ->
    forall fuel, odepth x <= fuel -> from_dict fuel j = Some (Ok (reset_kp x)).
  Proof.
    induction x as [l i o s ks IH] using obj_ind'. intros j Hsh Hj fuel Hfuel.
    destruct fuel as [|f]; [simpl in Hfuel; lia|].
    simpl in Hj.
    destruct Hsh as [Hopen Hkids]. apply all_Forall in Hkids.
    destruct (kp_fields flt s) as [kpf|e] eqn:Hkp.
    2:{ destruct o; simpl in Hj; [discriminate|].
        destruct (res_all (map (j_node flt) ks)); simpl in Hj; discriminate. }
    pose proof (kp_fields_lookup flt s kpf Hkp
                  [(KValue, JStr l); (KChildren, if o then JNull else JNull); (KId, JInt (Z.of_N i));
                   (KLen, j_opt (fun n => JInt (Z.of_N n)) (s_len s));
                   (KHash, j_opt JInt (s_hash s)); (KSHash, j_opt JInt (s_shash s))]
                  [(KOpen, j_opt JBool (s_open s))]) as Hlook.
    assert (Hnode : forall jc o' ks',
               node_of_fields ([(KValue, JStr l); (KChildren, jc); (KId, JInt (Z.of_N i));
                   (KLen, j_opt (fun n => JInt (Z.of_N n)) (s_len s));
                   (KHash, j_opt JInt (s_hash s)); (KSHash, j_opt JInt (s_shash s))]
                  ++ kpf ++ [(KOpen, j_opt JBool (s_open s))]) o' ks'
               = Ok (ONode l i o' (mkSlots (s_len s) (s_hash s) (s_shash s) (s_open s) (Some []) (Some [])) ks')).
    { intros jc o' ks'. unfold node_of_fields.
      assert (Hop : jlookup KOpen (kpf ++ [(KOpen, j_opt JBool (s_open s))]) = Some (j_opt JBool (s_open s))).
      { unfold kp_fields in Hkp. destruct flt.
        - inversion Hkp; subst. reflexivity.
        - destruct (s_kp s) as [[|e1 d1]|]; simpl in Hkp; try discriminate;
          destruct (s_ckp s) as [[|e2 d2]|]; simpl in Hkp; try discriminate;
          inversion Hkp; subst; reflexivity. }
      assert (Hk1 : j_kp (jlookup KKp (kpf ++ [(KOpen, j_opt JBool (s_open s))])) = Some (Some [])
                    /\ j_kp (jlookup KCkp (kpf ++ [(KOpen, j_opt JBool (s_open s))])) = Some (Some [])).
      { apply (kp_fields_lookup flt s kpf Hkp [] [(KOpen, j_opt JBool (s_open s))]).
        - intros k Hk. reflexivity.
        - intros k [Hk|Hk]; subst; reflexivity. }
      destruct Hk1 as [Hk1 Hk2].
      cbn [jlookup jkey_eqb app]. rewrite Hop, Hk1, Hk2.
      rewrite N2Z.id.
      destruct (s_len s) as [n|]; destruct (s_hash s) as [h|]; destruct (s_shash s) as [h2|];
        destruct (s_open s) as [b|]; cbn; rewrite ?N2Z.id; reflexivity. }
    clear Hlook.
    destruct o.
    - (* open node *)
      simpl in Hj. inversion Hj; subst. rewrite (Hopen eq_refl).
      cbn [from_dict jlookup jkey_eqb app]. f_equal. apply (Hnode JNull true []).
    - destruct (res_all (map (j_node flt) ks)) as [js|e] eqn:Hall; simpl in Hj; [|discriminate].
      inversion Hj; subst.
      cbn [from_dict jlookup jkey_eqb app].
      rewrite (from_list_ok (from_dict f) reset_kp ks js flt (res_all_ok _ _ Hall)).
      + f_equal. apply (Hnode (JArr js) false (map reset_kp ks)).
      + rewrite Forall_forall in *. intros k Hk jk Hjk.
        apply IH; auto.
        simpl in Hfuel. pose proof (list_max_In (map odepth ks) (odepth k) (in_map _ _ _ Hk)). lia.
  Qed.

  Lemma erase_reset_kp x : erase (reset_kp x) = erase x.
  Proof.
    induction x as [l i o s ks IH] using obj_ind'. simpl. f_equal.
    rewrite map_map. apply map_ext_in. intros k Hk. rewrite Forall_forall in IH. auto.
  Qed.

  Lemma healthy_reset_kp x : healthy (reset_kp x).
  Proof.
    induction x as [l i o s ks IH] using obj_ind'. simpl.
    split; [discriminate|]. split; [discriminate|].
    apply all_Forall. rewrite Forall_forall in *. intros k Hk.
    apply in_map_iff in Hk as [k0 [Hk0 Hin]]. subst. auto.
  Qed.

  (* JSON round trip: whenever to_json returns, from_json of its result denotes the same tree
     (labels, ids, open leaves), has the same string, keeps the cached len/hash/is_open values
     and has both k-path caches present and empty *)
  Theorem json_roundtrip fx x j x' :
    oshape x -> o_to_json fx x = (Ok j, x') ->
    forall fuel, odepth x <= fuel ->
    exists y, from_dict fuel j = Some (Ok y) /\ erase y = erase x /\
              yield (erase y) = yield (erase x) /\ healthy y /\ y = reset_kp x.
  Proof.
    intros Hsh Hto fuel Hfuel. unfold o_to_json in Hto. destruct fx.
    - inversion Hto; subst. exists (reset_kp x').
      rewrite (from_dict_j_node true x' j Hsh H1 fuel Hfuel).
      rewrite erase_reset_kp.
      split; [reflexivity|]. split; [reflexivity|]. split; [reflexivity|].
      split; [apply healthy_reset_kp | reflexivity].
    - inversion Hto as [[Hj Hx]]. clear Hto.
      destruct x as [l i o s ks]. simpl in *.
      set (x1 := ONode l i o (set_ckp (set_kp s None) None) ks) in *.
      assert (Hsh1 : oshape x1) by exact Hsh.
      assert (Hd : odepth x1 <= fuel) by exact Hfuel.
      pose proof (from_dict_j_node false x1 j Hsh1 Hj fuel Hd) as Hfd.
      exists (reset_kp x1). rewrite Hfd. rewrite erase_reset_kp.
      split; [reflexivity|]. split; [reflexivity|]. split; [reflexivity|].
      split; [apply healthy_reset_kp | reflexivity].
  Qed.

  (* fixed to_json: total and pure *)
  Lemma j_node_filtered_total x : exists j, j_node true x = Ok j.
  Proof.
    induction x as [l i o s ks IH] using obj_ind'. simpl.
    assert (Hks : exists js, res_all (map (j_node true) ks) = Ok js).
    { induction IH as [|k r Hk Hr IHr]; simpl; [eexists; reflexivity|].
      destruct Hk as [jk Hjk]. destruct IHr as [js Hjs]. rewrite Hjk, Hjs. simpl. eexists; reflexivity. }
    destruct Hks as [js Hjs]. destruct o; simpl.
    - eexists; reflexivity.
    - rewrite Hjs. simpl. eexists; reflexivity.
  Qed.

  Theorem to_json_fixed_pure x : exists j, o_to_json true x = (Ok j, x).
  Proof. unfold o_to_json. destruct (j_node_filtered_total x) as [j Hj]. exists j. rewrite Hj. reflexivity. Qed.

  (* ---------- observational equivalence ---------- *)
  Lemma step_serial_fixed_state fuel p x : is_serial p = true -> snd (step H KP true fuel p x) = x.
  Proof. destruct p; simpl; intro Hs; try discriminate; reflexivity. Qed.

  Lemma step_at_state_id (f : obj -> res ans * obj) :
    (forall x, snd (f x) = x) -> forall p x, snd (step_at f p x) = x.
  Proof.
    intros Hf p. induction p as [|i p IH]; intros x; simpl; [apply Hf|].
    destruct x as [l id o s ks]. destruct (nth_error ks i) as [c|] eqn:Hn; [|reflexivity].
    specialize (IH c). destruct (step_at f p c) as [a c'] eqn:Hs. simpl in *. subst c'.
    rewrite (replace_nth_same ks i c Hn). reflexivity.
  Qed.

  (* FIXED to_json: for EVERY history, the answers of all other operations and the final state of
     the object are the same with and without the interleaved serialisations *)
  Theorem observational_eq_fixed fuel ops : forall x,
    observe ops (fst (run H KP true fuel ops x)) = fst (run H KP true fuel (strip ops) x) /\
    snd (run H KP true fuel ops x) = snd (run H KP true fuel (strip ops) x).
  Proof.
    induction ops as [|[p o] r IH]; intros x; [split; reflexivity|].
    unfold strip. simpl filter. fold (strip r).
    destruct (is_serial o) eqn:Hs; simpl negb; cbv iota.
    - simpl run.
      pose proof (step_at_state_id (step H KP true fuel o)
                    (fun y => step_serial_fixed_state fuel o y Hs) p x) as Hid.
      destruct (step_at (step H KP true fuel o) p x) as [a x'] eqn:Hst. simpl in Hid. subst x'.
      specialize (IH x). destruct (run H KP true fuel r x) as [l x''] eqn:Hr.
      simpl. rewrite Hs. exact IH.
    - simpl run.
      destruct (step_at (step H KP true fuel o) p x) as [a x'] eqn:Hst.
      specialize (IH x'). destruct (run H KP true fuel r x') as [l x''] eqn:Hr.
      destruct (run H KP true fuel (strip r) x') as [l2 x2] eqn:Hr2.
      simpl in *. rewrite Hs. destruct IH as [IH1 IH2]. split; congruence.
  Qed.

  (* FIXED: a serialisation inside a history never raises *)
  Theorem serial_ok_fixed fuel x : exists j, fst (step H KP true fuel OToJson x) = Ok (AJson j).
  Proof.
    unfold step. destruct (to_json_fixed_pure x) as [j Hj]. rewrite Hj. simpl. exists j. reflexivity.
  Qed.

  Theorem pickle_roundtrip_fixed fuel x :
    oshape x -> odepth x <= fuel ->
    fst (step H KP true fuel OPickle x) = Ok (AObj (reset_kp x)) /\ erase (reset_kp x) = erase x.
  Proof.
    intros Hsh Hd. unfold step. destruct (to_json_fixed_pure x) as [j Hj].
    destruct (json_roundtrip true x j x Hsh Hj fuel Hd) as [y [Hy [_ [_ [_ Heq]]]]]. subst y.
    rewrite Hj. simpl. rewrite Hy. simpl. split; [reflexivity | apply erase_reset_kp].
  Qed.

  (* ---------- the code as pinned (fx = false): refutations ---------- *)
  Definition t_wit : tree := Node [60;97;62]%N 1%N false [Node [60;98;62]%N 2%N true []].

  (* to_json; k_paths  vs  k_paths alone *)
  Theorem to_json_mutates_refuted :
    exists ops t, K_tojson ops = true /\
      observe ops (fst (run H KP false 10 ops (mk_obj t))) <> fst (run H KP false 10 (strip ops) (mk_obj t)).
  Proof.
    exists [([], OToJson); ([], OKPaths true 2%N)], t_wit. split; [reflexivity|].
    cbn. intro Hc. inversion Hc.
  Qed.

  (* child.k_paths; tree.to_json raises AttributeError *)
  Theorem to_json_child_cache_refuted :
    exists ops t, K_tojson ops = true /\
      nth 1 (fst (run H KP false 10 ops (mk_obj t))) (Raise OtherErr) = Raise AttrErr.
  Proof.
    exists [([0], OKPaths true 2%N); ([], OToJson)], t_wit. split; reflexivity.
  Qed.

  Theorem pickle_mutates_refuted :
    exists ops t, K_tojson ops = true /\
      observe ops (fst (run H KP false 10 ops (mk_obj t))) <> fst (run H KP false 10 (strip ops) (mk_obj t)).
  Proof.
    exists [([], OKPaths false 1%N); ([], OPickle); ([], OKPaths false 1%N)], t_wit. split; [reflexivity|].
    cbn. intro Hc. inversion Hc.
  Qed.

  (* ---------- command-line JSON trees ---------- *)
  Fixpoint tdepth (t : tree) : nat := match t with Node _ _ _ ks => S (list_max (map tdepth ks)) end.

  Lemma cli_list_ok f ks :
    Forall (fun k => f (cli_to_json k) = Some (Ok (strip_ids k))) ks ->
    from_list f (map cli_to_json ks) = Some (Ok (map strip_ids ks)).
  Proof.
    induction 1 as [|k r Hk Hr IH]; simpl; [reflexivity|]. rewrite Hk, IH. reflexivity.
  Qed.

  Theorem cli_json_roundtrip t : shape_ok t = true ->
    forall fuel, tdepth t <= fuel -> cli_from_json fuel (cli_to_json t) = Some (Ok (strip_ids t)).
  Proof.
    induction t as [l i o ks IH] using tree_ind'. intros Hsh fuel Hfuel.
    destruct fuel as [|f]; [simpl in Hfuel; lia|].
    simpl in Hsh. apply andb_true_iff in Hsh as [Ho Hks].
    destruct o.
    - destruct ks; [reflexivity | discriminate].
    - simpl. rewrite cli_list_ok; [reflexivity|].
      rewrite Forall_forall in *. intros k Hk. apply IH; auto.
      + rewrite forallb_forall in Hks. auto.
      + simpl in Hfuel. pose proof (list_max_In (map tdepth ks) (tdepth k) (in_map _ _ _ Hk)). lia.
  Qed.

  Lemma yield_strip_ids t : yield (strip_ids t) = yield t.
  Proof.
    induction t as [l i o ks IH] using tree_ind'. simpl.
    destruct ks as [|k r]; [reflexivity|].
    change (flat_map yield (map strip_ids (k :: r)) = flat_map yield (k :: r)).
    induction IH as [|k' r' Hk Hr IHr]; simpl; [reflexivity|]. rewrite Hk, IHr. reflexivity.
  Qed.
End Facts.

(* ---------- non-vacuity ---------- *)
Example ex_obj : obj := mk_obj (Node [60;97;62]%N 7%N false
                                 [Node [120]%N 3%N false []; Node [60;98;62]%N 5%N true []]).
Example ex_oshape : oshape ex_obj.
Proof. cbn. repeat split; intros; try discriminate; auto. Qed.
Example ex_depth : odepth ex_obj <= 5.
Proof. cbn. lia. Qed.
Example ex_roundtrip :
  exists j, o_to_json false ex_obj = (Ok j, with_slots ex_obj (set_ckp (set_kp (oslots ex_obj) None) None)).
Proof. eexists. reflexivity. Qed.
Example ex_history_fixed :
  let ops := [([], OKPaths true 2%N); ([], OToJson); ([1], OIsOpen); ([], OPickle); ([], OKPaths true 2%N)] in
  observe ops (fst (run (fun _ _ => 1%Z) (fun _ _ _ => 1%N) true 10 ops ex_obj))
  = [Ok (AKP 1%N); Ok (ABool true); Ok (AKP 1%N)].
Proof. reflexivity. Qed.
Example ex_cli_shape : shape_ok (erase ex_obj) = true.
Proof. reflexivity. Qed.
