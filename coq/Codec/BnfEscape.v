(* C11 — MODEL of the BNF printer / reader of isla (no proofs in this file).

   Python (src/isla/language.py, src/isla/helpers.py):
     unparse_grammar(grammar)            -> unparse_grammar
       escape_char / escape_string       -> escape_char / escape
       helpers.canonical / split_expansion (re.split on RE_NONTERMINAL, drop '')
                                         -> canonical / split_expansion
     parse_bnf(text)                     -> parse_bnf ph text
       ANTLR lexer of src/isla/bnf.g4    -> lex   (REDUCED: see below)
       ANTLR parser rules                -> parse_rules
       BnfEmitter.exitAlternative        -> emit_alt
       helpers.instantiate_escaped_symbols -> unescape (ordered global replace passes)
       BnfEmitter.exitBnf_grammar        -> emit_grammar (free <langle> name, placeholder
                                            instantiation, reachability test)

   What is NOT modelled: the ANTLR-generated lexer/parser as such.  `lex` transcribes the
   token rules of bnf.g4 (NONTERMINAL, STRING with its non-greedy (ESC|.)*? loop, WS,
   LINE_COMMENT, '::=', '|', ';'); ANTLR's error recovery (skipping unrecognised
   characters) is not modelled: such texts give `Raise SyntaxErr`.  The random 30-letter
   placeholder of BnfEmitter is the parameter `ph`. *)
From ISLA Require Import Str Outcome Grammar.
From Coq Require Import List NArith Bool.
Import ListNotations.
Local Open Scope N_scope.

(* Python Grammar = Dict[str, List[str]] (insertion ordered) *)
Definition pygrammar := list (str * list str).

Definition c_bs : chr := 92.    (* backslash *)
Definition c_dq : chr := 34.    (* double quote *)
Definition c_nl : chr := 10.
(* "$$BESC$$" *)
Definition besc : str := [36; 36; 66; 69; 83; 67; 36; 36].

(* ---------- generic string functions ---------- *)
Fixpoint str_prefixb (p s : str) : bool :=
  match p, s with
  | [], _ => true
  | a :: p', b :: s' => N.eqb a b && str_prefixb p' s'
  | _ :: _, [] => false
  end.

(* `pat in s` *)
Fixpoint str_infixb (pat s : str) : bool :=
  match s with
  | [] => str_prefixb pat []
  | _ :: s' => str_prefixb pat s || str_infixb pat s'
  end.

(* Python s.replace(old, new) for non-empty old: leftmost, non-overlapping, one pass.
   `skip` = number of characters of an already replaced occurrence still to be dropped. *)
Fixpoint replace_go (old new : str) (skip : nat) (s : str) : str :=
  match s with
  | [] => []
  | c :: s' =>
      match skip with
      | S k => replace_go old new k s'
      | O => if str_prefixb old s then new ++ replace_go old new (pred (length old)) s'
             else c :: replace_go old new O s'
      end
  end.
Definition str_replace (old new s : str) : str := replace_go old new O s.

Fixpoint join (sep : str) (xs : list str) : str :=
  match xs with
  | [] => []
  | [x] => x
  | x :: xs' => x ++ sep ++ join sep xs'
  end.

(* ---------- printing side ---------- *)
Definition hexd (n : N) : chr := if n <? 10 then 48 + n else 87 + n.   (* lower case *)

(* string.printable = digits + letters + punctuation + " \t\n\r\x0b\x0c" *)
Definition printable (c : chr) : bool := ((32 <=? c) && (c <=? 126)) || ((9 <=? c) && (c <=? 13)).

Definition hex_esc (c : chr) : str := [c_bs; 120; hexd (c / 16); hexd (c mod 16)].

Definition escape_char (c : chr) : str :=
  if c =? 9 then [c_bs; 116]
  else if c =? 10 then [c_bs; 110]
  else if c =? 11 then [c_bs; 120; 48; 98]
  else if c =? 12 then [c_bs; 120; 48; 99]
  else if c =? 13 then [c_bs; 114]
  else if c =? 92 then [c_bs; c_bs]
  else if c =? 34 then [c_bs; c_dq]
  else if (c <? 256) && negb (printable c) then hex_esc c
  else [c].

Definition escape (s : str) : str := flat_map escape_char s.

(* RE_NONTERMINAL.match at the head of s: length of the match `<[^<> ]*>` *)
Fixpoint nt_body_len (s : str) : option nat :=
  match s with
  | [] => None
  | c :: s' =>
      if N.eqb c c_gt then Some 1%nat
      else if N.eqb c c_lt || N.eqb c c_sp then None
      else option_map S (nt_body_len s')
  end.
Definition nt_match (s : str) : option nat :=
  match s with
  | c :: s' => if N.eqb c c_lt then option_map S (nt_body_len s') else None
  | [] => None
  end.

Definition flush (buf : str) : list str := match buf with [] => [] | _ => [buf] end.

(* [tok for tok in RE_NONTERMINAL.split(expansion) if tok] *)
Fixpoint split_go (skip : nat) (buf : str) (s : str) : list str :=
  match s with
  | [] => flush buf
  | c :: s' =>
      match skip with
      | S k => split_go k buf s'
      | O => match nt_match s with
             | Some n => flush buf ++ firstn n s :: split_go (pred n) [] s'
             | None => split_go O (buf ++ [c]) s'
             end
      end
  end.
Definition split_expansion (s : str) : list str := split_go O [] s.

Definition canonical (g : pygrammar) : grammar :=
  map (fun r => (fst r, map split_expansion (snd r))) g.

Definition print_elem (e : str) : str := if is_nt e then e else c_dq :: escape e ++ [c_dq].
Definition print_alt (a : list str) : str :=
  match a with [] => [c_dq; c_dq] | _ => join [c_sp] (map print_elem a) end.
(* " ::= "  and  " | " *)
Definition s_def : str := [32; 58; 58; 61; 32].
Definition s_bar : str := [32; 124; 32].
Definition print_rule (r : str * list (list str)) : str :=
  fst r ++ s_def ++ join s_bar (map print_alt (snd r)).
Definition print_canonical (g : grammar) : str := join [c_nl] (map print_rule g).
Definition unparse_grammar (g : pygrammar) : str := print_canonical (canonical g).

(* ---------- reading side: instantiate_escaped_symbols ---------- *)
Definition nrange (n : nat) : list N := map N.of_nat (seq 0 n).

(* repl_map in dict order: the seven named keys first; "\x0b" and "\x0c" keep their
   position when the \xHH comprehension is merged in with `|` *)
Definition repl_map : list (str * str) :=
  [ ([c_bs; 98], [8]); ([c_bs; 116], [9]); ([c_bs; 110], [10]); ([c_bs; 114], [13]);
    ([c_bs; c_dq], [c_dq]); ([c_bs; 120; 48; 98], [11]); ([c_bs; 120; 48; 99], [12]) ]
  ++ map (fun i => (hex_esc i, [i]))
         (filter (fun i => negb ((i =? 11) || (i =? 12))) (nrange 256)).

Definition apply_passes (passes : list (str * str)) (s : str) : str :=
  fold_left (fun t p => str_replace (fst p) (snd p) t) passes s.

Definition unescape_body (s : str) : str :=
  str_replace besc [c_bs] (apply_passes repl_map (str_replace [c_bs; c_bs] besc s)).

Definition unescape (s : str) : res str :=
  if str_infixb besc s then Raise AssertErr else Ok (unescape_body s).

(* ---------- reading side: token rules of bnf.g4 ---------- *)
Inductive tok := TNt (s : str) | TStr (body : str) | TDef | TBar | TSemi.

(* STRING: DQ (ESC|.)*? DQ ; ESC: BACKSLASH [btnr DQ BACKSLASH]  (DQ = double quote).  Run on the text after the opening
   quote; result = number of characters up to and including the closing quote.
   ANTLR's ordered configurations reduce to two states: after a backslash (`esc`) the next
   character never closes the token *if a later closing quote exists*; if none exists the
   longest recorded accept (an escaped quote read as the closing one) is used. *)
Fixpoint string_scan (esc : bool) (s : str) : option nat :=
  match s with
  | [] => None
  | c :: s' =>
      if esc then
        match string_scan false s' with
        | Some n => Some (S n)
        | None => if N.eqb c c_dq then Some 1%nat else None
        end
      else if N.eqb c c_dq then Some 1%nat
      else option_map S (string_scan (N.eqb c c_bs) s')
  end.

(* NONTERMINAL: '<' ~[<>]+ '>' ; run on the text after '<' *)
Fixpoint ntok_scan (s : str) : option nat :=
  match s with
  | [] => None
  | c :: s' =>
      if N.eqb c c_gt then Some 1%nat
      else if N.eqb c c_lt then None
      else option_map S (ntok_scan s')
  end.

(* LINE_COMMENT: '#' .*? '\n' *)
Fixpoint comment_scan (s : str) : option nat :=
  match s with
  | [] => None
  | c :: s' => if N.eqb c c_nl then Some 1%nat else option_map S (comment_scan s')
  end.

Definition is_ws (c : chr) : bool := (c =? 32) || (c =? 9) || (c =? 10) || (c =? 13).

(* out of fuel = Raise TimeoutErr (callers pass fuel = S (length text)) *)
Fixpoint lex (fuel : nat) (s : str) : res (list tok) :=
  match fuel with
  | O => Raise TimeoutErr
  | S f =>
      match s with
      | [] => Ok []
      | c :: s' =>
          if is_ws c then lex f s'
          else if c =? 35 then
            match comment_scan s' with Some n => lex f (skipn n s') | None => Raise SyntaxErr end
          else if c =? 124 then bind (lex f s') (fun ts => Ok (TBar :: ts))
          else if c =? 59 then bind (lex f s') (fun ts => Ok (TSemi :: ts))
          else if c =? 58 then
            if str_prefixb [58; 61] s' then bind (lex f (skipn 2 s')) (fun ts => Ok (TDef :: ts))
            else Raise SyntaxErr
          else if c =? c_dq then
            match string_scan false s' with
            | Some n => bind (lex f (skipn n s')) (fun ts => Ok (TStr (firstn (pred n) s') :: ts))
            | None => Raise SyntaxErr
            end
          else if c =? c_lt then
            match ntok_scan s' with
            | Some (S (S n)) =>   (* at least one character between '<' and '>' *)
                bind (lex f (skipn (S (S n)) s')) (fun ts => Ok (TNt (c :: firstn (S (S n)) s') :: ts))
            | _ => Raise SyntaxErr
            end
          else Raise SyntaxErr
      end
  end.

(* ---------- reading side: parser rules of bnf.g4 ----------
   derivation_rule: NONTERMINAL '::=' alternative ('|' alternative)* ';'? ;
   alternative: (STRING | NONTERMINAL)+ ;   a NONTERMINAL followed by '::=' starts the next rule *)
Inductive elem := ENt (s : str) | EStr (body : str).
Definition prule := (str * list (list elem))%type.

Definition is_nil {A} (l : list A) : bool := match l with [] => true | _ => false end.

Fixpoint parse_go (toks : list tok) (lhs : str) (alts : list (list elem)) (cur : list elem)
  : res (list prule) :=
  match toks with
  | [] => if is_nil cur then Raise SyntaxErr else Ok [(lhs, alts ++ [cur])]
  | TNt n :: TDef :: rest =>
      if is_nil cur then Raise SyntaxErr
      else bind (parse_go rest n [] []) (fun rs => Ok ((lhs, alts ++ [cur]) :: rs))
  | TNt n :: rest => parse_go rest lhs alts (cur ++ [ENt n])
  | TStr b :: rest => parse_go rest lhs alts (cur ++ [EStr b])
  | TBar :: rest => if is_nil cur then Raise SyntaxErr else parse_go rest lhs (alts ++ [cur]) []
  | TSemi :: rest =>
      if is_nil cur then Raise SyntaxErr
      else match rest with
           | [] => Ok [(lhs, alts ++ [cur])]
           | TNt n :: TDef :: rest' =>
               bind (parse_go rest' n [] []) (fun rs => Ok ((lhs, alts ++ [cur]) :: rs))
           | _ => Raise SyntaxErr
           end
  | TDef :: _ => Raise SyntaxErr
  end.

Definition parse_rules (toks : list tok) : res (list prule) :=
  match toks with
  | TNt n :: TDef :: rest => parse_go rest n [] []
  | _ => Raise SyntaxErr
  end.

(* ---------- reading side: BnfEmitter ---------- *)
Section Emitter.
  Variable ph : str.   (* self.langle_placeholder: 30 random ascii letters *)

  Definition ph_nt : str := c_lt :: ph ++ [c_gt].      (* f"<{placeholder}>" *)

  (* exitAlternative, one child *)
  Definition emit_elem (e : elem) : res str :=
    match e with
    | ENt n => unescape n                               (* nonterminals are unescaped, too *)
    | EStr b => unescape (str_replace [c_lt] ph_nt b)
    end.

  Fixpoint emit_alt (es : list elem) : res str :=
    match es with
    | [] => Ok []
    | e :: es' => bind (emit_elem e) (fun x => bind (emit_alt es') (fun y => Ok (x ++ y)))
    end.

  Fixpoint emit_alts (al : list (list elem)) : res (list str) :=
    match al with
    | [] => Ok []
    | a :: al' => bind (emit_alt a) (fun x => bind (emit_alts al') (fun y => Ok (x :: y)))
    end.

  Fixpoint emit_rules (rs : list prule) : res pygrammar :=
    match rs with
    | [] => Ok []
    | (n, al) :: rs' => bind (emit_alts al) (fun x => bind (emit_rules rs') (fun y => Ok ((n, x) :: y)))
    end.
End Emitter.

(* "<langle>", then "<langle_0>", "<langle_1>", ... : first not among the defined ones.
   decimal digits of i *)
Fixpoint dec_digits (fuel : nat) (n : N) (acc : str) : str :=
  match fuel with
  | O => acc
  | S f => let acc' := (48 + n mod 10) :: acc in
           if n <? 10 then acc' else dec_digits f (n / 10) acc'
  end.
Definition langle_base : str := [60; 108; 97; 110; 103; 108; 101].   (* "<langle" *)
Definition langle_name (k : nat) : str :=
  match k with
  | O => langle_base ++ [c_gt]
  | S i => langle_base ++ [95] ++ dec_digits 20 (N.of_nat i) [] ++ [c_gt]
  end.

Definition mem_str (x : str) (l : list str) : bool := existsb (str_eqb x) l.

Fixpoint free_langle (fuel k : nat) (defined : list str) : str :=
  match fuel with
  | O => langle_name k
  | S f => if mem_str (langle_name k) defined then free_langle f (S k) defined else langle_name k
  end.

(* dict assignment: result[k] = v *)
Fixpoint dict_set (d : pygrammar) (k : str) (v : list str) : pygrammar :=
  match d with
  | [] => [(k, v)]
  | (k', v') :: d' => if str_eqb k k' then (k, v) :: d' else (k', v') :: dict_set d' k v
  end.

Fixpoint py_alts (g : pygrammar) (A : str) : list str :=
  match g with
  | [] => []
  | (B, al) :: g' => if str_eqb A B then al else py_alts g' A
  end.

(* RE_NONTERMINAL.findall *)
Definition nonterminals (s : str) : list str := filter is_nt (split_expansion s).

(* reachable_nonterminals(grammar, "<start>") as saturation *)
Definition reach_step (g : pygrammar) (seen : list str) : list str :=
  fold_left (fun acc x => if mem_str x acc then acc else acc ++ [x])
            (flat_map (fun A => flat_map nonterminals (py_alts g A)) seen) seen.
Fixpoint reach_iter (fuel : nat) (g : pygrammar) (seen : list str) : list str :=
  match fuel with O => seen | S f => reach_iter f g (reach_step g seen) end.
Definition s_start : str := [60; 115; 116; 97; 114; 116; 62].
Definition reachable (g : pygrammar) : list str := reach_iter (S (S (length g))) g [s_start].

Definition emit_grammar (ph : str) (rs : list prule) : res pygrammar :=
  bind (emit_rules ph rs) (fun partial =>
    let defined := map fst partial in
    let free := free_langle (S (length defined)) O defined in
    let result := fold_left (fun d r => dict_set d (fst r)
                               (map (str_replace (ph_nt ph) free) (snd r))) partial [] in
    if mem_str free (reachable (dict_set result free [[c_lt]]))
    then Ok (dict_set result free [[c_lt]]) else Ok result).

Definition parse_bnf (ph : str) (text : str) : res pygrammar :=
  bind (lex (S (length text)) text) (fun toks =>
  bind (parse_rules toks) (fun rs => emit_grammar ph rs)).

(* ---------- equality on python grammars (for the correspondence) ---------- *)
Fixpoint strs_eqb (a b : list str) : bool :=
  match a, b with
  | [], [] => true
  | x :: a', y :: b' => str_eqb x y && strs_eqb a' b'
  | _, _ => false
  end.
Fixpoint pyg_eqb (g h : pygrammar) : bool :=
  match g, h with
  | [], [] => true
  | (k, v) :: g', (k', v') :: h' => str_eqb k k' && strs_eqb v v' && pyg_eqb g' h'
  | _, _ => false
  end.

(* ---------- classes of known findings (guards of the _partial theorems) ---------- *)
(* "$$BESC"  followed by backslash / by "$" backslash: the placeholder inserted for the
   escaped backslash completes an earlier partial placeholder *)
Definition besc_ov1 : str := [36; 36; 66; 69; 83; 67; 92].
Definition besc_ov2 : str := [36; 36; 66; 69; 83; 67; 36; 92].
Definition K_besc (s : str) : bool := str_infixb besc s.
Definition K_besc_overlap (s : str) : bool := str_infixb besc_ov1 s || str_infixb besc_ov2 s.

(* grammar-level classes (python mirrors in harness/c11.py) *)
Definition grammar_nts (g : pygrammar) : list str :=
  map fst g ++ flat_map (fun r => flat_map nonterminals (snd r)) g.
(* a nonterminal name with a backslash or the placeholder text: unescaped where used only *)
Definition K_nt_escape (g : pygrammar) : bool :=
  existsb (fun n => existsb (N.eqb 92) n || str_infixb besc n) (grammar_nts g).
(* the nonterminal with the empty name: rejected by the lexer rule NONTERMINAL *)
Definition K_empty_nt (g : pygrammar) : bool := mem_str [c_lt; c_gt] (grammar_nts g).
Definition has_lt (al : list str) : bool :=
  existsb (fun e => negb (is_nt e) && existsb (N.eqb c_lt) e) (flat_map split_expansion al).
(* some terminal contains the character 60, but none in a rule reachable from the start symbol *)
Definition K_langle_unreach (g : pygrammar) : bool :=
  existsb (fun r => has_lt (snd r)) g &&
  negb (existsb (fun r => mem_str (fst r) (reachable g) && has_lt (snd r)) g).

(* ---------- support for the correspondence harness (not part of the model) ----------
   compact literals: a string is shipped as a Coq string literal over printable ASCII;
   "~" followed by six lower-case hex digits stands for an arbitrary code point
   (harness/c11.py g_s).  Elaborating long list-of-N literals dominated the run. *)
From Coq Require Import String Ascii.
Definition hexv (c : N) : N := if c <? 58 then c - 48 else c - 87.
Fixpoint ds_go (skip : nat) (l : list N) : str :=
  match l with
  | [] => []
  | c :: l' =>
      match skip with
      | S k => ds_go k l'
      | O => if c =? 126 then
               match l' with
               | a :: b :: c2 :: d :: e :: f :: _ =>
                   (((((hexv a * 16 + hexv b) * 16 + hexv c2) * 16 + hexv d) * 16 + hexv e) * 16 + hexv f)
                   :: ds_go 6 l'
               | _ => []
               end
             else c :: ds_go O l'
      end
  end.
Definition ds (s : string) : str := ds_go O (map N_of_ascii (list_ascii_of_string s)).

(* the five class predicates of a grammar as one number (ties the python mirrors of the classes
   in harness/c11.py to the definitions above, on every generated grammar) *)
Definition g_terminals (g : pygrammar) : list str :=
  flat_map (fun r => filter (fun e => negb (is_nt e)) (flat_map split_expansion (snd r))) g.
Definition kmask (g : pygrammar) : N :=
  (if existsb K_besc (g_terminals g) then 1 else 0) +
  (if existsb K_besc_overlap (g_terminals g) then 2 else 0) +
  (if K_nt_escape g then 4 else 0) + (if K_langle_unreach g then 8 else 0) +
  (if K_empty_nt g then 16 else 0).
