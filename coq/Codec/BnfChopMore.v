(* C11 (proof extension) — language clause, grammar-theoretic core.
   Cutting every terminal at its '<' characters and writing a fresh nonterminal F (whose only
   alternative is the terminal "<") for each of them preserves `derives`, hence the language of
   every nonterminal of the original grammar.  Stated for Grammar.v's canonical grammars;
   independent of the BNF reader. *)
From ISLA Require Import Str Outcome Grammar BnfEscape BnfEscapeFacts BnfSplitMore.
From Coq Require Import List NArith Bool Lia.
Import ListNotations.
Local Open Scope N_scope.

Definition s_lt : str := [c_lt].

(* ---------- generic facts about alts / derives ---------- *)
Lemma alts_in (g : grammar) A al : In al (alts g A) -> exists r, In r g /\ fst r = A /\ In al (snd r).
Proof.
  induction g as [|[B bl] g IH]; intros H; [contradiction|].
  cbn [alts] in H. destruct (str_eqb A B) eqn:E.
  - apply str_eqb_eq in E. subst. exists (B, bl). split; [left; reflexivity | split; [reflexivity | exact H]].
  - destruct (IH H) as [r [Hr Hal]]. exists r. split; [right; exact Hr | exact Hal].
Qed.

Lemma alts_undefined (g : grammar) A : defined g A = false -> alts g A = [].
Proof.
  induction g as [|[B bl] g IH]; intros H; [reflexivity|].
  unfold defined in H. cbn [existsb fst] in H. apply orb_false_iff in H as [H1 H2].
  cbn [alts]. rewrite H1. apply IH. exact H2.
Qed.

Lemma alts_app (g1 g2 : grammar) A :
  alts (g1 ++ g2) A = if defined g1 A then alts g1 A else alts g2 A.
Proof.
  induction g1 as [|[B bl] g1 IH]; [reflexivity|].
  cbn [app alts]. unfold defined. cbn [existsb fst]. destruct (str_eqb A B); [reflexivity|]. exact IH.
Qed.

Lemma alts_map (f : list alt -> list alt) (g : grammar) A :
  alts (map (fun r => (fst r, f (snd r))) g) A = if defined g A then f (alts g A) else [].
Proof.
  induction g as [|[B bl] g IH]; [reflexivity|].
  cbn [map alts fst snd]. unfold defined. cbn [existsb fst]. destruct (str_eqb A B); [reflexivity|]. exact IH.
Qed.

Lemma defined_map (f : list alt -> list alt) (g : grammar) A :
  defined (map (fun r => (fst r, f (snd r))) g) A = defined g A.
Proof.
  unfold defined. induction g as [|[B bl] g IH]; [reflexivity|]. cbn [map existsb fst]. rewrite IH. reflexivity.
Qed.

Lemma derives_t_inv (g : grammar) t x u :
  is_nt t = false -> derives g (t :: x) u -> exists u', u = t ++ u' /\ derives g x u'.
Proof.
  intros Ht H. inversion H as [| w rest u0 Hw Hr | A al rest u0 v HA Hin Hal Hr]; subst.
  - exists u0. split; [reflexivity | exact Hr].
  - congruence.
Qed.

Lemma derives_nil_inv (g : grammar) u : derives g [] u -> u = [].
Proof. intros H. inversion H. reflexivity. Qed.

Section Chop.
  Variable F : str.
  Hypothesis F_nt : is_nt F = true.

  (* ---------- cutting a terminal ---------- *)
  Fixpoint chop_go (buf t : str) : list str :=
    match t with
    | [] => flush buf
    | c :: t' => if c =? c_lt then flush buf ++ F :: chop_go [] t' else chop_go (buf ++ [c]) t'
    end.
  Definition chop (t : str) : list str := chop_go [] t.
  Definition chop_alt (a : alt) : alt := flat_map (fun e => if is_nt e then [e] else chop e) a.

  (* ---------- refinement of sentential forms ---------- *)
  Inductive Ref : list str -> list str -> Prop :=
  | R_nil : Ref [] []
  | R_same s x x' : Ref x x' -> Ref (s :: x) (s :: x')
  | R_empty x x' : Ref x x' -> Ref ([] :: x) x'
  | R_piece p t' x x' : is_nt p = false -> is_nt (p ++ t') = false -> is_nt t' = false ->
      Ref (t' :: x) x' -> Ref ((p ++ t') :: x) (p :: x')
  | R_F t' x x' : is_nt (c_lt :: t') = false -> is_nt t' = false ->
      Ref (t' :: x) x' -> Ref ((c_lt :: t') :: x) (F :: x').

  Lemma Ref_refl x : Ref x x.
  Proof. induction x; constructor; assumption. Qed.

  Lemma no_lt_not_nt buf : ~ In c_lt buf -> is_nt buf = false.
  Proof.
    destruct buf as [|c b]; [reflexivity|]. intros H. cbn [is_nt].
    destruct (N.eqb_spec c c_lt) as [E|_]; [|reflexivity]. exfalso. apply H. left. exact E.
  Qed.

  Lemma Ref_flush buf t x x' :
    ~ In c_lt buf -> is_nt (buf ++ t) = false -> is_nt t = false ->
    Ref (t :: x) x' -> Ref ((buf ++ t) :: x) (flush buf ++ x').
  Proof.
    intros Hb H1 H2 H. destruct buf as [|c b]; [exact H|].
    cbn [flush]. apply R_piece; [apply no_lt_not_nt; exact Hb | exact H1 | exact H2 | exact H].
  Qed.

  Lemma Ref_chop_go t : forall buf x x',
    ~ In c_lt buf -> clean (buf ++ t) -> Ref x x' -> Ref ((buf ++ t) :: x) (chop_go buf t ++ x').
  Proof.
    induction t as [|c t IH]; intros buf x x' Hb Hc H.
    - cbn [chop_go]. apply Ref_flush; [exact Hb | apply (Hc [] (buf ++ [])); reflexivity | reflexivity |].
      apply R_empty. exact H.
    - cbn [chop_go]. destruct (N.eqb_spec c c_lt) as [E|E].
      + subst c. rewrite <- app_assoc. cbn [app].
        assert (H1 : is_nt (c_lt :: t) = false) by (apply (Hc buf); reflexivity).
        assert (H2 : is_nt t = false).
        { apply (Hc (buf ++ [c_lt])). rewrite <- app_assoc. reflexivity. }
        apply Ref_flush; [exact Hb | apply (Hc []); reflexivity | exact H1 |].
        apply R_F; [exact H1 | exact H2 |].
        apply (IH [] x x'); [intros [] | | exact H].
        intros pre suf Es. apply (Hc (buf ++ c_lt :: pre)). rewrite <- app_assoc. cbn [app] in *. rewrite Es. reflexivity.
      + replace (buf ++ c :: t) with ((buf ++ [c]) ++ t) by (rewrite <- app_assoc; reflexivity).
        apply IH; [| rewrite <- app_assoc; exact Hc | exact H].
        intros Hin. apply in_app_or in Hin as [Hin|[Hin|[]]]; [exact (Hb Hin) | congruence].
  Qed.

  Lemma Ref_chop t x x' : clean t -> Ref x x' -> Ref (t :: x) (chop t ++ x').
  Proof. intros Hc H. apply (Ref_chop_go t [] x x'); [intros [] | exact Hc | exact H]. Qed.

  Definition alt_clean (a : alt) : Prop := Forall (fun e => is_nt e = false -> clean e) a.

  Lemma Ref_chop_alt a : alt_clean a -> Ref a (chop_alt a).
  Proof.
    induction 1 as [|e a He Ha IH]; [constructor|].
    cbn [chop_alt flat_map]. destruct (is_nt e) eqn:Hnt.
    - cbn [app]. apply R_same. exact IH.
    - apply Ref_chop; [apply He; reflexivity | exact IH].
  Qed.

  (* ---------- the two grammars ---------- *)
  Variable G : grammar.
  Hypothesis F_undefined : defined G F = false.
  Hypothesis G_clean : forall r al, In r G -> In al (snd r) -> alt_clean al.

  Definition F_rule : str * list alt := (F, [[s_lt]]).
  Definition G1 : grammar := G ++ [F_rule].
  Definition G' : grammar := map (fun r => (fst r, map chop_alt (snd r))) G ++ [F_rule].

  Lemma alts_F_rule A : alts [F_rule] A = if str_eqb A F then [[s_lt]] else [].
  Proof. reflexivity. Qed.

  Lemma alts_G1_F : alts G1 F = [[s_lt]].
  Proof. unfold G1. rewrite alts_app, F_undefined, alts_F_rule, str_eqb_refl. reflexivity. Qed.

  Lemma alts_G'_F : alts G' F = [[s_lt]].
  Proof. unfold G'. rewrite alts_app, defined_map, F_undefined, alts_F_rule, str_eqb_refl. reflexivity. Qed.

  Lemma alts_G1_other A : A <> F -> alts G1 A = alts G A.
  Proof.
    intros H. unfold G1. rewrite alts_app, alts_F_rule.
    destruct (defined G A) eqn:Hd; [reflexivity|].
    rewrite alts_undefined by exact Hd. apply str_eqb_neq in H. rewrite H. reflexivity.
  Qed.

  Lemma alts_G'_other A : A <> F -> alts G' A = map chop_alt (alts G A).
  Proof.
    intros H. unfold G'. rewrite alts_app, defined_map, alts_map, alts_F_rule.
    destruct (defined G A) eqn:Hd; [reflexivity|].
    rewrite alts_undefined by exact Hd. apply str_eqb_neq in H. rewrite H. reflexivity.
  Qed.

  Lemma s_lt_not_nt : is_nt s_lt = false.
  Proof. reflexivity. Qed.

  Lemma derives_s_lt g : derives g [s_lt] s_lt.
  Proof.
    change (derives g [s_lt] (s_lt ++ [])). apply d_t; [apply s_lt_not_nt | apply d_nil].
  Qed.

  Lemma derives_s_lt_inv g u : derives g [s_lt] u -> u = s_lt.
  Proof.
    intros H. apply derives_t_inv in H as [u' [E H]]; [|apply s_lt_not_nt].
    apply derives_nil_inv in H. subst. reflexivity.
  Qed.

  Lemma alts_G_clean A al : In al (alts G A) -> alt_clean al.
  Proof. intros H. apply alts_in in H as [r [Hr [_ Hal]]]. apply (G_clean r al); assumption. Qed.

  (* ---------- forward: G1 derivations are G' derivations of every refinement ---------- *)
  Lemma fwd_term rest u :
    (forall x', Ref rest x' -> derives G' x' u) ->
    forall y x', Ref y x' -> forall t, y = t :: rest -> is_nt t = false -> derives G' x' (t ++ u).
  Proof.
    intros IH y x' H.
    induction H as [| s x x' H IHR | x x' H IHR | p t' x x' Hp Hpt Ht H IHR | t' x x' Hlt Ht H IHR];
      intros t E Hnt.
    - discriminate E.
    - inversion E; subst. apply d_t; [exact Hnt | apply IH; exact H].
    - inversion E; subst. cbn [app]. apply IH. exact H.
    - inversion E; subst. rewrite <- app_assoc. apply d_t; [exact Hp|]. apply (IHR t'); [reflexivity | exact Ht].
    - inversion E; subst.
      change ((c_lt :: t') ++ u) with (s_lt ++ (t' ++ u)).
      apply (d_nt G' F [s_lt]); [exact F_nt | rewrite alts_G'_F; left; reflexivity | apply derives_s_lt |].
      apply (IHR t'); [reflexivity | exact Ht].
  Qed.

  Theorem chop_fwd x w : derives G1 x w -> forall x', Ref x x' -> derives G' x' w.
  Proof.
    induction 1 as [| t rest u Ht Hr IH | A al rest u v HA Hin Hal IH1 Hr IH2]; intros x' HR.
    - inversion HR; subst. apply d_nil.
    - apply (fwd_term rest u IH (t :: rest) x' HR t eq_refl Ht).
    - inversion HR as [| s x0 x0' H0 | x0 x0' H0 | p t' x0 x0' Hp Hpt Ht' H0 | t' x0 x0' Hlt Ht' H0]; subst.
      + destruct (str_eqb A F) eqn:E.
        * apply str_eqb_eq in E. subst A. rewrite alts_G1_F in Hin. destruct Hin as [Hin|[]]. subst al.
          apply (d_nt G' F [s_lt]); [exact HA | rewrite alts_G'_F; left; reflexivity | | apply IH2; exact H0].
          apply IH1. apply Ref_refl.
        * apply str_eqb_neq in E. rewrite alts_G1_other in Hin by exact E.
          apply (d_nt G' A (chop_alt al)); [exact HA | | | apply IH2; exact H0].
          { rewrite alts_G'_other by exact E. apply in_map. exact Hin. }
          apply IH1. apply Ref_chop_alt. apply (alts_G_clean A). exact Hin.
      + discriminate HA.
      + congruence.
      + congruence.
  Qed.

  (* ---------- backward ---------- *)
  Lemma bwd_nil x x' : Ref x x' -> x' = [] -> derives G1 x [].
  Proof.
    induction 1 as [| s x x' H IHR | x x' H IHR | p t' x x' Hp Hpt Ht H IHR | t' x x' Hlt Ht H IHR];
      intros E; try discriminate E.
    - apply d_nil.
    - change (derives G1 ([] :: x) ([] ++ [])). apply d_t; [reflexivity | apply IHR; exact E].
  Qed.

  Theorem chop_bwd x' w : derives G' x' w -> forall x, Ref x x' -> derives G1 x w.
  Proof.
    induction 1 as [| p rest u Hp Hr IH | A al' rest u v HA Hin Hal IH1 Hr IH2]; intros x HR.
    - apply (bwd_nil x []); [exact HR | reflexivity].
    - remember (p :: rest) as y eqn:Ey.
      induction HR as [| s x x' H IHR | x x' H IHR | p0 t' x x' Hp0 Hpt Ht H IHR | t' x x' Hlt Ht H IHR].
      + discriminate Ey.
      + inversion Ey; subst. apply d_t; [exact Hp | apply IH; exact H].
      + change (derives G1 ([] :: x) ([] ++ (p ++ u))). apply d_t; [reflexivity | apply IHR; exact Ey].
      + inversion Ey; subst. apply IH in H. apply derives_t_inv in H as [u' [E H]]; [|exact Ht]. subst u.
        rewrite app_assoc. apply d_t; [exact Hpt | exact H].
      + inversion Ey; subst. congruence.
    - remember (A :: rest) as y eqn:Ey.
      induction HR as [| s x x' H IHR | x x' H IHR | p0 t' x x' Hp0 Hpt Ht H IHR | t' x x' Hlt Ht H IHR].
      + discriminate Ey.
      + inversion Ey; subst. destruct (str_eqb A F) eqn:E.
        * apply str_eqb_eq in E. subst A. rewrite alts_G'_F in Hin. destruct Hin as [Hin|[]]. subst al'.
          apply (d_nt G1 F [s_lt]); [exact HA | rewrite alts_G1_F; left; reflexivity | | apply IH2; exact H].
          apply IH1. apply Ref_refl.
        * apply str_eqb_neq in E. rewrite alts_G'_other in Hin by exact E.
          apply in_map_iff in Hin as [al [Eal Hin]]. subst al'.
          apply (d_nt G1 A al); [exact HA | rewrite alts_G1_other by exact E; exact Hin | | apply IH2; exact H].
          apply IH1. apply Ref_chop_alt. apply (alts_G_clean A). exact Hin.
      + change (derives G1 ([] :: x) ([] ++ (u ++ v))). apply d_t; [reflexivity | apply IHR; exact Ey].
      + inversion Ey; subst. congruence.
      + inversion Ey; subst. rewrite alts_G'_F in Hin. destruct Hin as [Hin|[]]. subst al'.
        apply derives_s_lt_inv in Hal. subst u.
        apply IH2 in H. apply derives_t_inv in H as [v' [E H]]; [|exact Ht]. subst v.
        change (s_lt ++ t' ++ v') with ((c_lt :: t') ++ v'). apply d_t; [exact Hlt | exact H].
  Qed.

  Theorem chop_derives a w : alt_clean a -> (derives G' (chop_alt a) w <-> derives G1 a w).
  Proof.
    intros Ha. split; intros H.
    - apply (chop_bwd _ _ H). apply Ref_chop_alt. exact Ha.
    - apply (chop_fwd _ _ H). apply Ref_chop_alt. exact Ha.
  Qed.

  (* ---------- the F rule is inert for forms that do not mention F ---------- *)
  Hypothesis F_unused : forall r al, In r G -> In al (snd r) -> ~ In F al.

  Lemma G1_G x w : ~ In F x -> (derives G1 x w <-> derives G x w).
  Proof.
    intros Hx. split; intros H.
    - induction H as [| t rest u Ht Hr IH | A al rest u v HA Hin Hal IH1 Hr IH2].
      + apply d_nil.
      + apply d_t; [exact Ht | apply IH; intros Hin; apply Hx; right; exact Hin].
      + assert (HAF : A <> F) by (intros E; apply Hx; left; exact E).
        rewrite alts_G1_other in Hin by exact HAF.
        apply (d_nt G A al); [exact HA | exact Hin | | apply IH2; intros H'; apply Hx; right; exact H'].
        apply IH1. apply alts_in in Hin as [r [Hr' [_ Hal']]]. apply (F_unused r al); assumption.
    - clear Hx. induction H as [| t rest u Ht Hr IH | A al rest u v HA Hin Hal IH1 Hr IH2].
      + apply d_nil.
      + apply d_t; assumption.
      + apply (d_nt G1 A al); [exact HA | | exact IH1 | exact IH2].
        rewrite alts_G1_other; [exact Hin|]. intros E. subst A.
        rewrite alts_undefined in Hin by exact F_undefined. contradiction.
  Qed.

  (* the key statement: same language for every nonterminal other than the fresh one *)
  Theorem chop_language A w : is_nt A = true -> A <> F -> (L G' A w <-> L G A w).
  Proof.
    intros HA HAF. unfold L.
    assert (E : chop_alt [A] = [A]) by (cbn [chop_alt flat_map]; rewrite HA; reflexivity).
    rewrite <- E at 1. rewrite chop_derives.
    - apply G1_G. intros [H|[]]. congruence.
    - constructor; [intros H; congruence | constructor].
  Qed.
End Chop.
