(* C11 (proof extension) — the token rules and the parser rules of bnf.g4 (as modelled by
   lex / parse_rules) read the text printed by print_canonical back as the rule list the
   printer started from.  No assumption on the terminals: escaped text never ends or extends
   a STRING token (string_token). *)
From ISLA Require Import Str Outcome Grammar BnfEscape BnfEscapeFacts BnfSplitMore.
From Coq Require Import List NArith Bool Lia.
Import ListNotations.
Local Open Scope N_scope.

(* ---------- lexer: fuel-independent reading ---------- *)
Definition Lx (s : str) (ts : list tok) : Prop := forall f, (length s < f)%nat -> lex f s = Ok ts.

Lemma Lx_nil : Lx [] [].
Proof. intros f Hf. destruct f; [lia | reflexivity]. Qed.

Lemma Lx_ws c s ts : is_ws c = true -> Lx s ts -> Lx (c :: s) ts.
Proof.
  intros Hc H f Hf. destruct f as [|f]; [cbn in Hf; lia|]. cbn [lex]. rewrite Hc.
  apply H. cbn in Hf. lia.
Qed.

Lemma Lx_bar s ts : Lx s ts -> Lx (124 :: s) (TBar :: ts).
Proof.
  intros H f Hf. destruct f as [|f]; [cbn in Hf; lia|]. cbn [lex].
  change (is_ws 124) with false. change (124 =? 35) with false. change (124 =? 124) with true. cbn iota.
  rewrite H by (cbn in Hf; lia). reflexivity.
Qed.

Lemma Lx_def s ts : Lx s ts -> Lx (58 :: 58 :: 61 :: s) (TDef :: ts).
Proof.
  intros H f Hf. destruct f as [|f]; [cbn in Hf; lia|]. cbn [lex].
  change (is_ws 58) with false. change (58 =? 35) with false. change (58 =? 124) with false.
  change (58 =? 59) with false. change (58 =? 58) with true. cbn iota.
  cbn [str_prefixb]. change (58 =? 58) with true. change (61 =? 61) with true. cbn [andb skipn].
  rewrite H by (cbn in Hf; lia). reflexivity.
Qed.

Lemma Lx_str b s ts : Lx s ts -> Lx (c_dq :: escape b ++ c_dq :: s) (TStr (escape b) :: ts).
Proof.
  intros H f Hf. destruct f as [|f]; [cbn in Hf; lia|]. cbn [lex].
  change (is_ws c_dq) with false. change (c_dq =? 35) with false. change (c_dq =? 124) with false.
  change (c_dq =? 59) with false. change (c_dq =? 58) with false. change (c_dq =? c_dq) with true.
  cbn iota. rewrite string_token. cbn [pred].
  rewrite skipn_S_app, firstn_len_app.
  rewrite H; [reflexivity|]. cbn [length] in Hf. rewrite app_length in Hf. cbn [length] in Hf. lia.
Qed.

Definition ntok_chr (x : chr) : Prop := x <> c_lt /\ x <> c_gt.

Lemma ntok_scan_app body r : Forall ntok_chr body -> ntok_scan (body ++ c_gt :: r) = Some (S (length body)).
Proof.
  induction body as [|c body IH]; intros H; [reflexivity|].
  inversion H as [|c' b' [H1 H2] Hb]; subst. cbn [app ntok_scan length].
  destruct (N.eqb_spec c c_gt) as [E|_]; [contradiction|].
  destruct (N.eqb_spec c c_lt) as [E|_]; [contradiction|].
  rewrite IH by exact Hb. reflexivity.
Qed.

(* what the lexer rule NONTERMINAL accepts *)
Definition ntok_shape (e : str) : Prop :=
  exists body, e = c_lt :: body ++ [c_gt] /\ body <> [] /\ Forall ntok_chr body.

Lemma Lx_nt e s ts : ntok_shape e -> Lx s ts -> Lx (e ++ s) (TNt e :: ts).
Proof.
  intros [body [He [Hne Hb]]] H f Hf. subst e. destruct f as [|f]; [cbn in Hf; lia|].
  cbn [app]. rewrite <- app_assoc. cbn [app]. cbn [lex].
  change (is_ws c_lt) with false. change (c_lt =? 35) with false. change (c_lt =? 124) with false.
  change (c_lt =? 59) with false. change (c_lt =? 58) with false. change (c_lt =? c_dq) with false.
  change (c_lt =? c_lt) with true. cbn iota.
  rewrite ntok_scan_app by exact Hb.
  destruct body as [|b0 body]; [contradiction|]. cbn [length].
  assert (E1 : skipn (S (S (length body))) ((b0 :: body) ++ c_gt :: s) = s).
  { change (S (S (length body))) with (S (length (b0 :: body))). apply skipn_S_app. }
  assert (E2 : firstn (S (S (length body))) ((b0 :: body) ++ c_gt :: s) = (b0 :: body) ++ [c_gt]).
  { replace ((b0 :: body) ++ c_gt :: s) with (((b0 :: body) ++ [c_gt]) ++ s)
      by (rewrite <- app_assoc; reflexivity).
    replace (S (S (length body))) with (length ((b0 :: body) ++ [c_gt]))
      by (rewrite app_length; cbn [length]; lia).
    apply firstn_len_app. }
  rewrite E1, E2. rewrite H; [reflexivity|].
  cbn [length] in Hf. rewrite !app_length in Hf. cbn [length] in Hf. lia.
Qed.

(* ---------- token lists of the printed text ---------- *)
Fixpoint tjoin (sep : list tok) (xs : list (list tok)) : list tok :=
  match xs with
  | [] => []
  | [x] => x
  | x :: xs' => x ++ sep ++ tjoin sep xs'
  end.

Lemma Lx_join {A} (P : A -> str) (T : A -> list tok) (sep : str) (tsep : list tok) (xs : list A) :
  (forall x, In x xs -> forall s ts, Lx s ts -> Lx (P x ++ s) (T x ++ ts)) ->
  (forall s ts, Lx s ts -> Lx (sep ++ s) (tsep ++ ts)) ->
  forall s ts, Lx s ts -> Lx (join sep (map P xs) ++ s) (tjoin tsep (map T xs) ++ ts).
Proof.
  intros HP Hsep. induction xs as [|x xs IH]; intros s ts H; [exact H|].
  destruct xs as [|y xs].
  - cbn [map join tjoin]. apply HP; [left; reflexivity | exact H].
  - change (join sep (map P (x :: y :: xs))) with (P x ++ sep ++ join sep (map P (y :: xs))).
    change (tjoin tsep (map T (x :: y :: xs))) with (T x ++ tsep ++ tjoin tsep (map T (y :: xs))).
    rewrite <- !app_assoc. apply HP; [left; reflexivity|]. apply Hsep.
    apply IH; [|exact H]. intros z Hz. apply HP. right. exact Hz.
Qed.

Definition toks_elem (e : str) : tok := if is_nt e then TNt e else TStr (escape e).
Definition toks_alt (a : list str) : list tok :=
  match a with [] => [TStr []] | _ => map toks_elem a end.
Definition toks_rule (r : str * list (list str)) : list tok :=
  TNt (fst r) :: TDef :: tjoin [TBar] (map toks_alt (snd r)).

(* symbols of a canonical alternative that the lexer can read back *)
Definition elem_lex_ok (e : str) : Prop := is_nt e = true -> ntok_shape e.

Lemma Lx_elem e s ts : elem_lex_ok e -> Lx s ts -> Lx (print_elem e ++ s) ([toks_elem e] ++ ts).
Proof.
  intros He H. unfold print_elem, toks_elem. destruct (is_nt e) eqn:Hnt.
  - apply Lx_nt; [apply He; exact Hnt | exact H].
  - cbn [app]. rewrite <- app_assoc. cbn [app]. apply Lx_str. exact H.
Qed.

Lemma Lx_sp s ts : Lx s ts -> Lx ([c_sp] ++ s) ([] ++ ts).
Proof. apply Lx_ws. reflexivity. Qed.

Lemma tjoin_nil_single (ts : list tok) : forall xs : list tok, tjoin [] (map (fun x => [x]) xs) = xs.
Proof.
  induction xs as [|x xs IH]; [reflexivity|]. destruct xs as [|y xs]; [reflexivity|].
  change (tjoin [] (map (fun x => [x]) (x :: y :: xs))) with ([x] ++ [] ++ tjoin [] (map (fun x => [x]) (y :: xs))).
  rewrite IH. reflexivity.
Qed.

Lemma Lx_alt a s ts : Forall elem_lex_ok a -> Lx s ts -> Lx (print_alt a ++ s) (toks_alt a ++ ts).
Proof.
  intros Ha H. destruct a as [|e0 a0].
  - cbn [print_alt toks_alt app]. apply (Lx_str [] s ts). exact H.
  - remember (e0 :: a0) as a eqn:Ea.
    assert (E1 : print_alt a = join [c_sp] (map print_elem a)) by (subst a; reflexivity).
    assert (E2 : toks_alt a = tjoin [] (map (fun e => [toks_elem e]) a)).
    { subst a. unfold toks_alt. rewrite <- (map_map toks_elem (fun x => [x])).
      rewrite (tjoin_nil_single []). reflexivity. }
    rewrite E1, E2. apply Lx_join; [| apply Lx_sp | exact H].
    intros x Hx s' ts' H'. apply Lx_elem; [|exact H']. rewrite Forall_forall in Ha. apply Ha. exact Hx.
Qed.

Lemma Lx_sbar s ts : Lx s ts -> Lx (s_bar ++ s) ([TBar] ++ ts).
Proof. intros H. unfold s_bar. cbn [app]. apply Lx_ws; [reflexivity|]. apply Lx_bar. apply Lx_ws; [reflexivity | exact H]. Qed.

Definition rule_lex_ok (r : str * list (list str)) : Prop :=
  ntok_shape (fst r) /\ Forall (Forall elem_lex_ok) (snd r).

Lemma Lx_rule r s ts : rule_lex_ok r -> Lx s ts -> Lx (print_rule r ++ s) (toks_rule r ++ ts).
Proof.
  intros [Hk Hal] H. unfold print_rule, toks_rule. rewrite <- !app_assoc.
  change (TNt (fst r) :: TDef :: tjoin [TBar] (map toks_alt (snd r)) ++ ts)
    with (TNt (fst r) :: TDef :: (tjoin [TBar] (map toks_alt (snd r)) ++ ts)).
  apply Lx_nt; [exact Hk|]. unfold s_def. cbn [app].
  apply Lx_ws; [reflexivity|]. apply Lx_def. apply Lx_ws; [reflexivity|].
  apply Lx_join; [| apply Lx_sbar | exact H].
  intros a Ha s' ts' H'. apply Lx_alt; [|exact H']. rewrite Forall_forall in Hal. apply Hal. exact Ha.
Qed.

Lemma tjoin_nil_concat (xs : list (list tok)) : tjoin [] xs = concat xs.
Proof.
  induction xs as [|x xs IH]; [reflexivity|]. destruct xs as [|y xs].
  - cbn. rewrite app_nil_r. reflexivity.
  - change (tjoin [] (x :: y :: xs)) with (x ++ [] ++ tjoin [] (y :: xs)). rewrite IH. reflexivity.
Qed.

Lemma Lx_nl s ts : Lx s ts -> Lx ([c_nl] ++ s) ([] ++ ts).
Proof. apply Lx_ws. reflexivity. Qed.

Theorem lex_printed (g : grammar) :
  Forall rule_lex_ok g ->
  lex (S (length (print_canonical g))) (print_canonical g) = Ok (concat (map toks_rule g)).
Proof.
  intros Hg.
  assert (H : Lx (print_canonical g ++ []) (tjoin [] (map toks_rule g) ++ [])).
  { unfold print_canonical. apply Lx_join; [| apply Lx_nl | apply Lx_nil].
    intros r Hr s ts H. apply Lx_rule; [|exact H]. rewrite Forall_forall in Hg. apply Hg. exact Hr. }
  rewrite !app_nil_r in H. rewrite tjoin_nil_concat in H. apply H. lia.
Qed.

(* ---------- parser ---------- *)
Definition elem_of (e : str) : elem := if is_nt e then ENt e else EStr (escape e).
Definition prule_of (r : str * list (list str)) : prule := (fst r, map print_elems (snd r)).

Definition no_def_start (ts : list tok) : Prop := match ts with TDef :: _ => False | _ => True end.

Lemma parse_go_nt n rest lhs alts cur :
  no_def_start rest -> parse_go (TNt n :: rest) lhs alts cur = parse_go rest lhs alts (cur ++ [ENt n]).
Proof. intros H. destruct rest as [|t rest]; [reflexivity|]. destruct t; try reflexivity. contradiction. Qed.

Lemma toks_elem_no_def e X : no_def_start (toks_elem e :: X).
Proof. unfold toks_elem. destruct (is_nt e); exact I. Qed.

Lemma parse_elems es : forall rest lhs alts cur,
  no_def_start rest ->
  parse_go (map toks_elem es ++ rest) lhs alts cur = parse_go rest lhs alts (cur ++ map elem_of es).
Proof.
  induction es as [|e es IH]; intros rest lhs alts cur Hr.
  - cbn [map app]. rewrite app_nil_r. reflexivity.
  - cbn [map app].
    assert (Hn : no_def_start (map toks_elem es ++ rest)).
    { destruct es as [|e' es']; [exact Hr | apply toks_elem_no_def]. }
    unfold toks_elem at 1, elem_of at 1. destruct (is_nt e).
    + rewrite parse_go_nt by exact Hn. rewrite IH by exact Hr. rewrite <- app_assoc. reflexivity.
    + cbn [parse_go]. rewrite IH by exact Hr. rewrite <- app_assoc. reflexivity.
Qed.

Lemma print_elems_map a : a <> [] -> print_elems a = map elem_of a.
Proof. intros H. destruct a; [contradiction | reflexivity]. Qed.

Lemma print_elems_nonnil a : is_nil (print_elems a) = false.
Proof. destruct a; reflexivity. Qed.

Lemma parse_alt a rest lhs alts :
  no_def_start rest ->
  parse_go (toks_alt a ++ rest) lhs alts [] = parse_go rest lhs alts (print_elems a).
Proof.
  intros Hr. destruct a as [|e0 a0].
  - reflexivity.
  - rewrite print_elems_map by discriminate. unfold toks_alt. rewrite parse_elems by exact Hr. reflexivity.
Qed.

(* what follows the last alternative of a rule *)
Definition finish (R : list tok) (lhs : str) (alts : list (list elem)) : res (list prule) :=
  match R with
  | [] => Ok [(lhs, alts)]
  | TNt n :: TDef :: R' => bind (parse_go R' n [] []) (fun rs => Ok ((lhs, alts) :: rs))
  | _ => Raise SyntaxErr
  end.
Definition R_ok (R : list tok) : Prop := R = [] \/ exists n R', R = TNt n :: TDef :: R'.

Lemma R_ok_no_def R : R_ok R -> no_def_start R.
Proof. intros [E | [n [R' E]]]; subst; exact I. Qed.

Lemma parse_finish R lhs alts cur :
  R_ok R -> is_nil cur = false -> parse_go R lhs alts cur = finish R lhs (alts ++ [cur]).
Proof.
  intros [E | [n [R' E]]] Hc; subst.
  - cbn [parse_go finish]. rewrite Hc. reflexivity.
  - cbn [parse_go finish]. rewrite Hc. reflexivity.
Qed.

Lemma parse_alts R lhs : R_ok R -> forall al a alts0,
  parse_go (tjoin [TBar] (map toks_alt (a :: al)) ++ R) lhs alts0 []
  = finish R lhs (alts0 ++ map print_elems (a :: al)).
Proof.
  intros HR. induction al as [|a2 al IH]; intros a alts0.
  - cbn [map tjoin]. rewrite parse_alt by (apply R_ok_no_def; exact HR).
    apply parse_finish; [exact HR | apply print_elems_nonnil].
  - change (tjoin [TBar] (map toks_alt (a :: a2 :: al)))
      with (toks_alt a ++ [TBar] ++ tjoin [TBar] (map toks_alt (a2 :: al))).
    rewrite <- !app_assoc. rewrite parse_alt by exact I.
    cbn [app parse_go]. rewrite print_elems_nonnil.
    rewrite IH. cbn [map]. rewrite <- app_assoc. reflexivity.
Qed.

Lemma parse_rules_go : forall (g : grammar) r,
  Forall (fun r => snd r <> []) (r :: g) ->
  parse_go (tjoin [TBar] (map toks_alt (snd r)) ++ concat (map toks_rule g)) (fst r) [] []
  = Ok (map prule_of (r :: g)).
Proof.
  induction g as [|r2 g IH]; intros [k al0] Hne.
  - inversion Hne as [|r' g' Hr _]; subst. cbn [fst snd] in *. destruct al0 as [|a al]; [contradiction|].
    rewrite (parse_alts [] k (or_introl eq_refl)). reflexivity.
  - inversion Hne as [|r' g' Hr Hg]; subst. cbn [fst snd] in *. destruct al0 as [|a al]; [contradiction|].
    change (concat (map toks_rule (r2 :: g)))
      with (TNt (fst r2) :: TDef :: (tjoin [TBar] (map toks_alt (snd r2)) ++ concat (map toks_rule g))).
    rewrite parse_alts by (right; eexists; eexists; reflexivity).
    cbn [finish]. rewrite IH by exact Hg. reflexivity.
Qed.

Theorem parse_printed (g : grammar) :
  g <> [] -> Forall (fun r => snd r <> []) g ->
  parse_rules (concat (map toks_rule g)) = Ok (map prule_of g).
Proof.
  intros Hne Hal. destruct g as [|r g]; [contradiction|].
  cbn [map concat]. unfold toks_rule at 1. cbn [app parse_rules]. apply parse_rules_go. exact Hal.
Qed.
