(* C11 (proof extension) — language clause: what parse_bnf (unparse_grammar g) is when terminals
   contain '<', and that its canonical form is the "chopped" grammar of BnfChopMore, hence has
   the same language for every nonterminal of g (once the <langle> rule has been added). *)
From ISLA Require Import Str Outcome Grammar BnfEscape BnfEscapeFacts BnfSplitMore BnfLexMore
  BnfIdentityMore BnfChopMore.
From Coq Require Import List NArith Bool Lia.
Import ListNotations.
Local Open Scope N_scope.

(* ---------- replacing the single character '<' ---------- *)
Definition sub (new t : str) : str := flat_map (fun c => if c =? c_lt then new else [c]) t.

Lemma replace_char a new s :
  str_replace [a] new s = flat_map (fun c => if c =? a then new else [c]) s.
Proof.
  unfold str_replace. induction s as [|c s IH]; [reflexivity|].
  cbn [replace_go flat_map str_prefixb length pred]. rewrite (N.eqb_sym a c).
  destruct (c =? a); cbn [andb]; rewrite IH; reflexivity.
Qed.

Lemma flat_map_comp {A B C} (f : B -> list C) (g : A -> list B) l :
  flat_map f (flat_map g l) = flat_map (fun x => flat_map f (g x)) l.
Proof. induction l as [|x l IH]; [reflexivity|]. cbn [flat_map]. rewrite flat_map_app, IH. reflexivity. Qed.

Lemma sub_no_lt new u : ~ In c_lt u -> sub new u = u.
Proof.
  induction u as [|c u IH]; intros H; [reflexivity|]. cbn [sub flat_map].
  destruct (N.eqb_spec c c_lt) as [E|_]; [exfalso; apply H; left; exact E|].
  fold (sub new u). rewrite IH; [reflexivity|]. intros H'. apply H. right. exact H'.
Qed.

Lemma unit_no_lt c : c <> c_lt -> ~ In c_lt (escape_char c).
Proof.
  intros Hc Hin. destruct (esc_cases c) as [[E _] | [t [E [_ [Ht _]]]]]; rewrite E in Hin.
  - destruct Hin as [H|[]]. congruence.
  - destruct Hin as [H|H]; [discriminate H|].
    unfold tail_ok in Ht. rewrite Forall_forall in Ht. destruct (Ht _ H) as [_ Hx]. apply Hx. reflexivity.
Qed.

Lemma escape_app a b : escape (a ++ b) = escape a ++ escape b.
Proof. unfold escape. apply flat_map_app. Qed.

Lemma sub_escape new t : escape new = new -> sub new (escape t) = escape (sub new t).
Proof.
  intros Hn. unfold sub, escape. rewrite !flat_map_comp. apply flat_map_ext. intros c.
  destruct (N.eqb_spec c c_lt) as [E|E].
  - subst c. change (escape_char c_lt) with [c_lt]. cbn [flat_map]. rewrite N.eqb_refl, app_nil_r.
    symmetry. exact Hn.
  - cbn [flat_map]. rewrite app_nil_r. apply (sub_no_lt new). apply unit_no_lt. exact E.
Qed.

(* ---------- the placeholder: ascii letters ---------- *)
Definition is_letter (c : chr) : Prop := (65 <= c /\ c <= 90) \/ (97 <= c /\ c <= 122).
Definition ph_ok (ph : str) : Prop := Forall is_letter ph.

Lemma letter_plain c : is_letter c -> escape_char c = [c].
Proof.
  intros H. unfold escape_char.
  repeat match goal with
         | |- context [c =? ?k] => destruct (N.eqb_spec c k) as [E|_]; [exfalso; destruct H; lia|]
         end.
  assert (Hp : printable c = true).
  { unfold printable. apply orb_true_iff. left. apply andb_true_iff. split; apply N.leb_le; destruct H; lia. }
  rewrite Hp. rewrite andb_false_r. reflexivity.
Qed.

Lemma escape_letters ph : ph_ok ph -> escape ph = ph.
Proof.
  induction 1 as [|c ph Hc Hph IH]; [reflexivity|].
  unfold escape. cbn [flat_map]. fold (escape ph). rewrite IH, letter_plain by exact Hc. reflexivity.
Qed.

Lemma escape_ph_nt ph : ph_ok ph -> escape (ph_nt ph) = ph_nt ph.
Proof.
  intros H. unfold ph_nt. change (c_lt :: ph ++ [c_gt]) with ([c_lt] ++ ph ++ [c_gt]).
  rewrite !escape_app. rewrite (escape_letters ph H). reflexivity.
Qed.

Lemma letters_avoid ph x : ph_ok ph -> (x < 65 \/ (90 < x /\ x < 97) \/ 122 < x) -> ~ In x ph.
Proof.
  intros H Hx Hin. unfold ph_ok in H. rewrite Forall_forall in H. specialize (H x Hin). destruct H; lia.
Qed.

Lemma ph_nt_avoid ph x : ph_ok ph -> (x < 60 \/ 122 < x) -> Forall (fun y => y <> x) (ph_nt ph).
Proof.
  intros H Hx. unfold ph_nt. rewrite Forall_forall. intros y Hy E. subst y.
  destruct Hy as [Hy|Hy]; [unfold c_lt in Hy; lia|].
  apply in_app_or in Hy as [Hy|[Hy|[]]]; [|unfold c_gt in Hy; lia].
  apply (letters_avoid ph x H); [lia | exact Hy].
Qed.

(* ---------- the classes are not created by inserting the placeholder ---------- *)
Lemma prefixb_sub n' pat : ~ In c_lt pat -> forall s,
  str_prefixb pat (sub (c_lt :: n') s) = true -> str_prefixb pat s = true.
Proof.
  induction pat as [|a p IH]; intros Hp s H; [reflexivity|].
  destruct s as [|c s]; [discriminate H|].
  cbn [sub flat_map] in H. fold (sub (c_lt :: n') s) in H.
  destruct (N.eqb_spec c c_lt) as [E|E].
  - subst c. cbn [app str_prefixb] in H. destruct (N.eqb_spec a c_lt) as [E|_]; [|discriminate H].
    exfalso. apply Hp. left. exact E.
  - cbn [app str_prefixb] in H |- *. apply andb_true_iff in H as [H1 H2]. rewrite H1. cbn [andb].
    apply IH; [intros H'; apply Hp; right; exact H' | exact H2].
Qed.

Lemma infixb_sub n' a p : ~ In c_lt (a :: p) -> Forall (fun y => y <> a) (c_lt :: n') -> forall t,
  str_infixb (a :: p) (sub (c_lt :: n') t) = true -> str_infixb (a :: p) t = true.
Proof.
  intros Hp Hn. induction t as [|c t IH]; intros H; [exact H|].
  cbn [sub flat_map] in H. fold (sub (c_lt :: n') t) in H.
  destruct (N.eqb_spec c c_lt) as [E|E].
  - rewrite infixb_skip in H by exact Hn. cbn [str_infixb]. rewrite (IH H). apply orb_true_r.
  - cbn [app str_infixb] in H. apply orb_true_iff in H as [H|H].
    + cbn [str_infixb]. apply orb_true_iff. left. apply (prefixb_sub n' (a :: p) Hp (c :: t)).
      cbn [sub flat_map]. destruct (N.eqb_spec c c_lt) as [E'|_]; [contradiction | exact H].
    + cbn [str_infixb]. rewrite (IH H). apply orb_true_r.
Qed.

Lemma infixb_sub_false ph pat t :
  ph_ok ph -> (exists p, pat = 36 :: p) -> ~ In c_lt pat ->
  str_infixb pat t = false -> str_infixb pat (sub (ph_nt ph) t) = false.
Proof.
  intros Hph [p Ep] Hp H. subst pat.
  destruct (str_infixb (36 :: p) (sub (ph_nt ph) t)) eqn:E; [|reflexivity].
  unfold ph_nt in E. apply infixb_sub in E; [pose proof (eq_trans (eq_sym E) H) as X; discriminate X | exact Hp |].
  apply (ph_nt_avoid ph 36 Hph). lia.
Qed.

Lemma K_sub ph t : ph_ok ph -> K_besc t = false -> K_besc_overlap t = false ->
  K_besc (sub (ph_nt ph) t) = false /\ K_besc_overlap (sub (ph_nt ph) t) = false.
Proof.
  unfold K_besc, K_besc_overlap. intros Hph H1 H2. apply orb_false_iff in H2 as [H2 H3].
  assert (Hnl : forall pat, (pat = besc \/ pat = besc_ov1 \/ pat = besc_ov2) -> ~ In c_lt pat).
  { intros pat [E|[E|E]] Hin; subst pat; cbn in Hin;
      repeat (destruct Hin as [Hin|Hin]; [discriminate Hin|]); exact Hin. }
  split; [|apply orb_false_iff; split]; apply infixb_sub_false; try assumption;
    try (eexists; reflexivity); apply Hnl; tauto.
Qed.

Lemma emit_terminal_sub ph t : ph_ok ph -> K_besc t = false -> K_besc_overlap t = false ->
  emit_elem ph (EStr (escape t)) = Ok (sub (ph_nt ph) t).
Proof.
  intros Hph H1 H2. unfold emit_elem. rewrite replace_char. fold (sub (ph_nt ph) (escape t)).
  rewrite sub_escape by (apply escape_ph_nt; exact Hph).
  destruct (K_sub ph t Hph H1 H2) as [K1 K2]. apply bnf_roundtrip_guarded; assumption.
Qed.

(* ---------- instantiating the placeholder nonterminal ---------- *)
Lemma replace_nolead a o' new u rest : ~ In a u ->
  str_replace (a :: o') new (u ++ rest) = u ++ str_replace (a :: o') new rest.
Proof.
  induction u as [|c u IH]; intros H; [reflexivity|]. cbn [app]. rewrite replace_miss.
  - rewrite IH; [reflexivity|]. intros H'. apply H. right. exact H'.
  - cbn [str_prefixb]. destruct (N.eqb_spec a c) as [E|_]; [|reflexivity]. exfalso. apply H. left. symmetry. exact E.
Qed.

Lemma replace_sub o' new t rest :
  str_replace (c_lt :: o') new (sub (c_lt :: o') t ++ rest) = sub new t ++ str_replace (c_lt :: o') new rest.
Proof.
  induction t as [|c t IH]; [reflexivity|]. cbn [sub flat_map].
  fold (sub (c_lt :: o') t). fold (sub new t). destruct (N.eqb_spec c c_lt) as [E|E].
  - rewrite <- !app_assoc. rewrite replace_hit. rewrite IH. reflexivity.
  - cbn [app]. rewrite replace_miss.
    + rewrite IH. reflexivity.
    + cbn [str_prefixb]. destruct (N.eqb_spec c_lt c) as [E'|_]; [congruence | reflexivity].
Qed.

Lemma clash_bodies b1 : forall b2, ~ In c_gt b1 -> ~ In c_gt b2 -> b1 <> b2 ->
  clashb (b1 ++ [c_gt]) (b2 ++ [c_gt]) = true.
Proof.
  induction b1 as [|x b1 IH]; intros [|y b2] H1 H2 Hne.
  - contradiction.
  - cbn [app clashb]. destruct (N.eqb_spec c_gt y) as [E|_]; [|reflexivity]. exfalso. apply H2. left. symmetry. exact E.
  - cbn [app clashb]. destruct (N.eqb_spec x c_gt) as [E|_]; [|reflexivity]. exfalso. apply H1. left. exact E.
  - cbn [app clashb]. destruct (N.eqb_spec x y) as [E|_]; [|reflexivity]. subst y.
    apply IH; [intros H; apply H1; right; exact H | intros H; apply H2; right; exact H | congruence].
Qed.

Lemma replace_nt ph new e rest : ~ In c_gt ph -> nt_exact e -> e <> ph_nt ph ->
  str_replace (ph_nt ph) new (e ++ rest) = e ++ str_replace (ph_nt ph) new rest.
Proof.
  intros Hph [body [He Hb]] Hne. subst e. unfold ph_nt in *.
  assert (Hgt : ~ In c_gt body).
  { intros Hin. rewrite Forall_forall in Hb. destruct (Hb _ Hin) as [_ [H _]]. apply H. reflexivity. }
  assert (Hlt : ~ In c_lt (body ++ [c_gt])).
  { intros Hin. apply in_app_or in Hin as [Hin|[Hin|[]]]; [|discriminate Hin].
    rewrite Forall_forall in Hb. destruct (Hb _ Hin) as [H _]. apply H. reflexivity. }
  cbn [app]. rewrite replace_miss.
  - change (body ++ [c_gt]) with (body ++ [c_gt]). rewrite replace_nolead by exact Hlt. reflexivity.
  - apply (clash_noprefix (c_lt :: body ++ [c_gt]) (c_lt :: ph ++ [c_gt]) rest).
    cbn [clashb]. rewrite N.eqb_refl. apply clash_bodies; [exact Hgt | exact Hph | congruence].
Qed.

Definition lt_elems (F : str) (a : list str) : str :=
  concat (map (fun e => if is_nt e then e else sub F e) a).

Lemma replace_lt_elems ph new a : ~ In c_gt ph ->
  Forall (fun e => is_nt e = true -> nt_exact e /\ e <> ph_nt ph) a ->
  str_replace (ph_nt ph) new (lt_elems (ph_nt ph) a) = lt_elems new a.
Proof.
  intros Hph. induction 1 as [|e a He Ha IH]; [reflexivity|].
  unfold lt_elems in *. cbn [map concat]. destruct (is_nt e) eqn:Hnt.
  - destruct (He eq_refl) as [H1 H2]. rewrite replace_nt by assumption. rewrite IH. reflexivity.
  - unfold ph_nt at 1 2. rewrite replace_sub. fold (ph_nt ph). rewrite IH. reflexivity.
Qed.

(* ---------- RE_NONTERMINAL.split of a list of pieces ---------- *)
Fixpoint merge (buf : str) (toks : list str) : list str :=
  match toks with
  | [] => flush buf
  | e :: r => if is_nt e then flush buf ++ e :: merge [] r else merge (buf ++ e) r
  end.

Lemma split_go_skip x : forall buf r, split_go (length x) buf (x ++ r) = split_go O buf r.
Proof.
  induction x as [|c x IH]; intros buf r; [destruct r; reflexivity|]. cbn [length app split_go]. apply IH.
Qed.

Lemma split_go_plain e : forall buf R, ~ In c_lt e -> split_go O buf (e ++ R) = split_go O (buf ++ e) R.
Proof.
  induction e as [|c e IH]; intros buf R H; [rewrite app_nil_r; reflexivity|].
  cbn [app split_go nt_match]. destruct (N.eqb_spec c c_lt) as [E|_]; [exfalso; apply H; left; exact E|].
  rewrite IH by (intros H'; apply H; right; exact H'). rewrite <- app_assoc. reflexivity.
Qed.

Lemma split_go_nt e buf R : nt_exact e -> split_go O buf (e ++ R) = flush buf ++ e :: split_go O [] R.
Proof.
  intros He. pose proof (nt_exact_match e R He) as Hm.
  destruct e as [|c e']; [destruct He as [b [E _]]; discriminate E|].
  cbn [app] in *. cbn [split_go]. rewrite Hm. f_equal.
  change (c :: e' ++ R) with ((c :: e') ++ R). rewrite firstn_len_app. f_equal.
  cbn [length pred]. apply split_go_skip.
Qed.

Definition piece_ok (e : str) : Prop := nt_exact e \/ ~ In c_lt e.

Lemma split_merge toks : forall buf, Forall piece_ok toks ->
  split_go O buf (concat toks) = merge buf toks.
Proof.
  induction toks as [|e r IH]; intros buf H; [reflexivity|].
  inversion H as [|e' r' He Hr]; subst. cbn [concat merge]. destruct He as [He|He].
  - rewrite (nt_exact_is_nt e He). rewrite split_go_nt by exact He. rewrite IH by exact Hr. reflexivity.
  - rewrite (no_lt_not_nt e He). rewrite split_go_plain by exact He. apply IH. exact Hr.
Qed.

Lemma altb_weaken toks : altb true toks = true -> altb false toks = true.
Proof. destruct toks as [|e r]; [reflexivity|]. cbn [altb]. destruct (is_nt e); [tauto|]. cbn. discriminate. Qed.

Lemma merge_alt toks :
  (altb false toks = true -> merge [] toks = toks) /\
  (altb true toks = true -> forall buf, merge buf toks = flush buf ++ toks).
Proof.
  induction toks as [|e r [IH1 IH2]].
  - split; [reflexivity|]. intros _ buf. cbn [merge]. rewrite app_nil_r. reflexivity.
  - split.
    + cbn [altb merge]. destruct (is_nt e) eqn:Hnt.
      * intros H. cbn [flush app]. rewrite IH1 by exact H. reflexivity.
      * intros H. cbn [negb andb] in H. apply andb_true_iff in H as [Hne H].
        rewrite IH2 by exact H. cbn [app]. destruct e; [discriminate Hne | reflexivity].
    + cbn [altb merge]. destruct (is_nt e) eqn:Hnt; [|discriminate].
      intros H buf. rewrite IH1 by exact H. reflexivity.
Qed.

Section ChopFacts.
  Variable F : str.
  Hypothesis F_nt : is_nt F = true.

  Lemma chop_go_concat t : forall buf, concat (chop_go F buf t) = buf ++ sub F t.
  Proof.
    induction t as [|c t IH]; intros buf.
    - cbn [chop_go sub flat_map]. rewrite concat_flush, app_nil_r. reflexivity.
    - cbn [chop_go sub flat_map]. fold (sub F t). destruct (c =? c_lt).
      + rewrite concat_app, concat_flush. cbn [concat]. rewrite IH. reflexivity.
      + rewrite IH. rewrite <- app_assoc. reflexivity.
  Qed.

  Lemma chop_alt_concat a : concat (chop_alt F a) = lt_elems F a.
  Proof.
    unfold lt_elems. induction a as [|e a IH]; [reflexivity|].
    cbn [chop_alt flat_map map concat]. fold (chop_alt F a). rewrite concat_app, IH.
    destruct (is_nt e); [cbn [concat]; rewrite app_nil_r; reflexivity|].
    unfold chop. rewrite chop_go_concat. reflexivity.
  Qed.

  Lemma chop_go_pieces t : forall buf, ~ In c_lt buf -> nt_exact F -> Forall piece_ok (chop_go F buf t).
  Proof.
    induction t as [|c t IH]; intros buf Hb HF.
    - cbn [chop_go]. destruct buf; [constructor | constructor; [right; exact Hb | constructor]].
    - cbn [chop_go]. destruct (N.eqb_spec c c_lt) as [E|E].
      + apply Forall_app. split.
        * destruct buf; [constructor | constructor; [right; exact Hb | constructor]].
        * constructor; [left; exact HF | apply IH; [intros [] | exact HF]].
      + apply IH; [|exact HF]. intros Hin. apply in_app_or in Hin as [Hin|[Hin|[]]]; [exact (Hb Hin) | congruence].
  Qed.

  Lemma chop_go_altb t : forall buf X, ~ In c_lt buf -> altb true X = true ->
    altb false (chop_go F buf t ++ X) = true.
  Proof.
    induction t as [|c t IH]; intros buf X Hb HX.
    - cbn [chop_go]. destruct buf as [|b0 b]; [apply altb_weaken; exact HX|].
      cbn [flush app altb]. rewrite (no_lt_not_nt _ Hb). cbn. exact HX.
    - cbn [chop_go]. destruct (N.eqb_spec c c_lt) as [E|E].
      + assert (HY : altb false (chop_go F [] t ++ X) = true) by (apply IH; [intros [] | exact HX]).
        rewrite <- app_assoc. cbn [app]. destruct buf as [|b0 b].
        * cbn [flush app altb]. rewrite F_nt. exact HY.
        * cbn [flush app altb]. rewrite (no_lt_not_nt _ Hb), F_nt. cbn. exact HY.
      + apply IH; [|exact HX]. intros Hin. apply in_app_or in Hin as [Hin|[Hin|[]]]; [exact (Hb Hin) | congruence].
  Qed.

  Lemma chop_alt_altb a :
    (altb false a = true -> altb false (chop_alt F a) = true) /\
    (altb true a = true -> altb true (chop_alt F a) = true).
  Proof.
    induction a as [|e a [IH1 IH2]]; [split; reflexivity|].
    cbn [altb chop_alt flat_map]. fold (chop_alt F a). destruct (is_nt e) eqn:Hnt.
    - cbn [app altb]. rewrite Hnt. split; exact IH1.
    - split; [|discriminate]. intros H. cbn [negb andb] in H. apply andb_true_iff in H as [_ H].
      apply chop_go_altb; [intros [] | apply IH2; exact H].
  Qed.

  (* the canonical form of a rewritten alternative *)
  Theorem split_lt_elems a : nt_exact F ->
    Forall tok_ok a -> altb false a = true ->
    split_expansion (lt_elems F a) = chop_alt F a.
  Proof.
    intros HF Hok Halt. rewrite <- chop_alt_concat. unfold split_expansion. rewrite split_merge.
    - apply (proj1 (merge_alt _)). apply (proj1 (chop_alt_altb a)). exact Halt.
    - clear Halt. induction Hok as [|e a He Ha IH]; [constructor|].
      cbn [chop_alt flat_map]. apply Forall_app. split; [|exact IH].
      unfold tok_ok in He. destruct (is_nt e); [constructor; [left; exact He | constructor]|].
      apply chop_go_pieces; [intros [] | exact HF].
  Qed.
End ChopFacts.

(* ---------- the emitter on the printed rules, terminals with '<' allowed ---------- *)
Definition elem_lang_ok (e : str) : Prop :=
  if is_nt e then ntok_shape e /\ nt_ok e else K_besc e = false /\ K_besc_overlap e = false.

Lemma emit_elems_lt ph a : ph_ok ph -> Forall elem_lang_ok a ->
  emit_alt ph (map elem_of a) = Ok (lt_elems (ph_nt ph) a).
Proof.
  intros Hph. induction 1 as [|e a He Ha IH]; [reflexivity|].
  cbn [map emit_alt]. unfold elem_of at 1. unfold elem_lang_ok in He. unfold lt_elems in *. cbn [map concat].
  destruct (is_nt e).
  - destruct He as [_ He]. unfold emit_elem. rewrite unescape_nt by exact He. cbn [bind]. rewrite IH. reflexivity.
  - destruct He as [K1 K2]. rewrite emit_terminal_sub by assumption. cbn [bind]. rewrite IH. reflexivity.
Qed.

Lemma emit_alt_lt ph a : ph_ok ph -> Forall elem_lang_ok a ->
  emit_alt ph (print_elems a) = Ok (lt_elems (ph_nt ph) a).
Proof.
  intros Hph Ha. destruct a as [|e0 a0].
  - cbn [print_elems emit_alt]. change (EStr []) with (EStr (escape [])).
    rewrite emit_terminal_sub by (exact Hph || reflexivity). reflexivity.
  - rewrite print_elems_map by discriminate. apply emit_elems_lt; assumption.
Qed.

Lemma emit_alts_gen ph (h : list str -> str) al :
  (forall a, In a al -> emit_alt ph (print_elems a) = Ok (h a)) ->
  emit_alts ph (map print_elems al) = Ok (map h al).
Proof.
  induction al as [|a al IH]; intros H; [reflexivity|].
  cbn [map emit_alts]. rewrite H by (left; reflexivity). cbn [bind].
  rewrite IH by (intros a' Ha'; apply H; right; exact Ha'). reflexivity.
Qed.

Lemma emit_rules_gen ph (h : list str -> str) (cg : grammar) :
  (forall r a, In r cg -> In a (snd r) -> emit_alt ph (print_elems a) = Ok (h a)) ->
  emit_rules ph (map prule_of cg) = Ok (map (fun r => (fst r, map h (snd r))) cg).
Proof.
  induction cg as [|r cg IH]; intros H; [reflexivity|].
  cbn [map]. unfold prule_of at 1. cbn [emit_rules].
  rewrite (emit_alts_gen ph h) by (intros a Ha; apply (H r a); [left; reflexivity | exact Ha]). cbn [bind].
  rewrite IH by (intros r' a Hr' Ha; apply (H r' a); [right; exact Hr' | exact Ha]). reflexivity.
Qed.

(* ---------- the re-parsed grammar ---------- *)
Definition free_name (g : pygrammar) : str := free_langle (S (length (map fst g))) O (map fst g).
Definition lt_alt (F s : str) : str := lt_elems F (split_expansion s).
Definition lt_rules (F : str) (g : pygrammar) : pygrammar :=
  map (fun r => (fst r, map (lt_alt F) (snd r))) g.
Definition langle_rule (F : str) : str * list str := (F, [[c_lt]]).

Lemma lt_rules_keys F g : map fst (lt_rules F g) = map fst g.
Proof. unfold lt_rules. rewrite map_map. reflexivity. Qed.

Lemma in_concat_infix (e : str) l : In e l -> infix e (concat l).
Proof.
  intros H. apply in_split in H as [l1 [l2 E]]. subst l. rewrite concat_app. cbn [concat].
  exists (concat l1), (concat l2). reflexivity.
Qed.

Definition terminals_ok (g : pygrammar) : Prop :=
  existsb K_besc (g_terminals g) = false /\ existsb K_besc_overlap (g_terminals g) = false.

Lemma elems_lang_ok (g : pygrammar) r s :
  terminals_ok g -> K_nt_escape g = false -> K_empty_nt g = false ->
  In r g -> In s (snd r) -> Forall elem_lang_ok (split_expansion s).
Proof.
  intros [Hb Hov] Hesc Hemp Hr Hs. rewrite Forall_forall. intros e He. unfold elem_lang_ok.
  destruct (is_nt e) eqn:Hnt.
  - apply (nt_elem_ok g r s e); assumption.
  - assert (Hin : In e (g_terminals g)).
    { unfold g_terminals. apply in_flat_map. exists r. split; [exact Hr|]. apply filter_In.
      split; [|rewrite Hnt; reflexivity]. apply in_flat_map. exists s. split; assumption. }
    split; [exact (existsb_false_in _ _ _ Hb Hin) | exact (existsb_false_in _ _ _ Hov Hin)].
Qed.

Theorem reparse_shape ph (g : pygrammar) :
  wf_py g -> N.of_nat (length g) < big -> ph_ok ph -> ph_fresh ph g ->
  terminals_ok g -> K_nt_escape g = false -> K_empty_nt g = false ->
  parse_bnf ph (unparse_grammar g)
  = Ok (if mem_str (free_name g) (reachable (lt_rules (free_name g) g ++ [langle_rule (free_name g)]))
        then lt_rules (free_name g) g ++ [langle_rule (free_name g)]
        else lt_rules (free_name g) g).
Proof.
  intros [Hne [Hnd [Hk Hcl]]] Hbig Hph Hfr Hterm Hesc Hemp.
  rewrite front_end by assumption. unfold emit_grammar.
  rewrite (emit_rules_gen ph (lt_elems (ph_nt ph))).
  2:{ intros cr a Hcr Ha. unfold canonical in Hcr. apply in_map_iff in Hcr as [r [E Hr]]. subst cr.
      cbn [snd] in Ha. apply in_map_iff in Ha as [s [E Hs]]. subst a.
      apply emit_alt_lt; [exact Hph|]. apply (elems_lang_ok g r s); assumption. }
  cbn [bind].
  assert (Epart : map (fun r : str * list (list str) => (fst r, map (lt_elems (ph_nt ph)) (snd r))) (canonical g)
                  = lt_rules (ph_nt ph) g).
  { unfold canonical, lt_rules. rewrite map_map. apply map_ext. intros [k al]. cbn [fst snd].
    rewrite map_map. reflexivity. }
  rewrite Epart. rewrite lt_rules_keys. fold (free_name g). set (F := free_name g).
  assert (HF : ~ In F (map fst g)).
  { unfold F, free_name. apply free_langle_fresh. rewrite map_length. exact Hbig. }
  rewrite (fold_dict_set (map (str_replace (ph_nt ph) F)) (lt_rules (ph_nt ph) g) [])
    by (cbn [map app]; rewrite lt_rules_keys; exact Hnd).
  cbn [app].
  assert (Eres : map (fun r : str * list str => (fst r, map (str_replace (ph_nt ph) F) (snd r)))
                     (lt_rules (ph_nt ph) g) = lt_rules F g).
  { unfold lt_rules. rewrite map_map. apply map_ext_in. intros [k al] Hr. cbn [fst snd]. f_equal.
    rewrite map_map. apply map_ext_in. intros s Hs. unfold lt_alt. apply replace_lt_elems.
    - apply letters_avoid; [exact Hph | unfold c_gt; lia].
    - destruct (split_expansion_ok s) as [Hok _]. rewrite Forall_forall in *. intros e He Hnt.
      pose proof (Hok e He) as Hte. unfold tok_ok in Hte. rewrite Hnt in Hte. split; [exact Hte|].
      intros E. subst e. apply (Hfr (k, al) s Hr Hs).
      rewrite <- (split_expansion_concat s). apply in_concat_infix. exact He. }
  rewrite Eres. rewrite dict_set_fresh by (rewrite lt_rules_keys; exact HF).
  change [(F, [[c_lt]])] with [langle_rule F].
  destruct (mem_str F (reachable (lt_rules F g ++ [langle_rule F]))); reflexivity.
Qed.

(* ---------- canonical form of the re-parsed grammar ---------- *)
Lemma dec_digits_chars f : forall n acc, Forall nt_chr acc -> Forall nt_chr (dec_digits f n acc).
Proof.
  induction f as [|f IH]; intros n acc H; [exact H|]. cbn [dec_digits].
  assert (Hd : Forall nt_chr ((48 + n mod 10) :: acc)).
  { constructor; [|exact H]. pose proof (N.mod_lt n 10 ltac:(lia)) as Hm.
    unfold nt_chr, c_lt, c_gt, c_sp. revert Hm. generalize (n mod 10). intros m Hm. lia. }
  destruct (n <? 10); [exact Hd | apply IH; exact Hd].
Qed.

Lemma langle_nt_exact j : nt_exact (langle_name j).
Proof.
  destruct j as [|i].
  - exists [108; 97; 110; 103; 108; 101]. split; [reflexivity|].
    repeat constructor; discriminate.
  - exists ([108; 97; 110; 103; 108; 101; 95] ++ dec_digits 20 (N.of_nat i) []). split.
    + unfold langle_name, langle_base. cbn [app]. reflexivity.
    + apply Forall_app. split; [repeat constructor; discriminate | apply dec_digits_chars; constructor].
Qed.

Lemma free_name_exact g : nt_exact (free_name g).
Proof. unfold free_name. destruct (free_langle_name (S (length (map fst g))) O (map fst g)) as [j E]. rewrite E. apply langle_nt_exact. Qed.

Lemma canonical_lt_rules F g : nt_exact F ->
  canonical (lt_rules F g) = map (fun r => (fst r, map (chop_alt F) (snd r))) (canonical g).
Proof.
  intros HF. unfold canonical, lt_rules. rewrite !map_map. apply map_ext. intros [k al]. cbn [fst snd].
  f_equal. rewrite !map_map. apply map_ext. intros s. unfold lt_alt.
  destruct (split_expansion_ok s) as [Hok Halt].
  apply split_lt_elems; [apply nt_exact_is_nt; exact HF | exact HF | exact Hok | exact Halt].
Qed.

Lemma canonical_with_rule F g : nt_exact F ->
  canonical (lt_rules F g ++ [langle_rule F]) = G' F (canonical g).
Proof.
  intros HF. unfold canonical at 1. rewrite map_app. fold (canonical (lt_rules F g)).
  rewrite canonical_lt_rules by exact HF. reflexivity.
Qed.

Lemma defined_keys (cg : grammar) A : defined cg A = true <-> In A (map fst cg).
Proof.
  unfold defined. rewrite existsb_exists. split.
  - intros [r [Hr E]]. apply str_eqb_eq in E. subst A. apply in_map. exact Hr.
  - intros H. apply in_map_iff in H as [r [E Hr]]. exists r. split; [exact Hr | subst A; apply str_eqb_refl].
Qed.

Lemma canonical_keys g : map fst (canonical g) = map fst g.
Proof. unfold canonical. rewrite map_map. reflexivity. Qed.

(* ---------- language clause ---------- *)
Theorem langle_language ph (g : pygrammar) :
  wf_py g -> N.of_nat (length g) < big -> ph_ok ph -> ph_fresh ph g ->
  terminals_ok g -> K_nt_escape g = false -> K_empty_nt g = false ->
  exists g', parse_bnf ph (unparse_grammar g) = Ok g' /\
    (defined (canonical g') (free_name g) = true ->
     forall A w, is_nt A = true -> A <> free_name g ->
       (L (canonical g') A w <-> L (canonical g) A w)).
Proof.
  intros Hwf Hbig Hph Hfr Hterm Hesc Hemp.
  rewrite (reparse_shape ph g) by assumption.
  destruct Hwf as [Hne [Hnd [Hk Hcl]]].
  set (F := free_name g).
  assert (HFx : nt_exact F) by apply free_name_exact.
  assert (HF : ~ In F (map fst g)).
  { unfold F, free_name. apply free_langle_fresh. rewrite map_length. exact Hbig. }
  destruct (mem_str F (reachable (lt_rules F g ++ [langle_rule F]))).
  - eexists. split; [reflexivity|]. intros _ A w HA HAF.
    rewrite canonical_with_rule by exact HFx.
    apply (chop_language F (nt_exact_is_nt F HFx) (canonical g)).
    + destruct (defined (canonical g) F) eqn:E; [|reflexivity].
      apply defined_keys in E. rewrite canonical_keys in E. contradiction.
    + intros cr al Hcr Hal. unfold canonical in Hcr. apply in_map_iff in Hcr as [r [E Hr]]. subst cr.
      cbn [snd] in Hal. apply in_map_iff in Hal as [s [E Hs]]. subst al.
      destruct (split_expansion_ok s) as [Hok _]. unfold alt_clean. rewrite Forall_forall in *.
      intros e He Hnt. pose proof (Hok e He) as Hte. unfold tok_ok in Hte. rewrite Hnt in Hte. apply Hte.
    + intros cr al Hcr Hal Hin. unfold canonical in Hcr. apply in_map_iff in Hcr as [r [E Hr]]. subst cr.
      cbn [snd] in Hal. apply in_map_iff in Hal as [s [E Hs]]. subst al.
      apply HF. apply (Hcl r s F Hr Hs). unfold nonterminals. apply filter_In.
      split; [exact Hin | apply nt_exact_is_nt; exact HFx].
    + exact HA.
    + exact HAF.
  - eexists. split; [reflexivity|]. intros Hd. exfalso.
    apply defined_keys in Hd. rewrite canonical_keys, lt_rules_keys in Hd. contradiction.
Qed.
