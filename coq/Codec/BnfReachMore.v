(* C11 (proof extension) — the reachability test of BnfEmitter.exitBnf_grammar: when a rule
   reachable from <start> has a terminal containing '<' (the complement of class
   K_langle_unreach), the rule for the fresh <langle> nonterminal IS added.  Step-counting
   soundness / completeness of the saturation model `reach_iter`. *)
From ISLA Require Import Str Outcome Grammar BnfEscape BnfEscapeFacts BnfSplitMore BnfLexMore
  BnfIdentityMore BnfChopMore BnfLangleMore.
From Coq Require Import List NArith Bool Lia.
Import ListNotations.
Local Open Scope N_scope.

Definition Step (g : pygrammar) (A B : str) : Prop :=
  exists s, In s (py_alts g A) /\ In B (nonterminals s).

Inductive chainN (g : pygrammar) : nat -> str -> str -> Prop :=
| ch_refl A : chainN g O A A
| ch_step k A A' B : Step g A A' -> chainN g k A' B -> chainN g (S k) A B.

Lemma chainN_snoc g k A B C : chainN g k A B -> Step g B C -> chainN g (S k) A C.
Proof.
  induction 1 as [A | k A A' B Hs Hc IH]; intros HC.
  - apply (ch_step g O A C C HC). apply ch_refl.
  - apply (ch_step g (S k) A A' C Hs). apply IH. exact HC.
Qed.

Definition add1 (acc : list str) (x : str) : list str := if mem_str x acc then acc else acc ++ [x].

Lemma fold_add_mono x l : forall acc, In x acc -> In x (fold_left add1 l acc).
Proof.
  induction l as [|y l IH]; intros acc H; [exact H|]. cbn [fold_left]. apply IH.
  unfold add1. destruct (mem_str y acc); [exact H | apply in_or_app; left; exact H].
Qed.

Lemma fold_add_complete x l : forall acc, In x l -> In x (fold_left add1 l acc).
Proof.
  induction l as [|y l IH]; intros acc H; [contradiction|]. cbn [fold_left].
  destruct H as [E|H]; [|apply IH; exact H]. subst y. apply fold_add_mono.
  unfold add1. destruct (mem_str x acc) eqn:Em; [apply mem_str_spec; exact Em|].
  apply in_or_app. right. left. reflexivity.
Qed.

Lemma reach_step_eq g seen :
  reach_step g seen = fold_left add1 (flat_map (fun A => flat_map nonterminals (py_alts g A)) seen) seen.
Proof. reflexivity. Qed.

Lemma reach_step_mono g seen x : In x seen -> In x (reach_step g seen).
Proof. intros H. rewrite reach_step_eq. apply fold_add_mono. exact H. Qed.

Lemma reach_step_step g seen A B : In A seen -> Step g A B -> In B (reach_step g seen).
Proof.
  intros HA [s [Hs HB]]. rewrite reach_step_eq. apply fold_add_complete.
  apply in_flat_map. exists A. split; [exact HA|]. apply in_flat_map. exists s. split; assumption.
Qed.

Lemma reach_step_inv g seen y :
  In y (reach_step g seen) -> In y seen \/ exists A, In A seen /\ Step g A y.
Proof.
  intros H. unfold reach_step in H. apply fold_add_in in H as [H|H]; [left; exact H|]. right.
  apply in_flat_map in H as [A [HA H]]. apply in_flat_map in H as [s [Hs Hy]].
  exists A. split; [exact HA|]. exists s. split; assumption.
Qed.

Lemma reach_iter_mono g n : forall seen x, In x seen -> In x (reach_iter n g seen).
Proof.
  induction n as [|n IH]; intros seen x H; [exact H|]. cbn [reach_iter]. apply IH. apply reach_step_mono. exact H.
Qed.

(* soundness with step count *)
Lemma reach_iter_sound g n : forall seen x, In x (reach_iter n g seen) ->
  exists A k, In A seen /\ (k <= n)%nat /\ chainN g k A x.
Proof.
  induction n as [|n IH]; intros seen x H.
  - exists x, O. split; [exact H|]. split; [lia | apply ch_refl].
  - cbn [reach_iter] in H. destruct (IH _ _ H) as [A' [k [HA' [Hk Hc]]]].
    apply reach_step_inv in HA' as [HA'|[A [HA Hs]]].
    + exists A', k. split; [exact HA'|]. split; [lia | exact Hc].
    + exists A, (S k). split; [exact HA|]. split; [lia|]. apply (ch_step g k A A' x Hs Hc).
Qed.

(* completeness with step count *)
Lemma reach_iter_complete g k A x : chainN g k A x ->
  forall n seen, (k <= n)%nat -> In A seen -> In x (reach_iter n g seen).
Proof.
  induction 1 as [A | k A A' B Hs Hc IH]; intros n seen Hk HA.
  - apply reach_iter_mono. exact HA.
  - destruct n as [|n]; [lia|]. cbn [reach_iter]. apply IH; [lia|]. apply (reach_step_step g seen A A' HA Hs).
Qed.

(* ---------- transfer from g to the re-parsed grammar ---------- *)
Lemma py_alts_lt F X (g : pygrammar) A s :
  In s (py_alts g A) -> In (lt_alt F s) (py_alts (lt_rules F g ++ X) A).
Proof.
  induction g as [|[B bl] g IH]; intros H; [contradiction|].
  cbn [py_alts lt_rules map app fst snd] in *. destruct (str_eqb A B); [apply in_map; exact H | apply IH; exact H].
Qed.

Lemma py_alts_nodup (g : pygrammar) r : NoDup (map fst g) -> In r g -> py_alts g (fst r) = snd r.
Proof.
  induction g as [|[B bl] g IH]; intros Hnd Hr; [contradiction|].
  cbn [map fst] in Hnd. inversion Hnd as [|x l Hx Hnd']; subst. cbn [py_alts].
  destruct Hr as [E|Hr].
  - subst r. cbn [fst snd]. rewrite str_eqb_refl. reflexivity.
  - destruct (str_eqb (fst r) B) eqn:E.
    + apply str_eqb_eq in E. subst B. exfalso. apply Hx. apply in_map. exact Hr.
    + apply IH; assumption.
Qed.

Lemma nonterminals_lt_alt F s : nt_exact F ->
  nonterminals (lt_alt F s) = filter is_nt (chop_alt F (split_expansion s)).
Proof.
  intros HF. unfold nonterminals, lt_alt. destruct (split_expansion_ok s) as [Hok Halt].
  rewrite (split_lt_elems F (nt_exact_is_nt F HF)) by assumption. reflexivity.
Qed.

Lemma chop_alt_keeps_nt F a e : In e a -> is_nt e = true -> In e (chop_alt F a).
Proof.
  intros He Hnt. unfold chop_alt. apply in_flat_map. exists e. split; [exact He|]. rewrite Hnt. left. reflexivity.
Qed.

Lemma chop_go_has_F F t : forall buf, In c_lt t -> In F (chop_go F buf t).
Proof.
  induction t as [|c t IH]; intros buf H; [contradiction|]. cbn [chop_go].
  destruct (N.eqb_spec c c_lt) as [E|E].
  - apply in_or_app. right. left. reflexivity.
  - apply IH. destruct H as [H|H]; [congruence | exact H].
Qed.

Lemma step_transfer F X g A B : nt_exact F -> Step g A B -> Step (lt_rules F g ++ X) A B.
Proof.
  intros HF [s [Hs HB]]. exists (lt_alt F s). split; [apply py_alts_lt; exact Hs|].
  rewrite nonterminals_lt_alt by exact HF. unfold nonterminals in HB. apply filter_In in HB as [HB Hnt].
  apply filter_In. split; [apply chop_alt_keeps_nt; assumption | exact Hnt].
Qed.

Lemma chain_transfer F X g k A B : nt_exact F -> chainN g k A B -> chainN (lt_rules F g ++ X) k A B.
Proof.
  intros HF. induction 1 as [A | k A A' B Hs Hc IH]; [apply ch_refl|].
  apply (ch_step _ k A A' B); [apply step_transfer; assumption | exact IH].
Qed.

Lemma step_to_F F X (g : pygrammar) r : nt_exact F -> NoDup (map fst g) -> In r g ->
  has_lt (snd r) = true -> Step (lt_rules F g ++ X) (fst r) F.
Proof.
  intros HF Hnd Hr Hlt. unfold has_lt in Hlt. apply existsb_exists in Hlt as [e [He Hlt]].
  apply andb_true_iff in Hlt as [Hnt Hlt]. apply negb_true_iff in Hnt.
  apply existsb_exists in Hlt as [c [Hc Ec]]. apply N.eqb_eq in Ec. subst c.
  apply in_flat_map in He as [s [Hs He]].
  exists (lt_alt F s). split.
  - apply py_alts_lt. rewrite py_alts_nodup by assumption. exact Hs.
  - rewrite nonterminals_lt_alt by exact HF. apply filter_In. split; [|apply nt_exact_is_nt; exact HF].
    unfold chop_alt. apply in_flat_map. exists e. split; [exact He|]. rewrite Hnt.
    apply chop_go_has_F. exact Hc.
Qed.

Theorem langle_rule_added (g : pygrammar) :
  NoDup (map fst g) ->
  existsb (fun r => has_lt (snd r)) g = true -> K_langle_unreach g = false ->
  mem_str (free_name g) (reachable (lt_rules (free_name g) g ++ [langle_rule (free_name g)])) = true.
Proof.
  intros Hnd Hex HK. set (F := free_name g).
  assert (HF : nt_exact F) by apply free_name_exact.
  unfold K_langle_unreach in HK. rewrite Hex in HK. cbn [andb] in HK. apply negb_false_iff in HK.
  apply existsb_exists in HK as [r [Hr HK]]. apply andb_true_iff in HK as [Hreach Hlt].
  apply mem_str_spec in Hreach. unfold reachable in Hreach.
  apply reach_iter_sound in Hreach as [A [k [HA [Hk Hc]]]]. destruct HA as [HA|[]]. subst A.
  apply mem_str_spec. unfold reachable.
  apply (reach_iter_complete _ (S k) s_start F).
  - apply (chainN_snoc _ k s_start (fst r) F).
    + apply chain_transfer; assumption.
    + apply step_to_F; assumption.
  - rewrite app_length. unfold lt_rules. rewrite map_length. cbn [length]. lia.
  - left. reflexivity.
Qed.

(* ---------- language clause without the side condition ---------- *)
Theorem langle_language_reach ph (g : pygrammar) :
  wf_py g -> N.of_nat (length g) < big -> ph_ok ph -> ph_fresh ph g ->
  terminals_ok g -> K_nt_escape g = false -> K_empty_nt g = false ->
  existsb (fun r => has_lt (snd r)) g = true -> K_langle_unreach g = false ->
  exists g', parse_bnf ph (unparse_grammar g) = Ok g' /\
    In (langle_rule (free_name g)) g' /\
    forall A w, In A (map fst g) -> is_nt A = true ->
      (L (canonical g') A w <-> L (canonical g) A w).
Proof.
  intros Hwf Hbig Hph Hfr Hterm Hesc Hemp Hex HK.
  destruct (langle_language ph g Hwf Hbig Hph Hfr Hterm Hesc Hemp) as [g' [Hp Hl]].
  pose proof Hwf as [_ [Hnd _]].
  pose proof (langle_rule_added g Hnd Hex HK) as Hadd.
  rewrite (reparse_shape ph g) in Hp by assumption. rewrite Hadd in Hp. inversion Hp as [Eg']. 
  exists g'. split; [rewrite (reparse_shape ph g) by assumption; rewrite Hadd; rewrite Eg'; reflexivity|].
  assert (HFn : ~ In (free_name g) (map fst g)).
  { unfold free_name. apply free_langle_fresh. rewrite map_length. exact Hbig. }
  split.
  - rewrite <- Eg'. apply in_or_app. right. left. reflexivity.
  - intros A w HA Hnt. apply Hl; [|exact Hnt | intros E; subst A; contradiction].
    apply defined_keys. rewrite canonical_keys. rewrite <- Eg'. rewrite map_app. apply in_or_app. right.
    left. reflexivity.
Qed.

(* ---------- both clauses in one statement ---------- *)
Theorem reparse_same_language ph (g : pygrammar) :
  wf_py g -> N.of_nat (length g) < big -> ph_ok ph -> ph_fresh ph g ->
  terminals_ok g -> K_nt_escape g = false -> K_empty_nt g = false -> K_langle_unreach g = false ->
  exists g', parse_bnf ph (unparse_grammar g) = Ok g' /\
    (existsb (fun r => has_lt (snd r)) g = false -> g' = g) /\
    forall A w, In A (map fst g) -> is_nt A = true ->
      (L (canonical g') A w <-> L (canonical g) A w).
Proof.
  intros Hwf Hbig Hph Hfr Hterm Hesc Hemp HK.
  destruct (existsb (fun r => has_lt (snd r)) g) eqn:Hex.
  - destruct (langle_language_reach ph g Hwf Hbig Hph Hfr Hterm Hesc Hemp Hex HK) as [g' [Hp [_ Hl]]].
    exists g'. split; [exact Hp|]. split; [discriminate | exact Hl].
  - destruct Hterm as [Hb Hov]. exists g. split; [apply no_lt_identity; assumption|].
    split; [reflexivity|]. intros A w _ _. reflexivity.
Qed.

(* non-vacuity: <start> ::= "a<b" <A> | "<" ;  <A> ::= "x<<y" | "" *)
Definition ex_lt_grammar : pygrammar :=
  [ ([60; 115; 116; 97; 114; 116; 62], [[97; 60; 98; 60; 65; 62]; [60]]);
    ([60; 65; 62], [[120; 60; 60; 121]; []]) ].

(* <start> ::= "a<langle>b" <A> | <langle> ; <A> ::= "x" <langle> <langle> "y" | "" ; <langle> ::= "<" *)
Definition ex_lt_grammar' : pygrammar :=
  [ ([60; 115; 116; 97; 114; 116; 62],
          [[97; 60; 108; 97; 110; 103; 108; 101; 62; 98; 60; 65; 62]; [60; 108; 97; 110; 103; 108; 101; 62]]);
         ([60; 65; 62], [[120; 60; 108; 97; 110; 103; 108; 101; 62; 60; 108; 97; 110; 103; 108; 101; 62; 121]; []]);
         ([60; 108; 97; 110; 103; 108; 101; 62], [[60]]) ].

Example langle_language_example :
  wf_py ex_lt_grammar /\ N.of_nat (length ex_lt_grammar) < big /\ ph_ok ex_ph /\ ph_fresh ex_ph ex_lt_grammar /\
  terminals_ok ex_lt_grammar /\ K_nt_escape ex_lt_grammar = false /\ K_empty_nt ex_lt_grammar = false /\
  existsb (fun r => has_lt (snd r)) ex_lt_grammar = true /\ K_langle_unreach ex_lt_grammar = false /\
  parse_bnf ex_ph (unparse_grammar ex_lt_grammar)
  = Ok ex_lt_grammar'.
Proof.
  split.
  { split; [discriminate|]. split.
    - repeat constructor; cbn; intros H; repeat (destruct H as [H|H]; [discriminate H|]); exact H.
    - split.
      + repeat constructor; try discriminate.
        * exists [115; 116; 97; 114; 116]. split; [reflexivity|]. split; [discriminate|].
          repeat constructor; discriminate.
        * exists [65]. split; [reflexivity|]. split; [discriminate|]. repeat constructor; discriminate.
      + intros r s n Hr Hs Hn.
        repeat (destruct Hr as [Hr|Hr]; [subst r; cbn [snd] in Hs;
          repeat (destruct Hs as [Hs|Hs]; [subst s; vm_compute in Hn;
             repeat (destruct Hn as [Hn|Hn]; [subst n; vm_compute; tauto|]); contradiction|]); contradiction|]).
        contradiction. }
  split; [vm_compute; reflexivity|].
  split; [repeat constructor; unfold is_letter; lia|]. split.
  { intros r s Hr Hs.
    repeat (destruct Hr as [Hr|Hr]; [subst r; cbn [snd] in Hs;
      repeat (destruct Hs as [Hs|Hs]; [subst s; apply infixb_false; vm_compute; reflexivity|]); contradiction|]).
    contradiction. }
  split; [split; vm_compute; reflexivity|].
  repeat split; vm_compute; reflexivity.
Qed.

Lemma derives_nt_inv (g : grammar) A x w : is_nt A = true -> derives g (A :: x) w ->
  exists al u v, In al (alts g A) /\ derives g al u /\ derives g x v /\ w = u ++ v.
Proof.
  intros HA H. inversion H as [| t rest u0 Ht Hr | A0 al rest u0 v HA0 Hin Hal Hr]; subst.
  - congruence.
  - exists al, u0, v. repeat split; assumption.
Qed.

(* the guard K_langle_unreach is needed: <start> ::= "a" ; <u> ::= "<"  comes back as
   <u> ::= <langle> WITHOUT a rule for <langle>: <u> loses the string "<" *)
Definition ex_unreach : pygrammar :=
  [ ([60; 115; 116; 97; 114; 116; 62], [[97]]); ([60; 117; 62], [[60]]) ].
Definition ex_unreach' : pygrammar :=
  [ ([60; 115; 116; 97; 114; 116; 62], [[97]]); ([60; 117; 62], [[60; 108; 97; 110; 103; 108; 101; 62]]) ].

Theorem langle_language_refuted :
  exists g, wf_py g /\ ph_ok ex_ph /\ ph_fresh ex_ph g /\ terminals_ok g /\
    K_nt_escape g = false /\ K_empty_nt g = false /\ K_langle_unreach g = true /\
    exists g', parse_bnf ex_ph (unparse_grammar g) = Ok g' /\
      exists A w, In A (map fst g) /\ is_nt A = true /\ L (canonical g) A w /\ ~ L (canonical g') A w.
Proof.
  exists ex_unreach. split.
  { split; [discriminate|]. split.
    - repeat constructor; cbn; intros H; repeat (destruct H as [H|H]; [discriminate H|]); exact H.
    - split.
      + repeat constructor; try discriminate.
        * exists [115; 116; 97; 114; 116]. split; [reflexivity|]. split; [discriminate|].
          repeat constructor; discriminate.
        * exists [117]. split; [reflexivity|]. split; [discriminate|]. repeat constructor; discriminate.
      + intros r s n Hr Hs Hn.
        repeat (destruct Hr as [Hr|Hr]; [subst r; cbn [snd] in Hs;
          repeat (destruct Hs as [Hs|Hs]; [subst s; vm_compute in Hn;
             repeat (destruct Hn as [Hn|Hn]; [subst n; vm_compute; tauto|]); contradiction|]); contradiction|]).
        contradiction. }
  split; [repeat constructor; unfold is_letter; lia|]. split.
  { intros r s Hr Hs.
    repeat (destruct Hr as [Hr|Hr]; [subst r; cbn [snd] in Hs;
      repeat (destruct Hs as [Hs|Hs]; [subst s; apply infixb_false; vm_compute; reflexivity|]); contradiction|]).
    contradiction. }
  split; [split; vm_compute; reflexivity|].
  split; [vm_compute; reflexivity|]. split; [vm_compute; reflexivity|]. split; [vm_compute; reflexivity|].
  exists ex_unreach'. split; [vm_compute; reflexivity|].
  exists [60; 117; 62], [60]. split; [right; left; reflexivity|]. split; [reflexivity|]. split.
  - unfold L. change [60] with ([60] ++ @nil chr).
    apply (d_nt _ [60; 117; 62] [[60]] [] [60] []); [reflexivity | vm_compute; left; reflexivity | | apply d_nil].
    change [60] with ([60] ++ @nil chr) at 2. apply d_t; [reflexivity | apply d_nil].
  - unfold L. intros H.
    apply derives_nt_inv in H as [al [u [v [Hin [Hal _]]]]]; [|reflexivity].
    vm_compute in Hin. destruct Hin as [Hin|[]]. subst al.
    apply derives_nt_inv in Hal as [al2 [u2 [v2 [Hin2 _]]]]; [|reflexivity].
    vm_compute in Hin2. contradiction.
Qed.
