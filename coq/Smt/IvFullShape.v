(* C15 — tighter finding class for the EXACT half (boolean, executable; no proofs).
   full_alone q fuel r  follows the recursion of  nifr q fuel r  and answers true iff somewhere in it a <full>
   element Star/Plus(Range("0","9")) is evaluated ON ITS OWN (alone, as a union alternative, behind a sign, or as
   what remains behind stripped zeroes): that evaluation answers (-maxsize, maxsize) although a digit string is
   never negative — the root cause of the finding full-sign.  The three [1-9][0-9]* cases
   ( [(1,9)] [0-9]* -> (1,inf);  [(1,9)] [0-9]+ -> (10,inf);  [(0,9)] [0-9]*|+ -> (0,inf) ) do NOT set the flag
   (they are exact), unless the first element is answered `Nothing` and accepted by the value_or(lambda) quirk. *)
From Coq Require Import List NArith ZArith Bool.
From ISLA Require Import Str Outcome IvRe Intervals IvShape IvTightShape.
Import ListNotations.

Definition elems_fa (fa : re -> bool) (rec : re -> out) (first : re) (rest : list re) : bool :=
  if is_union first || re_eqb first (ROpt re_minus_sign) then
    let alts := match first with RUnion a b => [a; b]
                               | _ => [re_plus_sign; re_minus_sign] end in
    match rest with
    | [] => false
    | _ => existsb (fun x => fa (mk_concat x rest)) alts
    end
  else if re_eqb first re_plus_sign || re_eqb first (ROpt re_plus_sign) then ds_tail fa rest
  else if re_eqb first re_minus_sign then ds_tail fa rest
  else
    match strip_zeroes rec (first :: rest) with
    | (Val _, remaining) =>
        if Nat.ltb (length remaining) (length (first :: rest)) then
          existsb fa (stripped rec (first :: rest)) || ds_tail fa remaining
        else
          match first :: rest with
          | [c0; c1] =>
              (is_plus c1 || is_star c1) && re_eqb (key c1) r09 &&
              (fa c0 || match rec c0 with Val None => true | _ => false end)
          | _ => false
          end
    | _ => false
    end.

Definition concat_fa (fa : re -> bool) (rec : re -> out) (r : re) : bool :=
  match compress (map norm_range (split_concat r)) with
  | Ok (first :: rest) => elems_fa fa rec first rest
  | _ => false
  end.

Fixpoint full_alone (q : bool) (fuel : nat) (r : re) : bool :=
  match fuel with
  | O => false
  | S f =>
      match r with
      | RStar c | RPlus c => re_eqb c r09
      | RUnion a b => full_alone q f a || full_alone q f b
      | RConcat _ _ => concat_fa (full_alone q f) (nifr q f) r
      | _ => false
      end
  end.

Definition K_full_alone (q : bool) (r : re) : bool := full_alone q (S (re_size r)) r.
