(* CODE model of isla/z3_helpers.py: evaluate_z3_expression (chain of evaluators, construct_result,
   fall-through not_implemented_failure), is_valid, and the caller evaluator.evaluate_smt_formula
   (translation phase vs. closure phase, DomainError -> false).  Mirrors the code AS IT IS.
   Parameters:
     fx       : true iff not_implemented_failure accepts the two arguments it is called with
                (proposed fix C05-noimpl); on the pinned tree fx = false -> TypeError
     z3_valid : verdict of solve_using_z3 on the ground atom (only reachable when fx = true)
   Outcome [Unmodelled]: inputs whose Python behaviour this model does not describe
   (ill-sorted terms, str.to.int of non-numerals, exotic re.range end points); theorems exclude it. *)
From Coq Require Import List NArith ZArith Bool.
From ISLA Require Import Str Outcome Regex SmtAst SmtSem PyRe.
Import ListNotations.
Open Scope Z_scope.

Inductive pval := PB (b : bool) | PI (z : Z) | PS (s : str) | PP (p : pat).

Inductive out (A : Type) := Val (a : A) | Exn (e : exn) | Fail | Unmodelled.
Arguments Val {A} a.
Arguments Exn {A} e.
Arguments Fail {A}.
Arguments Unmodelled {A}.

Inductive tv := TT | FF | UU.
Definition of_bool (b : bool) : tv := if b then TT else FF.

(* ---------- z3 StringVal.as_string() (z3 4.11): the text the fast path computes with ---------- *)
Definition hex_c (d : N) : chr := if (d <? 10)%N then (48 + d)%N else (87 + d)%N.
Fixpoint hex_digits (fuel : nat) (n : N) (acc : str) : str :=
  match fuel with
  | O => acc
  | S f => let acc' := hex_c (n mod 16) :: acc in
           if (n / 16 =? 0)%N then acc' else hex_digits f (n / 16)%N acc'
  end.
Definition N_to_hex (n : N) : str := hex_digits (S (N.size_nat n)) n [].

Fixpoint z3enc (s : str) : str :=
  match s with
  | [] => []
  | c :: s' =>
      if (255 <? c)%N then [92; 117; 123]%N ++ N_to_hex c ++ [125%N] ++ z3enc s'
      else if (c =? 92)%N && (match s' with d :: _ => (d =? 117)%N | [] => false end)
           then [92; 117; 123; 53; 99; 125]%N ++ z3enc s'
      else c :: z3enc s'      (* incl. NUL: as_string gives \u{} which the code maps back to NUL *)
  end.

(* ---------- Python primitives ---------- *)
(* int(c) restricted to [+-]?[0-9]+ ; everything else: not modelled (excluded by the property) *)
Definition py_int (s : str) : option Z :=
  match s with
  | c :: s' =>
      if (c =? 45)%N then (if all_digits s' then Some (- digits_val s') else None)
      else if (c =? 43)%N then (if all_digits s' then Some (digits_val s') else None)
      else if all_digits s then Some (digits_val s) else None
  | [] => None
  end.

Definition clampi (len k : Z) : Z := if k <? 0 then Z.max 0 (k + len) else Z.min k len.
Definition py_slice (s : str) (i j : Z) : str :=
  let len := slen s in
  let lo := clampi len i in
  let hi := clampi len j in
  if lo <? hi then firstn (Z.to_nat (hi - lo)) (skipn (Z.to_nat lo) s) else [].
Definition py_index (s : str) (i : Z) : out pval :=
  let len := slen s in
  if (- len <=? i) && (i <? len)
  then Val (PS (firstn 1 (skipn (Z.to_nat (if i <? 0 then i + len else i)) s)))
  else Exn IndexErr.

Definition py_range (a b : str) : out pval :=
  match a, b with
  | [x], [y] =>
      if plain_c x && plain_c y
      then Val (PP (if (x <=? y)%N then Some [mkPiece (RSet false [(x, y)]) false] else None))
      else Unmodelled
  | _, _ => Unmodelled
  end.

Section Py.
  Variable fx : bool.
  Variable z3_valid : expr -> tv.

  Definition noimpl : out pval := if fx then Fail else Exn TypeErr.

  (* evaluate_z3_re_comp passes its guard on these children and then ALWAYS raises TypeError
     (the reduce() nests Success objects: 'Success' + tuple) *)
  Definition comp_guard (a : expr) : bool :=
    match a with
    | E2 ORUnion (E1 OToRe _) (E1 OToRe _) => true
    | E2 ORange _ _ => true
    | _ => false
    end.

  (* outcome of an operator that does not depend on the argument values (children are evaluated first) *)
  Definition node_static (e : expr) : option (out pval) :=
    match e with
    | ERNone | ERAllChar => Some noimpl
    | E1 OComp a => Some (if comp_guard a then Exn TypeErr else noimpl)
    | E1 (OFromInt | OFromCode | OIsDigit | ONeg | OAbs) _ => Some noimpl
    | E2 (ODiv | OPrefixOf | OSuffixOf | OContains | OStrLt | OStrLe | ORInter | ORDiff) _ _ => Some noimpl
    | E3 (OIndexOf | OReplace | OReplaceAll) _ _ _ => Some noimpl
    | EPow _ _ => Some noimpl
    | _ => None
    end.

  Definition p1 (o : op1) (v : pval) : out pval :=
    match o, v with
    | ONot, PB b => Val (PB (negb b))
    | OLen, PS s => Val (PI (slen s))
    | OToInt, PS s =>
        match s with
        | [] => Exn DomainErr
        | _ => match py_int s with Some z => Val (PI z) | None => Unmodelled end
        end
    | OToCode, PS s => match s with [c] => Val (PI (Z.of_N c)) | _ => Exn TypeErr end
    | OToRe, PS s => Val (PP (pat_lit (tore_unescape s)))
    | OStar, PP p => Val (PP (pat_group RStar p))
    | OPlus, PP p => Val (PP (pat_group rplus p))
    | OOpt, PP p => Val (PP (pat_group ropt p))
    | _, _ => Unmodelled
    end.

  Definition p2 (o : op2) (v w : pval) : out pval :=
    match o, v, w with
    | OAnd, PB a, PB b => Val (PB (a && b))
    | OOr, PB a, PB b => Val (PB (a || b))
    | OEq, PB a, PB b => Val (PB (Bool.eqb a b))
    | OEq, PI a, PI b => Val (PB (a =? b))
    | OEq, PS a, PS b => Val (PB (str_eqb a b))
    | OLt, PI a, PI b => Val (PB (a <? b))
    | OLe, PI a, PI b => Val (PB (a <=? b))
    | OGt, PI a, PI b => Val (PB (b <? a))
    | OGe, PI a, PI b => Val (PB (b <=? a))
    | OAdd, PI a, PI b => Val (PI (a + b))
    | OSub, PI a, PI b => Val (PI (a - b))
    | OMul, PI a, PI b => Val (PI (a * b))
    | OMod, PI a, PI b => if b =? 0 then Exn ZeroDivErr else Val (PI (Z.modulo a b))  (* Python % *)
    | OConcat, PS a, PS b => Val (PS (a ++ b))
    | OAt, PS a, PI i => py_index a i
    | OInRe, PS s, PP p =>
        match p with
        | None => Exn OtherErr            (* re.error *)
        | Some ps => Val (PB (py_fullmatch ps s))
        end
    | ORConcat, PP a, PP b => Val (PP (pat_concat a b))
    | ORUnion, PP a, PP b => Val (PP (pat_union a b))
    | ORange, PS a, PS b => py_range a b
    | _, _, _ => Unmodelled
    end.

  Definition p3 (o : op3) (u v w : pval) : out pval :=
    match o, u, v, w with
    | OSubstr, PS s, PI i, PI n => Val (PS (py_slice s i (i + n)))
    | _, _, _, _ => Unmodelled
    end.

  Definition obind {A B} (x : out A) (f : A -> out B) : out B :=
    match x with Val a => f a | Exn e => Exn e | Fail => Fail | Unmodelled => Unmodelled end.

  Definition static_or (e : expr) (k : out pval) : out pval :=
    match node_static e with Some r => r | None => k end.

  (* full evaluation: children left to right, then the operator *)
  Fixpoint py_eval (e : expr) : out pval :=
    match e with
    | EStr s => Val (PS (z3enc s))
    | EVar s => Val (PS s)
    | EInt z => Val (PI z)
    | EBool b => Val (PB b)
    | ERAll => Val (PP pat_all)
    | ERNone | ERAllChar => noimpl
    | E1 o a => obind (py_eval a) (fun v => static_or e (p1 o v))
    | E2 o a b => obind (py_eval a) (fun v => obind (py_eval b) (fun w => static_or e (p2 o v w)))
    | E3 o a b c =>
        obind (py_eval a) (fun u => obind (py_eval b) (fun v => obind (py_eval c) (fun w =>
          static_or e (p3 o u v w))))
    | ELoop lo hi a =>
        obind (py_eval a) (fun v =>
          match v, hi with
          | PP _, None => Exn IndexErr                  (* expr.params()[1] *)
          | PP p, Some h => Val (PP (pat_loop lo h p))
          | _, _ => Unmodelled
          end)
    | EPow _ a => obind (py_eval a) (fun _ => noimpl)
    end.

  (* ---------- is_valid(formula) on a ground atom ---------- *)
  Definition is_valid (e : expr) : out tv :=
    match e with
    | EBool b => Val (of_bool b)
    | _ =>
        match py_eval e with
        | Val (PB b) => Val (of_bool b)
        | Val _ => Exn AssertErr
        | Exn x => Exn x
        | Fail => Val (z3_valid e)
        | Unmodelled => Unmodelled
        end
    end.

  (* ---------- evaluator.evaluate_smt_formula on an atom with instantiated variables ---------- *)
  Definition drop {A} (x : out A) : out unit :=
    match x with Val _ => Val tt | Exn e => Exn e | Fail => Fail | Unmodelled => Unmodelled end.

  (* what happens at a node during translation, once its children translated *)
  Definition tr_node (e : expr) : out unit :=
    match node_static e with
    | Some r => drop r
    | None => if has_var e then Val tt else drop (py_eval e)
    end.

  (* translation phase of evaluate_z3_expression: variable-free subterms are computed at once,
     operators without fast path fail at once, everything else becomes a closure *)
  Fixpoint tr (e : expr) : out unit :=
    match e with
    | E1 _ a | ELoop _ _ a | EPow _ a => obind (tr a) (fun _ => tr_node e)
    | E2 _ a b => obind (tr a) (fun _ => obind (tr b) (fun _ => tr_node e))
    | E3 _ a b c => obind (tr a) (fun _ => obind (tr b) (fun _ => obind (tr c) (fun _ => tr_node e)))
    | _ => tr_node e
    end.

  Fixpoint ground (e : expr) : expr :=
    match e with
    | EVar s => EStr s
    | E1 o a => E1 o (ground a)
    | E2 o a b => E2 o (ground a) (ground b)
    | E3 o a b c => E3 o (ground a) (ground b) (ground c)
    | ELoop lo hi a => ELoop lo hi (ground a)
    | EPow n a => EPow n (ground a)
    | _ => e
    end.

  Definition evaluate_atom (e : expr) : out tv :=
    match tr e with
    | Exn x => Exn x                       (* raised outside the try: DomainError escapes too *)
    | Fail => is_valid (ground e)          (* fallback: substitute StringVals, is_valid *)
    | Unmodelled => Unmodelled
    | Val _ =>
        match py_eval e with
        | Val (PB b) => Val (of_bool b)
        | Exn DomainErr => Val FF
        | Exn x => Exn x
        | _ => Unmodelled
        end
    end.
End Py.

(* comparison of an observed implementation outcome with the model (harness) *)
Definition tv_eqb (a b : tv) : bool :=
  match a, b with TT, TT | FF, FF | UU, UU => true | _, _ => false end.
Definition out_ok (m : out tv) (impl : res tv) : bool :=
  match m, impl with
  | Val a, Ok b => tv_eqb a b
  | Exn x, Raise y => exn_eqb x y
  | Unmodelled, _ => true
  | _, _ => false
  end.
Definition is_unmodelled {A} (m : out A) : bool := match m with Unmodelled => true | _ => false end.
