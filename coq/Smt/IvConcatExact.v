(* C15 — EXACT half of numeric_intervals_from_regex on the recognised vocabulary, CONCATENATIONS included
   (flattening, Range(c,c) rewriting, compression, sign prefixes -/+/Option(sign), union distribution, zero
   stripping), under the guards  has_full r = false  (no Star/Plus(Range 0 9) element) and
   inner_sign r = false (no sign literal behind a concatenation):
   every integer in the inferred intervals is the value of a matched string.  The witness string is
   constructed: sign, zero padding (one witness per stripped element), digits.
   Converse of the lenient-value invariant of IvConcatSound.v; here the STRICT value intval is inductive,
   because every element behind the first one matches digit strings only. *)
From Coq Require Import List NArith ZArith Bool Lia.
From ISLA Require Import Str Outcome IvRe Intervals IvShape IvCompressFacts IntervalsFacts IvReFacts
                         IvCompressLang IvConcatFacts IvConcatSound.
Import ListNotations.
Open Scope Z_scope.

Definition Exact (r : re) (ivs : list iv) : Prop :=
  forall n, In_ivs n ivs -> exists s, matches r s /\ intval s = Some n.

(* ================================================================== *)
(* strict value of digit strings                                       *)
(* ================================================================== *)
Lemma isdig_not_sign c : isdig c = true -> c <> 43%N /\ c <> 45%N.
Proof. intro H. apply isdig_range in H. lia. Qed.

Lemma intval_digits u n : forallb isdig u = true -> intval u = Some n -> u <> [] /\ n = digits_val u 0.
Proof.
  destruct u as [|c t]; intros D H; [discriminate H|].
  pose proof D as D'. simpl in D'. apply andb_true_iff in D' as [Dc _]. destruct (isdig_not_sign c Dc) as [N1 N2].
  pose proof (eq_trans (eq_sym (intval_other c t N1 N2)) H) as H'.
  apply numeral_some in H' as [_ E]. split; [discriminate|exact E].
Qed.

Lemma digits_intval u : forallb isdig u = true -> u <> [] -> intval u = Some (digits_val u 0).
Proof.
  destruct u as [|c t]; intros D H; [congruence|].
  pose proof D as D'. simpl in D'. apply andb_true_iff in D' as [Dc _]. destruct (isdig_not_sign c Dc) as [N1 N2].
  refine (eq_trans (intval_other c t N1 N2) _). unfold numeral. unfold str, chr in *. rewrite D. reflexivity.
Qed.

Lemma digits_numeral u : forallb isdig u = true -> u <> [] -> numeral u = Some (digits_val u 0).
Proof. destruct u as [|c t]; intros D H; [congruence|]. unfold numeral. unfold str, chr in *. rewrite D. reflexivity. Qed.

Lemma intval_plus_digits t n : forallb isdig t = true -> intval t = Some n -> intval (43%N :: t) = Some n.
Proof.
  intros D H. destruct (intval_digits t n D H) as [Ne E]. subst n.
  change (intval (43%N :: t)) with (numeral t). apply digits_numeral; assumption.
Qed.

Lemma intval_minus_digits t n : forallb isdig t = true -> intval t = Some n -> intval (45%N :: t) = Some (- n).
Proof.
  intros D H. destruct (intval_digits t n D H) as [Ne E]. subst n.
  change (intval (45%N :: t)) with (option_map Z.opp (numeral t)). rewrite (digits_numeral t D Ne). reflexivity.
Qed.

Lemma intval_strip_plus v n : intval (43%N :: v) = Some n -> intval v = Some n.
Proof.
  change (intval (43%N :: v)) with (numeral v). intro H. pose proof H as H'. apply numeral_some in H' as [D E].
  subst n. apply digits_intval; [exact D|]. intro; subst v; discriminate H.
Qed.

(* ================================================================== *)
(* the guard has_full = false is kept by flattening, rewriting, compression, re-concatenation *)
(* ================================================================== *)
Definition nf (e : re) : Prop := has_full e = false.

Lemma split_nf r : has_full r = false -> Forall nf (split_concat r).
Proof.
  induction r as [w|a b|c IH|c IH|c IH|a IHa b IHb|a IHa b IHb|a IHa b IHb|c IH| |]; intro H;
    try (constructor; [exact H|constructor]).
  simpl in *. apply orb_false_iff in H as [Ha Hb]. apply Forall_app. split; [apply IHa|apply IHb]; assumption.
Qed.

Lemma norm_has_full r : recognizedb r = true -> has_full (norm_range r) = has_full r.
Proof.
  induction r as [w|a b|c IH|c IH|c IH|a IHa b IHb|a IHa b IHb|a IHa b IHb|c IH| |]; intro Hr;
    simpl in Hr; try discriminate Hr.
  - reflexivity.
  - cbn [norm_range]. destruct (str_eqb a b); reflexivity.
  - destruct (star_child c Hr) as [E|[E|E]]; subst c; reflexivity.
  - destruct (star_child c Hr) as [E|[E|E]]; subst c; reflexivity.
  - unfold sign_lit in Hr. apply orb_true_iff in Hr as [H|H]; apply re_eqb_eq in H; subst c; reflexivity.
  - apply andb_true_iff in Hr as [Ha Hb]. cbn [norm_range has_full]. rewrite (IHa Ha), (IHb Hb). reflexivity.
  - apply andb_true_iff in Hr as [Ha Hb]. cbn [norm_range has_full]. rewrite (IHa Ha), (IHb Hb). reflexivity.
Qed.

Lemma derived_nf l e' : Forall nf l -> derived l e' -> nf e'.
Proof.
  intros Hl [Hi|[e [He [Hsp Hr]]]]; rewrite Forall_forall in Hl; [apply Hl; exact Hi|].
  pose proof (Hl e He) as Hf. unfold nf in *. unfold starplus in Hsp.
  destruct e as [w|a b|c|c|c|a b|a b|a b|c| |]; try discriminate Hsp; simpl in Hf, Hr;
    apply orb_false_iff in Hf as [F1 F2]; destruct Hr as [E|E]; subst e'; simpl; try rewrite F1; exact F2.
Qed.

Lemma compress_nf l r : Forall nf l -> compress l = Ok r -> Forall nf r.
Proof.
  intros Hl Hc. apply Forall_forall. intros e' He'. eapply derived_nf; [exact Hl|]. eapply compress_elems; eauto.
Qed.

Lemma mk_concat_nf rest : forall x, has_full x = false -> Forall nf rest -> has_full (mk_concat x rest) = false.
Proof.
  unfold mk_concat. induction rest as [|y rest IH]; intros x Hx Hr; [exact Hx|].
  inversion Hr as [|y' r' Hy Hr']; subst. simpl fold_left. apply IH; [|exact Hr'].
  simpl. unfold nf in Hy. rewrite Hx, Hy. reflexivity.
Qed.

Lemma cat_re_nf l : Forall nf l -> has_full (cat_re l) = false.
Proof.
  destruct l as [|x rest]; [reflexivity|]. intro H. inversion H as [|x' r' Hx Hr]; subst.
  apply mk_concat_nf; assumption.
Qed.

Lemma full_elem c1 : (is_plus c1 || is_star c1) = true -> re_eqb (key c1) r09 = true -> has_full c1 = true.
Proof.
  intros H K. destruct c1 as [w|a b|c|c|c|a b|a b|a b|c| |]; try discriminate H; simpl in K |- *; rewrite K; reflexivity.
Qed.

(* ---- negation of intervals, converse direction ---- *)
Lemma neg_In_inv n l : In_ivs n (neg_ivs l) -> In_ivs (- n) l.
Proof.
  intros [i [Hi Hn]]. unfold neg_ivs in Hi. apply in_map_iff in Hi as [j [E Hj]]. apply in_rev in Hj.
  exists j. split; [exact Hj|]. subst i. unfold In_iv, maxsize in *. cbn [fst snd] in Hn. lia.
Qed.

(* ================================================================== *)
(* one step of the concatenation case                                  *)
(* ================================================================== *)
Section StepX.
  Variable q : bool.
  Variable rec : re -> out.
  Hypothesis IH : forall x ivs, recognizedb x = true -> inner_sign x = false -> has_full x = false ->
                                rec x = Val (Some ivs) -> Exact x ivs.
  Hypothesis IHB : forall x ivs, recognizedb x = true -> inner_sign x = false ->
                                 rec x = Val (Some ivs) -> Forall bounded ivs.

  Lemma exact_mk x rest ivs : recognizedb x = true -> inner_sign x = false -> has_full x = false ->
    Forall telem rest -> Forall nf rest -> rec (mk_concat x rest) = Val (Some ivs) ->
    Forall bounded ivs /\ forall n, In_ivs n ivs -> exists t, matches_cat (x :: rest) t /\ intval t = Some n.
  Proof.
    intros Hx Hi Hf Hr Hnf Hn. destruct (mk_concat_rec rest x Hx Hi Hr) as [R I].
    split; [exact (IHB _ _ R I Hn)|]. intros n Hin.
    destruct (IH _ _ R I (mk_concat_nf rest x Hf Hnf) Hn n Hin) as [t [Hm Hv]].
    exists t. split; [apply mk_concat_lang; exact Hm|exact Hv].
  Qed.

  Lemma exact_cat l ivs : l <> [] -> Forall telem l -> Forall nf l -> rec (cat_re l) = Val (Some ivs) ->
    forall n, In_ivs n ivs -> exists t, matches_cat l t /\ intval t = Some n.
  Proof.
    intros Hne Hl Hnf Hn n Hin. destruct (cat_re_rec l Hne Hl) as [R I].
    destruct (IH _ _ R I (cat_re_nf l Hnf) Hn n Hin) as [t [Hm Hv]].
    exists t. split; [apply cat_re_lang; exact Hm|exact Hv].
  Qed.

  (* one witness per stripped element: a non-empty string of zeroes for the whole stripped prefix *)
  Lemma zeros_wit zs : Forall telem zs -> Forall nf zs -> Forall (fun z => rec z = Val (Some [(0, 0)])) zs ->
    exists z, matches_cat zs z /\ forallb isdig z = true /\ digits_val z 0 = 0 /\ (zs <> [] -> z <> []).
  Proof.
    intro Ht. induction Ht as [|e zs He Hzs IHz]; intros Hnf Hz.
    - exists []. repeat split; auto.
    - inversion Hnf as [|e' zs' Fe Hnf']; subst. inversion Hz as [|e' zs' Hez Hz']; subst.
      destruct (IHz Hnf' Hz') as [z [Mz [Dz [Vz _]]]].
      destruct He as [R [S C]].
      destruct (IH e _ R (inner_le_has e S) Fe Hez 0) as [u [Mu Vu]].
      { apply In_ivs_single. unfold In_iv, maxsize. cbn [fst snd]. lia. }
      pose proof (nosign_digits e R S u Mu) as Du. destruct (intval_digits u 0 Du Vu) as [Nu Eu].
      exists (u ++ z). split; [exists u, z; auto|]. split; [rewrite digits_app, Du, Dz; reflexivity|].
      split; [rewrite dv_app, <- Eu; exact Vz|]. intros _ E. apply app_eq_nil in E as [E _]. congruence.
  Qed.

  Lemma elems_exact first rest ivs :
    helem first -> has_full first = false -> Forall telem rest -> Forall nf rest ->
    elems_step q rec first rest = Val (Some ivs) ->
    forall n, In_ivs n ivs -> exists s, matches_cat (first :: rest) s /\ intval s = Some n.
  Proof.
    intros Hf Ff Hr Fr Hn. unfold elems_step in Hn.
    destruct (is_union first || re_eqb first (ROpt re_minus_sign)) eqn:E1.
    { assert (Hne : rest <> []) by (intro; subst rest; discriminate Hn).
      apply orb_true_iff in E1 as [E1|E1].
      - (* union: the witness of the alternative *)
        destruct first as [w|a b|c|c|c|a b|a' b'|a' b'|c| |]; try discriminate E1.
        assert (Hn' : merge_outs [rec (mk_concat a rest); rec (mk_concat b rest)] = Val (Some ivs))
          by (destruct rest; [congruence|exact Hn]).
        apply merge_outs_val in Hn'. destruct Hn' as [ia [ib [Ea [Eb Ei]]]].
        destruct Hf as [Rf [If _]]. simpl in Rf, If, Ff. apply andb_true_iff in Rf as [Ra Rb].
        apply orb_false_iff in If as [Ia Ib]. apply orb_false_iff in Ff as [Fa Fb].
        destruct (exact_mk a rest ia Ra Ia Fa Hr Fr Ea) as [Ba Xa].
        destruct (exact_mk b rest ib Rb Ib Fb Hr Fr Eb) as [Bb Xb].
        assert (Bab : Forall bounded (ia ++ ib)) by (apply Forall_app; split; assumption).
        subst ivs. intros n Hin. apply (proj1 (merge_ok_member _ n Bab)) in Hin. apply In_ivs_app in Hin.
        destruct Hin as [Hin|Hin].
        + destruct (Xa n Hin) as [t [[u [v [E [Hu Hm]]]] Hv]]. exists t. split; [|exact Hv].
          exists u, v. split; [exact E|]. split; [left; exact Hu|exact Hm].
        + destruct (Xb n Hin) as [t [[u [v [E [Hu Hm]]]] Hv]]. exists t. split; [|exact Hv].
          exists u, v. split; [exact E|]. split; [right; exact Hu|exact Hm].
      - (* Option("-"): evaluated as "+" | "-"; a "+" witness loses its sign *)
        apply re_eqb_eq in E1. subst first.
        assert (Hn' : merge_outs [rec (mk_concat re_plus_sign rest); rec (mk_concat re_minus_sign rest)] = Val (Some ivs))
          by (destruct rest; [congruence|exact Hn]).
        apply merge_outs_val in Hn'. destruct Hn' as [ia [ib [Ea [Eb Ei]]]].
        destruct (exact_mk re_plus_sign rest ia eq_refl eq_refl eq_refl Hr Fr Ea) as [Ba Xa].
        destruct (exact_mk re_minus_sign rest ib eq_refl eq_refl eq_refl Hr Fr Eb) as [Bb Xb].
        assert (Bab : Forall bounded (ia ++ ib)) by (apply Forall_app; split; assumption).
        subst ivs. intros n Hin. apply (proj1 (merge_ok_member _ n Bab)) in Hin. apply In_ivs_app in Hin.
        destruct Hin as [Hin|Hin].
        + destruct (Xa n Hin) as [t [[u [v [E [Hu Hm]]]] Hv]]. simpl in Hu. subst u t.
          exists v. split; [|apply intval_strip_plus; exact Hv].
          exists [], v. split; [reflexivity|]. split; [left; reflexivity|exact Hm].
        + destruct (Xb n Hin) as [t [[u [v [E [Hu Hm]]]] Hv]]. exists t. split; [|exact Hv].
          exists u, v. split; [exact E|]. split; [right; exact Hu|exact Hm]. }
    destruct (re_eqb first re_plus_sign || re_eqb first (ROpt re_plus_sign)) eqn:E2.
    { assert (Hne : rest <> []) by (intro; subst rest; discriminate Hn).
      rewrite (concat_tail_eq rec rest Hne) in Hn. intros n Hin.
      destruct (exact_cat rest ivs Hne Hr Fr Hn n Hin) as [t [Hm Hv]].
      pose proof (nosign_cat rest Hr t Hm) as Dt.
      exists (43%N :: t). split; [|apply intval_plus_digits; assumption].
      exists [43%N], t. split; [reflexivity|]. split; [|exact Hm].
      apply orb_true_iff in E2 as [E2|E2]; apply re_eqb_eq in E2; subst first; [reflexivity|right; reflexivity]. }
    destruct (re_eqb first re_minus_sign) eqn:E3.
    { assert (Hne : rest <> []) by (intro; subst rest; discriminate Hn).
      rewrite (concat_tail_eq rec rest Hne) in Hn.
      destruct (rec (cat_re rest)) as [| |[ivs'|]] eqn:Er; try discriminate Hn.
      simpl in Hn. inversion Hn; subst ivs. intros n Hin. apply neg_In_inv in Hin.
      destruct (exact_cat rest ivs' Hne Hr Fr Er (- n) Hin) as [t [Hm Hv]].
      pose proof (nosign_cat rest Hr t Hm) as Dt.
      exists (45%N :: t). split.
      - exists [45%N], t. split; [reflexivity|]. split; [|exact Hm]. apply re_eqb_eq in E3. subst first. reflexivity.
      - rewrite (intval_minus_digits t (- n) Dt Hv). f_equal. lia. }
    apply orb_false_iff in E1 as [U1 M1]. apply orb_false_iff in E2 as [P1 P2].
    assert (Hs : has_sign first = false) by (apply first_nosign; assumption).
    assert (Hft : telem first) by (destruct Hf as [R [_ C]]; repeat split; assumption).
    assert (Hall : Forall telem (first :: rest)) by (constructor; assumption).
    assert (Fall : Forall nf (first :: rest)) by (constructor; assumption).
    destruct (strip_zeroes rec (first :: rest)) as [o rem] eqn:Est.
    destruct o as [| |v]; try discriminate Hn.
    destruct (strip_spec rec _ v rem Est) as [zs [El Hz]].
    assert (Hsplit : Forall telem zs /\ Forall telem rem) by (apply Forall_app; rewrite <- El; exact Hall).
    assert (Fsplit : Forall nf zs /\ Forall nf rem) by (apply Forall_app; rewrite <- El; exact Fall).
    destruct Hsplit as [Tz Tr]. destruct Fsplit as [Fz Frem].
    destruct (Nat.ltb (length rem) (length (first :: rest))) eqn:Elt.
    { destruct (zeros_wit zs Tz Fz Hz) as [z [Mz [Dz [Vz Nz]]]].
      assert (Hzs : zs <> []).
      { intro E. subst zs. simpl in El. rewrite <- El in Elt. rewrite Nat.ltb_irrefl in Elt. discriminate Elt. }
      specialize (Nz Hzs).
      destruct rem as [|x more].
      - inversion Hn; subst ivs. intros n Hin. apply In_ivs_zero in Hin. subst n.
        exists z. split; [rewrite El, app_nil_r; exact Mz|]. rewrite (digits_intval z Dz Nz), Vz. reflexivity.
      - assert (Hn' : rec (cat_re (x :: more)) = Val (Some ivs)) by (destruct more; exact Hn).
        intros n Hin.
        destruct (exact_cat (x :: more) ivs ltac:(discriminate) Tr Frem Hn' n Hin) as [t [Hm Hv]].
        pose proof (nosign_cat _ Tr t Hm) as Dt. destruct (intval_digits t n Dt Hv) as [Nt En].
        exists (z ++ t). split.
        + rewrite El. apply matches_cat_app. exists z, t. auto.
        + rewrite digits_intval.
          * rewrite dv_app, Vz, <- En. reflexivity.
          * rewrite digits_app, Dz, Dt. reflexivity.
          * intro E. apply app_eq_nil in E as [E _]. congruence. }
    (* nothing stripped: only the three [1-9][0-9]* cases are left, and they need a <full> element *)
    destruct rest as [|c1 [|c2 rest']]; try discriminate Hn.
    destruct (rec first) as [| |v0] eqn:E0; try discriminate Hn. cbn [out_bind] in Hn.
    inversion Fr as [|c1' r' Fc1 _]; subst. unfold nf in Fc1. exfalso.
    destruct (is_ivs v0 [(1, 9)] && is_star c1 && re_eqb (key c1) r09) eqn:C1.
    { apply andb_true_iff in C1 as [C1 K]. apply andb_true_iff in C1 as [_ St].
      rewrite (full_elem c1) in Fc1; [discriminate Fc1|rewrite St; apply orb_true_r|exact K]. }
    destruct (is_ivs_q q v0 [(1, 9)] && is_plus c1 && re_eqb (key c1) r09) eqn:C2.
    { apply andb_true_iff in C2 as [C2 K]. apply andb_true_iff in C2 as [_ Pl].
      rewrite (full_elem c1) in Fc1; [discriminate Fc1|rewrite Pl; reflexivity|exact K]. }
    destruct (is_ivs_q q v0 [(0, 9)] && (is_plus c1 || is_star c1) && re_eqb (key c1) r09) eqn:C3; [|discriminate Hn].
    apply andb_true_iff in C3 as [C3 K]. apply andb_true_iff in C3 as [_ PS].
    rewrite (full_elem c1 PS K) in Fc1. discriminate Fc1.
  Qed.

  Lemma concat_step_exact r ivs : recognizedb r = true -> inner_sign r = false -> has_full r = false ->
    concat_step q rec r = Val (Some ivs) -> Exact r ivs.
  Proof.
    intros Hr Hi Hfu Hn. destruct (split_struct r Hr Hi) as [h [t [Es [Hh Ht]]]].
    pose proof (split_nf r Hfu) as Hsf. rewrite Es in Hsf. inversion Hsf as [|h' t' Fh Ft]; subst.
    unfold concat_step in Hn. rewrite Es in Hn. cbn [map] in Hn.
    destruct (compress (norm_range h :: map norm_range t)) as [[|first rest]|e] eqn:Ec; try discriminate Hn.
    assert (Ht' : Forall telem (map norm_range t)).
    { apply Forall_forall. intros e He. apply in_map_iff in He as [e0 [E0 He0]]. subst e.
      apply norm_telem. rewrite Forall_forall in Ht. apply Ht. exact He0. }
    assert (Fl : Forall nf (norm_range h :: map norm_range t)).
    { constructor.
      - unfold nf. rewrite norm_has_full; [exact Fh|destruct Hh as [R _]; exact R].
      - apply Forall_forall. intros e He. apply in_map_iff in He as [e0 [E0 He0]]. subst e.
        rewrite Forall_forall in Ht, Ft. unfold nf. rewrite norm_has_full; [apply Ft; exact He0|].
        destruct (Ht e0 He0) as [R _]. exact R. }
    destruct (compress_struct _ _ first rest (norm_helem h Hh) Ht' Ec) as [Hf Hrest].
    pose proof (compress_nf _ _ Fl Ec) as Fc. inversion Fc as [|f' r' Ffirst Frest]; subst.
    intros n Hin. destruct (elems_exact first rest ivs Hf Ffirst Hrest Frest Hn n Hin) as [s [Hm Hv]].
    exists s. split; [|exact Hv].
    apply split_concat_lang. rewrite Es.
    apply (norm_cat_lang (h :: t)).
    - constructor; [destruct Hh as [R _]; exact R|]. eapply Forall_impl; [|exact Ht]. intros e [R _]. exact R.
    - apply (compress_lang _ _ Ec). exact Hm.
  Qed.
End StepX.

(* ================================================================== *)
(* the theorem                                                         *)
(* ================================================================== *)
Lemma exact_zero r : (exists s, matches r s /\ intval s = Some 0) -> Exact r [(0, 0)].
Proof. intros H n Hin. apply In_ivs_zero in Hin. subst n. exact H. Qed.

Lemma exact_starplus q f c r ivs : (r = RStar c \/ r = RPlus c) ->
  (c = zero_lit \/ c = RRange [48%N] [48%N] \/ c = r09) -> has_full r = false ->
  nifr q (S f) r = Val (Some ivs) -> Exact r ivs.
Proof.
  intros Hr Hc Hfu Hn. destruct f as [|f]; [destruct Hr; subst r; discriminate Hn|].
  destruct (nifr_star_child q f c Hc) as [N1 N2].
  assert (Hi : ivs = if re_eqb c r09 then [(- maxsize, maxsize)] else [(0, 0)]).
  { destruct Hr; subst r; [rewrite N1 in Hn|rewrite N2 in Hn]; inversion Hn; reflexivity. }
  assert (R00 : matches (RRange [48%N] [48%N]) [48%N]) by (exists 48%N, 48%N, 48%N; repeat split; lia).
  destruct Hc as [E|[E|E]]; subst c; simpl in Hi; subst ivs.
  - apply exact_zero. exists [48%N]. split; [|reflexivity]. destruct Hr; subst r.
    + apply star_one. reflexivity.
    + exists [48%N], []. split; [reflexivity|]. split; [reflexivity|constructor].
  - apply exact_zero. exists [48%N]. split; [|reflexivity]. destruct Hr; subst r.
    + apply star_one. exact R00.
    + exists [48%N], []. split; [reflexivity|]. split; [exact R00|constructor].
  - destruct Hr; subst r; discriminate Hfu.
Qed.

Theorem nifr_exact q : forall f r ivs, recognizedb r = true -> inner_sign r = false -> has_full r = false ->
  nifr q f r = Val (Some ivs) -> Exact r ivs.
Proof.
  induction f as [|f IHf]; intros r ivs Hr Hi Hfu Hn; [discriminate Hn|].
  destruct r as [w|a b|c|c|c|a b|a b|a b|c| |]; pose proof Hr as Hr0; simpl in Hr; try discriminate Hr.
  - destruct w as [|d [|? ?]]; try discriminate Hr. destruct (isdig d) eqn:D.
    + intros n Hin. destruct (basic_nifr q (RStr [d]) (b_single d D) (S f) ivs Hn) as [_ [_ X]]. exact (X Hfu n Hin).
    + change (is_digit d) with (isdig d) in Hr. rewrite D in Hr. simpl in Hr.
      apply orb_true_iff in Hr as [E|E]; apply N.eqb_eq in E; subst d; discriminate Hn.
  - destruct a as [|x [|? ?]]; try discriminate Hr. destruct b as [|y [|? ?]]; try discriminate Hr.
    apply andb_true_iff in Hr as [Rx Ry]. destruct (N.leb_spec x y) as [L|L].
    + intros n Hin. destruct (basic_nifr q _ (b_range x y Rx Ry L) (S f) ivs Hn) as [_ [_ X]]. exact (X Hfu n Hin).
    + rewrite (nifr_range_gt q f x y Rx Ry L) in Hn. discriminate Hn.
  - apply (exact_starplus q f c (RStar c) ivs (or_introl eq_refl) (star_child c Hr) Hfu Hn).
  - apply (exact_starplus q f c (RPlus c) ivs (or_intror eq_refl) (star_child c Hr) Hfu Hn).
  - discriminate Hn.
  - cbn [nifr] in Hn. apply merge_outs_val in Hn. destruct Hn as [ia [ib [Ea [Eb Ei]]]].
    apply andb_true_iff in Hr as [Ra Rb]. simpl in Hi, Hfu. apply orb_false_iff in Hi as [Ia Ib].
    apply orb_false_iff in Hfu as [Fa Fb].
    destruct (nifr_good q f a ia Ra Ia Ea) as [Ba _]. destruct (nifr_good q f b ib Rb Ib Eb) as [Bb _].
    assert (Bab : Forall bounded (ia ++ ib)) by (apply Forall_app; split; assumption).
    subst ivs. intros n Hin. apply (proj1 (merge_ok_member _ n Bab)) in Hin. apply In_ivs_app in Hin.
    destruct Hin as [Hin|Hin].
    + destruct (IHf a ia Ra Ia Fa Ea n Hin) as [s [Hm Hv]]. exists s. split; [left; exact Hm|exact Hv].
    + destruct (IHf b ib Rb Ib Fb Eb n Hin) as [s [Hm Hv]]. exists s. split; [right; exact Hm|exact Hv].
  - rewrite nifr_concat in Hn.
    apply (concat_step_exact q (nifr q f) IHf
             (fun x ivs0 R I H => proj1 (nifr_good q f x ivs0 R I H)) (RConcat a b) ivs Hr0 Hi Hfu Hn).
Qed.

(* both halves: on the recognised vocabulary (a superset of the documented shape), concatenations included,
   without <full> element and without inner sign, the inferred intervals are EXACTLY the matched integers *)
Theorem recognized_exact q r fuel ivs n :
  recognizedb r = true -> K_full_sign r = false -> K_inner_sign r = false -> nifr q fuel r = Val (Some ivs) ->
  (In_ivs n ivs <-> exists s, matches r s /\ intval s = Some n).
Proof.
  intros Hr Hf Hk Hn. split.
  - intro Hin. exact (nifr_exact q fuel r ivs Hr Hk Hf Hn n Hin).
  - intros [s [Hm Hv]]. exact (recognized_overapprox q r fuel ivs s n Hr Hk Hn Hm Hv).
Qed.

Corollary documented_exact q r fuel ivs n :
  documented_shapeb r = true -> K_full_sign r = false -> K_inner_sign r = false -> nifr q fuel r = Val (Some ivs) ->
  (In_ivs n ivs <-> exists s, matches r s /\ intval s = Some n).
Proof.
  intros Hd. unfold documented_shapeb in Hd. apply andb_true_iff in Hd as [Hr _]. apply recognized_exact. exact Hr.
Qed.

(* ---- non-vacuity: (-)? 0* (0 | [3-7])  built as z3.Concat(Option(Re "-"), Star(Re "0"), Re "0", Union(Re "0", Range("3","7"))) ---- *)
Definition ex_signed_padded : re :=
  RConcat (RConcat (RConcat (ROpt re_minus_sign) (RStar zero_lit)) zero_lit) (RUnion zero_lit (RRange [51%N] [55%N])).

Example exact_example :
  documented_shapeb ex_signed_padded = true /\ K_full_sign ex_signed_padded = false /\
  K_inner_sign ex_signed_padded = false /\
  nifr_top true ex_signed_padded = Val (Some [(-7, -3); (0, 0); (3, 7)]) /\
  matches ex_signed_padded [45%N; 48%N; 48%N; 53%N] /\ intval [45%N; 48%N; 48%N; 53%N] = Some (-5).
Proof.
  split; [reflexivity|]. split; [reflexivity|]. split; [reflexivity|]. split; [vm_compute; reflexivity|].
  split; [apply matchb_spec; vm_compute; reflexivity|reflexivity].
Qed.
