(* C15 — tighter finding class for the over-approximation half (boolean, executable; no proofs).
   drops_signed q fuel r  follows the recursion of  nifr q fuel r  (same flattening, Range(c,c) rewriting,
   compression, distribution of union alternatives / Option("-"), sign prefixes, zero-stripping loop) and answers
   true iff somewhere in that recursion the zero-stripping loop drops, as zero padding, an element that carries a
   sign literal while the sign can reach the front of the string:
     - every element stripped before it can match the empty string (`nullable`), or
     - (conservatively) the stripped signed element itself drops such an element in its own evaluation.
   This is the root cause of the findings inner-sign-zero (inside the recognised vocabulary) and signed-zero
   (outside): an element whose own intervals are [(0,0)] but which can match a sign. *)
From Coq Require Import List NArith ZArith Bool.
From ISLA Require Import Str Outcome IvRe Intervals IvShape.
Import ListNotations.

(* the prefix removed by the zero-stripping loop (mirror of Intervals.strip_zeroes) *)
Fixpoint stripped (rec : re -> out) (cs : list re) : list re :=
  match cs with
  | [] => []
  | c :: cs' =>
      match rec c with
      | Val v => if is_ivs v [(0, 0)%Z] then c :: stripped rec cs' else []
      | _ => []
      end
  end.

(* nul: every element stripped so far can match the empty string *)
Fixpoint sflag (ds : re -> bool) (nul : bool) (zs : list re) : bool :=
  match zs with
  | [] => false
  | z :: zs' => (has_sign z && (nul || ds z)) || sflag ds (nul && nullable z) zs'
  end.

Definition ds_tail (ds : re -> bool) (rest : list re) : bool :=
  match rest with
  | [] => false
  | [x] => ds x
  | x :: rest' => ds (mk_concat x rest')
  end.

Definition elems_ds (ds : re -> bool) (rec : re -> out) (first : re) (rest : list re) : bool :=
  if is_union first || re_eqb first (ROpt re_minus_sign) then
    let alts := match first with RUnion a b => [a; b]
                               | _ => [re_plus_sign; re_minus_sign] end in
    match rest with
    | [] => false
    | _ => existsb (fun x => ds (mk_concat x rest)) alts
    end
  else if re_eqb first re_plus_sign || re_eqb first (ROpt re_plus_sign) then ds_tail ds rest
  else if re_eqb first re_minus_sign then ds_tail ds rest
  else
    match strip_zeroes rec (first :: rest) with
    | (Val _, remaining) =>
        sflag ds true (stripped rec (first :: rest))
        || (Nat.ltb (length remaining) (length (first :: rest)) && ds_tail ds remaining)
    | _ => false
    end.

Definition concat_ds (ds : re -> bool) (rec : re -> out) (r : re) : bool :=
  match compress (map norm_range (split_concat r)) with
  | Ok (first :: rest) => elems_ds ds rec first rest
  | _ => false
  end.

Fixpoint drops_signed (q : bool) (fuel : nat) (r : re) : bool :=
  match fuel with
  | O => false
  | S f =>
      match r with
      | RUnion a b => drops_signed q f a || drops_signed q f b
      | RConcat _ _ => concat_ds (drops_signed q f) (nifr q f) r
      | _ => false
      end
  end.

(* the class, with the fuel of nifr_top *)
Definition K_drops_signed (q : bool) (r : re) : bool := drops_signed q (S (re_size r)) r.
