(* C05 extension, definitions only (proofs: Smt/PyFastMore.v).
   1. The guard of the fx = true theorems: the first class met in evaluation order is "none" or
      K_noimpl (an operator without fast path; with the repaired not_implemented_failure it yields
      Failure -> the atom is handed to Z3).
   2. An EXPLICIT model of the two phases of evaluator.evaluate_smt_formula for an atom with FREE string
      variables: here [EVar x] carries the NAME x of an ISLa variable, [inst : str -> str] are the string
      instantiations.  [translate] is evaluate_z3_expression (children left to right; a variable becomes
      the closure "args[0]"; construct_result: no parameters -> the constructor is applied at once, else a
      closure over the instantiation is returned; operators without fast path fail at once);
      [evaluate_clo] is process_translation / fallback (closure applied inside try/except DomainError;
      Failure -> is_valid of the atom with StringVals substituted).
      PyFast.evaluate_atom (the model the correspondence check runs) works on the atom with the
      instantiation already written into the EVar leaves; PyFastMore.translate_commutes proves that both
      agree: translating and then applying the closure = evaluating the substituted atom. *)
From Coq Require Import List NArith ZArith Bool.
From ISLA Require Import Str Outcome Regex SmtAst SmtSem PyRe PyFast SmtClasses.
Import ListNotations.

Definition agree_class_fx (e : expr) : bool :=
  (first_class e =? 0)%N || (first_class e =? K_noimpl)%N.

(* instantiate the free variables: EVar x (name) |-> EVar (inst x) (variable instantiated with inst x) *)
Fixpoint subst (inst : str -> str) (e : expr) : expr :=
  match e with
  | EVar x => EVar (inst x)
  | E1 o a => E1 o (subst inst a)
  | E2 o a b => E2 o (subst inst a) (subst inst b)
  | E3 o a b c => E3 o (subst inst a) (subst inst b) (subst inst c)
  | ELoop lo hi a => ELoop lo hi (subst inst a)
  | EPow n a => EPow n (subst inst a)
  | _ => e
  end.

(* Z3EvalResult: ((), value) or (params, closure) *)
Inductive trres :=
| TConst (p : pval)
| TClo (f : (str -> str) -> out pval).

Definition run (t : trres) (inst : str -> str) : out pval :=
  match t with TConst p => Val p | TClo f => f inst end.

Definition ploop (lo : nat) (hi : option nat) (v : pval) : out pval :=
  match v, hi with
  | PP _, None => Exn IndexErr
  | PP p, Some h => Val (PP (pat_loop lo h p))
  | _, _ => Unmodelled
  end.

Section Clo.
  Variable fx : bool.
  Variable z3_valid : expr -> tv.

  Definition konst (r : out pval) : out trres := obind r (fun p => Val (TConst p)).

  (* construct_result for 1, 2, 3 children *)
  Definition cr1 (k : pval -> out pval) (ta : trres) : out trres :=
    match ta with
    | TConst pa => konst (k pa)
    | _ => Val (TClo (fun inst => obind (run ta inst) k))
    end.
  Definition cr2 (k : pval -> pval -> out pval) (ta tb : trres) : out trres :=
    match ta, tb with
    | TConst pa, TConst pb => konst (k pa pb)
    | _, _ => Val (TClo (fun inst => obind (run ta inst) (fun v => obind (run tb inst) (fun w => k v w))))
    end.
  Definition cr3 (k : pval -> pval -> pval -> out pval) (ta tb tc : trres) : out trres :=
    match ta, tb, tc with
    | TConst pa, TConst pb, TConst pc => konst (k pa pb pc)
    | _, _, _ =>
        Val (TClo (fun inst => obind (run ta inst) (fun u => obind (run tb inst) (fun v =>
                               obind (run tc inst) (fun w => k u v w)))))
    end.

  (* operators whose outcome does not depend on the values fail / raise during translation *)
  Definition static_tr (e : expr) (k : out trres) : out trres :=
    match node_static fx e with Some r => konst r | None => k end.

  Fixpoint translate (e : expr) : out trres :=
    match e with
    | EStr s => Val (TConst (PS (z3enc s)))
    | EVar x => Val (TClo (fun inst => Val (PS (inst x))))
    | EInt z => Val (TConst (PI z))
    | EBool b => Val (TConst (PB b))
    | ERAll => Val (TConst (PP pat_all))
    | ERNone | ERAllChar => konst (noimpl fx)
    | E1 o a => obind (translate a) (fun ta => static_tr e (cr1 (p1 o) ta))
    | E2 o a b => obind (translate a) (fun ta => obind (translate b) (fun tb =>
                    static_tr e (cr2 (p2 o) ta tb)))
    | E3 o a b c => obind (translate a) (fun ta => obind (translate b) (fun tb =>
                    obind (translate c) (fun tc => static_tr e (cr3 (p3 o) ta tb tc))))
    | ELoop lo hi a => obind (translate a) (fun ta => cr1 (ploop lo hi) ta)
    | EPow _ a => obind (translate a) (fun _ => konst (noimpl fx))
    end.

  (* evaluate_smt_formula: translation, then process_translation or fallback *)
  Definition evaluate_clo (e : expr) (inst : str -> str) : out tv :=
    match translate e with
    | Exn x => Exn x
    | Fail => is_valid fx z3_valid (ground (subst inst e))
    | Unmodelled => Unmodelled
    | Val t =>
        match run t inst with
        | Val (PB b) => Val (of_bool b)
        | Exn DomainErr => Val FF
        | Exn x => Exn x
        | _ => Unmodelled
        end
    end.
End Clo.
