(* Divergence classes K_* of the fast path (boolean predicates over the input atom) and the
   agreeing class.  Definitions only (used by the harness to classify and by PyFastFacts.v as the
   guards of the theorems).  A class is decided at the FIRST node (post-order = evaluation order)
   at which the Python computation can depart from the SMT-LIB value.
   Guards of the theorems:
     agree_class e               first_class e = 0: no class is met at all.  Guard of the is_valid AND the
                                 evaluate_atom / evaluate_clo theorems for every fx and every Z3 fall-back
                                 (PyFastFacts.fast_agrees, PyFastMore.evaluate_atom_agrees).
     agree_class_fx e            (PyClosure.v) first_class e is 0 or K_noimpl: the first thing met in
                                 evaluation order is at worst an operator without fast path.  With the repaired
                                 fall-through (fx = true) py_eval then ends in Failure and the atom goes to Z3;
                                 guard of PyFastMore.fast_agrees_fx under the premise z3_sound.  For evaluate()
                                 the guard is taken on [ground e], the atom the fall-back judges
                                 (first_class (ground e) is first_class e or K_lit_enc:
                                 PyFastMore.first_class_ground). *)
From Coq Require Import List NArith ZArith Bool.
From ISLA Require Import Str Outcome Regex SmtAst SmtSem PyRe PyFast.
Import ListNotations.
Open Scope Z_scope.

Definition K_noimpl : N := 1.        (* operator without fast path: not_implemented_failure(expr, children) -> TypeError *)
Definition K_comp : N := 2.          (* re.comp of union-of-literals / range: reduce() nests Success -> TypeError *)
Definition K_lit_enc : N := 3.       (* literal with a char > U+00FF or "\u": as_string() gives \u{..} escape text *)
Definition K_mod_neg : N := 4.       (* mod with negative divisor: Python % has the divisor's sign *)
Definition K_zero_div : N := 5.      (* mod/div by zero: ZeroDivisionError (Z3: value not fixed, atom not valid) *)
Definition K_at_range : N := 6.      (* str.at outside [0,len): IndexError / negative indexing (Z3: "") *)
Definition K_substr_neg : N := 7.    (* str.substr with negative start or length: Python slicing from the end *)
Definition K_to_code_len : N := 8.   (* str.to_code of a string of length <> 1: ord() TypeError (Z3: -1) *)
Definition K_to_int_signed : N := 9. (* str.to.int of a signed numeral: Python int() accepts the sign (Z3: -1) *)
Definition X_to_int_nonnum : N := 10. (* str.to.int of a non-numeral: EXCLUDED by the property (not a finding) *)
Definition K_loop_shape : N := 11.   (* re.loop: {lo,hi} binds the last atom only / re.error / missing upper bound *)
Definition K_range_shape : N := 12.  (* re.range whose end points are not two plain characters lo <= hi *)
Definition K_newline_subject : N := 13. (* str.in_re on a string containing a newline: Python $ and . *)
Definition K_tore_backslash : N := 14.  (* str.to_re of a string containing backslash + one of t n r v f *)
Definition K_illsorted : N := 15.    (* no denotation for another reason (ill-sorted input; never generated) *)

Definition dS (e : expr) : option str := match denote e with Some (VS s) => Some s | _ => None end.
Definition dI (e : expr) : option Z := match denote e with Some (VI z) => Some z | _ => None end.

(* syntactic shapes that render to exactly one unquantified atom *)
Definition atomic_re (a : expr) : bool :=
  match a with
  | E2 ORange _ _ => true
  | E2 ORUnion _ _ => true
  | E1 OToRe (EStr [c]) => true
  | E1 OToRe (EVar [c]) => true
  | _ => false
  end.

Definition str_has_nl (s : str) : bool := existsb (N.eqb c_nl) s.

Definition is_noimpl_static (e : expr) : bool :=
  match e with
  | E1 OComp a => negb (comp_guard a)
  | _ => match node_static false e with Some _ => true | None => false end
  end.

(* class decided AT this node, children assumed fine; 0 = none *)
Definition node_class (e : expr) : N :=
  if is_noimpl_static e then K_noimpl else
  match e with
  | EStr s => if str_eqb (z3enc s) s then 0%N else K_lit_enc
  | E1 OComp _ => K_comp
  | E1 OToCode a => match dS a with Some [_] => 0%N | _ => K_to_code_len end
  | E1 OToInt a =>
      match dS a with
      | Some s => if all_digits s then 0%N
                  else match py_int s with Some _ => K_to_int_signed | None => X_to_int_nonnum end
      | None => K_illsorted
      end
  | E1 OToRe a =>
      match dS a with
      | Some s => if str_eqb (tore_unescape s) s then 0%N else K_tore_backslash
      | None => K_illsorted
      end
  | E2 OMod _ b =>
      match dI b with
      | Some z => if z =? 0 then K_zero_div else if z <? 0 then K_mod_neg else 0%N
      | None => K_illsorted
      end
  | E2 OAt a i =>
      match dS a, dI i with
      | Some s, Some z => if (0 <=? z) && (z <? slen s) then 0%N else K_at_range
      | _, _ => K_illsorted
      end
  | E3 OSubstr _ i n =>
      match dI i, dI n with
      | Some x, Some y => if (0 <=? x) && (0 <=? y) then 0%N else K_substr_neg
      | _, _ => K_illsorted
      end
  | ELoop lo hi a =>
      match hi with
      | Some h => if atomic_re a && Nat.leb lo h then 0%N else K_loop_shape
      | None => K_loop_shape
      end
  | E2 ORange a b =>
      match dS a, dS b with
      | Some [x], Some [y] => if plain_c x && plain_c y && (x <=? y)%N then 0%N else K_range_shape
      | _, _ => K_range_shape
      end
  | E2 OInRe a _ =>
      match dS a with
      | Some s => if str_has_nl s then K_newline_subject else 0%N
      | None => K_illsorted
      end
  | _ => 0%N
  end.

Definition orN (a b : N) : N := if (a =? 0)%N then b else a.

(* first class met in evaluation order (children left to right, then the node) *)
Fixpoint first_class (e : expr) : N :=
  match e with
  | E1 _ a | ELoop _ _ a | EPow _ a => orN (first_class a) (node_class e)
  | E2 _ a b => orN (first_class a) (orN (first_class b) (node_class e))
  | E3 _ a b c => orN (first_class a) (orN (first_class b) (orN (first_class c) (node_class e)))
  | _ => node_class e
  end.

Definition agree_class (e : expr) : bool := (first_class e =? 0)%N.

(* ---------- harness entry: everything about one case in one number ---------- *)
Definition z3_truth (code : N) : tv := if (code =? 1)%N then TT else FF.   (* is_valid semantics: valid or not *)
Definition spec_code (e : expr) : N :=
  match smt_denote e with Some true => 1%N | Some false => 2%N | None => 3%N end.
Definition impl_is (r : res tv) (t : tv) : bool :=
  match r with Ok x => tv_eqb x t | Raise _ => false end.

(* case = (atom with EVar leaves, is_valid outcome on the instantiated atom,
           evaluate() outcome (None: not run), z3 code 1 valid / 2 unsat / 3 both sat / 0 unknown) *)
Definition case_code (fx : bool) (c : expr * res tv * option (res tv) * N) : N :=
  let '(e, rg, rl, z) := c in
  let g := ground e in
  let zt := z3_truth z in
  let mg := is_valid fx (fun _ => zt) g in
  let ml := evaluate_atom fx (fun _ => zt) e in
  let b (x : bool) (w : N) : N := if x then w else 0%N in
  (b (negb (out_ok mg rg)) 1
   + b (match rl with Some r => negb (out_ok ml r) | None => false end) 2
   + b (match smt_denote g with            (* spec model validated against Z3 where it makes a claim *)
        | Some true => negb ((z =? 0)%N || (z =? 1)%N)
        | Some false => negb ((z =? 0)%N || (z =? 2)%N)
        | None => false
        end) 4
   + b (match smt_denote g with None => true | _ => false end) 128
   + b (negb (impl_is rg zt)) 8
   + b (match rl with Some r => negb (impl_is r zt) | None => false end) 16
   + b (is_unmodelled mg) 32
   + b (match rl with Some _ => is_unmodelled ml | None => false end) 64
   (* evaluate(): when the translation fails over to is_valid(substituted atom), the atom that is judged is g *)
   + 256 * first_class g + 65536 * (match tr fx e with Fail => first_class g | _ => first_class e end)
   (* the verdict comes from the Z3 fall-back (solve_using_z3, 500 ms budget): `unknown` is then Z3's own answer *)
   + b (match py_eval fx g with Fail => true | _ => false end) 16777216
   + b (match tr fx e, py_eval fx g with Fail, Fail => true | _, _ => false end) 33554432)%N.
