(* The derivative matcher decides the declarative language semantics:
     rmatch_spec : rmatch r s = true <-> lang r s      (all regexes, all strings)
   plus the facts about derived forms used by PyFastFacts.v. *)
From Coq Require Import List NArith Bool Lia.
From ISLA Require Import Str Regex.
Import ListNotations.

Lemma star_cons_inv (L : str -> Prop) c s :
  star_l L (c :: s) -> exists s1 s2, s = s1 ++ s2 /\ L (c :: s1) /\ star_l L s2.
Proof.
  intro H. remember (c :: s) as w eqn:Ew. revert c s Ew.
  induction H as [|u t Hu Ht IH]; intros c s Ew; [discriminate|].
  destruct u as [|d u'].
  - simpl in Ew. apply IH. exact Ew.
  - simpl in Ew. inversion Ew; subst. exists u', t. auto.
Qed.

Lemma nullable_spec r : nullable r = true <-> lang r [].
Proof.
  induction r as [| |n rs|a IHa b IHb|a IHa b IHb|a IHa b IHb|a IHa|a IHa]; simpl.
  - split; [discriminate|tauto].
  - split; auto.
  - split; [discriminate|]. intros [c [E _]]. discriminate.
  - rewrite andb_true_iff, IHa, IHb. split.
    + intros [Ha Hb]. exists [], []. auto.
    + intros [s1 [s2 [E [Ha Hb]]]]. symmetry in E. apply app_eq_nil in E as [E1 E2]. subst. auto.
  - rewrite orb_true_iff, IHa, IHb. tauto.
  - rewrite andb_true_iff, IHa, IHb. tauto.
  - rewrite negb_true_iff. split.
    + intros Hn Hl. apply IHa in Hl. congruence.
    + intro Hn. destruct (nullable a) eqn:E; [|reflexivity]. exfalso. apply Hn, IHa. reflexivity.
  - split; [intros _; constructor|reflexivity].
Qed.

Lemma lang_cat' a b s : lang (cat' a b) s <-> lang (RCat a b) s.
Proof.
  destruct a; simpl; try tauto.
  - split; [tauto|]. intros [s1 [s2 [_ [F _]]]]. exact F.
  - split.
    + intro H. exists [], s. auto.
    + intros [s1 [s2 [E [E1 H]]]]. subst. exact H.
Qed.

Lemma lang_alt' a b s : lang (alt' a b) s <-> lang (RAlt a b) s.
Proof.
  destruct a; destruct b; simpl; tauto.
Qed.

Lemma deriv_spec r : forall c s, lang (deriv c r) s <-> lang r (c :: s).
Proof.
  induction r as [| |n rs|a IHa b IHb|a IHa b IHb|a IHa b IHb|a IHa|a IHa]; intros c s; simpl.
  - tauto.
  - split; [tauto|discriminate].
  - destruct (set_mem n rs c) eqn:E; simpl.
    + split.
      * intro H; subst. exists c. auto.
      * intros [d [Ed _]]. inversion Ed. reflexivity.
    + split; [tauto|]. intros [d [Ed Hm]]. inversion Ed; subst. congruence.
  - assert (Hcat : lang (cat' (deriv c a) b) s <->
                   exists s1 s2, s = s1 ++ s2 /\ lang a (c :: s1) /\ lang b s2).
    { rewrite lang_cat'. simpl. split.
      - intros [s1 [s2 [E [H1 H2]]]]. exists s1, s2. rewrite <- IHa. auto.
      - intros [s1 [s2 [E [H1 H2]]]]. exists s1, s2. rewrite IHa. auto. }
    destruct (nullable a) eqn:En.
    + rewrite lang_alt'. simpl. rewrite Hcat, IHb. split.
      * intros [[s1 [s2 [E [H1 H2]]]]|H].
        -- exists (c :: s1), s2. subst. auto.
        -- exists [], (c :: s). split; [reflexivity|]. split; [apply nullable_spec; exact En|exact H].
      * intros [s1 [s2 [E [H1 H2]]]]. destruct s1 as [|d s1'].
        -- simpl in E. subst. right. exact H2.
        -- simpl in E. inversion E; subst. left. exists s1', s2. auto.
    + rewrite Hcat. split.
      * intros [s1 [s2 [E [H1 H2]]]]. exists (c :: s1), s2. subst. auto.
      * intros [s1 [s2 [E [H1 H2]]]]. destruct s1 as [|d s1'].
        -- apply nullable_spec in H1. congruence.
        -- simpl in E. inversion E; subst. exists s1', s2. auto.
  - rewrite lang_alt'. simpl. rewrite IHa, IHb. tauto.
  - rewrite IHa, IHb. tauto.
  - rewrite IHa. tauto.
  - rewrite lang_cat'. simpl. split.
    + intros [s1 [s2 [E [H1 H2]]]]. subst. apply IHa in H1.
      change (c :: s1 ++ s2) with ((c :: s1) ++ s2). constructor; assumption.
    + intro H. apply star_cons_inv in H as [s1 [s2 [E [H1 H2]]]].
      exists s1, s2. rewrite IHa. auto.
Qed.

Theorem rmatch_spec : forall s r, rmatch r s = true <-> lang r s.
Proof.
  induction s as [|c s IH]; intro r; simpl.
  - apply nullable_spec.
  - rewrite IH. apply deriv_spec.
Qed.

Corollary rmatch_false r s : rmatch r s = false <-> ~ lang r s.
Proof.
  split.
  - intros E H. apply rmatch_spec in H. congruence.
  - intro H. destruct (rmatch r s) eqn:E; [|reflexivity]. exfalso. apply H, rmatch_spec, E.
Qed.

(* two regexes with the same language are matched alike *)
Lemma rmatch_ext r1 r2 s : (lang r1 s <-> lang r2 s) -> rmatch r1 s = rmatch r2 s.
Proof.
  intro H. destruct (rmatch r1 s) eqn:E1; destruct (rmatch r2 s) eqn:E2; try reflexivity.
  - apply rmatch_spec in E1. apply H in E1. apply rmatch_spec in E1. congruence.
  - apply rmatch_spec in E2. apply H in E2. apply rmatch_spec in E2. congruence.
Qed.

(* ---------- derived forms ---------- *)
Lemma lang_rstr t s : lang (rstr t) s <-> s = t.
Proof.
  revert s. induction t as [|c t IH]; intro s; simpl.
  - tauto.
  - split.
    + intros [s1 [s2 [E [[d [Ed Hm]] H2]]]]. subst. apply IH in H2. subst.
      unfold set_mem, in_ranges in Hm. simpl in Hm. rewrite orb_false_r in Hm.
      destruct ((c <=? d)%N && (d <=? c)%N) eqn:Hm2; [|discriminate]. apply andb_true_iff in Hm2. destruct Hm2 as [A B]. apply N.leb_le in A. apply N.leb_le in B.
      assert (c = d) by lia. subst. reflexivity.
    + intro; subst. exists [c], t. split; [reflexivity|]. split; [|apply IH; reflexivity].
      exists c. split; [reflexivity|]. unfold set_mem, in_ranges. simpl.
      rewrite N.leb_refl. reflexivity.
Qed.

Lemma star_l_ext (L1 L2 : str -> Prop) s :
  (forall t, L1 t -> L2 t) -> star_l L1 s -> star_l L2 s.
Proof.
  intros H St. induction St as [|u t Hu Ht IH]; constructor; auto.
Qed.
