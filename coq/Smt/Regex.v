(* Regular expressions over code points: SMT-LIB RegLan semantics.
   - [lang]   : declarative language semantics (specification)
   - [rmatch] : Brzozowski-derivative matcher (executable); proved equal to [lang] in RegexFacts.v
   No proofs in this file. *)
From Coq Require Import List NArith Bool.
From ISLA Require Import Str.
Import ListNotations.

Inductive regex :=
| RNone                                   (* re.none *)
| REps                                    (* str.to_re "" *)
| RSet (neg : bool) (rs : list (chr * chr)) (* one character: in some [lo,hi] (xor neg) *)
| RCat (a b : regex)
| RAlt (a b : regex)
| RAnd (a b : regex)
| RNot (a : regex)
| RStar (a : regex).

Definition in_ranges (c : chr) (rs : list (chr * chr)) : bool :=
  existsb (fun p => N.leb (fst p) c && N.leb c (snd p)) rs.
Definition set_mem (neg : bool) (rs : list (chr * chr)) (c : chr) : bool :=
  xorb neg (in_ranges c rs).

Definition RChar (c : chr) : regex := RSet false [(c, c)].
Definition RAny : regex := RSet true [].

(* ---------- specification: the language of a regex ---------- *)
Inductive star_l (L : str -> Prop) : str -> Prop :=
| star_nil : star_l L []
| star_app s t : L s -> star_l L t -> star_l L (s ++ t).

Fixpoint lang (r : regex) : str -> Prop :=
  match r with
  | RNone => fun _ => False
  | REps => fun s => s = []
  | RSet n rs => fun s => exists c, s = [c] /\ set_mem n rs c = true
  | RCat a b => fun s => exists s1 s2, s = s1 ++ s2 /\ lang a s1 /\ lang b s2
  | RAlt a b => fun s => lang a s \/ lang b s
  | RAnd a b => fun s => lang a s /\ lang b s
  | RNot a => fun s => ~ lang a s
  | RStar a => star_l (lang a)
  end.

(* ---------- executable matcher ---------- *)
Fixpoint nullable (r : regex) : bool :=
  match r with
  | RNone => false
  | REps => true
  | RSet _ _ => false
  | RCat a b => nullable a && nullable b
  | RAlt a b => nullable a || nullable b
  | RAnd a b => nullable a && nullable b
  | RNot a => negb (nullable a)
  | RStar _ => true
  end.

(* light simplification keeps derivatives small *)
Definition cat' (a b : regex) : regex :=
  match a with
  | RNone => RNone
  | REps => b
  | _ => RCat a b
  end.
Definition alt' (a b : regex) : regex :=
  match a, b with
  | RNone, _ => b
  | _, RNone => a
  | _, _ => RAlt a b
  end.

Fixpoint deriv (c : chr) (r : regex) : regex :=
  match r with
  | RNone => RNone
  | REps => RNone
  | RSet n rs => if set_mem n rs c then REps else RNone
  | RCat a b => if nullable a then alt' (cat' (deriv c a) b) (deriv c b)
                else cat' (deriv c a) b
  | RAlt a b => alt' (deriv c a) (deriv c b)
  | RAnd a b => RAnd (deriv c a) (deriv c b)
  | RNot a => RNot (deriv c a)
  | RStar a => cat' (deriv c a) (RStar a)
  end.

Fixpoint rmatch (r : regex) (s : str) : bool :=
  match s with
  | [] => nullable r
  | c :: s' => rmatch (deriv c r) s'
  end.

(* derived forms *)
Fixpoint rstr (s : str) : regex :=
  match s with
  | [] => REps
  | c :: s' => RCat (RChar c) (rstr s')
  end.
Definition ropt (r : regex) : regex := RAlt REps r.
Definition rplus (r : regex) : regex := RCat r (RStar r).
Fixpoint rpow (r : regex) (n : nat) : regex :=
  match n with
  | O => REps
  | S n' => RCat r (rpow r n')
  end.
(* SMT-LIB ((_ re.loop lo hi) r) = r^lo | ... | r^hi, re.none when hi < lo *)
Definition rloop (r : regex) (lo hi : nat) : regex :=
  if Nat.ltb hi lo then RNone else RCat (rpow r lo) (rpow (ropt r) (hi - lo)).
