(* C15 — over-approximation half of numeric_intervals_from_regex for CONCATENATIONS
   (flattening, Range(c,c) rewriting, compression, sign prefixes, zero stripping, [1-9][0-9]* cases).
   Part 1: lenient value, digit arithmetic, structural facts about the element lists. *)
From Coq Require Import List NArith ZArith Bool Lia.
From ISLA Require Import Str Outcome IvRe Intervals IvShape IvCompressFacts IntervalsFacts IvReFacts IvCompressLang.
Import ListNotations.
Open Scope Z_scope.

(* ================================================================== *)
(* lenient value: any number of leading signs, then digits (none = 0)  *)
(* ================================================================== *)
Definition lnum (s : str) : option Z := if forallb isdig s then Some (digits_val s 0) else None.
Fixpoint lval (s : str) : option Z :=
  match s with
  | [] => Some 0
  | c :: t => if N.eqb c 43 then lval t
              else if N.eqb c 45 then option_map Z.opp (lval t)
              else lnum s
  end.

Lemma isdig_range c : isdig c = true -> (48 <= c <= 57)%N.
Proof. unfold isdig. intro H. apply andb_true_iff in H as [H1 H2]. apply N.leb_le in H1, H2. lia. Qed.

Lemma lval_digits s : forallb isdig s = true -> lval s = Some (digits_val s 0).
Proof.
  destruct s as [|c t]; [reflexivity|]. intro H. pose proof H as H'. simpl in H'.
  apply andb_true_iff in H' as [Hc _]. apply isdig_range in Hc.
  unfold lval. destruct (N.eqb_spec c 43) as [E|_]; [lia|]. destruct (N.eqb_spec c 45) as [E|_]; [lia|].
  unfold lnum. rewrite H. reflexivity.
Qed.

Lemma intval_other c t : c <> 43%N -> c <> 45%N -> intval (c :: t) = numeral (c :: t).
Proof.
  intros H1 H2. destruct c as [|p]; [reflexivity|].
  do 7 (try reflexivity; try (destruct p as [p|p|])); try reflexivity; congruence.
Qed.

Lemma numeral_some t n : numeral t = Some n -> forallb isdig t = true /\ n = digits_val t 0.
Proof.
  destruct t as [|c t]; [discriminate|]. unfold numeral. destruct (forallb isdig (c :: t)); [|discriminate].
  intro H. inversion H. auto.
Qed.

(* the strict integer value is a lenient value *)
Lemma intval_lval s n : intval s = Some n -> lval s = Some n.
Proof.
  destruct s as [|c t]; [discriminate|].
  destruct (N.eqb_spec c 43) as [E|N1].
  - subst c. change (intval (43%N :: t)) with (numeral t). intro H. apply numeral_some in H as [Hd ->].
    change (lval (43%N :: t)) with (lval t). apply lval_digits. exact Hd.
  - destruct (N.eqb_spec c 45) as [E|N2].
    + subst c. change (intval (45%N :: t)) with (option_map Z.opp (numeral t)).
      destruct (numeral t) as [m|] eqn:Em; [|discriminate]. intro H. simpl in H. inversion H. subst n.
      apply numeral_some in Em as [Hd ->]. change (lval (45%N :: t)) with (option_map Z.opp (lval t)).
      rewrite (lval_digits t Hd). reflexivity.
    + intro H0. pose proof (eq_trans (eq_sym (intval_other c t N1 N2)) H0) as H.
      apply numeral_some in H as [Hd ->]. apply lval_digits. exact Hd.
Qed.

Lemma lval_plus t : lval (43%N :: t) = lval t.
Proof. reflexivity. Qed.
Lemma lval_minus t : lval (45%N :: t) = option_map Z.opp (lval t).
Proof. reflexivity. Qed.

(* ---- digit arithmetic ---- *)
Lemma dv_app z : forall t acc, digits_val (z ++ t) acc = digits_val t (digits_val z acc).
Proof. induction z as [|c z IH]; intros t acc; simpl; [reflexivity|apply IH]. Qed.

Lemma dv_ge t : forallb isdig t = true -> forall acc, 0 <= acc -> acc <= digits_val t acc.
Proof.
  induction t as [|c t IH]; intros H acc Ha; cbn [digits_val forallb] in *; [lia|].
  apply andb_true_iff in H as [Hc Ht]. apply isdig_range in Hc.
  specialize (IH Ht (acc * 10 + (Z.of_N c - 48))). lia.
Qed.

Lemma dv_ge10 t : t <> [] -> forallb isdig t = true -> forall acc, 0 <= acc -> 10 * acc <= digits_val t acc.
Proof.
  destruct t as [|c t]; [congruence|]. intros _ H acc Ha. cbn [digits_val forallb] in *.
  apply andb_true_iff in H as [Hc Ht]. apply isdig_range in Hc.
  pose proof (dv_ge t Ht (acc * 10 + (Z.of_N c - 48))). lia.
Qed.

Lemma digits_app u v : forallb isdig (u ++ v) = forallb isdig u && forallb isdig v.
Proof. apply forallb_app. Qed.

(* ================================================================== *)
(* interval helpers                                                    *)
(* ================================================================== *)
Lemma ivs_eqb_eq a : forall b, ivs_eqb a b = true -> a = b.
Proof.
  induction a as [|[x1 x2] a IH]; intros [|[y1 y2] b] H; simpl in H; try discriminate; [reflexivity|].
  apply andb_true_iff in H as [H1 H2]. unfold iv_eqb in H1. simpl in H1.
  apply andb_true_iff in H1 as [A B]. apply Z.eqb_eq in A, B. subst. f_equal. apply IH. exact H2.
Qed.

Lemma is_ivs_eq v t : is_ivs v t = true -> v = Some t.
Proof. destruct v as [l|]; simpl; [|discriminate]. intro H. f_equal. apply ivs_eqb_eq. exact H. Qed.

Lemma is_ivs_q_cases q v t : is_ivs_q q v t = true -> v = Some t \/ v = None.
Proof. destruct v as [l|]; simpl; [|auto]. intro H. left. f_equal. apply ivs_eqb_eq. exact H. Qed.

Lemma In_ivs_single n lo hi : In_ivs n [(lo, hi)] <-> In_iv n (lo, hi).
Proof.
  unfold In_ivs. split.
  - intros [i [[E|[]] H]]. subst i. exact H.
  - intro H. exists (lo, hi). split; [left; reflexivity|exact H].
Qed.

Lemma In_ivs_zero n : In_ivs n [(0, 0)] -> n = 0.
Proof. intro H. apply In_ivs_single in H. unfold In_iv, maxsize in H. cbn [fst snd] in H. lia. Qed.

Lemma neg_bounded l : Forall bounded l -> Forall bounded (neg_ivs l).
Proof.
  intro H. unfold neg_ivs. apply Forall_forall. intros i Hi. apply in_map_iff in Hi as [j [E Hj]].
  apply in_rev in Hj. rewrite Forall_forall in H. specialize (H j Hj). subst i.
  unfold bounded, maxsize in *. cbn [fst snd]. lia.
Qed.

Lemma neg_In n l : In_ivs (- n) l -> In_ivs n (neg_ivs l).
Proof.
  intros [i [Hi Hn]]. exists (- snd i, - fst i). split.
  - unfold neg_ivs. apply in_map_iff. exists i. split; [reflexivity|]. apply in_rev. rewrite rev_involutive. exact Hi.
  - unfold In_iv, maxsize in *. cbn [fst snd]. lia.
Qed.

(* ================================================================== *)
(* structural facts: signs                                             *)
(* ================================================================== *)
Definition is_concat (r : re) : bool := match r with RConcat _ _ => true | _ => false end.
(* element of the flattened list behind the first position: recognised, carries no sign *)
Definition telem (e : re) : Prop := recognizedb e = true /\ has_sign e = false /\ is_concat e = false.
(* first element: may carry signs, but none behind a concatenation inside it *)
Definition helem (e : re) : Prop := recognizedb e = true /\ inner_sign e = false /\ is_concat e = false.

Lemma inner_le_has r : has_sign r = false -> inner_sign r = false.
Proof.
  induction r as [w|a b|c IH|c IH|c IH|a IHa b IHb|a IHa b IHb|a IHa b IHb|c IH| |]; simpl; intro H; auto.
  - apply orb_false_iff in H as [Ha Hb]. rewrite (IHa Ha), (IHb Hb). reflexivity.
  - apply orb_false_iff in H as [Ha Hb]. rewrite Hb, (IHa Ha), (IHb Hb). reflexivity.
  - apply orb_false_iff in H as [Ha Hb]. rewrite (IHa Ha), (IHb Hb). reflexivity.
Qed.

Lemma star_child c : (re_eqb c zero_lit || re_eqb c (RRange [48%N] [48%N]) || re_eqb c r09) = true ->
  c = zero_lit \/ c = RRange [48%N] [48%N] \/ c = r09.
Proof.
  intro H. apply orb_true_iff in H as [H|H]; [apply orb_true_iff in H as [H|H]|]; apply re_eqb_eq in H; auto.
Qed.

(* a recognised regex without sign matches digit strings only *)
Lemma nosign_digits r : recognizedb r = true -> has_sign r = false -> forall s, matches r s -> forallb isdig s = true.
Proof.
  induction r as [w|a b|c IH|c IH|c IH|a IHa b IHb|a IHa b IHb|a IHa b IHb|c IH| |]; intros Hr Hs s Hm;
    simpl in Hr; try discriminate Hr.
  - destruct w as [|x [|y w]]; try discriminate Hr. simpl in Hm. subst s. simpl in Hs.
    rewrite orb_false_r in Hs. apply orb_false_iff in Hs as [S1 S2]. unfold c_plus, c_minus in *.
    rewrite S1, S2, !orb_false_r in Hr. simpl. rewrite andb_true_r. exact Hr.
  - destruct a as [|x [|? ?]]; try discriminate Hr. destruct b as [|y [|? ?]]; try discriminate Hr.
    apply andb_true_iff in Hr as [Hx Hy]. destruct Hm as [lo [hi [z [E1 [E2 [E3 [L1 L2]]]]]]].
    inversion E1; inversion E2; subst. apply isdig_range in Hx, Hy. simpl. rewrite andb_true_r.
    unfold isdig. apply andb_true_iff. split; apply N.leb_le; lia.
  - assert (Hc : forall u, matches c u -> forallb isdig u = true).
    { intros u Hu. destruct (star_child c Hr) as [E|[E|E]]; subst c.
      - simpl in Hu. subst u. reflexivity.
      - destruct Hu as [lo [hi [z [E1 [E2 [E3 [L1 L2]]]]]]]. inversion E1; inversion E2; subst.
        assert (z = 48%N) by lia. subst z. reflexivity.
      - destruct Hu as [lo [hi [z [E1 [E2 [E3 [L1 L2]]]]]]]. inversion E1; inversion E2; subst.
        simpl. rewrite andb_true_r. unfold isdig. apply andb_true_iff. split; apply N.leb_le; lia. }
    simpl in Hm. induction Hm as [|u v Hu Hv IHv]; [reflexivity|]. rewrite digits_app, (Hc u Hu), IHv. reflexivity.
  - assert (Hc : forall u, matches c u -> forallb isdig u = true).
    { intros u Hu. destruct (star_child c Hr) as [E|[E|E]]; subst c.
      - simpl in Hu. subst u. reflexivity.
      - destruct Hu as [lo [hi [z [E1 [E2 [E3 [L1 L2]]]]]]]. inversion E1; inversion E2; subst.
        assert (z = 48%N) by lia. subst z. reflexivity.
      - destruct Hu as [lo [hi [z [E1 [E2 [E3 [L1 L2]]]]]]]. inversion E1; inversion E2; subst.
        simpl. rewrite andb_true_r. unfold isdig. apply andb_true_iff. split; apply N.leb_le; lia. }
    simpl in Hm. destruct Hm as [u [v [E [Hu Hv]]]]. subst s. rewrite digits_app, (Hc u Hu). simpl.
    induction Hv as [|u' v' Hu' Hv' IHv]; [reflexivity|]. rewrite digits_app, (Hc u' Hu'), IHv. reflexivity.
  - exfalso. simpl in Hs. unfold sign_lit in Hr. apply orb_true_iff in Hr as [H|H]; apply re_eqb_eq in H; subst c; discriminate Hs.
  - apply andb_true_iff in Hr as [Ha Hb]. simpl in Hs. apply orb_false_iff in Hs as [Sa Sb].
    destruct Hm as [Hm|Hm]; [apply IHa|apply IHb]; assumption.
  - apply andb_true_iff in Hr as [Ha Hb]. simpl in Hs. apply orb_false_iff in Hs as [Sa Sb].
    destruct Hm as [u [v [E [Hu Hv]]]]. subst s. rewrite digits_app, (IHa Ha Sa u Hu), (IHb Hb Sb v Hv). reflexivity.
Qed.

Lemma nosign_cat l : Forall telem l -> forall s, matches_cat l s -> forallb isdig s = true.
Proof.
  intro H. induction H as [|e l [Hr [Hs _]] Hl IH]; intros s Hm; simpl in Hm.
  - subst s. reflexivity.
  - destruct Hm as [u [v [E [Hu Hv]]]]. subst s. rewrite digits_app, (nosign_digits e Hr Hs u Hu), (IH v Hv). reflexivity.
Qed.

Lemma telem_helem e : telem e -> helem e.
Proof. intros [A [B C]]. split; [exact A|split; [apply inner_le_has; exact B|exact C]]. Qed.

(* ---- split_concat ---- *)
Lemma split_nosign r : recognizedb r = true -> has_sign r = false -> Forall telem (split_concat r).
Proof.
  induction r as [w|a b|c IH|c IH|c IH|a IHa b IHb|a IHa b IHb|a IHa b IHb|c IH| |]; intros Hr Hs;
    try (constructor; [split; [exact Hr|split; [exact Hs|reflexivity]]|constructor]).
  simpl in *. apply andb_true_iff in Hr as [Ha Hb]. apply orb_false_iff in Hs as [Sa Sb].
  apply Forall_app. split; [apply IHa|apply IHb]; assumption.
Qed.

Lemma split_struct r : recognizedb r = true -> inner_sign r = false ->
  exists h t, split_concat r = h :: t /\ helem h /\ Forall telem t.
Proof.
  induction r as [w|a b|c IH|c IH|c IH|a IHa b IHb|a IHa b IHb|a IHa b IHb|c IH| |]; intros Hr Hi;
    try (eexists; exists []; split; [reflexivity|split; [split; [exact Hr|split; [exact Hi|reflexivity]]|constructor]]).
  simpl in *. apply andb_true_iff in Hr as [Ha Hb].
  apply orb_false_iff in Hi as [Hi Hib]. apply orb_false_iff in Hi as [Hsb Hia].
  destruct (IHa Ha Hia) as [h [t [E [Hh Ht]]]]. exists h, (t ++ split_concat b). rewrite E.
  split; [reflexivity|]. split; [exact Hh|]. apply Forall_app. split; [exact Ht|apply split_nosign; assumption].
Qed.

(* ---- norm_range (Range(c,c) -> Re(c)) on recognised regexes ---- *)
Lemma recognized_child c : (re_eqb c zero_lit || re_eqb c (RRange [48%N] [48%N]) || re_eqb c r09) = true ->
  recognizedb c = true.
Proof. intro H. destruct (star_child c H) as [E|[E|E]]; subst c; reflexivity. Qed.

Lemma norm_child c : (re_eqb c zero_lit || re_eqb c (RRange [48%N] [48%N]) || re_eqb c r09) = true ->
  (re_eqb (norm_range c) zero_lit || re_eqb (norm_range c) (RRange [48%N] [48%N]) || re_eqb (norm_range c) r09) = true.
Proof. intro H. destruct (star_child c H) as [E|[E|E]]; subst c; reflexivity. Qed.

Lemma norm_recognized r : recognizedb r = true -> recognizedb (norm_range r) = true.
Proof.
  induction r as [w|a b|c IH|c IH|c IH|a IHa b IHb|a IHa b IHb|a IHa b IHb|c IH| |]; intro Hr;
    simpl in Hr; try discriminate Hr.
  - exact Hr.
  - destruct a as [|x [|? ?]]; try discriminate Hr. destruct b as [|y [|? ?]]; try discriminate Hr.
    cbn [norm_range]. destruct (str_eqb [x] [y]); [|exact Hr]. apply andb_true_iff in Hr as [Hx _].
    simpl. rewrite Hx. reflexivity.
  - cbn [norm_range recognizedb]. apply norm_child. exact Hr.
  - cbn [norm_range recognizedb]. apply norm_child. exact Hr.
  - unfold sign_lit in Hr. apply orb_true_iff in Hr as [H|H]; apply re_eqb_eq in H; subst c; reflexivity.
  - apply andb_true_iff in Hr as [Ha Hb]. cbn [norm_range recognizedb]. rewrite (IHa Ha), (IHb Hb). reflexivity.
  - apply andb_true_iff in Hr as [Ha Hb]. cbn [norm_range recognizedb]. rewrite (IHa Ha), (IHb Hb). reflexivity.
Qed.

Lemma norm_has_sign r : recognizedb r = true -> has_sign (norm_range r) = has_sign r.
Proof.
  induction r as [w|a b|c IH|c IH|c IH|a IHa b IHb|a IHa b IHb|a IHa b IHb|c IH| |]; intro Hr;
    simpl in Hr; try discriminate Hr.
  - reflexivity.
  - destruct a as [|x [|? ?]]; try discriminate Hr. destruct b as [|y [|? ?]]; try discriminate Hr.
    cbn [norm_range]. destruct (str_eqb [x] [y]); [|reflexivity]. apply andb_true_iff in Hr as [Hx _].
    apply isdig_range in Hx. simpl. unfold c_plus, c_minus.
    destruct (N.eqb_spec x 43) as [E|_]; [lia|]. destruct (N.eqb_spec x 45) as [E|_]; [lia|]. reflexivity.
  - destruct (star_child c Hr) as [E|[E|E]]; subst c; reflexivity.
  - destruct (star_child c Hr) as [E|[E|E]]; subst c; reflexivity.
  - unfold sign_lit in Hr. apply orb_true_iff in Hr as [H|H]; apply re_eqb_eq in H; subst c; reflexivity.
  - apply andb_true_iff in Hr as [Ha Hb]. cbn [norm_range has_sign]. rewrite (IHa Ha), (IHb Hb). reflexivity.
  - apply andb_true_iff in Hr as [Ha Hb]. cbn [norm_range has_sign]. rewrite (IHa Ha), (IHb Hb). reflexivity.
Qed.

Lemma norm_inner_sign r : recognizedb r = true -> inner_sign (norm_range r) = inner_sign r.
Proof.
  induction r as [w|a b|c IH|c IH|c IH|a IHa b IHb|a IHa b IHb|a IHa b IHb|c IH| |]; intro Hr;
    simpl in Hr; try discriminate Hr.
  - reflexivity.
  - cbn [norm_range]. destruct (str_eqb a b); reflexivity.
  - destruct (star_child c Hr) as [E|[E|E]]; subst c; reflexivity.
  - destruct (star_child c Hr) as [E|[E|E]]; subst c; reflexivity.
  - unfold sign_lit in Hr. apply orb_true_iff in Hr as [H|H]; apply re_eqb_eq in H; subst c; reflexivity.
  - apply andb_true_iff in Hr as [Ha Hb]. cbn [norm_range inner_sign]. rewrite (IHa Ha), (IHb Hb). reflexivity.
  - apply andb_true_iff in Hr as [Ha Hb]. cbn [norm_range inner_sign].
    rewrite (IHa Ha), (IHb Hb), (norm_has_sign b Hb). reflexivity.
Qed.

Lemma norm_is_concat r : is_concat (norm_range r) = is_concat r.
Proof. destruct r; try reflexivity. cbn [norm_range]. destruct (str_eqb a b); reflexivity. Qed.

Lemma star_iff (P Q : str -> Prop) : (forall s, P s <-> Q s) -> forall s, star P s <-> star Q s.
Proof. intros H s. split; apply star_mono; intros u Hu; apply H; exact Hu. Qed.

Lemma norm_lang r : recognizedb r = true -> forall s, matches (norm_range r) s <-> matches r s.
Proof.
  induction r as [w|a b|c IH|c IH|c IH|a IHa b IHb|a IHa b IHb|a IHa b IHb|c IH| |]; intros Hr s;
    simpl in Hr; try discriminate Hr.
  - tauto.
  - destruct a as [|x [|? ?]]; try discriminate Hr. destruct b as [|y [|? ?]]; try discriminate Hr.
    cbn [norm_range]. destruct (str_eqb [x] [y]) eqn:E; [|tauto]. apply str_eqb_eq in E. inversion E; subst y.
    simpl. split.
    + intros ->. exists x, x, x. repeat split; lia.
    + intros [lo [hi [z [E1 [E2 [E3 [L1 L2]]]]]]]. inversion E1; inversion E2; subst. f_equal. lia.
  - cbn [norm_range matches]. apply star_iff. apply IH. apply recognized_child. exact Hr.
  - cbn [norm_range matches]. pose proof (IH (recognized_child c Hr)) as Hc.
    split; intros [u [v [E [Hu Hv]]]]; exists u, v; (split; [exact E|split; [apply Hc; exact Hu|apply (star_iff _ _ Hc); exact Hv]]).
  - unfold sign_lit in Hr. apply orb_true_iff in Hr as [H|H]; apply re_eqb_eq in H; subst c; simpl; tauto.
  - apply andb_true_iff in Hr as [Ha Hb]. cbn [norm_range matches]. rewrite (IHa Ha), (IHb Hb). tauto.
  - apply andb_true_iff in Hr as [Ha Hb]. cbn [norm_range matches].
    split; intros [u [v [E [Hu Hv]]]]; exists u, v; (split; [exact E|split; [apply (IHa Ha); exact Hu|apply (IHb Hb); exact Hv]]).
Qed.

Lemma norm_telem e : telem e -> telem (norm_range e).
Proof.
  intros [A [B C]]. split; [apply norm_recognized; exact A|].
  split; [rewrite norm_has_sign; assumption|rewrite norm_is_concat; exact C].
Qed.
Lemma norm_helem e : helem e -> helem (norm_range e).
Proof.
  intros [A [B C]]. split; [apply norm_recognized; exact A|].
  split; [rewrite norm_inner_sign; assumption|rewrite norm_is_concat; exact C].
Qed.

Lemma norm_cat_lang l : Forall (fun e => recognizedb e = true) l ->
  forall s, matches_cat (map norm_range l) s <-> matches_cat l s.
Proof.
  intro H. induction H as [|e l He Hl IH]; intro s; simpl; [tauto|].
  split; intros [u [v [E [Hu Hv]]]]; exists u, v; (split; [exact E|split; [apply (norm_lang e He); exact Hu|apply IH; exact Hv]]).
Qed.

(* ---- mk_concat / cat_re keep the structure ---- *)
Lemma mk_concat_rec rest : forall x, recognizedb x = true -> inner_sign x = false -> Forall telem rest ->
  recognizedb (mk_concat x rest) = true /\ inner_sign (mk_concat x rest) = false.
Proof.
  unfold mk_concat. induction rest as [|y rest IH]; intros x Hx Hi Hr; [auto|].
  inversion Hr as [|y' r' [Ry [Sy _]] Hr']; subst. simpl fold_left. apply IH; [| |exact Hr'].
  - simpl. rewrite Hx, Ry. reflexivity.
  - simpl. rewrite Sy, Hi, (inner_le_has y Sy). reflexivity.
Qed.

Lemma cat_re_rec l : l <> [] -> Forall telem l ->
  recognizedb (cat_re l) = true /\ inner_sign (cat_re l) = false.
Proof.
  destruct l as [|x rest]; [congruence|]. intros _ H. inversion H as [|x' r' [Rx [Sx _]] Hr]; subst.
  apply mk_concat_rec; [exact Rx|apply inner_le_has; exact Sx|exact Hr].
Qed.

(* ================================================================== *)
(* where the elements of a compressed list come from                   *)
(* ================================================================== *)
Definition starplus (e : re) : bool := is_star e || is_plus e.
Definition derived (l : list re) (e' : re) : Prop :=
  In e' l \/ exists e, In e l /\ starplus e = true /\ (e' = key e \/ e' = RPlus (key e)).

Lemma last_In_or {A} (l : list A) d : In (last l d) l \/ (l = [] /\ last l d = d).
Proof. destruct l as [|x l]; [right; auto|left; apply last_In; discriminate]. Qed.

Lemma compress_group_elems k g r :
  Forall (fun e => key e = k) g -> compress_group g = Ok r -> forall e', In e' r -> derived g e'.
Proof.
  intros Hk Hc e' He'.
  destruct g as [|x [|y g']].
  - apply Ok_inj in Hc. subst r. left. exact He'.
  - apply Ok_inj in Hc. subst r. left. exact He'.
  - set (g := x :: y :: g') in *. unfold compress_group in Hc. unfold g in Hc. cbv beta match in Hc. fold g in Hc.
    assert (Hx : In x g) by (left; reflexivity).
    assert (Hin : forall e, In e g -> key e = k) by (apply Forall_forall; exact Hk).
    destruct (forallb is_star g) eqn:E1.
    { apply Ok_inj in Hc. subst r. destruct He' as [E|[]]. subst e'. left. exact Hx. }
    destruct (existsb is_plus g) eqn:E2.
    { destruct (assert_plus_group g); [|discriminate]. apply Ok_inj in Hc; subst r.
      set (cl := filter (fun e => negb (is_star e)) g) in *.
      set (cl' := filter (fun e => negb (is_plus e)) cl ++ filter is_plus cl) in *.
      assert (Hsub : forall e, In e cl' -> In e g).
      { intros e He. apply in_app_or in He. destruct He as [He|He]; apply filter_In in He as [He _];
          apply filter_In in He as [He _]; exact He. }
      apply in_app_or in He'. destruct He' as [He'|[He'|[]]].
      - apply in_map_iff in He' as [e0 [E0 He0]]. apply removelast_In in He0. apply Hsub in He0.
        destruct (is_plus e0) eqn:Ep.
        + right. exists e0. split; [exact He0|]. split; [unfold starplus; rewrite Ep; apply orb_true_r|].
          left. subst e'. destruct e0; try discriminate Ep. reflexivity.
        + left. subst e'. destruct e0; try discriminate Ep; exact He0.
      - subst e'. left. destruct (last_In_or cl' x) as [H|[_ H]]; [apply Hsub; exact H|rewrite H; exact Hx]. }
    destruct (existsb is_star g) eqn:E3.
    { destruct (assert_star_group g); [|discriminate]. apply Ok_inj in Hc; subst r.
      set (cl := filter (fun e => negb (is_star e)) g) in *.
      assert (Hcl : forall e, In e cl -> e = k).
      { intros e He. apply filter_In in He as [He Hs].
        destruct (key_cases e k (Hin e He)) as [[E _]|[E|E]]; [exact E|subst e; discriminate|].
        exfalso. assert (X : existsb is_plus g = true) by (apply existsb_exists; exists e; subst e; auto). congruence. }
      assert (Hne : cl <> []).
      { unfold cl. clear -E1. induction g as [|e g IH]; simpl in *; [discriminate|].
        destruct (is_star e); simpl in *; [apply IH; exact E1|discriminate]. }
      apply in_app_or in He'. destruct He' as [He'|[He'|[]]].
      - left. apply removelast_In in He'. apply filter_In in He' as [He' _]. exact He'.
      - right. apply existsb_exists in E3 as [e [He Hs]]. exists e. split; [exact He|].
        split; [unfold starplus; rewrite Hs; reflexivity|]. right. subst e'.
        rewrite (Hcl _ (last_In cl x Hne)), (Hin e He). reflexivity. }
    destruct (forallb (fun e => re_eqb e x) g); [|discriminate]. apply Ok_inj in Hc; subst r. left. exact He'.
Qed.

Lemma derived_mono a b e' : (forall e, In e a -> In e b) -> derived a e' -> derived b e'.
Proof.
  intros H [Hi|[e [He Hr]]]; [left; apply H; exact Hi|right; exists e; split; [apply H; exact He|exact Hr]].
Qed.

Lemma compress_groups_elems gs : Forall (fun g => g <> [] /\ same_key g) gs ->
  forall r, compress_groups gs = Ok r -> forall e', In e' r -> derived (concat gs) e'.
Proof.
  intro H. induction H as [|g gs [_ [k Hk]] Hgs IH]; intros r Hc e' He'.
  - apply Ok_inj in Hc. subst r. contradiction.
  - simpl in Hc. destruct (compress_group g) as [a|e] eqn:Ea; [|discriminate].
    destruct (compress_groups gs) as [b|e] eqn:Eb; [|discriminate]. simpl in Hc. apply Ok_inj in Hc. subst r.
    simpl concat. apply in_app_or in He'. destruct He' as [He'|He'].
    + eapply derived_mono; [|exact (compress_group_elems k g a Hk Ea e' He')]. intros e He. apply in_or_app. left. exact He.
    + eapply derived_mono; [|exact (IH b eq_refl e' He')]. intros e He. apply in_or_app. right. exact He.
Qed.

Lemma compress_elems l r : compress l = Ok r -> forall e', In e' r -> derived l e'.
Proof.
  unfold compress. intros H e' He'. rewrite <- (groupby_concat l).
  exact (compress_groups_elems (groupby l) (groupby_keys l) r H e' He').
Qed.

Lemma telem_derived l e' : Forall telem l -> derived l e' -> telem e'.
Proof.
  intros Hl [Hi|[e [He [Hsp Hr]]]]; rewrite Forall_forall in Hl; [apply Hl; exact Hi|].
  destruct (Hl e He) as [A [B C]]. unfold starplus in Hsp.
  assert (Hc : exists c, key e = c /\ (c = zero_lit \/ c = RRange [48%N] [48%N] \/ c = r09)).
  { destruct e; try discriminate Hsp; simpl in A; eexists; (split; [reflexivity|apply star_child; exact A]). }
  destruct Hc as [c [Ek Hc]].
  destruct Hc as [E|[E|E]]; rewrite E in Ek; rewrite Ek in Hr; destruct Hr as [E'|E']; subst e';
    (split; [reflexivity|split; reflexivity]).
Qed.

Lemma compress_telem l r : Forall telem l -> compress l = Ok r -> Forall telem r.
Proof.
  intros Hl Hc. apply Forall_forall. intros e' He'. eapply telem_derived; [exact Hl|]. eapply compress_elems; eauto.
Qed.

(* the first element keeps its place when it carries a sign *)
Lemma has_sign_key e : has_sign (key e) = has_sign e.
Proof. destruct e; reflexivity. Qed.

Lemma groupby_cons_ne x y l : re_eqb (key x) (key y) = false -> groupby (x :: y :: l) = [x] :: groupby (y :: l).
Proof.
  intro H. change (groupby (x :: y :: l)) with
    (match groupby (y :: l) with
     | (z :: g) :: gs => if re_eqb (key x) (key z) then (x :: z :: g) :: gs else [x] :: (z :: g) :: gs
     | gs => [x] :: gs end).
  simpl groupby. destruct (groupby l) as [|[|z g] gs]; try (rewrite H; reflexivity).
  destruct (re_eqb (key y) (key z)); rewrite H; reflexivity.
Qed.

Lemma compress_struct h t first rest :
  helem h -> Forall telem t -> compress (h :: t) = Ok (first :: rest) -> helem first /\ Forall telem rest.
Proof.
  intros Hh Ht Hc. destruct (has_sign h) eqn:Es.
  - (* h is alone in its group *)
    destruct t as [|y t'].
    + unfold compress in Hc. simpl in Hc. apply Ok_inj in Hc. inversion Hc; subst. split; [exact Hh|constructor].
    + assert (Hk : re_eqb (key h) (key y) = false).
      { destruct (re_eqb (key h) (key y)) eqn:E; [|reflexivity]. apply re_eqb_eq in E.
        inversion Ht as [|y' t'' [_ [Sy _]] _]; subst.
        rewrite <- (has_sign_key h), E, has_sign_key in Es. congruence. }
      unfold compress in Hc. rewrite (groupby_cons_ne h y t' Hk) in Hc.
      change (compress_groups ([h] :: groupby (y :: t'))) with
        (bind (Ok [h]) (fun a => bind (compress (y :: t')) (fun b => Ok (a ++ b)))) in Hc.
      simpl bind in Hc. destruct (compress (y :: t')) as [b|e] eqn:Eb; [|discriminate]. simpl in Hc.
      apply Ok_inj in Hc. inversion Hc; subst. split; [exact Hh|]. eapply compress_telem; eauto.
  - assert (Hall : Forall telem (h :: t)).
    { constructor; [|exact Ht]. destruct Hh as [A [_ C]]. repeat split; assumption. }
    pose proof (compress_telem _ _ Hall Hc) as Hr. inversion Hr as [|f r' Hf Hr']; subst.
    split; [apply telem_helem; exact Hf|exact Hr'].
Qed.
