(* C05: on the agreeing class the Python fast path computes the SMT-LIB value.
   Specification side: SmtSem.denote (SMT-LIB semantics, regexes via Regex.lang / rmatch_spec).
   Code side: PyFast.py_eval / is_valid / evaluate_atom.  Guards: SmtClasses.first_class. *)
From Coq Require Import List NArith ZArith Bool Lia.
From ISLA Require Import Str Outcome Regex RegexFacts SmtAst SmtSem PyRe PyFast SmtClasses.
Import ListNotations.
Open Scope Z_scope.

(* ---------- strings without newline, regex equivalence on them ---------- *)
Definition nonl (s : str) : Prop := str_has_nl s = false.
Definition req (r1 r2 : regex) : Prop := forall s, nonl s -> (lang r1 s <-> lang r2 s).

Lemma nonl_app s t : nonl (s ++ t) <-> nonl s /\ nonl t.
Proof. unfold nonl, str_has_nl. rewrite existsb_app, orb_false_iff. tauto. Qed.

Lemma nonl_nil : nonl [].
Proof. reflexivity. Qed.

Lemma req_refl r : req r r.
Proof. intros s _. tauto. Qed.

Lemma req_cat a a' b b' : req a a' -> req b b' -> req (RCat a b) (RCat a' b').
Proof.
  intros Ha Hb s Hs. simpl. split; intros [s1 [s2 [E [H1 H2]]]]; subst;
    apply nonl_app in Hs as [N1 N2]; exists s1, s2; (split; [reflexivity|]); split.
  - apply Ha; assumption. - apply Hb; assumption.
  - apply Ha; assumption. - apply Hb; assumption.
Qed.

Lemma req_alt a a' b b' : req a a' -> req b b' -> req (RAlt a b) (RAlt a' b').
Proof.
  intros Ha Hb s Hs. simpl. rewrite (Ha s Hs), (Hb s Hs). tauto.
Qed.

Lemma star_nonl (L1 L2 : str -> Prop) s :
  (forall t, nonl t -> L1 t -> L2 t) -> nonl s -> star_l L1 s -> star_l L2 s.
Proof.
  intros H Hs St. induction St as [|u t Hu Ht IH]; [constructor|].
  apply nonl_app in Hs as [N1 N2]. constructor; auto.
Qed.

Lemma req_star a a' : req a a' -> req (RStar a) (RStar a').
Proof.
  intros Ha s Hs. simpl. split; apply star_nonl; try assumption; intros t Nt Lt; apply (Ha t Nt); assumption.
Qed.

Lemma req_trans a b c : req a b -> req b c -> req a c.
Proof. intros H1 H2 s Hs. rewrite (H1 s Hs). apply H2. exact Hs. Qed.

Lemma req_cat_eps a : req (RCat a REps) a.
Proof.
  intros s _. simpl. split.
  - intros [s1 [s2 [E [H1 H2]]]]. subst. rewrite app_nil_r. exact H1.
  - intro H. exists s, []. rewrite app_nil_r. auto.
Qed.

Lemma req_pow a a' n : req a a' -> req (rpow a n) (rpow a' n).
Proof.
  intro Ha. induction n as [|n IH]; simpl; [apply req_refl|]. apply req_cat; assumption.
Qed.

Lemma req_loop a a' lo hi : req a a' -> req (rloop a lo hi) (rloop a' lo hi).
Proof.
  intro Ha. unfold rloop. destruct (Nat.ltb hi lo); [apply req_refl|].
  apply req_cat; apply req_pow; [assumption|]. unfold ropt. apply req_alt; [apply req_refl|assumption].
Qed.

Lemma seqp_app_req x y : req (seqp (x ++ y)) (RCat (seqp x) (seqp y)).
Proof.
  intros s _. revert s. induction x as [|p x IH]; intro s; simpl.
  - split.
    + intro H. exists [], s. auto.
    + intros [s1 [s2 [E [E1 H]]]]. subst. exact H.
  - split.
    + intros [s1 [s2 [E [H1 H2]]]]. apply IH in H2. simpl in H2.
      destruct H2 as [t1 [t2 [E2 [H3 H4]]]]. subst.
      exists (s1 ++ t1), t2. rewrite app_assoc. split; [reflexivity|]. split; [|assumption].
      exists s1, t1. auto.
    + intros [s1 [s2 [E [[t1 [t2 [E2 [H3 H4]]]] H2]]]]. subst.
      exists t1, (t2 ++ s2). rewrite app_assoc. split; [reflexivity|]. split; [assumption|].
      apply IH. simpl. exists t2, s2. auto.
Qed.

Lemma seqp_lit s : seqp (map (fun c => mkPiece (RChar c) false) s) = rstr s.
Proof. induction s as [|c s IH]; simpl; [reflexivity|]. rewrite IH. reflexivity. Qed.

Lemma ends_nl_nonl s : nonl s -> ends_nl s = false.
Proof.
  unfold nonl, str_has_nl. induction s as [|c s IH]; [reflexivity|]. simpl.
  intro H. apply orb_false_iff in H as [H1 H2]. destruct s as [|d s'].
  - rewrite N.eqb_sym. exact H1.
  - apply IH. exact H2.
Qed.

(* ---------- arithmetic / string facts ---------- *)
Lemma digit_not_sign c : is_digit_c c = true -> (c =? 45)%N = false /\ (c =? 43)%N = false.
Proof.
  unfold is_digit_c. intro H. apply andb_true_iff in H as [A B]. apply N.leb_le in A.
  split; apply N.eqb_neq; lia.
Qed.

Lemma py_int_digits s : all_digits s = true -> py_int s = Some (digits_val s).
Proof.
  destruct s as [|c s']; [discriminate|]. intro H. unfold py_int. rewrite H.
  assert (D : is_digit_c c = true).
  { unfold all_digits in H. simpl in H. apply andb_true_iff in H as [H _]. exact H. }
  apply digit_not_sign in D as [D1 D2]. rewrite D1, D2. reflexivity.
Qed.

Lemma slen_nonneg s : 0 <= slen s.
Proof. unfold slen. lia. Qed.

Lemma py_index_ok s i : 0 <= i < slen s -> py_index s i = Val (PS (str_at s i)).
Proof.
  intros [H1 H2]. unfold py_index, str_at.
  assert (A : (- slen s <=? i) = true) by (apply Z.leb_le; lia).
  assert (B : (i <? slen s) = true) by (apply Z.ltb_lt; lia).
  assert (C : (0 <=? i) = true) by (apply Z.leb_le; lia).
  assert (D : (i <? 0) = false) by (apply Z.ltb_ge; lia).
  rewrite A, B, C, D. reflexivity.
Qed.

Lemma py_slice_ok s i n : 0 <= i -> 0 <= n -> py_slice s i (i + n) = str_substr s i n.
Proof.
  intros Hi Hn. unfold py_slice, str_substr, clampi.
  assert (A : (i <? 0) = false) by (apply Z.ltb_ge; lia).
  assert (B : (i + n <? 0) = false) by (apply Z.ltb_ge; lia).
  assert (C : (0 <=? i) = true) by (apply Z.leb_le; lia).
  rewrite A, B, C. simpl.
  pose proof (slen_nonneg s) as Hl.
  destruct (i <? slen s) eqn:E1.
  - apply Z.ltb_lt in E1. rewrite (Z.min_l i) by lia. simpl.
    destruct (0 <? n) eqn:E2.
    + apply Z.ltb_lt in E2.
      assert (F : (i <? Z.min (i + n) (slen s)) = true) by (apply Z.ltb_lt; lia).
      rewrite F.
      destruct (Z.le_gt_cases (i + n) (slen s)) as [G|G].
      * rewrite Z.min_l by lia. f_equal. lia.
      * rewrite Z.min_r by lia.
        assert (Len : length (skipn (Z.to_nat i) s) = Z.to_nat (slen s - i)).
        { rewrite skipn_length. unfold slen. lia. }
        rewrite !firstn_all2; [reflexivity| |]; rewrite Len; lia.
    + apply Z.ltb_ge in E2. assert (n = 0) by lia. subst n.
      assert (F : (i <? Z.min (i + 0) (slen s)) = false) by (apply Z.ltb_ge; lia).
      rewrite F. reflexivity.
  - apply Z.ltb_ge in E1. rewrite (Z.min_r i) by lia. simpl.
    assert (F : (slen s <? Z.min (i + n) (slen s)) = false) by (apply Z.ltb_ge; lia).
    rewrite F. reflexivity.
Qed.

Lemma emod_pos a b : 0 < b -> Z.modulo a b = emod a b.
Proof. intro H. unfold emod. rewrite Z.abs_eq by lia. reflexivity. Qed.

(* ---------- relation between SMT-LIB values and Python values ---------- *)
Definition vrel (v : value) (p : pval) : Prop :=
  match v, p with
  | VB a, PB b => a = b
  | VI a, PI b => a = b
  | VS a, PS b => a = b
  | VR r, PP (Some ps) => req (seqp ps) r
  | _, _ => False
  end.

Definition one_atom (p : pval) : Prop := exists r', p = PP (Some [mkPiece r' false]).

Lemma orN_0 a b : orN a b = 0%N -> a = 0%N /\ b = 0%N.
Proof. unfold orN. destruct (a =? 0)%N eqn:E; intro H; [apply N.eqb_eq in E; auto|subst; discriminate]. Qed.

Lemma obind_some {A B} (x : option A) (f : A -> option B) y :
  SmtSem.obind x f = Some y -> exists a, x = Some a /\ f a = Some y.
Proof. destruct x; simpl; intro H; [eauto|discriminate]. Qed.

Ltac inv_vrel :=
  repeat match goal with
  | H : vrel ?v ?p |- _ =>
      destruct p as [?b|?z|?s|[?ps|]]; simpl in H; try contradiction; try subst
  end.

Section Agree.
  Variable fx : bool.
  Variable z3_valid : expr -> tv.

  Definition concl (e : expr) (v : value) (o : out pval) : Prop :=
    exists p, o = Val p /\ vrel v p /\ (atomic_re e = true -> one_atom p).

  Lemma e1_case o a va v pa :
    node_class (E1 o a) = 0%N -> denote a = Some va -> d1 o va = Some v -> vrel va pa ->
    concl (E1 o a) v (static_or fx (E1 o a) (p1 o pa)).
  Proof.
    intros Hc Ha Hd Hr. unfold concl.
    destruct o; try (exfalso; revert Hc; unfold node_class; simpl; destruct (comp_guard a); discriminate);
      destruct va as [vb|vz|vs|vr]; simpl in Hd; try discriminate; inv_vrel;
      injection Hd as Hd; subst v; unfold static_or; simpl.
    - (* not *) eexists; split; [reflexivity|]. split; [reflexivity|discriminate].
    - (* len *) eexists; split; [reflexivity|]. split; [reflexivity|discriminate].
    - (* to_int *)
      revert Hc. unfold node_class, dS. simpl. rewrite Ha.
      destruct (all_digits s) eqn:E.
      + intros _. unfold str_to_int. rewrite E. rewrite (py_int_digits _ E).
        destruct s; [discriminate|]. eexists; split; [reflexivity|]. split; [reflexivity|discriminate].
      + destruct (py_int s); discriminate.
    - (* to_code *)
      revert Hc. unfold node_class, dS. simpl. rewrite Ha.
      destruct s as [|c [|d s']]; try discriminate. intros _.
      eexists; split; [reflexivity|]. split; [reflexivity|discriminate].
    - (* to_re *)
      revert Hc. unfold node_class, dS. simpl. rewrite Ha.
      destruct (str_eqb (tore_unescape s) s) eqn:E; [|discriminate]. intros _.
      apply str_eqb_eq in E. rewrite E.
      eexists; split; [reflexivity|]. split.
      + simpl. rewrite seqp_lit. apply req_refl.
      + intro At. destruct a; try discriminate; destruct s0 as [|c [|d s']]; try discriminate;
          simpl in Ha; injection Ha as Ha; subst s; eexists; reflexivity.
    - (* star *) eexists; split; [reflexivity|]. split; [|discriminate]. simpl.
      eapply req_trans; [apply req_cat_eps|]. apply req_star. exact Hr.
    - (* plus *) eexists; split; [reflexivity|]. split; [|discriminate]. simpl.
      eapply req_trans; [apply req_cat_eps|]. unfold rplus. apply req_cat; [|apply req_star]; exact Hr.
    - (* opt *) eexists; split; [reflexivity|]. split; [|discriminate]. simpl.
      eapply req_trans; [apply req_cat_eps|]. unfold ropt. apply req_alt; [apply req_refl|exact Hr].
  Qed.

  Ltac done_simple := eexists; split; [reflexivity|]; split; [reflexivity|discriminate].

  Lemma range_case a b s1 s2 v :
    node_class (E2 ORange a b) = 0%N -> denote a = Some (VS s1) -> denote b = Some (VS s2) ->
    d2 ORange (VS s1) (VS s2) = Some v ->
    concl (E2 ORange a b) v (py_range s1 s2).
  Proof.
    intros Hc Ha Hb Hd. revert Hc. unfold node_class, dS. simpl. rewrite Ha, Hb.
    destruct s1 as [|x [|x' s1']]; try discriminate; destruct s2 as [|y [|y' s2']]; try discriminate.
    destruct (plain_c x && plain_c y && (x <=? y)%N) eqn:E; [|discriminate]. intros _.
    apply andb_true_iff in E as [E1 E3]. simpl in Hd. injection Hd as Hd. subst v.
    unfold py_range. rewrite E1, E3. eexists; split; [reflexivity|]. split.
    - simpl. apply req_cat_eps.
    - intros _. eexists; reflexivity.
  Qed.

  Lemma e2_case o a b va vb v pa pb :
    node_class (E2 o a b) = 0%N -> denote a = Some va -> denote b = Some vb -> d2 o va vb = Some v ->
    vrel va pa -> vrel vb pb ->
    concl (E2 o a b) v (static_or fx (E2 o a b) (p2 o pa pb)).
  Proof.
    intros Hc Ha Hb Hd Hra Hrb.
    assert (HR : o = ORange -> concl (E2 o a b) v (static_or fx (E2 o a b) (p2 o pa pb))).
    { intro; subst o. destruct va as [vb1|vz1|vs1|vr1]; destruct vb as [vb2|vz2|vs2|vr2];
        try (simpl in Hd; discriminate);
        try (destruct vs1 as [|? [|? ?]]; simpl in Hd; discriminate).
      inv_vrel. unfold static_or; simpl. eapply range_case; eassumption. }
    unfold concl.
    destruct o; try (exfalso; revert Hc; unfold node_class; simpl; discriminate);
      try (apply HR; reflexivity); clear HR;
      destruct va as [vb1|vz1|vs1|vr1]; destruct vb as [vb2|vz2|vs2|vr2]; simpl in Hd; try discriminate;
      inv_vrel; unfold static_or; simpl;
      try (injection Hd as Hd; subst v; done_simple).
    - (* mod *)
      revert Hc. unfold node_class, dI. simpl. rewrite Hb.
      destruct (z =? 0) eqn:E0; [discriminate|]. destruct (z <? 0) eqn:E1; [discriminate|]. intros _.
      apply Z.eqb_neq in E0. apply Z.ltb_ge in E1.
      injection Hd as Hd; subst v. rewrite emod_pos by lia. done_simple.
    - (* at *)
      revert Hc. unfold node_class, dS, dI. simpl. rewrite Ha, Hb.
      destruct ((0 <=? z) && (z <? slen s)) eqn:E; [|discriminate]. intros _.
      apply andb_true_iff in E as [E1 E2]. apply Z.leb_le in E1. apply Z.ltb_lt in E2.
      rewrite py_index_ok by lia. injection Hd as Hd; subst v. done_simple.
    - (* in_re *)
      revert Hc. unfold node_class, dS. simpl. rewrite Ha.
      destruct (str_has_nl s) eqn:E; [discriminate|]. intros _.
      injection Hd as Hd; subst v. eexists; split; [reflexivity|]. split; [|discriminate]. simpl.
      unfold py_fullmatch. rewrite (ends_nl_nonl s E). simpl. rewrite orb_false_r.
      apply rmatch_ext. symmetry. apply Hrb. exact E.
    - (* re.++ *)
      injection Hd as Hd; subst v. eexists; split; [reflexivity|]. split; [|discriminate]. simpl.
      eapply req_trans; [apply seqp_app_req|]. apply req_cat; assumption.
    - (* re.union *)
      injection Hd as Hd; subst v. eexists; split; [reflexivity|]. split; [|intros _; eexists; reflexivity]. simpl.
      eapply req_trans; [apply req_cat_eps|]. apply req_alt; assumption.
  Qed.

  Lemma e3_case o a b c va vb vc v pa pb pc :
    node_class (E3 o a b c) = 0%N -> denote a = Some va -> denote b = Some vb -> denote c = Some vc ->
    d3 o va vb vc = Some v -> vrel va pa -> vrel vb pb -> vrel vc pc ->
    concl (E3 o a b c) v (static_or fx (E3 o a b c) (p3 o pa pb pc)).
  Proof.
    intros Hc Ha Hb Hcc Hd Hra Hrb Hrc. unfold concl.
    destruct o; try (exfalso; revert Hc; unfold node_class; simpl; discriminate).
    destruct va as [vb1|vz1|vs1|vr1]; destruct vb as [vb2|vz2|vs2|vr2]; destruct vc as [vb3|vz3|vs3|vr3];
      simpl in Hd; try discriminate. inv_vrel. unfold static_or; simpl.
    revert Hc. unfold node_class, dI. simpl. rewrite Hb, Hcc.
    destruct ((0 <=? z0) && (0 <=? z)) eqn:E; [|discriminate]. intros _.
    apply andb_true_iff in E as [E1 E2]. apply Z.leb_le in E1. apply Z.leb_le in E2.
    rewrite py_slice_ok by lia. injection Hd as Hd; subst v. done_simple.
  Qed.

  Lemma loop_case lo hi a va v pa :
    node_class (ELoop lo hi a) = 0%N -> denote (ELoop lo hi a) = Some v -> denote a = Some va ->
    vrel va pa -> (atomic_re a = true -> one_atom pa) ->
    concl (ELoop lo hi a) v
      (match pa, hi with
       | PP _, None => Exn IndexErr
       | PP p, Some h => Val (PP (pat_loop lo h p))
       | _, _ => Unmodelled
       end).
  Proof.
    intros Hc Hd Ha Hr Hat. unfold concl. revert Hc. unfold node_class. simpl.
    destruct hi as [h|]; [|discriminate].
    destruct (atomic_re a) eqn:At; [|discriminate]. simpl.
    destruct (Nat.leb lo h) eqn:El; [|discriminate]. intros _.
    destruct (Hat eq_refl) as [r' Er]. subst pa.
    simpl in Hd. rewrite Ha in Hd. simpl in Hd.
    destruct va as [vb1|vz1|vs1|vr1]; try discriminate. injection Hd as Hd; subst v.
    simpl in Hr.
    assert (Lt : Nat.ltb h lo = false) by (apply Nat.ltb_ge; apply Nat.leb_le; exact El).
    unfold pat_loop. simpl. rewrite Lt. simpl.
    eexists; split; [reflexivity|]. split; [|discriminate]. simpl.
    eapply req_trans; [apply req_cat_eps|]. apply req_loop.
    eapply req_trans; [|exact Hr]. intros s Hs. symmetry. apply (req_cat_eps r' s Hs).
  Qed.

  Lemma notnl_any : req (RSet true [(c_nl, c_nl)]) RAny.
  Proof.
    intros s Hs. simpl. split; intros [c [E M]]; exists c; (split; [exact E|]).
    - reflexivity.
    - subst s. unfold nonl, str_has_nl in Hs. simpl in Hs. rewrite orb_false_r in Hs.
      unfold set_mem, in_ranges. simpl. rewrite orb_false_r.
      destruct ((c_nl <=? c)%N && (c <=? c_nl)%N) eqn:E2; [|reflexivity].
      apply andb_true_iff in E2. destruct E2 as [A B]. apply N.leb_le in A. apply N.leb_le in B.
      assert (c = c_nl) by lia. subst c. vm_compute in Hs. discriminate.
  Qed.

  Lemma py_eval_agrees e : forall v, first_class e = 0%N -> denote e = Some v -> concl e v (py_eval fx e).
  Proof.
    induction e as [s|s|z|b| | | |o a IHa|o a IHa b IHb|o a IHa b IHb c IHc|lo hi a IHa|n a IHa];
      intros v Hc Hd.
    - simpl in Hd. injection Hd as Hd; subst v. unfold first_class, node_class in Hc. simpl in Hc.
      destruct (str_eqb (z3enc s) s) eqn:E; [|discriminate]. apply str_eqb_eq in E.
      simpl. rewrite E. done_simple.
    - simpl in Hd. injection Hd as Hd; subst v. simpl. done_simple.
    - simpl in Hd. injection Hd as Hd; subst v. simpl. done_simple.
    - simpl in Hd. injection Hd as Hd; subst v. simpl. done_simple.
    - simpl in Hd. injection Hd as Hd; subst v. simpl.
      eexists; split; [reflexivity|]. split; [|discriminate]. simpl.
      eapply req_trans; [apply req_cat_eps|]. apply req_star. apply notnl_any.
    - exfalso. revert Hc. unfold first_class, node_class. simpl. discriminate.
    - exfalso. revert Hc. unfold first_class, node_class. simpl. discriminate.
    - cbn [first_class] in Hc. apply orN_0 in Hc as [C1 C2].
      cbn [denote] in Hd. apply obind_some in Hd as [va [Ha Hd]].
      destruct (IHa va C1 Ha) as [pa [Ea [Ra _]]].
      cbn [py_eval]. rewrite Ea. cbn [PyFast.obind]. eapply e1_case; eassumption.
    - cbn [first_class] in Hc. apply orN_0 in Hc as [C1 C2]. apply orN_0 in C2 as [C2 C3].
      cbn [denote] in Hd. apply obind_some in Hd as [va [Ha Hd]]. apply obind_some in Hd as [vb [Hb Hd]].
      destruct (IHa va C1 Ha) as [pa [Ea [Ra _]]]. destruct (IHb vb C2 Hb) as [pb [Eb [Rb _]]].
      cbn [py_eval]. rewrite Ea. cbn [PyFast.obind]. rewrite Eb. cbn [PyFast.obind].
      eapply e2_case; eassumption.
    - cbn [first_class] in Hc. apply orN_0 in Hc as [C1 C2]. apply orN_0 in C2 as [C2 C3].
      apply orN_0 in C3 as [C3 C4].
      cbn [denote] in Hd. apply obind_some in Hd as [va [Ha Hd]]. apply obind_some in Hd as [vb [Hb Hd]].
      apply obind_some in Hd as [vc [Hcc Hd]].
      destruct (IHa va C1 Ha) as [pa [Ea [Ra _]]]. destruct (IHb vb C2 Hb) as [pb [Eb [Rb _]]].
      destruct (IHc vc C3 Hcc) as [pc [Ec [Rc _]]].
      cbn [py_eval]. rewrite Ea. cbn [PyFast.obind]. rewrite Eb. cbn [PyFast.obind]. rewrite Ec. cbn [PyFast.obind].
      eapply e3_case; eassumption.
    - cbn [first_class] in Hc. apply orN_0 in Hc as [C1 C2].
      pose proof Hd as Hd0. cbn [denote] in Hd. apply obind_some in Hd as [va [Ha Hd]].
      destruct (IHa va C1 Ha) as [pa [Ea [Ra Ata]]].
      cbn [py_eval]. rewrite Ea. cbn [PyFast.obind]. eapply loop_case; eassumption.
    - exfalso. cbn [first_class] in Hc. apply orN_0 in Hc as [_ C2]. revert C2.
      unfold node_class. simpl. discriminate.
  Qed.

  Lemma is_valid_of_eval e b : py_eval fx e = Val (PB b) -> is_valid fx z3_valid e = Val (of_bool b).
  Proof.
    intro H. unfold is_valid. destruct e; try (rewrite H; reflexivity).
    simpl in H. injection H as H; subst. reflexivity.
  Qed.

  (* MAIN: on the agreeing class is_valid returns the truth value SMT-LIB assigns to the atom
     (whatever fx and the Z3 fall-back are: the fall-back is not reached) *)
  Theorem fast_agrees : forall e b,
    agree_class e = true -> smt_denote e = Some b -> is_valid fx z3_valid e = Val (of_bool b).
  Proof.
    intros e b Ha Hd. unfold agree_class in Ha. apply N.eqb_eq in Ha.
    unfold smt_denote in Hd. destruct (denote e) as [[vb|vz|vs|vr]|] eqn:De; try discriminate.
    injection Hd as Hd; subst vb.
    destruct (py_eval_agrees e _ Ha De) as [p [Ep [Rp _]]].
    destruct p as [pb|pz|ps|pp]; simpl in Rp; try contradiction. subst pb.
    apply is_valid_of_eval. exact Ep.
  Qed.

  (* every subterm value is computed correctly, not only the final verdict *)
  Theorem fast_value_agrees : forall e v,
    agree_class e = true -> denote e = Some v ->
    exists p, py_eval fx e = Val p /\ vrel v p.
  Proof.
    intros e v Ha Hd. unfold agree_class in Ha. apply N.eqb_eq in Ha.
    destruct (py_eval_agrees e v Ha Hd) as [p [Ep [Rp _]]]. eauto.
  Qed.
End Agree.

(* when the fall-through is repaired (fx = true), operators without fast path go to Z3; if Z3 answers
   by the standard, the verdict is right on the larger class that only excludes the other K_* *)
Definition z3_sound (z3v : expr -> tv) : Prop :=
  forall e b, smt_denote e = Some b -> z3v e = of_bool b.

(* ---------- non-vacuity and refutations ---------- *)
Local Open Scope N_scope.
Definition lit (l : list N) : expr := EStr l.
Definition w_ok : expr :=
  E2 OInRe (lit [97;98;55;97;98]) (E1 OStar (E2 ORUnion (E1 OToRe (lit [97;98])) (E2 ORange (lit [48]) (lit [57])))).
Example fast_agrees_nonvacuous : agree_class w_ok = true /\ smt_denote w_ok = Some true.
Proof. split; reflexivity. Qed.
Definition w_ok2 : expr :=
  E2 OEq (E3 OSubstr (E2 OConcat (lit [97;10]) (EVar [233;98])) (EInt 1) (E2 OMod (EInt 7) (EInt 4))) (lit [10;233;98]).
Example fast_agrees_nonvacuous2 : agree_class w_ok2 = true /\ smt_denote w_ok2 = Some true.
Proof. split; reflexivity. Qed.

(* the pinned code (fx = false) gives another verdict than SMT-LIB, or raises *)
Definition diverges (k : N) (e : expr) : Prop :=
  first_class e = k /\ exists b, smt_denote e = Some b /\ is_valid false (fun _ => UU) e <> Val (of_bool b).
Ltac refute b := split; [reflexivity|]; exists b; split; [reflexivity|]; vm_compute; discriminate.

Definition w_noimpl := E2 OPrefixOf (lit [97]) (lit [97;98]).
Example K_noimpl_refuted : diverges K_noimpl w_noimpl. Proof. refute true. Qed.
Definition w_comp := E2 OInRe (lit [65]) (E1 OComp (E2 ORange (lit [97]) (lit [122]))).
Example K_comp_refuted : diverges K_comp w_comp. Proof. refute true. Qed.
Definition w_lit_enc := E2 OEq (E1 OLen (lit [8364])) (EInt 1).
Example K_lit_enc_refuted : diverges K_lit_enc w_lit_enc. Proof. refute true. Qed.
Definition w_mod_neg := E2 OEq (E2 OMod (EInt 7) (E2 OSub (EInt 0) (EInt 2))) (EInt 1).
Example K_mod_neg_refuted : diverges K_mod_neg w_mod_neg. Proof. refute true. Qed.
Definition w_at_range := E2 OEq (E2 OAt (lit [97;98;99]) (EInt 5)) (lit []).
Example K_at_range_refuted : diverges K_at_range w_at_range. Proof. refute true. Qed.
Definition w_substr_neg := E2 OEq (E3 OSubstr (lit [97;98;99]) (E2 OSub (EInt 0) (EInt 2)) (EInt 1)) (lit []).
Example K_substr_neg_refuted : diverges K_substr_neg w_substr_neg. Proof. refute true. Qed.
Definition w_to_code := E2 OEq (E1 OToCode (lit [97;98])) (E2 OSub (EInt 0) (EInt 1)).
Example K_to_code_len_refuted : diverges K_to_code_len w_to_code. Proof. refute true. Qed.
Definition w_to_int := E2 OEq (E1 OToInt (lit [45;49;50])) (E2 OSub (EInt 0) (EInt 1)).
Example K_to_int_signed_refuted : diverges K_to_int_signed w_to_int. Proof. refute true. Qed.
Definition w_loop := E2 OInRe (lit [97;98;97;98]) (ELoop 2 (Some 2%nat) (E1 OToRe (lit [97;98]))).
Example K_loop_shape_refuted : diverges K_loop_shape w_loop. Proof. refute true. Qed.
Definition w_range := E2 OInRe (lit [98]) (E2 ORange (lit [122]) (lit [97])).
Example K_range_shape_refuted : diverges K_range_shape w_range. Proof. refute false. Qed.
Definition w_newline := E2 OInRe (lit [97;10]) (E1 OToRe (lit [97])).
Example K_newline_subject_refuted : diverges K_newline_subject w_newline. Proof. refute false. Qed.
Definition w_allnl := E2 OInRe (lit [97;10;98]) ERAll.
Example K_newline_all_refuted : diverges K_newline_subject w_allnl. Proof. refute true. Qed.
Definition w_tore := E2 OInRe (lit [92;116]) (E1 OToRe (lit [92;116])).
Example K_tore_backslash_refuted : diverges K_tore_backslash w_tore. Proof. refute true. Qed.
(* division by zero: the standard fixes no value; the code raises instead of answering *)
Definition w_zero := E2 OEq (E2 OMod (EInt 7) (EInt 0)) (EInt 1).
Example K_zero_div_refuted :
  first_class w_zero = K_zero_div /\ smt_denote w_zero = None /\
  is_valid false (fun _ => UU) w_zero = Exn ZeroDivErr.
Proof. repeat split; reflexivity. Qed.
