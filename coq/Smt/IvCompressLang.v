(* C15 — compress_concatenation_elements keeps the language of the concatenation:
     compress l = Ok r -> forall s, matches_cat r s <-> matches_cat l s.
   Language algebra over one base k (P = matches k):  k k* = k+,  k* k* = k*,  k+ k* = k+,  and
   commutation of k with k* inside a groupby group. *)
From Coq Require Import List NArith ZArith Bool Lia.
From ISLA Require Import Str Outcome IvRe Intervals IvCompressFacts IvReFacts.
Import ListNotations.

(* ---- concatenation of a list ---- *)
Lemma matches_cat_app a : forall b s,
  matches_cat (a ++ b) s <-> exists u v, s = u ++ v /\ matches_cat a u /\ matches_cat b v.
Proof.
  induction a as [|x a IH]; intros b s; simpl.
  - split.
    + intro H. exists [], s. auto.
    + intros [u [v [E [Hu Hv]]]]. subst u s. exact Hv.
  - split.
    + intros [u [v [E [Hu Hv]]]]. apply IH in Hv. destruct Hv as [v1 [v2 [Ev [H1 H2]]]].
      exists (u ++ v1), v2. split; [subst s v; apply app_assoc|]. split; [|exact H2].
      exists u, v1. auto.
    + intros [u [v [E [[u1 [u2 [Eu [H1 H2]]]] Hv]]]]. exists u1, (u2 ++ v).
      split; [subst s u; symmetry; apply app_assoc|]. split; [exact H1|]. apply IH. exists u2, v. auto.
Qed.

Lemma matches_cat_single r s : matches_cat [r] s <-> matches r s.
Proof.
  simpl. split.
  - intros [u [v [E [Hu Hv]]]]. subst v s. rewrite app_nil_r. exact Hu.
  - intro H. exists s, []. rewrite app_nil_r. auto.
Qed.

Lemma matches_cat_ext a b : (forall s, matches_cat a s <-> matches_cat b s) ->
  forall c s, matches_cat (a ++ c) s <-> matches_cat (b ++ c) s.
Proof.
  intros H c s. rewrite !matches_cat_app. split; intros [u [v [E [Hu Hv]]]]; exists u, v;
    (split; [exact E|split; [apply H; exact Hu|exact Hv]]).
Qed.

(* ---- powers of a language ---- *)
Section Pow.
  Variable P : str -> Prop.

  Fixpoint pow (m : nat) (s : str) : Prop :=
    match m with O => s = [] | S m' => exists u v, s = u ++ v /\ P u /\ pow m' v end.
  (* at least m factors *)
  Fixpoint atleast (m : nat) (s : str) : Prop :=
    match m with O => star P s | S m' => exists u v, s = u ++ v /\ P u /\ atleast m' v end.

  Lemma pow_atleast m : forall s, pow m s -> atleast m s.
  Proof.
    induction m as [|m IH]; intros s H; simpl in *.
    - subst s. constructor.
    - destruct H as [u [v [E [Hu Hv]]]]. exists u, v. auto.
  Qed.

  Lemma atleast_cons m : forall u v, P u -> atleast m v -> atleast m (u ++ v).
  Proof.
    induction m as [|m IH]; intros u v Hu Hv; simpl in *.
    - constructor; assumption.
    - destruct Hv as [v1 [v2 [E [H1 H2]]]]. exists u, (v1 ++ v2). subst v.
      split; [reflexivity|]. split; [exact Hu|]. apply IH; assumption.
  Qed.

  Lemma star_atleast m u v : star P u -> atleast m v -> atleast m (u ++ v).
  Proof.
    intros Hu Hv. induction Hu as [|a b Ha Hb IH]; [exact Hv|].
    rewrite <- app_assoc. apply atleast_cons; assumption.
  Qed.

  (* P . P* is contained in P* . P *)
  Lemma star_commute v : star P v -> forall u, P u ->
    exists w1 w2, u ++ v = w1 ++ w2 /\ star P w1 /\ P w2.
  Proof.
    intro Hv. induction Hv as [|a b Ha Hb IH]; intros u Hu.
    - exists [], u. rewrite app_nil_r. split; [reflexivity|]. split; [constructor|exact Hu].
    - destruct (IH a Ha) as [w1 [w2 [E [H1 H2]]]]. exists (u ++ w1), w2.
      split; [rewrite <- app_assoc, <- E; reflexivity|]. split; [constructor; assumption|exact H2].
  Qed.

  (* P^m P*  =  P* P^m *)
  Lemma atleast_star_pow m : forall s, atleast m s -> exists u v, s = u ++ v /\ star P u /\ pow m v.
  Proof.
    induction m as [|m IH]; intros s H; simpl in *.
    - exists s, []. rewrite app_nil_r. auto.
    - destruct H as [u [v [E [Hu Hv]]]]. destruct (IH v Hv) as [v1 [v2 [Ev [H1 H2]]]].
      destruct (star_commute v1 H1 u Hu) as [w1 [w2 [Ew [Hw1 Hw2]]]].
      exists w1, (w2 ++ v2). split; [subst s v; rewrite app_assoc, Ew, <- app_assoc; reflexivity|].
      split; [exact Hw1|]. exists w2, v2. auto.
  Qed.

  (* language of a group: exactly m factors, or at least m factors *)
  Definition GL (m : nat) (unb : bool) (s : str) : Prop := if unb then atleast m s else pow m s.

  Lemma GL_atleast m b s : GL m b s -> atleast m s.
  Proof. destruct b; simpl; [auto|apply pow_atleast]. Qed.

  (* P* . GL m b  =  at least m *)
  Lemma star_GL m b s : (exists u v, s = u ++ v /\ star P u /\ GL m b v) <-> atleast m s.
  Proof.
    split.
    - intros [u [v [E [Hu Hv]]]]. subst s. apply star_atleast; [exact Hu|]. eapply GL_atleast; exact Hv.
    - intro H. destruct b; simpl.
      + exists [], s. split; [reflexivity|]. split; [constructor|exact H].
      + apply atleast_star_pow. exact H.
  Qed.
End Pow.

(* ---- language of a list over one base ---- *)
Definition cnt (g : list re) : nat := length (filter (fun e => negb (is_star e)) g).
Definition unb (g : list re) : bool := existsb (fun e => is_star e || is_plus e) g.

Lemma plus_lang k s : matches (RPlus k) s <-> atleast (matches k) 1 s.
Proof. simpl. tauto. Qed.

Lemma group_lang k g : Forall (fun e => key e = k) g ->
  forall s, matches_cat g s <-> GL (matches k) (cnt g) (unb g) s.
Proof.
  intro Hk. induction Hk as [|e g He Hg IH]; intro s.
  - simpl. tauto.
  - destruct (key_cases e k He) as [[E [Es Ep]]|[E|E]].
    + (* bare k *)
      unfold cnt, unb in *. cbn [filter existsb matches_cat]. rewrite Es, Ep. cbn [negb orb length].
      subst e. destruct (existsb (fun e => is_star e || is_plus e) g); simpl in *;
        split; intros [u [v [E [Hu Hv]]]]; exists u, v; (split; [exact E|split; [exact Hu|apply IH; exact Hv]]).
    + (* k* *)
      subst e. unfold cnt, unb in *. cbn [filter existsb matches_cat is_star is_plus negb orb].
      cbn [GL]. rewrite <- (star_GL (matches k) _ (existsb (fun e => is_star e || is_plus e) g)).
      split; intros [u [v [E [Hu Hv]]]]; exists u, v; (split; [exact E|split; [exact Hu|apply IH; exact Hv]]).
    + (* k+ *)
      subst e. unfold cnt, unb in *. cbn [filter existsb matches_cat is_star is_plus negb orb length].
      cbn [GL atleast]. split.
      * intros [u [v [E [[u1 [u2 [Eu [H1 H2]]]] Hv]]]]. exists u1, (u2 ++ v).
        split; [subst s u; symmetry; apply app_assoc|]. split; [exact H1|].
        apply (star_GL (matches k) _ (existsb (fun e => is_star e || is_plus e) g)).
        exists u2, v. split; [reflexivity|]. split; [exact H2|apply IH; exact Hv].
      * intros [u [v [E [Hu Hv]]]].
        apply (star_GL (matches k) _ (existsb (fun e => is_star e || is_plus e) g)) in Hv.
        destruct Hv as [v1 [v2 [Ev [H1 H2]]]]. exists (u ++ v1), v2.
        split; [subst s v; apply app_assoc|]. split; [exists u, v1; auto|apply IH; exact H2].
Qed.

(* a list of copies of k, followed by something of language "at least j" *)
Lemma copies_lang k l rest j : Forall (fun e => e = k) l ->
  (forall s, matches_cat rest s <-> atleast (matches k) j s) ->
  forall s, matches_cat (l ++ rest) s <-> atleast (matches k) (length l + j) s.
Proof.
  intros Hl Hr. induction Hl as [|e l He Hl IH]; intro s; [apply Hr|].
  subst e. cbn [app matches_cat length Nat.add atleast].
  split; intros [u [v [E [Hu Hv]]]]; exists u, v; (split; [exact E|split; [exact Hu|apply IH; exact Hv]]).
Qed.

Lemma copies_plus_lang k l s : Forall (fun e => e = k) l ->
  matches_cat (l ++ [RPlus k]) s <-> atleast (matches k) (S (length l)) s.
Proof.
  intro Hl. rewrite (copies_lang k l [RPlus k] 1 Hl).
  - rewrite Nat.add_1_r. tauto.
  - intro t. rewrite matches_cat_single. apply plus_lang.
Qed.

(* ---- list helpers ---- *)
Lemma filter_partition_length {A} (f : A -> bool) l :
  (length (filter (fun e => negb (f e)) l) + length (filter f l) = length l)%nat.
Proof. induction l as [|x l IH]; simpl; [reflexivity|]. destruct (f x); simpl; lia. Qed.

Lemma last_app_ne {A} (a b : list A) d : b <> [] -> last (a ++ b) d = last b d.
Proof.
  intro Hb. induction a as [|x a IH]; simpl; [reflexivity|].
  destruct (a ++ b) eqn:E; [|exact IH]. apply app_eq_nil in E as [_ E]. congruence.
Qed.

Lemma last_In {A} (l : list A) d : l <> [] -> In (last l d) l.
Proof.
  induction l as [|x l IH]; intro H; [congruence|]. destruct l as [|y l]; [left; reflexivity|].
  right. apply IH. discriminate.
Qed.

Lemma removelast_length {A} (l : list A) : l <> [] -> S (length (removelast l)) = length l.
Proof.
  induction l as [|x l IH]; intro H; [congruence|]. destruct l as [|y l]; [reflexivity|].
  change (removelast (x :: y :: l)) with (x :: removelast (y :: l)). simpl length.
  f_equal. apply IH. discriminate.
Qed.

Lemma removelast_In {A} (l : list A) x : In x (removelast l) -> In x l.
Proof.
  induction l as [|y l IH]; intro H; [contradiction|]. destruct l as [|z l]; [contradiction|].
  change (removelast (y :: z :: l)) with (y :: removelast (z :: l)) in H.
  destruct H as [H|H]; [left; exact H|right; apply IH; exact H].
Qed.

Lemma existsb_filter_ne {A} (f : A -> bool) l : existsb f l = true -> filter f l <> [].
Proof.
  intro H. apply existsb_exists in H as [x [Hx Hf]]. intro E.
  assert (X : In x (filter f l)) by (apply filter_In; auto). rewrite E in X. contradiction.
Qed.

(* ---- one group ---- *)
Lemma cnt_all_star g : forallb is_star g = true -> cnt g = O.
Proof.
  unfold cnt. induction g as [|e g IH]; simpl; [reflexivity|]. intro H.
  apply andb_true_iff in H as [He Hg]. rewrite He. simpl. apply IH. exact Hg.
Qed.

Lemma unb_of_star g : existsb is_star g = true -> unb g = true.
Proof.
  unfold unb. intro H. apply existsb_exists in H as [x [Hx Hs]]. apply existsb_exists. exists x.
  split; [exact Hx|]. rewrite Hs. reflexivity.
Qed.
Lemma unb_of_plus g : existsb is_plus g = true -> unb g = true.
Proof.
  unfold unb. intro H. apply existsb_exists in H as [x [Hx Hs]]. apply existsb_exists. exists x.
  split; [exact Hx|]. rewrite Hs. apply orb_true_r.
Qed.
Lemma unb_false g : existsb is_star g = false -> existsb is_plus g = false -> unb g = false.
Proof.
  unfold unb. induction g as [|e g IH]; simpl; [reflexivity|]. intros H1 H2.
  apply orb_false_iff in H1 as [A1 B1]. apply orb_false_iff in H2 as [A2 B2].
  rewrite A1, A2. simpl. apply IH; assumption.
Qed.

Lemma Ok_inj {A} (a b : A) : Ok a = Ok b -> a = b.
Proof. intro H. inversion H. reflexivity. Qed.

Lemma compress_group_lang k g r :
  Forall (fun e => key e = k) g -> compress_group g = Ok r ->
  forall s, matches_cat r s <-> matches_cat g s.
Proof.
  intros Hk Hc s. rewrite (group_lang k g Hk).
  destruct g as [|x [|y g']].
  - inversion Hc; subst r. simpl. tauto.
  - inversion Hc; subst r. apply (group_lang k [x] Hk).
  - set (g := x :: y :: g') in *. unfold compress_group in Hc. unfold g in Hc. cbv beta match in Hc. fold g in Hc.
    assert (Hin : forall e, In e g -> key e = k) by (apply Forall_forall; exact Hk).
    destruct (forallb is_star g) eqn:E1.
    { (* all stars *)
      inversion Hc; subst r. rewrite (cnt_all_star g E1).
      assert (Hu : unb g = true) by (apply unb_of_star; simpl in E1; apply andb_true_iff in E1 as [Ex _]; simpl; rewrite Ex; reflexivity).
      rewrite Hu. simpl GL.
      assert (Ex : x = RStar k).
      { simpl in E1. apply andb_true_iff in E1 as [Ex _].
        destruct (key_cases x k (Hin x (or_introl eq_refl))) as [[_ [C _]]|[E|E]]; [congruence|exact E|subst x; discriminate]. }
      subst x. rewrite matches_cat_single. simpl. tauto. }
    destruct (existsb is_plus g) eqn:E2.
    { (* some plus *)
      destruct (assert_plus_group g); [|discriminate]. apply Ok_inj in Hc; subst r.
      set (cl := filter (fun e => negb (is_star e)) g).
      set (cl' := filter (fun e => negb (is_plus e)) cl ++ filter is_plus cl).
      rewrite (unb_of_plus g E2). simpl GL.
      assert (Hcl : forall e, In e cl -> (e = k /\ is_plus e = false) \/ e = RPlus k).
      { intros e He. apply filter_In in He as [He Hs].
        destruct (key_cases e k (Hin e He)) as [[E [_ Ep]]|[E|E]]; [left; auto| |right; exact E].
        subst e. discriminate. }
      assert (Hcl' : forall e, In e cl' -> (e = k /\ is_plus e = false) \/ e = RPlus k).
      { intros e He. apply in_app_or in He. destruct He as [He|He]; apply filter_In in He as [He _]; apply Hcl; exact He. }
      assert (Hpl : filter is_plus cl <> []).
      { apply existsb_filter_ne. apply existsb_exists in E2 as [e [He Hp]]. apply existsb_exists. exists e.
        split; [|exact Hp]. apply filter_In. split; [exact He|]. destruct e; try discriminate; reflexivity. }
      assert (Hne : cl' <> []).
      { intro E. apply app_eq_nil in E as [_ E]. congruence. }
      assert (Hlast : last cl' x = RPlus k).
      { unfold cl'. rewrite (last_app_ne _ _ x Hpl).
        pose proof (last_In (filter is_plus cl) x Hpl) as Hl. apply filter_In in Hl as [Hl Hp].
        destruct (Hcl _ Hl) as [[_ C]|E]; [congruence|exact E]. }
      assert (Hlen : length cl' = cnt g).
      { unfold cl'. rewrite app_length. unfold cnt. fold cl. apply filter_partition_length. }
      rewrite Hlast.
      assert (Hcopies : Forall (fun e => e = k) (map unplus (removelast cl'))).
      { apply Forall_forall. intros e He. apply in_map_iff in He as [e0 [E0 He0]].
        apply removelast_In in He0. destruct (Hcl' e0 He0) as [[E Ep]|E].
        - subst e0. subst e. destruct k; try reflexivity. discriminate.
        - subst e0. subst e. reflexivity. }
      rewrite (copies_plus_lang k _ s Hcopies). rewrite map_length.
      rewrite (removelast_length cl' Hne), Hlen. tauto. }
    destruct (existsb is_star g) eqn:E3.
    { (* some star, no plus, some atom *)
      destruct (assert_star_group g); [|discriminate]. apply Ok_inj in Hc; subst r.
      set (cl := filter (fun e => negb (is_star e)) g).
      rewrite (unb_of_star g E3). simpl GL.
      assert (Hcl : forall e, In e cl -> e = k).
      { intros e He. apply filter_In in He as [He Hs].
        destruct (key_cases e k (Hin e He)) as [[E _]|[E|E]]; [exact E|subst e; discriminate|].
        exfalso. assert (X : existsb is_plus g = true) by (apply existsb_exists; exists e; subst e; auto). congruence. }
      assert (Hne : cl <> []).
      { unfold cl. clear -E1. induction g as [|e g IH]; simpl in *; [discriminate|].
        destruct (is_star e); simpl in *; [apply IH; exact E1|discriminate]. }
      assert (Hlast : last cl x = k) by (apply Hcl, last_In, Hne).
      rewrite Hlast.
      assert (Hcopies : Forall (fun e => e = k) (removelast cl)).
      { apply Forall_forall. intros e He. apply Hcl, removelast_In, He. }
      rewrite (copies_plus_lang k _ s Hcopies), (removelast_length cl Hne). unfold cnt. fold cl. tauto. }
    destruct (forallb (fun e => re_eqb e x) g); [|discriminate]. inversion Hc; subst r.
    apply (group_lang k g Hk).
Qed.

(* ---- all groups ---- *)
Lemma groupby_concat l : concat (groupby l) = l.
Proof.
  induction l as [|x l IH]; simpl; [reflexivity|].
  destruct (groupby l) as [|[|y g] gs] eqn:E; simpl in *.
  - subst l. reflexivity.
  - subst l. reflexivity.
  - destruct (re_eqb (key x) (key y)); simpl; subst l; reflexivity.
Qed.

Lemma compress_groups_lang gs : Forall (fun g => g <> [] /\ same_key g) gs ->
  forall r, compress_groups gs = Ok r -> forall s, matches_cat r s <-> matches_cat (concat gs) s.
Proof.
  intro H. induction H as [|g gs [_ [k Hk]] Hgs IH]; intros r Hc s.
  - inversion Hc; subst r. simpl. tauto.
  - simpl in Hc. destruct (compress_group g) as [a|e] eqn:Ea; [|discriminate].
    destruct (compress_groups gs) as [b|e] eqn:Eb; [|discriminate]. simpl in Hc. inversion Hc; subst r.
    simpl concat. rewrite !matches_cat_app.
    split; intros [u [v [E [Hu Hv]]]]; exists u, v;
      (split; [exact E|split; [apply (compress_group_lang k g a Hk Ea); exact Hu|apply (IH b eq_refl); exact Hv]]).
Qed.

Theorem compress_lang l r : compress l = Ok r -> forall s, matches_cat r s <-> matches_cat l s.
Proof.
  unfold compress. intros H s. rewrite (compress_groups_lang (groupby l) (groupby_keys l) r H s).
  rewrite groupby_concat. tauto.
Qed.

(* ---- the same, stated on the regular expression z3.Concat( *elements ) ---- *)
Lemma mk_concat_lang rest : forall x s, matches (mk_concat x rest) s <-> matches_cat (x :: rest) s.
Proof.
  unfold mk_concat. induction rest as [|y rest IH]; intros x s.
  - simpl fold_left. symmetry. apply matches_cat_single.
  - simpl fold_left. rewrite IH. cbn [matches_cat]. split.
    + intros [u [v [E [[u1 [u2 [Eu [H1 H2]]]] Hv]]]]. exists u1, (u2 ++ v).
      split; [subst s u; symmetry; apply app_assoc|]. split; [exact H1|]. exists u2, v. auto.
    + intros [u [v [E [Hu [v1 [v2 [Ev [H1 H2]]]]]]]]. exists (u ++ v1), v2.
      split; [subst s v; apply app_assoc|]. split; [exists u, v1; auto|exact H2].
Qed.

Lemma split_concat_lang r : forall s, matches_cat (split_concat r) s <-> matches r s.
Proof.
  induction r as [w|a b|c IH|c IH|c IH|a IHa b IHb|a IHa b IHb|a IHa b IHb|c IH| |]; intro s;
    try apply matches_cat_single.
  cbn [split_concat]. rewrite matches_cat_app. cbn [matches].
  split; intros [u [v [E [Hu Hv]]]]; exists u, v; (split; [exact E|split; [apply IHa; exact Hu|apply IHb; exact Hv]]).
Qed.

(* regular expression of a non-empty element list: z3.Concat(x, *rest), or x alone *)
Definition cat_re (l : list re) : re := match l with [] => RStr [] | x :: rest => mk_concat x rest end.

Lemma cat_re_lang l s : matches (cat_re l) s <-> matches_cat l s.
Proof. destruct l as [|x rest]; [simpl; tauto|apply mk_concat_lang]. Qed.

Theorem compress_lang_re l r : compress l = Ok r -> forall s, matches (cat_re r) s <-> matches (cat_re l) s.
Proof. intros H s. rewrite !cat_re_lang. apply compress_lang. exact H. Qed.

(* non-vacuity: [0-9] [0-9]* 0 0* 0+  is compressed to  [0-9]+ 0 0+  (k k* = k+; k k* k+ = k k+) *)
Example compress_example :
  compress [r09; RStar r09; RStr [48%N]; RStar (RStr [48%N]); RPlus (RStr [48%N])]
  = Ok [RPlus r09; RStr [48%N]; RPlus (RStr [48%N])].
Proof. reflexivity. Qed.
