(* C05 proof extension (imports PyFastFacts.v, changes nothing there).
   A. evaluate_atom (model of evaluator.evaluate_smt_formula) returns the SMT-LIB verdict on the agreeing
      class: the translation phase succeeds (tr = Val tt), the closure phase computes py_eval.
   B. fx = true (repaired not_implemented_failure, /repo commit beffd72): when the first class met in
      evaluation order is K_noimpl, py_eval ends in Failure and the verdict is the Z3 fall-back's; with a
      Z3 that answers by the standard (z3_sound) is_valid is right on agree_class_fx.
   C. the same for evaluate_atom; the fall-back is_valid runs on the atom with StringVals substituted
      (ground e), hence the guard is on ground e (a variable instantiation > U+00FF becomes a literal of
      class K_lit_enc there: witness w_fx_lit).
   D. the explicit two-phase closure model PyClosure.translate / evaluate_clo commutes with substitution. *)
From Coq Require Import List NArith ZArith Bool Lia.
From ISLA Require Import Str Outcome Regex RegexFacts SmtAst SmtSem PyRe PyFast SmtClasses PyFastFacts PyClosure.
Import ListNotations.
Open Scope Z_scope.

(* ---------- A. translation phase on the agreeing class ---------- *)
Lemma node_class0_static fx e : node_class e = 0%N -> node_static fx e = None.
Proof.
  unfold node_class. destruct (is_noimpl_static e) eqn:E; [discriminate|]. intro H.
  destruct e as [s|s|z|b| | | |o a|o a b|o a b c|lo hi a|n a]; try reflexivity; try discriminate;
    destruct o; try reflexivity; try discriminate.
Qed.

Lemma tr_node_agree fx e v :
  first_class e = 0%N -> node_class e = 0%N -> denote e = Some v -> tr_node fx e = Val tt.
Proof.
  intros Hf Hn Hd. unfold tr_node. rewrite (node_class0_static fx e Hn).
  destruct (has_var e); [reflexivity|].
  destruct (py_eval_agrees fx e v Hf Hd) as [p [Ep _]]. rewrite Ep. reflexivity.
Qed.

Lemma tr_agree fx e : forall v, first_class e = 0%N -> denote e = Some v -> tr fx e = Val tt.
Proof.
  induction e as [s|s|z|b| | | |o a IHa|o a IHa b IHb|o a IHa b IHb c IHc|lo hi a IHa|n a IHa];
    intros v Hc Hd;
    try (cbn [tr]; eapply tr_node_agree; [exact Hc|exact Hc|exact Hd]).
  - pose proof Hc as Hc0. pose proof Hd as Hd0.
    cbn [first_class] in Hc. apply orN_0 in Hc as [C1 C2].
    cbn [denote] in Hd. apply obind_some in Hd as [va [Ha Hd]].
    cbn [tr]. rewrite (IHa va C1 Ha). cbn [PyFast.obind]. eapply tr_node_agree; eassumption.
  - pose proof Hc as Hc0. pose proof Hd as Hd0.
    cbn [first_class] in Hc. apply orN_0 in Hc as [C1 C2]. apply orN_0 in C2 as [C2 C3].
    cbn [denote] in Hd. apply obind_some in Hd as [va [Ha Hd]]. apply obind_some in Hd as [vb [Hb Hd]].
    cbn [tr]. rewrite (IHa va C1 Ha), (IHb vb C2 Hb). cbn [PyFast.obind]. eapply tr_node_agree; eassumption.
  - pose proof Hc as Hc0. pose proof Hd as Hd0.
    cbn [first_class] in Hc. apply orN_0 in Hc as [C1 C2]. apply orN_0 in C2 as [C2 C3].
    apply orN_0 in C3 as [C3 C4].
    cbn [denote] in Hd. apply obind_some in Hd as [va [Ha Hd]]. apply obind_some in Hd as [vb [Hb Hd]].
    apply obind_some in Hd as [vc [Hcc Hd]].
    cbn [tr]. rewrite (IHa va C1 Ha), (IHb vb C2 Hb), (IHc vc C3 Hcc). cbn [PyFast.obind].
    eapply tr_node_agree; eassumption.
  - pose proof Hc as Hc0. pose proof Hd as Hd0.
    cbn [first_class] in Hc. apply orN_0 in Hc as [C1 C2].
    cbn [denote] in Hd. apply obind_some in Hd as [va [Ha Hd]].
    cbn [tr]. rewrite (IHa va C1 Ha). cbn [PyFast.obind]. eapply tr_node_agree; eassumption.
  - exfalso. cbn [first_class] in Hc. apply orN_0 in Hc as [_ C2]. revert C2.
    unfold node_class. simpl. discriminate.
Qed.

Lemma py_eval_bool fx e b :
  first_class e = 0%N -> smt_denote e = Some b -> py_eval fx e = Val (PB b).
Proof.
  intros Ha Hd. unfold smt_denote in Hd.
  destruct (denote e) as [[vb|vz|vs|vr]|] eqn:De; try discriminate. injection Hd as Hd; subst vb.
  destruct (py_eval_agrees fx e _ Ha De) as [p [Ep [Rp _]]].
  destruct p as [pb|pz|ps|pp]; simpl in Rp; try contradiction. subst pb. exact Ep.
Qed.

Lemma smt_denote_denote e b : smt_denote e = Some b -> denote e = Some (VB b).
Proof.
  unfold smt_denote. destruct (denote e) as [[vb|vz|vs|vr]|]; try discriminate.
  intro H. injection H as H. subst. reflexivity.
Qed.

(* MAIN A: evaluate() judges an atom of the agreeing class as SMT-LIB does (any fx, any fall-back) *)
Theorem evaluate_atom_agrees : forall (fx : bool) (z3v : expr -> tv) e b,
  agree_class e = true -> smt_denote e = Some b -> evaluate_atom fx z3v e = Val (of_bool b).
Proof.
  intros fx z3v e b Ha Hd. unfold agree_class in Ha. apply N.eqb_eq in Ha.
  unfold evaluate_atom. rewrite (tr_agree fx e _ Ha (smt_denote_denote e b Hd)).
  rewrite (py_eval_bool fx e b Ha Hd). reflexivity.
Qed.

(* ---------- B. fx = true: operators without fast path are handed to Z3 ---------- *)
Lemma orN_k a b k : orN a b = k -> k <> 0%N -> a = k \/ (a = 0%N /\ b = k).
Proof.
  unfold orN. destruct (a =? 0)%N eqn:E; intros H Hk.
  - apply N.eqb_eq in E. right. auto.
  - left. exact H.
Qed.

Lemma node_noimpl_static e : node_class e = K_noimpl -> node_static true e = Some Fail.
Proof.
  unfold node_class. destruct (is_noimpl_static e) eqn:E.
  - intros _. destruct e as [s|s|z|b| | | |o a|o a b|o a b c|lo hi a|n a]; try discriminate; try reflexivity;
      destruct o; try discriminate; try reflexivity.
    simpl in E. apply negb_true_iff in E. simpl. rewrite E. reflexivity.
  - destruct e as [s|s|z|b| | | |o a|o a b|o a b c|lo hi a|n a]; try discriminate;
      try (destruct o; try discriminate);
      repeat match goal with
             | |- context [match ?x with _ => _ end] => destruct x
             end; discriminate.
Qed.

Lemma K_noimpl_neq0 : K_noimpl <> 0%N.
Proof. discriminate. Qed.

Lemma val_of_class0 e v : first_class e = 0%N -> denote e = Some v -> exists p, py_eval true e = Val p.
Proof. intros Hc Hd. destruct (py_eval_agrees true e v Hc Hd) as [p [Ep _]]. eauto. Qed.

Lemma static_or_fail e k : node_static true e = Some Fail -> static_or true e k = Fail.
Proof. intro H. unfold static_or. rewrite H. reflexivity. Qed.

Lemma noimpl_fail e : forall v, first_class e = K_noimpl -> denote e = Some v -> py_eval true e = Fail.
Proof.
  induction e as [s|s|z|b| | | |o a IHa|o a IHa b IHb|o a IHa b IHb c IHc|lo hi a IHa|n a IHa];
    intros v Hc Hd.
  - exfalso. revert Hc. unfold first_class, node_class. simpl. destruct (str_eqb (z3enc s) s); discriminate.
  - discriminate.
  - discriminate.
  - discriminate.
  - discriminate.
  - reflexivity.
  - reflexivity.
  - cbn [first_class] in Hc. cbn [denote] in Hd. apply obind_some in Hd as [va [Ha Hd]].
    cbn [py_eval].
    destruct (orN_k _ _ _ Hc K_noimpl_neq0) as [C1|[C1 C2]].
    + rewrite (IHa va C1 Ha). reflexivity.
    + destruct (val_of_class0 a va C1 Ha) as [pa Ea]. rewrite Ea. cbn [PyFast.obind].
      apply static_or_fail. apply node_noimpl_static. exact C2.
  - cbn [first_class] in Hc. cbn [denote] in Hd.
    apply obind_some in Hd as [va [Ha Hd]]. apply obind_some in Hd as [vb [Hb Hd]].
    cbn [py_eval].
    destruct (orN_k _ _ _ Hc K_noimpl_neq0) as [C1|[C1 C2]].
    + rewrite (IHa va C1 Ha). reflexivity.
    + destruct (val_of_class0 a va C1 Ha) as [pa Ea]. rewrite Ea. cbn [PyFast.obind].
      destruct (orN_k _ _ _ C2 K_noimpl_neq0) as [C3|[C3 C4]].
      * rewrite (IHb vb C3 Hb). reflexivity.
      * destruct (val_of_class0 b vb C3 Hb) as [pb Eb]. rewrite Eb. cbn [PyFast.obind].
        apply static_or_fail. apply node_noimpl_static. exact C4.
  - cbn [first_class] in Hc. cbn [denote] in Hd.
    apply obind_some in Hd as [va [Ha Hd]]. apply obind_some in Hd as [vb [Hb Hd]].
    apply obind_some in Hd as [vc [Hcc Hd]].
    cbn [py_eval].
    destruct (orN_k _ _ _ Hc K_noimpl_neq0) as [C1|[C1 C2]].
    + rewrite (IHa va C1 Ha). reflexivity.
    + destruct (val_of_class0 a va C1 Ha) as [pa Ea]. rewrite Ea. cbn [PyFast.obind].
      destruct (orN_k _ _ _ C2 K_noimpl_neq0) as [C3|[C3 C4]].
      * rewrite (IHb vb C3 Hb). reflexivity.
      * destruct (val_of_class0 b vb C3 Hb) as [pb Eb]. rewrite Eb. cbn [PyFast.obind].
        destruct (orN_k _ _ _ C4 K_noimpl_neq0) as [C5|[C5 C6]].
        -- rewrite (IHc vc C5 Hcc). reflexivity.
        -- destruct (val_of_class0 c vc C5 Hcc) as [pc Ec]. rewrite Ec. cbn [PyFast.obind].
           apply static_or_fail. apply node_noimpl_static. exact C6.
  - cbn [first_class] in Hc. cbn [denote] in Hd. apply obind_some in Hd as [va [Ha Hd]].
    cbn [py_eval].
    destruct (orN_k _ _ _ Hc K_noimpl_neq0) as [C1|[C1 C2]].
    + rewrite (IHa va C1 Ha). reflexivity.
    + exfalso. apply node_noimpl_static in C2. discriminate.
  - cbn [first_class] in Hc. cbn [denote] in Hd. apply obind_some in Hd as [va [Ha Hd]].
    cbn [py_eval].
    destruct (orN_k _ _ _ Hc K_noimpl_neq0) as [C1|[C1 C2]].
    + rewrite (IHa va C1 Ha). reflexivity.
    + destruct (val_of_class0 a va C1 Ha) as [pa Ea]. rewrite Ea. reflexivity.
Qed.

Lemma class_fx_cases e : agree_class_fx e = true -> first_class e = 0%N \/ first_class e = K_noimpl.
Proof.
  unfold agree_class_fx. intro H. apply orb_true_iff in H as [H|H]; apply N.eqb_eq in H; auto.
Qed.

(* MAIN B: with the repaired fall-through and a Z3 that answers by the standard, is_valid is right on
   the class "nothing but missing fast paths comes first" *)
Theorem fast_agrees_fx : forall (z3v : expr -> tv) e b,
  z3_sound z3v -> agree_class_fx e = true -> smt_denote e = Some b ->
  is_valid true z3v e = Val (of_bool b).
Proof.
  intros z3v e b Hz Ha Hd. destruct (class_fx_cases e Ha) as [C|C].
  - apply fast_agrees; [|exact Hd]. unfold agree_class. rewrite C. reflexivity.
  - pose proof (noimpl_fail e _ C (smt_denote_denote e b Hd)) as Hf.
    unfold is_valid. destruct e; try (rewrite Hf; rewrite (Hz _ _ Hd); reflexivity).
    discriminate.
Qed.

(* ---------- C. evaluate_atom with fx = true ---------- *)
Lemma tr_noimpl_fail e : forall v, first_class e = K_noimpl -> denote e = Some v -> tr true e = Fail.
Proof.
  assert (TN : forall e, node_class e = K_noimpl -> tr_node true e = Fail).
  { intros e0 H. unfold tr_node. rewrite (node_noimpl_static e0 H). reflexivity. }
  induction e as [s|s|z|b| | | |o a IHa|o a IHa b IHb|o a IHa b IHb c IHc|lo hi a IHa|n a IHa];
    intros v Hc Hd; try (cbn [tr]; apply TN; exact Hc).
  - cbn [first_class] in Hc. cbn [denote] in Hd. apply obind_some in Hd as [va [Ha Hd]].
    cbn [tr].
    destruct (orN_k _ _ _ Hc K_noimpl_neq0) as [C1|[C1 C2]].
    + rewrite (IHa va C1 Ha). reflexivity.
    + rewrite (tr_agree true a va C1 Ha). cbn [PyFast.obind]. apply TN. exact C2.
  - cbn [first_class] in Hc. cbn [denote] in Hd.
    apply obind_some in Hd as [va [Ha Hd]]. apply obind_some in Hd as [vb [Hb Hd]].
    cbn [tr].
    destruct (orN_k _ _ _ Hc K_noimpl_neq0) as [C1|[C1 C2]].
    + rewrite (IHa va C1 Ha). reflexivity.
    + rewrite (tr_agree true a va C1 Ha). cbn [PyFast.obind].
      destruct (orN_k _ _ _ C2 K_noimpl_neq0) as [C3|[C3 C4]].
      * rewrite (IHb vb C3 Hb). reflexivity.
      * rewrite (tr_agree true b vb C3 Hb). cbn [PyFast.obind]. apply TN. exact C4.
  - cbn [first_class] in Hc. cbn [denote] in Hd.
    apply obind_some in Hd as [va [Ha Hd]]. apply obind_some in Hd as [vb [Hb Hd]].
    apply obind_some in Hd as [vc [Hcc Hd]].
    cbn [tr].
    destruct (orN_k _ _ _ Hc K_noimpl_neq0) as [C1|[C1 C2]].
    + rewrite (IHa va C1 Ha). reflexivity.
    + rewrite (tr_agree true a va C1 Ha). cbn [PyFast.obind].
      destruct (orN_k _ _ _ C2 K_noimpl_neq0) as [C3|[C3 C4]].
      * rewrite (IHb vb C3 Hb). reflexivity.
      * rewrite (tr_agree true b vb C3 Hb). cbn [PyFast.obind].
        destruct (orN_k _ _ _ C4 K_noimpl_neq0) as [C5|[C5 C6]].
        -- rewrite (IHc vc C5 Hcc). reflexivity.
        -- rewrite (tr_agree true c vc C5 Hcc). cbn [PyFast.obind]. apply TN. exact C6.
  - cbn [first_class] in Hc. cbn [denote] in Hd. apply obind_some in Hd as [va [Ha Hd]].
    cbn [tr].
    destruct (orN_k _ _ _ Hc K_noimpl_neq0) as [C1|[C1 C2]].
    + rewrite (IHa va C1 Ha). reflexivity.
    + rewrite (tr_agree true a va C1 Ha). cbn [PyFast.obind]. apply TN. exact C2.
  - cbn [first_class] in Hc. cbn [denote] in Hd. apply obind_some in Hd as [va [Ha Hd]].
    cbn [tr].
    destruct (orN_k _ _ _ Hc K_noimpl_neq0) as [C1|[C1 C2]].
    + rewrite (IHa va C1 Ha). reflexivity.
    + rewrite (tr_agree true a va C1 Ha). cbn [PyFast.obind]. apply TN. exact C2.
Qed.

(* substituting StringVals for the variables: same denotation, same shapes *)
Lemma denote_ground e : denote (ground e) = denote e.
Proof.
  induction e as [s|s|z|b| | | |o a IHa|o a IHa b IHb|o a IHa b IHb c IHc|lo hi a IHa|n a IHa];
    cbn [ground denote]; try reflexivity;
    rewrite ?IHa, ?IHb, ?IHc; reflexivity.
Qed.

Lemma smt_denote_ground e : smt_denote (ground e) = smt_denote e.
Proof. unfold smt_denote. rewrite denote_ground. reflexivity. Qed.

Lemma comp_guard_ground a : comp_guard (ground a) = comp_guard a.
Proof.
  destruct a as [s|s|z|b| | | |o a|o a b|o a b c|lo hi a|n a]; try reflexivity.
  destruct o; try reflexivity.
  destruct a as [s|s|z|b0| | | |o1 a1|o1 a1 b1|o1 a1 b1 c1|lo hi a1|n a1]; try reflexivity;
    destruct o1; try reflexivity;
    destruct b as [s|s|z|b0| | | |o2 a2|o2 a2 b2|o2 a2 b2 c2|lo hi a2|n a2]; try reflexivity;
    destruct o2; reflexivity.
Qed.

Lemma atomic_re_ground a : atomic_re (ground a) = atomic_re a.
Proof.
  destruct a as [s|s|z|b| | | |o a|o a b|o a b c|lo hi a|n a]; try reflexivity.
  destruct o; try reflexivity.
  destruct a as [s|s|z|b0| | | |o1 a1|o1 a1 b1|o1 a1 b1 c1|lo hi a1|n a1]; reflexivity.
Qed.

Lemma node_class_ground e : (forall s, e <> EVar s) -> node_class (ground e) = node_class e.
Proof.
  intro Hv.
  destruct e as [s|s|z|b| | | |o a|o a b|o a b c|lo hi a|n a]; try reflexivity.
  - exfalso. apply (Hv s). reflexivity.
  - destruct o; unfold node_class; cbn [ground is_noimpl_static node_static]; unfold dS;
      rewrite ?denote_ground, ?comp_guard_ground; reflexivity.
  - destruct o; unfold node_class; cbn [ground is_noimpl_static node_static]; unfold dS, dI;
      rewrite ?denote_ground; reflexivity.
  - destruct o; unfold node_class; cbn [ground is_noimpl_static node_static]; unfold dS, dI;
      rewrite ?denote_ground; reflexivity.
  - unfold node_class; cbn [ground is_noimpl_static node_static]. rewrite atomic_re_ground. reflexivity.
Qed.

(* the class of the substituted atom is the class of the atom, unless a substituted instantiation
   (now a literal) is met first and is not representable: K_lit_enc *)
Lemma first_class_ground e : first_class (ground e) = first_class e \/ first_class (ground e) = K_lit_enc.
Proof.
  assert (OR : forall x x' y y', (x' = x \/ x' = K_lit_enc) -> (y' = y \/ y' = K_lit_enc) ->
                                 orN x' y' = orN x y \/ orN x' y' = K_lit_enc).
  { intros x x' y y' [Hx|Hx] [Hy|Hy]; subst; unfold orN;
      try (destruct (x =? 0)%N); try (left; reflexivity); right; reflexivity. }
  induction e as [s|s|z|b| | | |o a IHa|o a IHa b IHb|o a IHa b IHb c IHc|lo hi a IHa|n a IHa];
    try (left; reflexivity).
  - cbn [ground first_class]. unfold node_class. simpl.
    destruct (str_eqb (z3enc s) s); [left|right]; reflexivity.
  - cbn [ground first_class]. apply OR; [exact IHa|]. left.
    apply (node_class_ground (E1 o a)). intros s; discriminate.
  - cbn [ground first_class]. apply OR; [exact IHa|]. apply OR; [exact IHb|]. left.
    apply (node_class_ground (E2 o a b)). intros s; discriminate.
  - cbn [ground first_class]. apply OR; [exact IHa|]. apply OR; [exact IHb|]. apply OR; [exact IHc|]. left.
    apply (node_class_ground (E3 o a b c)). intros s; discriminate.
  - cbn [ground first_class]. apply OR; [exact IHa|]. left.
    apply (node_class_ground (ELoop lo hi a)). intros s; discriminate.
  - cbn [ground first_class]. apply OR; [exact IHa|]. left.
    apply (node_class_ground (EPow n a)). intros s; discriminate.
Qed.

Lemma agree_fx_ground e : agree_class_fx (ground e) = true -> first_class e = first_class (ground e).
Proof.
  intro H. destruct (first_class_ground e) as [E|E]; [symmetry; exact E|].
  exfalso. destruct (class_fx_cases _ H) as [C|C]; rewrite C in E; discriminate.
Qed.

Lemma agree_ground e : agree_class (ground e) = true -> agree_class e = true.
Proof.
  intro H. unfold agree_class in *. rewrite agree_fx_ground; [exact H|].
  unfold agree_class_fx. rewrite H. reflexivity.
Qed.

(* MAIN C: evaluate() with the repaired fall-through and a sound Z3.  The guard speaks about the atom
   with the instantiations substituted as literals (what the fall-back judges). *)
Theorem evaluate_atom_agrees_fx : forall (z3v : expr -> tv) e b,
  z3_sound z3v -> agree_class_fx (ground e) = true -> smt_denote e = Some b ->
  evaluate_atom true z3v e = Val (of_bool b).
Proof.
  intros z3v e b Hz Ha Hd. pose proof (agree_fx_ground e Ha) as Eq.
  destruct (class_fx_cases _ Ha) as [C|C].
  - apply evaluate_atom_agrees; [|exact Hd]. unfold agree_class. rewrite Eq, C. reflexivity.
  - unfold evaluate_atom. rewrite (tr_noimpl_fail e _ (eq_trans Eq C) (smt_denote_denote e b Hd)).
    apply fast_agrees_fx; [exact Hz|exact Ha|]. rewrite smt_denote_ground. exact Hd.
Qed.

(* ---------- D. the explicit closure model commutes with substitution ---------- *)
Definition is_const (t : trres) : bool := match t with TConst _ => true | TClo _ => false end.

(* what translate's outcome T says about the substituted atom e' *)
Definition tspec (fx : bool) (T : out trres) (e' : expr) (inst : str -> str) : Prop :=
  match T with
  | Val t => tr fx e' = Val tt /\ run t inst = py_eval fx e' /\ has_var e' = negb (is_const t)
  | Exn x => tr fx e' = Exn x
  | Fail => tr fx e' = Fail
  | Unmodelled => tr fx e' = Unmodelled
  end.

Lemma comp_guard_subst inst a : comp_guard (subst inst a) = comp_guard a.
Proof.
  destruct a as [s|s|z|b| | | |o a|o a b|o a b c|lo hi a|n a]; try reflexivity.
  destruct o; try reflexivity.
  destruct a as [s|s|z|b0| | | |o1 a1|o1 a1 b1|o1 a1 b1 c1|lo hi a1|n a1]; try reflexivity;
    destruct o1; try reflexivity;
    destruct b as [s|s|z|b0| | | |o2 a2|o2 a2 b2|o2 a2 b2 c2|lo hi a2|n a2]; try reflexivity;
    destruct o2; reflexivity.
Qed.

Lemma node_static_subst fx inst e : node_static fx (subst inst e) = node_static fx e.
Proof.
  destruct e as [s|s|z|b| | | |o a|o a b|o a b c|lo hi a|n a]; try reflexivity.
  destruct o; try reflexivity. cbn [subst node_static]. rewrite comp_guard_subst. reflexivity.
Qed.

Lemma node_static_nonval fx e r : node_static fx e = Some r -> forall p, r <> Val p.
Proof.
  intros H p Hp. subst r.
  destruct e as [s|s|z|b| | | |o a|o a b|o a b c|lo hi a|n a]; try discriminate;
    try (destruct o; try discriminate); simpl in H; unfold noimpl in H;
    try (destruct (comp_guard a)); destruct fx; discriminate.
Qed.

(* a node whose children translated, value-independent outcome r *)
Lemma tspec_static fx e' inst r :
  node_static fx e' = Some r -> tr fx e' = tr_node fx e' ->
  tspec fx (konst r) e' inst.
Proof.
  intros Hs Ht. pose proof (node_static_nonval fx e' r Hs) as Nv.
  unfold tspec. rewrite Ht. unfold tr_node. rewrite Hs.
  destruct r as [p|x| |]; simpl; try reflexivity. exfalso. apply (Nv p). reflexivity.
Qed.

(* a node without static outcome: R = the operator applied to the children's (run) values *)
Lemma tspec_dyn fx e' inst (R : out pval) (T : out trres) (c : bool) :
  node_static fx e' = None -> tr fx e' = tr_node fx e' ->
  py_eval fx e' = R -> has_var e' = negb c ->
  (c = true -> T = konst R) ->
  (c = false -> exists f, T = Val (TClo f) /\ f inst = R) ->
  tspec fx T e' inst.
Proof.
  intros Hs Ht Hp Hv Hc1 Hc2. destruct c.
  - rewrite (Hc1 eq_refl). unfold tspec. rewrite Ht. unfold tr_node. rewrite Hs, Hv, Hp. simpl.
    destruct R as [p|x| |]; simpl; auto.
  - destruct (Hc2 eq_refl) as [f [ET Ef]]. subst T. unfold tspec. rewrite Ht. unfold tr_node.
    rewrite Hs, Hv. simpl. rewrite Ef, Hp. auto.
Qed.

Lemma static_tr_some fx e r k : node_static fx e = Some r -> static_tr fx e k = konst r.
Proof. intro H. unfold static_tr. rewrite H. reflexivity. Qed.
Lemma static_tr_none fx e k : node_static fx e = None -> static_tr fx e k = k.
Proof. intro H. unfold static_tr. rewrite H. reflexivity. Qed.
Lemma static_or_none fx e k : node_static fx e = None -> static_or fx e k = k.
Proof. intro H. unfold static_or. rewrite H. reflexivity. Qed.

Lemma translate_spec fx inst e : tspec fx (translate fx e) (subst inst e) inst.
Proof.
  induction e as [s|x|z|b| | | |o a IHa|o a IHa b IHb|o a IHa b IHb c IHc|lo hi a IHa|n a IHa];
    try (cbn; auto; fail).
  - (* ERNone *) cbn [translate subst]. apply (tspec_static fx ERNone inst (noimpl fx)); reflexivity.
  - (* ERAllChar *) cbn [translate subst]. apply (tspec_static fx ERAllChar inst (noimpl fx)); reflexivity.
  - (* E1 *)
    cbn [translate subst]. set (a' := subst inst a) in *. set (e' := E1 o a').
    assert (NS : node_static fx e' = node_static fx (E1 o a)) by apply (node_static_subst fx inst (E1 o a)).
    destruct (translate fx a) as [ta|x| |]; cbn [tspec PyFast.obind] in *;
      try (subst e'; cbn [tr]; rewrite IHa; reflexivity).
    destruct IHa as [Ta [Ra Va]].
    assert (Ht : tr fx e' = tr_node fx e') by (subst e'; cbn [tr]; rewrite Ta; reflexivity).
    destruct (node_static fx (E1 o a)) as [r|] eqn:Hs.
    + rewrite (static_tr_some _ _ _ _ Hs). apply tspec_static; [exact NS|exact Ht].
    + rewrite (static_tr_none _ _ _ Hs).
      apply (tspec_dyn fx e' inst (PyFast.obind (run ta inst) (p1 o)) _ (is_const ta) NS Ht).
      * subst e'. cbn [py_eval]. rewrite <- Ra. destruct (run ta inst); try reflexivity.
        cbn [PyFast.obind]. apply static_or_none. exact NS.
      * exact Va.
      * intro Hc. destruct ta; [reflexivity|discriminate].
      * intro Hc. destruct ta; [discriminate|]. eexists. split; reflexivity.
  - (* E2 *)
    cbn [translate subst]. set (a' := subst inst a) in *. set (b' := subst inst b) in *.
    set (e' := E2 o a' b').
    assert (NS : node_static fx e' = node_static fx (E2 o a b)) by apply (node_static_subst fx inst (E2 o a b)).
    destruct (translate fx a) as [ta|x| |]; cbn [tspec PyFast.obind] in *;
      try (subst e'; cbn [tr]; rewrite IHa; reflexivity).
    destruct IHa as [Ta [Ra Va]].
    destruct (translate fx b) as [tb|x| |]; cbn [tspec PyFast.obind] in *;
      try (subst e'; cbn [tr]; rewrite Ta, IHb; reflexivity).
    destruct IHb as [Tb [Rb Vb]].
    assert (Ht : tr fx e' = tr_node fx e') by (subst e'; cbn [tr]; rewrite Ta, Tb; reflexivity).
    destruct (node_static fx (E2 o a b)) as [r|] eqn:Hs.
    + rewrite (static_tr_some _ _ _ _ Hs). apply tspec_static; [exact NS|exact Ht].
    + rewrite (static_tr_none _ _ _ Hs).
      apply (tspec_dyn fx e' inst
               (PyFast.obind (run ta inst) (fun v => PyFast.obind (run tb inst) (fun w => p2 o v w)))
               _ (is_const ta && is_const tb) NS Ht).
      * subst e'. cbn [py_eval]. rewrite <- Ra, <- Rb. destruct (run ta inst); try reflexivity.
        cbn [PyFast.obind]. destruct (run tb inst); try reflexivity.
        cbn [PyFast.obind]. apply static_or_none. exact NS.
      * subst e'. cbn [has_var]. rewrite Va, Vb. rewrite negb_andb. reflexivity.
      * intro Hc. destruct ta; [|discriminate]. destruct tb; [reflexivity|discriminate].
      * intro Hc. destruct ta; [destruct tb; [discriminate|]|]; eexists; split; reflexivity.
  - (* E3 *)
    cbn [translate subst]. set (a' := subst inst a) in *. set (b' := subst inst b) in *.
    set (c' := subst inst c) in *. set (e' := E3 o a' b' c').
    assert (NS : node_static fx e' = node_static fx (E3 o a b c))
      by apply (node_static_subst fx inst (E3 o a b c)).
    destruct (translate fx a) as [ta|x| |]; cbn [tspec PyFast.obind] in *;
      try (subst e'; cbn [tr]; rewrite IHa; reflexivity).
    destruct IHa as [Ta [Ra Va]].
    destruct (translate fx b) as [tb|x| |]; cbn [tspec PyFast.obind] in *;
      try (subst e'; cbn [tr]; rewrite Ta, IHb; reflexivity).
    destruct IHb as [Tb [Rb Vb]].
    destruct (translate fx c) as [tc|x| |]; cbn [tspec PyFast.obind] in *;
      try (subst e'; cbn [tr]; rewrite Ta, Tb, IHc; reflexivity).
    destruct IHc as [Tc [Rc Vc]].
    assert (Ht : tr fx e' = tr_node fx e') by (subst e'; cbn [tr]; rewrite Ta, Tb, Tc; reflexivity).
    destruct (node_static fx (E3 o a b c)) as [r|] eqn:Hs.
    + rewrite (static_tr_some _ _ _ _ Hs). apply tspec_static; [exact NS|exact Ht].
    + rewrite (static_tr_none _ _ _ Hs).
      apply (tspec_dyn fx e' inst
               (PyFast.obind (run ta inst) (fun u => PyFast.obind (run tb inst) (fun v =>
                PyFast.obind (run tc inst) (fun w => p3 o u v w))))
               _ (is_const ta && is_const tb && is_const tc) NS Ht).
      * subst e'. cbn [py_eval]. rewrite <- Ra, <- Rb, <- Rc. destruct (run ta inst); try reflexivity.
        cbn [PyFast.obind]. destruct (run tb inst); try reflexivity.
        cbn [PyFast.obind]. destruct (run tc inst); try reflexivity.
        cbn [PyFast.obind]. apply static_or_none. exact NS.
      * subst e'. cbn [has_var]. rewrite Va, Vb, Vc. rewrite !negb_andb. reflexivity.
      * intro Hc. destruct ta; [|discriminate]. destruct tb; [|discriminate].
        destruct tc; [reflexivity|discriminate].
      * intro Hc. destruct ta; [destruct tb; [destruct tc; [discriminate|]|]|]; eexists; split; reflexivity.
  - (* ELoop *)
    cbn [translate subst]. set (a' := subst inst a) in *. set (e' := ELoop lo hi a').
    destruct (translate fx a) as [ta|x| |]; cbn [tspec PyFast.obind] in *;
      try (subst e'; cbn [tr]; rewrite IHa; reflexivity).
    destruct IHa as [Ta [Ra Va]].
    assert (Ht : tr fx e' = tr_node fx e') by (subst e'; cbn [tr]; rewrite Ta; reflexivity).
    apply (tspec_dyn fx e' inst (PyFast.obind (run ta inst) (ploop lo hi)) _ (is_const ta) eq_refl Ht).
    + subst e'. cbn [py_eval]. rewrite <- Ra. reflexivity.
    + exact Va.
    + intro Hc. destruct ta; [reflexivity|discriminate].
    + intro Hc. destruct ta; [discriminate|]. eexists. split; reflexivity.
  - (* EPow *)
    cbn [translate subst]. set (a' := subst inst a) in *. set (e' := EPow n a').
    destruct (translate fx a) as [ta|x| |]; cbn [tspec PyFast.obind] in *;
      try (subst e'; cbn [tr]; rewrite IHa; reflexivity).
    destruct IHa as [Ta [Ra Va]].
    assert (Ht : tr fx e' = tr_node fx e') by (subst e'; cbn [tr]; rewrite Ta; reflexivity).
    apply (tspec_static fx e' inst (noimpl fx)); [reflexivity|exact Ht].
Qed.

(* MAIN D: translating the atom with free variables and applying the closure to the instantiation is
   the same as evaluating the instantiated atom (the model run by the correspondence check) *)
Theorem translate_commutes : forall (fx : bool) (z3v : expr -> tv) e inst,
  evaluate_clo fx z3v e inst = evaluate_atom fx z3v (subst inst e).
Proof.
  intros fx z3v e inst. pose proof (translate_spec fx inst e) as H.
  unfold evaluate_clo, evaluate_atom. destruct (translate fx e) as [t|x| |]; cbn [tspec] in H.
  - destruct H as [Ht [Hr _]]. rewrite Ht, Hr. reflexivity.
  - rewrite H. reflexivity.
  - rewrite H. reflexivity.
  - rewrite H. reflexivity.
Qed.

Theorem closure_value_commutes : forall (fx : bool) e inst t,
  translate fx e = Val t -> run t inst = py_eval fx (subst inst e).
Proof.
  intros fx e inst t H. pose proof (translate_spec fx inst e) as S. rewrite H in S.
  destruct S as [_ [Hr _]]. exact Hr.
Qed.

(* the statements in terms of atom-with-free-variables + instantiation *)
Theorem evaluate_clo_agrees : forall (fx : bool) (z3v : expr -> tv) e inst b,
  agree_class (subst inst e) = true -> smt_denote (subst inst e) = Some b ->
  evaluate_clo fx z3v e inst = Val (of_bool b).
Proof. intros. rewrite translate_commutes. apply evaluate_atom_agrees; assumption. Qed.

Theorem evaluate_clo_agrees_fx : forall (z3v : expr -> tv) e inst b,
  z3_sound z3v -> agree_class_fx (ground (subst inst e)) = true -> smt_denote (subst inst e) = Some b ->
  evaluate_clo true z3v e inst = Val (of_bool b).
Proof. intros. rewrite translate_commutes. apply evaluate_atom_agrees_fx; assumption. Qed.

(* ---------- non-vacuity, and why MAIN C is guarded on ground e ---------- *)
Local Open Scope N_scope.
(* (str.prefixof "a" x) /\ len(x) = 2 with x := "ab": first class K_noimpl, true *)
Definition w_fx : expr :=
  E2 OAnd (E2 OPrefixOf (lit [97]) (EVar [97;98])) (E2 OEq (E1 OLen (EVar [97;98])) (EInt 2)).
Example fast_agrees_fx_nonvacuous :
  agree_class_fx (ground w_fx) = true /\ agree_class (ground w_fx) = false /\ smt_denote w_fx = Some true.
Proof. repeat split; reflexivity. Qed.
(* an oracle that answers by the standard exists (so z3_sound is satisfiable) *)
Definition z3_std (e : expr) : tv := match smt_denote e with Some b => of_bool b | None => FF end.
Example z3_sound_nonvacuous : z3_sound z3_std.
Proof. intros e b H. unfold z3_std. rewrite H. reflexivity. Qed.

(* atom with a free variable (name "x" = [120]) and an instantiation *)
Definition w_open : expr :=
  E2 OInRe (E2 OConcat (EVar [120]) (lit [55])) (E1 OPlus (E2 ORange (lit [48]) (lit [57]))).
Definition inst_42 (x : str) : str := [52;50].
Example evaluate_clo_nonvacuous :
  agree_class (subst inst_42 w_open) = true /\ smt_denote (subst inst_42 w_open) = Some true /\
  has_var w_open = true.
Proof. repeat split; reflexivity. Qed.

(* x := "€" (U+20AC): (str.to_code x) = 8364 \/ (str.prefixof x "a").  The atom itself is in the fx class
   (the variable is no literal), the translation fails at prefixof, the fall-back is_valid works on the
   atom with the LITERAL "€" substituted and raises TypeError in ord() on the escape text \u{20ac}
   -- whatever Z3 would have answered.  first_class (ground w) = K_lit_enc. *)
Definition w_fx_lit : expr :=
  E2 OOr (E2 OEq (E1 OToCode (EVar [8364])) (EInt 8364)) (E2 OPrefixOf (EVar [8364]) (lit [97])).
Example evaluate_fx_ground_guard_needed :
  agree_class_fx w_fx_lit = true /\ first_class (ground w_fx_lit) = K_lit_enc /\
  smt_denote w_fx_lit = Some true /\
  forall z3v, evaluate_atom true z3v w_fx_lit = Exn TypeErr.
Proof. repeat split; reflexivity. Qed.
