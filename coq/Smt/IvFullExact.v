(* C15 — EXACT half of numeric_intervals_from_regex INCLUDING <full> elements where they are used by the three
   [1-9][0-9]* cases: guard  full_alone q fuel r = false  (IvFullShape.v) instead of  has_full r = false.
   Witness for n in (1,inf) / (10,inf) / (0,inf): the decimal digits of n, the leading one matched by the first
   element (exactness of its [(1,9)] / [(0,9)]), the others by [0-9]* / [0-9]+. *)
From Coq Require Import List NArith ZArith Bool Lia.
From ISLA Require Import Str Outcome IvRe Intervals IvShape IvCompressFacts IntervalsFacts IvReFacts
                         IvCompressLang IvConcatFacts IvConcatSound IvConcatExact
                         IvTightShape IvTightSound IvTightFamily IvFullShape.
Import ListNotations.
Open Scope Z_scope.

(* ================================================================== *)
(* decimal digits of a number                                          *)
(* ================================================================== *)
Lemma digit_char r : 0 <= r <= 9 -> isdig (Z.to_N (r + 48)) = true /\ Z.of_N (Z.to_N (r + 48)) - 48 = r.
Proof. intro H. split; [unfold isdig; apply andb_true_iff; split; apply N.leb_le; lia|lia]. Qed.

Lemma dec_pos_aux : forall m n, 1 <= n -> (Z.to_nat n <= m)%nat ->
  exists d v, 1 <= d <= 9 /\ forallb isdig v = true /\ digits_val v d = n /\ (10 <= n -> v <> []).
Proof.
  induction m as [|m IHm]; intros n Hn Hm; [lia|].
  destruct (Z_le_gt_dec n 9) as [L|G].
  - exists n, []. repeat split; try lia.
  - pose proof (Z.div_mod n 10 ltac:(lia)) as Hdm. pose proof (Z.mod_pos_bound n 10 ltac:(lia)) as Hb.
    set (a := n / 10) in *. set (r := n mod 10) in *.
    destruct (IHm a ltac:(lia) ltac:(lia)) as [d [v' [Hd [Dv' [Ev' _]]]]].
    destruct (digit_char r ltac:(lia)) as [Dc Ec].
    exists d, (v' ++ [Z.to_N (r + 48)]). split; [exact Hd|]. split.
    + rewrite digits_app, Dv'. simpl. rewrite Dc. reflexivity.
    + split; [rewrite dv_app, Ev'; cbn [digits_val]; rewrite Ec; lia|].
      intros _ E. apply app_eq_nil in E as [_ E]. discriminate E.
Qed.

Lemma dec_pos n : 1 <= n ->
  exists d v, 1 <= d <= 9 /\ forallb isdig v = true /\ digits_val v d = n /\ (10 <= n -> v <> []).
Proof. intro H. exact (dec_pos_aux (Z.to_nat n) n H (le_n _)). Qed.

Lemma dec_nonneg n : 0 <= n ->
  exists d v, 0 <= d <= 9 /\ forallb isdig v = true /\ digits_val v d = n /\ v <> [].
Proof.
  intro H. destruct (Z_le_gt_dec n 9) as [L|G].
  - destruct (digit_char n ltac:(lia)) as [Dc Ec]. exists 0, [Z.to_N (n + 48)].
    split; [lia|]. split; [simpl; rewrite Dc; reflexivity|]. split; [cbn [digits_val]; rewrite Ec; lia|discriminate].
  - destruct (dec_pos n ltac:(lia)) as [d [v [Hd [Dv [Ev Nv]]]]]. exists d, v.
    split; [lia|]. split; [exact Dv|]. split; [exact Ev|apply Nv; lia].
Qed.

Lemma digit_r09 c : isdig c = true -> matches r09 [c].
Proof. intro D. apply isdig_range in D. exists 48%N, 57%N, c. repeat split; lia. Qed.

Lemma digits_star09 v : forallb isdig v = true -> star (matches r09) v.
Proof.
  induction v as [|c v IH]; intro D; [constructor|]. simpl in D. apply andb_true_iff in D as [Dc Dv].
  change (c :: v) with ([c] ++ v). constructor; [apply digit_r09; exact Dc|apply IH; exact Dv].
Qed.

Lemma digits_plus09 v : v <> [] -> forallb isdig v = true -> matches (RPlus r09) v.
Proof.
  destruct v as [|c v]; [congruence|]. intros _ D. simpl in D. apply andb_true_iff in D as [Dc Dv].
  exists [c], v. split; [reflexivity|]. split; [apply digit_r09; exact Dc|apply digits_star09; exact Dv].
Qed.

Lemma c1_shape c1 : (is_plus c1 || is_star c1) = true -> re_eqb (key c1) r09 = true ->
  c1 = RStar r09 \/ c1 = RPlus r09.
Proof.
  intros H K. destruct c1 as [w|a b|c|c|c|a b|a b|a b|c| |]; try discriminate H; simpl in K;
    apply re_eqb_eq in K; subst c; auto.
Qed.

(* ================================================================== *)
(* one step of the concatenation case                                  *)
(* ================================================================== *)
Section StepF.
  Variable q : bool.
  Variable rec : re -> out.
  Variable faf : re -> bool.
  Hypothesis IH : forall x ivs, recognizedb x = true -> inner_sign x = false -> faf x = false ->
                                rec x = Val (Some ivs) -> Exact x ivs.
  Hypothesis IHB : forall x ivs, recognizedb x = true -> inner_sign x = false ->
                                 rec x = Val (Some ivs) -> Forall bounded ivs.

  Lemma exact_mk_f x rest ivs : recognizedb x = true -> inner_sign x = false -> Forall telem rest ->
    faf (mk_concat x rest) = false -> rec (mk_concat x rest) = Val (Some ivs) ->
    Forall bounded ivs /\ forall n, In_ivs n ivs -> exists t, matches_cat (x :: rest) t /\ intval t = Some n.
  Proof.
    intros Hx Hi Hr Hf Hn. destruct (mk_concat_rec rest x Hx Hi Hr) as [R I].
    split; [exact (IHB _ _ R I Hn)|]. intros n Hin.
    destruct (IH _ _ R I Hf Hn n Hin) as [t [Hm Hv]].
    exists t. split; [apply mk_concat_lang; exact Hm|exact Hv].
  Qed.

  Lemma exact_cat_f l ivs : l <> [] -> Forall telem l -> ds_tail faf l = false -> rec (cat_re l) = Val (Some ivs) ->
    forall n, In_ivs n ivs -> exists t, matches_cat l t /\ intval t = Some n.
  Proof.
    intros Hne Hl Hf Hn n Hin. destruct (cat_re_rec l Hne Hl) as [R I]. rewrite (ds_tail_eq faf l Hne) in Hf.
    destruct (IH _ _ R I Hf Hn n Hin) as [t [Hm Hv]].
    exists t. split; [apply cat_re_lang; exact Hm|exact Hv].
  Qed.

  Lemma zeros_wit_f zs : Forall telem zs -> existsb faf zs = false -> Forall (fun z => rec z = Val (Some [(0, 0)])) zs ->
    exists z, matches_cat zs z /\ forallb isdig z = true /\ digits_val z 0 = 0 /\ (zs <> [] -> z <> []).
  Proof.
    intro Ht. induction Ht as [|e zs He Hzs IHz]; intros Hnf Hz.
    - exists []. repeat split; auto.
    - cbn [existsb] in Hnf. apply orb_false_iff in Hnf as [Fe Hnf']. inversion Hz as [|e' zs' Hez Hz']; subst.
      destruct (IHz Hnf' Hz') as [z [Mz [Dz [Vz _]]]].
      destruct He as [R [S C]].
      destruct (IH e _ R (inner_le_has e S) Fe Hez 0) as [u [Mu Vu]].
      { apply In_ivs_single. unfold In_iv, maxsize. cbn [fst snd]. lia. }
      pose proof (nosign_digits e R S u Mu) as Du. destruct (intval_digits u 0 Du Vu) as [Nu Eu].
      exists (u ++ z). split; [exists u, z; auto|]. split; [rewrite digits_app, Du, Dz; reflexivity|].
      split; [rewrite dv_app, <- Eu; exact Vz|]. intros _ E. apply app_eq_nil in E as [E _]. congruence.
  Qed.

  Lemma elems_exact_f first rest ivs :
    helem first -> Forall telem rest -> elems_fa faf rec first rest = false ->
    elems_step q rec first rest = Val (Some ivs) ->
    forall n, In_ivs n ivs -> exists s, matches_cat (first :: rest) s /\ intval s = Some n.
  Proof.
    intros Hf Hr Hg Hn. unfold elems_step in Hn. unfold elems_fa in Hg.
    destruct (is_union first || re_eqb first (ROpt re_minus_sign)) eqn:E1.
    { assert (Hne : rest <> []) by (intro; subst rest; discriminate Hn).
      apply orb_true_iff in E1 as [E1|E1].
      - destruct first as [w|a b|c|c|c|a b|a' b'|a' b'|c| |]; try discriminate E1.
        assert (Hn' : merge_outs [rec (mk_concat a rest); rec (mk_concat b rest)] = Val (Some ivs))
          by (destruct rest; [congruence|exact Hn]).
        assert (Hg' : faf (mk_concat a rest) = false /\ faf (mk_concat b rest) = false).
        { destruct rest; [congruence|]. cbn [existsb] in Hg. rewrite orb_false_r in Hg.
          apply orb_false_iff in Hg. exact Hg. }
        destruct Hg' as [Ga Gb].
        apply merge_outs_val in Hn'. destruct Hn' as [ia [ib [Ea [Eb Ei]]]].
        destruct Hf as [Rf [If _]]. simpl in Rf, If. apply andb_true_iff in Rf as [Ra Rb].
        apply orb_false_iff in If as [Ia Ib].
        destruct (exact_mk_f a rest ia Ra Ia Hr Ga Ea) as [Ba Xa].
        destruct (exact_mk_f b rest ib Rb Ib Hr Gb Eb) as [Bb Xb].
        assert (Bab : Forall bounded (ia ++ ib)) by (apply Forall_app; split; assumption).
        subst ivs. intros n Hin. apply (proj1 (merge_ok_member _ n Bab)) in Hin. apply In_ivs_app in Hin.
        destruct Hin as [Hin|Hin].
        + destruct (Xa n Hin) as [t [[u [v [E [Hu Hm]]]] Hv]]. exists t. split; [|exact Hv].
          exists u, v. split; [exact E|]. split; [left; exact Hu|exact Hm].
        + destruct (Xb n Hin) as [t [[u [v [E [Hu Hm]]]] Hv]]. exists t. split; [|exact Hv].
          exists u, v. split; [exact E|]. split; [right; exact Hu|exact Hm].
      - apply re_eqb_eq in E1. subst first.
        assert (Hn' : merge_outs [rec (mk_concat re_plus_sign rest); rec (mk_concat re_minus_sign rest)] = Val (Some ivs))
          by (destruct rest; [congruence|exact Hn]).
        assert (Hg' : faf (mk_concat re_plus_sign rest) = false /\ faf (mk_concat re_minus_sign rest) = false).
        { destruct rest; [congruence|]. cbn [existsb] in Hg. rewrite orb_false_r in Hg.
          apply orb_false_iff in Hg. exact Hg. }
        destruct Hg' as [Ga Gb].
        apply merge_outs_val in Hn'. destruct Hn' as [ia [ib [Ea [Eb Ei]]]].
        destruct (exact_mk_f re_plus_sign rest ia eq_refl eq_refl Hr Ga Ea) as [Ba Xa].
        destruct (exact_mk_f re_minus_sign rest ib eq_refl eq_refl Hr Gb Eb) as [Bb Xb].
        assert (Bab : Forall bounded (ia ++ ib)) by (apply Forall_app; split; assumption).
        subst ivs. intros n Hin. apply (proj1 (merge_ok_member _ n Bab)) in Hin. apply In_ivs_app in Hin.
        destruct Hin as [Hin|Hin].
        + destruct (Xa n Hin) as [t [[u [v [E [Hu Hm]]]] Hv]]. simpl in Hu. subst u t.
          exists v. split; [|apply intval_strip_plus; exact Hv].
          exists [], v. split; [reflexivity|]. split; [left; reflexivity|exact Hm].
        + destruct (Xb n Hin) as [t [[u [v [E [Hu Hm]]]] Hv]]. exists t. split; [|exact Hv].
          exists u, v. split; [exact E|]. split; [right; exact Hu|exact Hm]. }
    destruct (re_eqb first re_plus_sign || re_eqb first (ROpt re_plus_sign)) eqn:E2.
    { assert (Hne : rest <> []) by (intro; subst rest; discriminate Hn).
      rewrite (concat_tail_eq rec rest Hne) in Hn. intros n Hin.
      destruct (exact_cat_f rest ivs Hne Hr Hg Hn n Hin) as [t [Hm Hv]].
      pose proof (nosign_cat rest Hr t Hm) as Dt.
      exists (43%N :: t). split; [|apply intval_plus_digits; assumption].
      exists [43%N], t. split; [reflexivity|]. split; [|exact Hm].
      apply orb_true_iff in E2 as [E2|E2]; apply re_eqb_eq in E2; subst first; [reflexivity|right; reflexivity]. }
    destruct (re_eqb first re_minus_sign) eqn:E3.
    { assert (Hne : rest <> []) by (intro; subst rest; discriminate Hn).
      rewrite (concat_tail_eq rec rest Hne) in Hn.
      destruct (rec (cat_re rest)) as [| |[ivs'|]] eqn:Er; try discriminate Hn.
      simpl in Hn. inversion Hn; subst ivs. intros n Hin. apply neg_In_inv in Hin.
      destruct (exact_cat_f rest ivs' Hne Hr Hg Er (- n) Hin) as [t [Hm Hv]].
      pose proof (nosign_cat rest Hr t Hm) as Dt.
      exists (45%N :: t). split.
      - exists [45%N], t. split; [reflexivity|]. split; [|exact Hm]. apply re_eqb_eq in E3. subst first. reflexivity.
      - rewrite (intval_minus_digits t (- n) Dt Hv). f_equal. lia. }
    apply orb_false_iff in E1 as [U1 M1]. apply orb_false_iff in E2 as [P1 P2].
    assert (Hs : has_sign first = false) by (apply first_nosign; assumption).
    assert (Hft : telem first) by (destruct Hf as [R [_ C]]; repeat split; assumption).
    assert (Hall : Forall telem (first :: rest)) by (constructor; assumption).
    destruct (strip_zeroes rec (first :: rest)) as [o rem] eqn:Est.
    destruct o as [| |v]; try discriminate Hn.
    destruct (stripped_spec rec _ v rem Est) as [El Hz].
    set (zs := stripped rec (first :: rest)) in *.
    assert (Hsplit : Forall telem zs /\ Forall telem rem) by (apply Forall_app; rewrite <- El; exact Hall).
    destruct Hsplit as [Tz Tr].
    destruct (Nat.ltb (length rem) (length (first :: rest))) eqn:Elt.
    { apply orb_false_iff in Hg as [Gz Grem].
      destruct (zeros_wit_f zs Tz Gz Hz) as [z [Mz [Dz [Vz Nz]]]].
      assert (Hzs : zs <> []).
      { intro E. rewrite E in El. simpl in El. rewrite <- El in Elt. rewrite Nat.ltb_irrefl in Elt. discriminate Elt. }
      specialize (Nz Hzs).
      destruct rem as [|x more].
      - inversion Hn; subst ivs. intros n Hin. apply In_ivs_zero in Hin. subst n.
        exists z. split; [rewrite El, app_nil_r; exact Mz|]. rewrite (digits_intval z Dz Nz), Vz. reflexivity.
      - assert (Hn' : rec (cat_re (x :: more)) = Val (Some ivs)) by (destruct more; exact Hn).
        intros n Hin.
        destruct (exact_cat_f (x :: more) ivs ltac:(discriminate) Tr Grem Hn' n Hin) as [t [Hm Hv]].
        pose proof (nosign_cat _ Tr t Hm) as Dt. destruct (intval_digits t n Dt Hv) as [Nt En].
        exists (z ++ t). split.
        + rewrite El. apply matches_cat_app. exists z, t. auto.
        + rewrite digits_intval.
          * rewrite dv_app, Vz, <- En. reflexivity.
          * rewrite digits_app, Dz, Dt. reflexivity.
          * intro E. apply app_eq_nil in E as [E _]. congruence. }
    (* nothing stripped: the three [1-9][0-9]* cases; the witness is the decimal representation *)
    destruct rest as [|c1 [|c2 rest']]; try discriminate Hn.
    destruct (rec first) as [| |v0] eqn:E0; try discriminate Hn. cbn [out_bind] in Hn.
    assert (Hcomb : forall lo n d w, v0 = Some [(lo, 9)] -> lo <= d <= 9 -> faf first = false ->
              forallb isdig w = true -> digits_val w d = n -> matches c1 w ->
              exists s, matches_cat [first; c1] s /\ intval s = Some n).
    { intros lo n d w Ev Hd Ff Dw Ew Mw. subst v0. destruct (telem_helem first Hft) as [R [I _]].
      destruct (IH first _ R I Ff E0 d) as [u [Mu Vu]].
      { apply In_ivs_single. unfold In_iv. cbn [fst snd]. lia. }
      destruct Hft as [_ [S _]]. pose proof (nosign_digits first R S u Mu) as Du.
      destruct (intval_digits u d Du Vu) as [Nu Eu]. exists (u ++ w). split.
      - exists u, w. split; [reflexivity|]. split; [exact Mu|]. apply matches_cat_single. exact Mw.
      - rewrite digits_intval.
        + rewrite dv_app, <- Eu, Ew. reflexivity.
        + rewrite digits_app, Du, Dw. reflexivity.
        + intro E. apply app_eq_nil in E as [E _]. congruence. }
    assert (Hguard : (is_plus c1 || is_star c1) = true -> re_eqb (key c1) r09 = true ->
              faf first = false /\ v0 <> None).
    { intros PS K. rewrite PS, K in Hg. cbn [andb] in Hg. apply orb_false_iff in Hg as [G1 G2].
      split; [exact G1|]. intro E. subst v0. discriminate G2. }
    destruct (is_ivs v0 [(1, 9)] && is_star c1 && re_eqb (key c1) r09) eqn:C1.
    { inversion Hn; subst ivs. apply andb_true_iff in C1 as [C1 K]. apply andb_true_iff in C1 as [C1 St].
      apply is_ivs_eq in C1. destruct (Hguard ltac:(rewrite St; apply orb_true_r) K) as [Ff _].
      assert (Ec : c1 = RStar r09) by (destruct c1; try discriminate St; apply re_eqb_eq in K; simpl in K; subst; reflexivity).
      intros n Hin. apply In_ivs_single in Hin. unfold In_iv, maxsize in Hin. cbn [fst snd] in Hin.
      destruct (dec_pos n ltac:(lia)) as [d [w [Hd [Dw [Ew _]]]]].
      apply (Hcomb 1 n d w C1 Hd Ff Dw Ew). subst c1. apply digits_star09. exact Dw. }
    destruct (is_ivs_q q v0 [(1, 9)] && is_plus c1 && re_eqb (key c1) r09) eqn:C2.
    { inversion Hn; subst ivs. apply andb_true_iff in C2 as [C2 K]. apply andb_true_iff in C2 as [C2 Pl].
      destruct (Hguard ltac:(rewrite Pl; reflexivity) K) as [Ff Nn].
      destruct (is_ivs_q_cases q v0 _ C2) as [Ev|Ev]; [|congruence].
      assert (Ec : c1 = RPlus r09) by (destruct c1; try discriminate Pl; apply re_eqb_eq in K; simpl in K; subst; reflexivity).
      intros n Hin. apply In_ivs_single in Hin. unfold In_iv, maxsize in Hin. cbn [fst snd] in Hin.
      destruct (dec_pos n ltac:(lia)) as [d [w [Hd [Dw [Ew Nw]]]]].
      apply (Hcomb 1 n d w Ev Hd Ff Dw Ew). subst c1. apply digits_plus09; [apply Nw; lia|exact Dw]. }
    destruct (is_ivs_q q v0 [(0, 9)] && (is_plus c1 || is_star c1) && re_eqb (key c1) r09) eqn:C3; [|discriminate Hn].
    inversion Hn; subst ivs. apply andb_true_iff in C3 as [C3 K]. apply andb_true_iff in C3 as [C3 PS].
    destruct (Hguard PS K) as [Ff Nn].
    destruct (is_ivs_q_cases q v0 _ C3) as [Ev|Ev]; [|congruence].
    intros n Hin. apply In_ivs_single in Hin. unfold In_iv, maxsize in Hin. cbn [fst snd] in Hin.
    destruct (dec_nonneg n ltac:(lia)) as [d [w [Hd [Dw [Ew Nw]]]]].
    apply (Hcomb 0 n d w Ev Hd Ff Dw Ew).
    destruct (c1_shape c1 PS K) as [Ec|Ec]; subst c1; [apply digits_star09; exact Dw|apply digits_plus09; assumption].
  Qed.

  Lemma concat_step_exact_f r ivs : recognizedb r = true -> inner_sign r = false -> concat_fa faf rec r = false ->
    concat_step q rec r = Val (Some ivs) -> Exact r ivs.
  Proof.
    intros Hr Hi Hg Hn. destruct (split_struct r Hr Hi) as [h [t [Es [Hh Ht]]]].
    unfold concat_step in Hn. unfold concat_fa in Hg. rewrite Es in Hn, Hg. cbn [map] in Hn, Hg.
    destruct (compress (norm_range h :: map norm_range t)) as [[|first rest]|e] eqn:Ec; try discriminate Hn.
    assert (Ht' : Forall telem (map norm_range t)).
    { apply Forall_forall. intros e He. apply in_map_iff in He as [e0 [E0 He0]]. subst e.
      apply norm_telem. rewrite Forall_forall in Ht. apply Ht. exact He0. }
    destruct (compress_struct _ _ first rest (norm_helem h Hh) Ht' Ec) as [Hf Hrest].
    intros n Hin. destruct (elems_exact_f first rest ivs Hf Hrest Hg Hn n Hin) as [s [Hm Hv]].
    exists s. split; [|exact Hv].
    apply split_concat_lang. rewrite Es.
    apply (norm_cat_lang (h :: t)).
    - constructor; [destruct Hh as [R _]; exact R|]. eapply Forall_impl; [|exact Ht]. intros e [R _]. exact R.
    - apply (compress_lang _ _ Ec). exact Hm.
  Qed.
End StepF.

(* ================================================================== *)
(* the theorem                                                         *)
(* ================================================================== *)
Lemma nifr_concat_fa q f a b :
  full_alone q (S f) (RConcat a b) = concat_fa (full_alone q f) (nifr q f) (RConcat a b).
Proof. reflexivity. Qed.

Theorem nifr_exact_full q : forall f r ivs, recognizedb r = true -> inner_sign r = false ->
  full_alone q f r = false -> nifr q f r = Val (Some ivs) -> Exact r ivs.
Proof.
  induction f as [|f IHf]; intros r ivs Hr Hi Hg Hn; [discriminate Hn|].
  destruct r as [w|a b|c|c|c|a b|a b|a b|c| |]; pose proof Hr as Hr0; simpl in Hr; try discriminate Hr.
  - exact (nifr_exact q (S f) (RStr w) ivs Hr0 Hi eq_refl Hn).
  - exact (nifr_exact q (S f) (RRange a b) ivs Hr0 Hi eq_refl Hn).
  - cbn [full_alone] in Hg.
    assert (Hfu : has_full (RStar c) = false) by (destruct (star_child c Hr) as [E|[E|E]]; subst c; [reflexivity|reflexivity|discriminate Hg]).
    exact (nifr_exact q (S f) (RStar c) ivs Hr0 Hi Hfu Hn).
  - cbn [full_alone] in Hg.
    assert (Hfu : has_full (RPlus c) = false) by (destruct (star_child c Hr) as [E|[E|E]]; subst c; [reflexivity|reflexivity|discriminate Hg]).
    exact (nifr_exact q (S f) (RPlus c) ivs Hr0 Hi Hfu Hn).
  - discriminate Hn.
  - cbn [nifr] in Hn. apply merge_outs_val in Hn. destruct Hn as [ia [ib [Ea [Eb Ei]]]].
    apply andb_true_iff in Hr as [Ra Rb]. simpl in Hi. cbn [full_alone] in Hg. apply orb_false_iff in Hi as [Ia Ib].
    apply orb_false_iff in Hg as [Fa Fb].
    destruct (nifr_good q f a ia Ra Ia Ea) as [Ba _]. destruct (nifr_good q f b ib Rb Ib Eb) as [Bb _].
    assert (Bab : Forall bounded (ia ++ ib)) by (apply Forall_app; split; assumption).
    subst ivs. intros n Hin. apply (proj1 (merge_ok_member _ n Bab)) in Hin. apply In_ivs_app in Hin.
    destruct Hin as [Hin|Hin].
    + destruct (IHf a ia Ra Ia Fa Ea n Hin) as [s [Hm Hv]]. exists s. split; [left; exact Hm|exact Hv].
    + destruct (IHf b ib Rb Ib Fb Eb n Hin) as [s [Hm Hv]]. exists s. split; [right; exact Hm|exact Hv].
  - rewrite nifr_concat in Hn. rewrite nifr_concat_fa in Hg.
    apply (concat_step_exact_f q (nifr q f) (full_alone q f) IHf
             (fun x ivs0 R I H => proj1 (nifr_good q f x ivs0 R I H)) (RConcat a b) ivs Hr0 Hi Hg Hn).
Qed.

Theorem recognized_exact_full q r fuel ivs n :
  recognizedb r = true -> K_inner_sign r = false -> full_alone q fuel r = false -> nifr q fuel r = Val (Some ivs) ->
  (In_ivs n ivs <-> exists s, matches r s /\ intval s = Some n).
Proof.
  intros Hr Hk Hf Hn. split.
  - intro Hin. exact (nifr_exact_full q fuel r ivs Hr Hk Hf Hn n Hin).
  - intros [s [Hm Hv]]. exact (recognized_overapprox q r fuel ivs s n Hr Hk Hn Hm Hv).
Qed.

Corollary documented_exact_full q r ivs n :
  documented_shapeb r = true -> K_inner_sign r = false -> K_full_alone q r = false -> nifr_top q r = Val (Some ivs) ->
  (In_ivs n ivs <-> exists s, matches r s /\ intval s = Some n).
Proof.
  intros Hd. unfold documented_shapeb in Hd. apply andb_true_iff in Hd as [Hr _].
  unfold K_full_alone, nifr_top. apply recognized_exact_full. exact Hr.
Qed.

(* ---- the new guard is implied by the old one ---- *)
Lemma existsb_false {A} (f : A -> bool) l : (forall x, In x l -> f x = false) -> existsb f l = false.
Proof.
  induction l as [|x l IH]; intro H; [reflexivity|]. simpl. rewrite (H x (or_introl eq_refl)). apply IH.
  intros y Hy. apply H. right. exact Hy.
Qed.

Theorem no_full_not_alone q : forall f r, recognizedb r = true -> has_full r = false -> full_alone q f r = false.
Proof.
  induction f as [|f IHf]; intros r Hr Hfu; [reflexivity|].
  destruct r as [w|a b|c|c|c|a b|a b|a b|c| |]; try reflexivity.
  - simpl in Hfu. apply orb_false_iff in Hfu as [H _]. exact H.
  - simpl in Hfu. apply orb_false_iff in Hfu as [H _]. exact H.
  - simpl in Hr, Hfu. apply andb_true_iff in Hr as [Ra Rb]. apply orb_false_iff in Hfu as [Fa Fb].
    cbn [full_alone]. rewrite (IHf a Ra Fa), (IHf b Rb Fb). reflexivity.
  - rewrite nifr_concat_fa. unfold concat_fa.
    pose proof (split_relem _ Hr) as Hs. pose proof (split_nf _ Hfu) as Hn.
    destruct (compress (map norm_range (split_concat (RConcat a b)))) as [[|first rest]|e] eqn:Ec; try reflexivity.
    assert (Hs' : Forall relem (map norm_range (split_concat (RConcat a b)))).
    { apply Forall_forall. intros e He. apply in_map_iff in He as [e0 [E0 He0]]. subst e.
      apply norm_relem. rewrite Forall_forall in Hs. apply Hs. exact He0. }
    assert (Hn' : Forall nf (map norm_range (split_concat (RConcat a b)))).
    { apply Forall_forall. intros e He. apply in_map_iff in He as [e0 [E0 He0]]. subst e.
      rewrite Forall_forall in Hs, Hn. unfold nf. rewrite norm_has_full; [apply Hn; exact He0|].
      destruct (Hs e0 He0) as [R _]. exact R. }
    pose proof (compress_relem _ _ Hs' Ec) as Rall. pose proof (compress_nf _ _ Hn' Ec) as Fall.
    inversion Rall as [|f1 r1 Rf Rr]; subst. inversion Fall as [|f2 r2 Ff Fr]; subst.
    assert (Hmk : forall x, recognizedb x = true -> has_full x = false -> full_alone q f (mk_concat x rest) = false).
    { intros x Rx Fx. apply IHf; [apply mk_concat_recog|apply mk_concat_nf]; assumption. }
    assert (Hcat : forall l, Forall relem l -> Forall nf l -> ds_tail (full_alone q f) l = false).
    { intros l Rl Fl. destruct l as [|x l']; [reflexivity|]. rewrite ds_tail_eq by discriminate.
      apply IHf; [apply cat_re_recog; [discriminate|exact Rl]|apply cat_re_nf; exact Fl]. }
    unfold elems_fa.
    destruct (is_union first || re_eqb first (ROpt re_minus_sign)) eqn:E1.
    { destruct rest as [|y rest']; [reflexivity|]. apply orb_true_iff in E1 as [E1|E1].
      - destruct first as [w|a' b'|c|c|c|a' b'|a' b'|a' b'|c| |]; try discriminate E1.
        destruct Rf as [Rf _]. simpl in Rf. apply andb_true_iff in Rf as [Ra Rb].
        unfold nf in Ff. simpl in Ff. apply orb_false_iff in Ff as [Fa Fb].
        cbn [existsb]. rewrite (Hmk a' Ra Fa), (Hmk b' Rb Fb). reflexivity.
      - apply re_eqb_eq in E1. subst first. cbn [existsb].
        rewrite (Hmk re_plus_sign eq_refl eq_refl), (Hmk re_minus_sign eq_refl eq_refl). reflexivity. }
    destruct (re_eqb first re_plus_sign || re_eqb first (ROpt re_plus_sign)) eqn:E2; [apply Hcat; assumption|].
    destruct (re_eqb first re_minus_sign) eqn:E3; [apply Hcat; assumption|].
    destruct (strip_zeroes (nifr q f) (first :: rest)) as [o rem] eqn:Est.
    destruct o as [| |v]; try reflexivity.
    destruct (stripped_spec _ _ v rem Est) as [El _].
    destruct (Nat.ltb (length rem) (length (first :: rest))).
    + pose proof (stripped_forall relem (nifr q f) _ Rall) as Rz.
      pose proof (stripped_forall nf (nifr q f) _ Fall) as Fz.
      rewrite existsb_false.
      * assert (Rrem : Forall relem rem) by (rewrite El in Rall; apply Forall_app in Rall; exact (proj2 Rall)).
        assert (Frem : Forall nf rem) by (rewrite El in Fall; apply Forall_app in Fall; exact (proj2 Fall)).
        apply Hcat; assumption.
      * intros x Hx. rewrite Forall_forall in Rz, Fz. destruct (Rz x Hx) as [R _]. apply IHf; [exact R|exact (Fz x Hx)].
    + destruct rest as [|c1 [|c2 rest']]; try reflexivity.
      inversion Fr as [|c1' r' Fc1 _]; subst. unfold nf in Fc1.
      destruct ((is_plus c1 || is_star c1) && re_eqb (key c1) r09) eqn:Ek; [|reflexivity].
      apply andb_true_iff in Ek as [PS K]. rewrite (full_elem c1 PS K) in Fc1. discriminate Fc1.
Qed.

(* ---- non-vacuity: the flagship shape  -?0*[1-9][0-9]*  has a <full> element but none evaluated on its own ---- *)
Example exact_full_example :
  documented_shapeb ex_signed_number = true /\ K_full_sign ex_signed_number = true /\
  K_inner_sign ex_signed_number = false /\ K_full_alone true ex_signed_number = false /\
  K_full_alone false ex_signed_number = false /\
  nifr_top true ex_signed_number = Val (Some [(- maxsize, -1); (1, maxsize)]) /\
  K_full_alone true (RStar r09) = true /\
  K_full_alone true (RConcat zero_lit (RStar r09)) = true.
Proof. repeat split; vm_compute; reflexivity. Qed.
