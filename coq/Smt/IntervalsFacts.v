(* C15 — SPECIFICATION (intval, interval membership, documented fragments) and PROOFS about the
   model of Smt/Intervals.v.  The specification side uses only `matches` (IvRe.v), `intval`,
   `In_ivs` defined here — not the model's py_int / nifr. *)
From Coq Require Import List NArith ZArith Bool Lia Sorting.Sorted.
From ISLA Require Import Str Outcome IvRe Intervals IvShape IvCompressFacts.
Import ListNotations.
Open Scope Z_scope.

(* ================================================================== *)
(* Specification                                                       *)
(* ================================================================== *)
Definition isdig (c : chr) : bool := (N.leb 48 c && N.leb c 57)%N.
Fixpoint digits_val (s : str) (acc : Z) : Z :=
  match s with [] => acc | c :: s' => digits_val s' (acc * 10 + (Z.of_N c - 48)) end.
(* one or more decimal digits (zero padding allowed) *)
Definition numeral (t : str) : option Z :=
  match t with [] => None | _ => if forallb isdig t then Some (digits_val t 0) else None end.
(* integer value of a string: optional sign, optional zero padding, decimal digits *)
Definition intval (s : str) : option Z :=
  match s with
  | 43%N :: t => numeral t
  | 45%N :: t => option_map Z.opp (numeral t)
  | _ => numeral s
  end.

(* intervals are closed, except that -maxsize / maxsize stand for -oo / +oo *)
Definition In_iv (n : Z) (i : iv) : Prop :=
  (fst i = - maxsize \/ fst i <= n) /\ (snd i = maxsize \/ n <= snd i).
Definition In_ivs (n : Z) (l : list iv) : Prop := exists i, In i l /\ In_iv n i.
(* plain closed reading (no infinities) *)
Definition In_cl (n : Z) (i : iv) : Prop := fst i <= n <= snd i.
Definition In_cls (n : Z) (l : list iv) : Prop := exists i, In i l /\ In_cl n i.
Definition bounded (i : iv) : Prop :=
  - maxsize <= fst i <= maxsize /\ - maxsize <= snd i <= maxsize.

(* output shape of merge: consecutive intervals are separated by a gap of at least one number *)
Fixpoint separated (l : list iv) : Prop :=
  match l with
  | a :: (b :: _) as t => snd a + 1 < fst b /\ separated t
  | _ => True
  end.
Definition wf_iv (i : iv) : Prop := fst i <= snd i.

(* the concatenation-free part of the documented shape: <single> <range> <zeroes> <full> <union> *)
Inductive basic : re -> Prop :=
| b_single d : isdig d = true -> basic (RStr [d])
| b_range a b : isdig a = true -> isdig b = true -> (a <= b)%N -> basic (RRange [a] [b])
| b_zeroes_star : basic (RStar zero_lit)
| b_zeroes_plus : basic (RPlus zero_lit)
| b_full_star : basic (RStar r09)
| b_full_plus : basic (RPlus r09)
| b_union a b : basic a -> basic b -> basic (RUnion a b).

(* ================================================================== *)
(* merge_intervals                                                     *)
(* ================================================================== *)
Lemma In_ivs_app n a b : In_ivs n (a ++ b) <-> In_ivs n a \/ In_ivs n b.
Proof.
  unfold In_ivs; split.
  - intros [i [Hi Hn]]. apply in_app_or in Hi. destruct Hi as [Hi|Hi]; [left|right]; exists i; auto.
  - intros [[i [Hi Hn]]|[i [Hi Hn]]]; exists i; split; auto; apply in_or_app; auto.
Qed.

Lemma In_ivs_cons n x l : In_ivs n (x :: l) <-> In_iv n x \/ In_ivs n l.
Proof.
  unfold In_ivs; split.
  - intros [i [[Hi|Hi] Hn]]; [left; subst; auto | right; exists i; auto].
  - intros [H|[i [Hi Hn]]]; [exists x; split; [left; auto|auto] | exists i; split; [right; auto|auto]].
Qed.

Lemma insert_lo_in i x l : In i (insert_lo x l) <-> i = x \/ In i l.
Proof.
  induction l as [|y l IH]; simpl.
  - split; intros [H|H]; auto; contradiction.
  - destruct (fst x <=? fst y); simpl.
    + split; intros [H|H]; auto.
    + rewrite IH. split; intros [H|[H|H]]; auto.
Qed.

Lemma sort_lo_in i l : In i (sort_lo l) <-> In i l.
Proof.
  induction l as [|x l IH]; simpl; [tauto|].
  rewrite insert_lo_in, IH. split; intros [H|H]; auto.
Qed.

Definition lo_le (a b : iv) : Prop := fst a <= fst b.

Lemma insert_lo_sorted x l : StronglySorted lo_le l -> StronglySorted lo_le (insert_lo x l).
Proof.
  induction l as [|y l IH]; simpl; intro Hs.
  - constructor; constructor.
  - inversion Hs as [|y' l' Hs' Hall]; subst.
    destruct (fst x <=? fst y) eqn:E.
    + apply Z.leb_le in E. constructor; [exact Hs|].
      constructor; [exact E|].
      eapply Forall_impl; [|exact Hall]. intros a Ha. unfold lo_le in *. lia.
    + apply Z.leb_gt in E. constructor; [apply IH; exact Hs'|].
      apply Forall_forall. intros a Ha. apply insert_lo_in in Ha. destruct Ha as [Ha|Ha].
      * subst. unfold lo_le. lia.
      * rewrite Forall_forall in Hall. apply Hall. exact Ha.
Qed.

Lemma sort_lo_sorted l : StronglySorted lo_le (sort_lo l).
Proof. induction l as [|x l IH]; simpl; [constructor | apply insert_lo_sorted; exact IH]. Qed.

Lemma In_iv_merge2 n (c i : iv) :
  bounded c -> bounded i -> fst c <= fst i -> ~ (snd c + 1 < fst i) ->
  (In_iv n (fst c, Z.max (snd c) (snd i)) <-> In_iv n c \/ In_iv n i).
Proof.
  unfold bounded, In_iv, maxsize; destruct c as [cl ch], i as [il ih]; cbn [fst snd]. lia.
Qed.

Lemma merge_from_in l : forall cur n,
  bounded cur -> Forall bounded l -> Forall (lo_le cur) l -> StronglySorted lo_le l ->
  (In_ivs n (merge_from cur l) <-> In_iv n cur \/ In_ivs n l).
Proof.
  induction l as [|i l IH]; intros cur n Hb Hbl Hle Hs; simpl.
  - rewrite In_ivs_cons. unfold In_ivs. split; [intros [H|[j [[] _]]]; auto | intros [H|[j [[] _]]]; auto].
  - inversion Hbl as [|i' l' Hbi Hbl']; subst.
    inversion Hle as [|i' l' Hci Hle']; subst.
    inversion Hs as [|i' l' Hs' Hil]; subst.
    destruct (snd cur + 1 <? fst i) eqn:E.
    + rewrite In_ivs_cons, (IH i n Hbi Hbl' Hil Hs'), In_ivs_cons. tauto.
    + apply Z.ltb_ge in E.
      assert (Hb' : bounded (fst cur, Z.max (snd cur) (snd i))).
      { unfold bounded in *; cbn [fst snd]; lia. }
      assert (Hle2 : Forall (lo_le (fst cur, Z.max (snd cur) (snd i))) l).
      { eapply Forall_impl; [|exact Hle']. intros a Ha. unfold lo_le in *; cbn [fst snd]; exact Ha. }
      rewrite (IH _ n Hb' Hbl' Hle2 Hs'), In_ivs_cons.
      rewrite (In_iv_merge2 n cur i Hb Hbi Hci); [tauto|lia].
Qed.

(* membership is preserved (reading +-maxsize as infinities; all bounds within +-maxsize) *)
Theorem merge_ok_member l n : Forall bounded l -> (In_ivs n (merge l) <-> In_ivs n l).
Proof.
  intro Hb. unfold merge, merge_sorted.
  assert (Hin : forall i, In i (sort_lo l) <-> In i l) by (intro i; apply sort_lo_in).
  assert (Hs := sort_lo_sorted l).
  assert (Hb2 : Forall bounded (sort_lo l)).
  { apply Forall_forall. intros i Hi. rewrite Forall_forall in Hb. apply Hb, Hin, Hi. }
  assert (Heq : In_ivs n (sort_lo l) <-> In_ivs n l).
  { unfold In_ivs; split; intros [i [Hi Hn]]; exists i; split; auto; apply Hin; auto. }
  rewrite <- Heq. destruct (sort_lo l) as [|x t].
  - tauto.
  - inversion Hs as [|x' t' Hs' Hall]; subst. inversion Hb2 as [|x' t' Hbx Hbt]; subst.
    rewrite (merge_from_in t x n Hbx Hbt Hall Hs'), In_ivs_cons. tauto.
Qed.

(* the same for the plain closed reading, without any hypothesis *)
Lemma In_cl_merge2 n (c i : iv) :
  fst c <= fst i -> ~ (snd c + 1 < fst i) ->
  (In_cl n (fst c, Z.max (snd c) (snd i)) <-> In_cl n c \/ In_cl n i).
Proof. unfold In_cl; destruct c as [cl ch], i as [il ih]; cbn [fst snd]. lia. Qed.

Lemma In_cls_cons n x l : In_cls n (x :: l) <-> In_cl n x \/ In_cls n l.
Proof.
  unfold In_cls; split.
  - intros [i [[Hi|Hi] Hn]]; [left; subst; auto | right; exists i; auto].
  - intros [H|[i [Hi Hn]]]; [exists x; split; [left; auto|auto] | exists i; split; [right; auto|auto]].
Qed.

Lemma merge_from_in_cl l : forall cur n,
  Forall (lo_le cur) l -> StronglySorted lo_le l ->
  (In_cls n (merge_from cur l) <-> In_cl n cur \/ In_cls n l).
Proof.
  induction l as [|i l IH]; intros cur n Hle Hs; simpl.
  - rewrite In_cls_cons. unfold In_cls. split; [intros [H|[j [[] _]]]; auto | intros [H|[j [[] _]]]; auto].
  - inversion Hle as [|i' l' Hci Hle']; subst.
    inversion Hs as [|i' l' Hs' Hil]; subst.
    destruct (snd cur + 1 <? fst i) eqn:E.
    + rewrite In_cls_cons, (IH i n Hil Hs'), In_cls_cons. tauto.
    + apply Z.ltb_ge in E.
      assert (Hle2 : Forall (lo_le (fst cur, Z.max (snd cur) (snd i))) l).
      { eapply Forall_impl; [|exact Hle']. intros a Ha. unfold lo_le in *; cbn [fst snd]; exact Ha. }
      rewrite (IH _ n Hle2 Hs'), In_cls_cons.
      rewrite (In_cl_merge2 n cur i Hci); [tauto|lia].
Qed.

Theorem merge_ok_member_closed l n : In_cls n (merge l) <-> In_cls n l.
Proof.
  unfold merge, merge_sorted.
  assert (Hin : forall i, In i (sort_lo l) <-> In i l) by (intro i; apply sort_lo_in).
  assert (Hs := sort_lo_sorted l).
  assert (Heq : In_cls n (sort_lo l) <-> In_cls n l).
  { unfold In_cls; split; intros [i [Hi Hn]]; exists i; split; auto; apply Hin; auto. }
  rewrite <- Heq. destruct (sort_lo l) as [|x t].
  - tauto.
  - inversion Hs as [|x' t' Hs' Hall]; subst.
    rewrite (merge_from_in_cl t x n Hall Hs'), In_cls_cons. tauto.
Qed.

(* output: strictly increasing, pairwise disjoint, never adjacent *)
Lemma merge_from_hd l : forall cur, exists hi rest, merge_from cur l = (fst cur, hi) :: rest.
Proof.
  induction l as [|i l IH]; intro cur; simpl.
  - exists (snd cur), []. destruct cur; reflexivity.
  - destruct (snd cur + 1 <? fst i).
    + exists (snd cur), (merge_from i l). destruct cur; reflexivity.
    + destruct (IH (fst cur, Z.max (snd cur) (snd i))) as [hi [rest H]]. exists hi, rest. exact H.
Qed.

Lemma merge_from_separated l : forall cur, separated (merge_from cur l).
Proof.
  induction l as [|i l IH]; intro cur; simpl; [exact I|].
  destruct (snd cur + 1 <? fst i) eqn:E.
  - destruct (merge_from_hd l i) as [hi [rest H]]. specialize (IH i). rewrite H in *.
    simpl. split; [apply Z.ltb_lt in E; exact E | exact IH].
  - apply IH.
Qed.

Theorem merge_ok_separated l : separated (merge l).
Proof.
  unfold merge, merge_sorted. destruct (sort_lo l) as [|x t]; [exact I | apply merge_from_separated].
Qed.

Lemma merge_from_wf l : forall cur, wf_iv cur -> Forall wf_iv l -> Forall wf_iv (merge_from cur l).
Proof.
  induction l as [|i l IH]; intros cur Hc Hl; simpl.
  - constructor; [exact Hc|constructor].
  - inversion Hl as [|i' l' Hi Hl']; subst. destruct (snd cur + 1 <? fst i).
    + constructor; [exact Hc | apply IH; assumption].
    + apply IH; [unfold wf_iv in *; cbn [fst snd]; lia | exact Hl'].
Qed.

Theorem merge_ok_wf l : Forall wf_iv l -> Forall wf_iv (merge l).
Proof.
  intro H. unfold merge, merge_sorted.
  assert (H2 : Forall wf_iv (sort_lo l)).
  { apply Forall_forall. intros i Hi. rewrite Forall_forall in H. apply H, sort_lo_in, Hi. }
  destruct (sort_lo l) as [|x t]; [constructor|].
  inversion H2; subst. apply merge_from_wf; assumption.
Qed.

Lemma merge_from_bounded l : forall cur, bounded cur -> Forall bounded l -> Forall bounded (merge_from cur l).
Proof.
  induction l as [|i l IH]; intros cur Hc Hl; simpl.
  - constructor; [exact Hc|constructor].
  - inversion Hl as [|i' l' Hi Hl']; subst. destruct (snd cur + 1 <? fst i).
    + constructor; [exact Hc | apply IH; assumption].
    + apply IH; [unfold bounded in *; cbn [fst snd]; lia | exact Hl'].
Qed.

Lemma merge_bounded l : Forall bounded l -> Forall bounded (merge l).
Proof.
  intro H. unfold merge, merge_sorted.
  assert (H2 : Forall bounded (sort_lo l)).
  { apply Forall_forall. intros i Hi. rewrite Forall_forall in H. apply H, sort_lo_in, Hi. }
  destruct (sort_lo l) as [|x t]; [constructor|].
  inversion H2; subst. apply merge_from_bounded; assumption.
Qed.

Example merge_example :
  merge [(1, 2); (4, 5); (0, 1)] = [(0, 2); (4, 5)] /\ Forall bounded [(1, 2); (4, 5); (0, 1)].
Proof. split; [reflexivity | repeat constructor; unfold maxsize; simpl; lia]. Qed.

(* ================================================================== *)
(* digits                                                              *)
(* ================================================================== *)
Lemma digit_cases d : isdig d = true ->
  d = 48%N \/ d = 49%N \/ d = 50%N \/ d = 51%N \/ d = 52%N \/ d = 53%N \/ d = 54%N \/ d = 55%N
  \/ d = 56%N \/ d = 57%N.
Proof.
  unfold isdig. intro H. apply andb_true_iff in H as [H1 H2].
  apply N.leb_le in H1. apply N.leb_le in H2. lia.
Qed.

Ltac digits d H := apply digit_cases in H;
  destruct H as [H|[H|[H|[H|[H|[H|[H|[H|[H|H]]]]]]]]]; subst d.

Lemma star_zero_val s : star (fun u => u = [48%N]) s -> forall n, intval s = Some n -> n = 0.
Proof.
  intro H.
  assert (Hz : forall acc, digits_val s acc = acc * 10 ^ Z.of_nat (length s) /\ forallb isdig s = true).
  { induction H as [|u v Hu Hv IH]; intro acc.
    - simpl. split; [lia|reflexivity].
    - subst u. destruct (IH (acc * 10 + (Z.of_N 48 - 48))) as [IH1 IH2].
      split; [|simpl; exact IH2].
      change (([48%N] ++ v)) with (48%N :: v). cbn [digits_val length].
      rewrite IH1. rewrite Nat2Z.inj_succ, Z.pow_succ_r by lia. simpl (Z.of_N 48 - 48). lia. }
  intros n Hn. inversion H as [E|u v Hu Hv E].
  - subst s. simpl in Hn. discriminate.
  - subst u. simpl in E. subst s. destruct (Hz 0) as [Hv1 Hv2].
    assert (Hi : intval (48%N :: v) = (if forallb isdig (48%N :: v) then Some (digits_val (48%N :: v) 0) else None))
      by reflexivity.
    unfold str, chr in *. rewrite Hi, Hv2 in Hn.
    assert (Hn' : n = digits_val (48%N :: v) 0) by congruence. rewrite Hn', Hv1. lia.
Qed.

(* ================================================================== *)
(* numeric_intervals_from_regex on the concatenation-free documented shape *)
(* ================================================================== *)
Lemma nifr_single q f d : isdig d = true ->
  nifr q (S f) (RStr [d]) = Val (Some [(Z.of_N d - 48, Z.of_N d - 48)]).
Proof. intro H. digits d H; reflexivity. Qed.

Lemma nifr_range q f a b : isdig a = true -> isdig b = true -> (a <= b)%N ->
  nifr q (S f) (RRange [a] [b]) = Val (Some [(Z.of_N a - 48, Z.of_N b - 48)]).
Proof. intros Ha Hb Hab. digits a Ha; digits b Hb; try reflexivity; exfalso; lia. Qed.

Lemma merge_outs_val a b ivs :
  merge_outs [a; b] = Val (Some ivs) ->
  exists ia ib, a = Val (Some ia) /\ b = Val (Some ib) /\ ivs = merge (ia ++ ib).
Proof.
  unfold merge_outs, outs_all, out_bind. intro H.
  destruct a as [| |[ia|]]; try discriminate;
  destruct b as [| |[ib|]]; try discriminate.
  simpl in H. rewrite app_nil_r in H. inversion H. exists ia, ib. auto.
Qed.

Lemma basic_nifr q r : basic r -> forall fuel ivs, nifr q fuel r = Val (Some ivs) ->
  Forall bounded ivs /\
  (forall s n, matches r s -> intval s = Some n -> In_ivs n ivs) /\
  (has_full r = false -> forall n, In_ivs n ivs -> exists s, matches r s /\ intval s = Some n).
Proof.
  intro Hb. induction Hb as [d Hd|a b Ha Hb Hab| | | | |a b Ba IHa Bb IHb]; intros fuel ivs Hn.
  - (* single digit *)
    destruct fuel as [|f]; [discriminate|]. rewrite (nifr_single q f d Hd) in Hn. inversion Hn; subst ivs.
    split; [|split].
    + constructor; [|constructor]. digits d Hd; unfold bounded, maxsize; simpl; lia.
    + intros s n Hm Hv. simpl in Hm. subst s. exists (Z.of_N d - 48, Z.of_N d - 48). split; [left; reflexivity|].
      digits d Hd; simpl in Hv; inversion Hv; unfold In_iv; simpl; lia.
    + intros _ n [i [[Hi|[]] Hin]]. subst i. exists [d]. split; [reflexivity|].
      unfold In_iv, maxsize in Hin. simpl in Hin.
      digits d Hd; simpl in *; f_equal; lia.
  - (* range *)
    destruct fuel as [|f]; [discriminate|]. rewrite (nifr_range q f a b Ha Hb Hab) in Hn. inversion Hn; subst ivs.
    split; [|split].
    + constructor; [|constructor]. digits a Ha; digits b Hb; unfold bounded, maxsize; simpl; lia.
    + intros s n [lo [hi [x [E1 [E2 [E3 [L1 L2]]]]]]] Hv. inversion E1; inversion E2; subst lo hi s.
      exists (Z.of_N a - 48, Z.of_N b - 48). split; [left; reflexivity|].
      assert (Hx : isdig x = true).
      { unfold isdig in *. apply andb_true_iff in Ha as [A1 A2]. apply andb_true_iff in Hb as [B1 B2].
        apply N.leb_le in A1, A2, B1, B2. apply andb_true_iff. split; apply N.leb_le; lia. }
      assert (Hvx : n = Z.of_N x - 48).
      { digits x Hx; simpl in Hv; inversion Hv; reflexivity. }
      unfold In_iv; simpl. lia.
    + intros _ n [i [[Hi|[]] Hin]]. subst i. unfold In_iv, maxsize in Hin. simpl in Hin.
      assert (A : 48 <= Z.of_N a <= 57 /\ 48 <= Z.of_N b <= 57).
      { unfold isdig in *. apply andb_true_iff in Ha as [A1 A2]. apply andb_true_iff in Hb as [B1 B2].
        apply N.leb_le in A1, A2, B1, B2. lia. }
      exists [Z.to_N (n + 48)]. split.
      * exists a, b, (Z.to_N (n + 48)). repeat split; lia.
      * assert (Hx : isdig (Z.to_N (n + 48)) = true).
        { unfold isdig. apply andb_true_iff. split; apply N.leb_le; lia. }
        assert (Hq : Z.of_N (Z.to_N (n + 48)) = n + 48) by lia.
        revert Hq. generalize (Z.to_N (n + 48)) Hx. intros x Hx' Hq.
        digits x Hx'; simpl in *; f_equal; lia.
  - (* 0* *)
    destruct fuel as [|[|f]]; try discriminate. cbn in Hn. inversion Hn; subst ivs.
    split; [|split].
    + constructor; [unfold bounded, maxsize; simpl; lia|constructor].
    + intros s n Hm Hv. simpl in Hm. exists (0, 0). split; [left; reflexivity|].
      rewrite (star_zero_val s Hm n Hv). unfold In_iv; simpl; lia.
    + intros _ n [i [[Hi|[]] Hin]]. subst i. unfold In_iv, maxsize in Hin; simpl in Hin.
      exists [48%N]. split.
      * simpl. change [48%N] with ([48%N] ++ []). constructor; [reflexivity|constructor].
      * simpl. f_equal. lia.
  - (* 0+ *)
    destruct fuel as [|[|f]]; try discriminate. cbn in Hn. inversion Hn; subst ivs.
    split; [|split].
    + constructor; [unfold bounded, maxsize; simpl; lia|constructor].
    + intros s n Hm Hv. simpl in Hm. destruct Hm as [u [v [E [Hu Hv']]]]. exists (0, 0). split; [left; reflexivity|].
      assert (Hs : star (fun u => u = [48%N]) s) by (subst s; constructor; assumption).
      rewrite (star_zero_val s Hs n Hv). unfold In_iv; simpl; lia.
    + intros _ n [i [[Hi|[]] Hin]]. subst i. unfold In_iv, maxsize in Hin; simpl in Hin.
      exists [48%N]. split.
      * simpl. exists [48%N], []. repeat split. constructor.
      * simpl. f_equal. lia.
  - (* [0-9]* *)
    destruct fuel as [|[|f]]; try discriminate. cbn in Hn. inversion Hn; subst ivs.
    split; [|split].
    + constructor; [unfold bounded, maxsize; simpl; lia|constructor].
    + intros s n _ _. exists (- maxsize, maxsize). split; [left; reflexivity|]. unfold In_iv; simpl; auto.
    + intro Hf. discriminate.
  - (* [0-9]+ *)
    destruct fuel as [|[|f]]; try discriminate. cbn in Hn. inversion Hn; subst ivs.
    split; [|split].
    + constructor; [unfold bounded, maxsize; simpl; lia|constructor].
    + intros s n _ _. exists (- maxsize, maxsize). split; [left; reflexivity|]. unfold In_iv; simpl; auto.
    + intro Hf. discriminate.
  - (* union *)
    destruct fuel as [|f]; [discriminate|]. cbn [nifr] in Hn.
    apply merge_outs_val in Hn. destruct Hn as [ia [ib [Ea [Eb Ei]]]].
    destruct (IHa f ia Ea) as [Ba1 [Oa Xa]]. destruct (IHb f ib Eb) as [Bb1 [Ob Xb]].
    assert (Bab : Forall bounded (ia ++ ib)) by (apply Forall_app; split; assumption).
    subst ivs. split; [|split].
    + apply merge_bounded. exact Bab.
    + intros s n Hm Hv. apply (proj2 (merge_ok_member (ia ++ ib) n Bab)). apply In_ivs_app.
      simpl in Hm. destruct Hm as [Hm|Hm]; [left; eapply Oa; eauto | right; eapply Ob; eauto].
    + intros Hf n Hin. simpl in Hf. apply orb_false_iff in Hf as [Hfa Hfb].
      apply (proj1 (merge_ok_member (ia ++ ib) n Bab)) in Hin. apply In_ivs_app in Hin.
      destruct Hin as [Hin|Hin].
      * destruct (Xa Hfa n Hin) as [s [Hm Hv]]. exists s. split; [left; exact Hm|exact Hv].
      * destruct (Xb Hfb n Hin) as [s [Hm Hv]]. exists s. split; [right; exact Hm|exact Hv].
Qed.

(* over-approximation half, concatenation-free documented shape, NO guard *)
Theorem basic_overapprox q r fuel ivs s n :
  basic r -> nifr q fuel r = Val (Some ivs) -> matches r s -> intval s = Some n -> In_ivs n ivs.
Proof. intros Hb Hn Hm Hv. destruct (basic_nifr q r Hb fuel ivs Hn) as [_ [H _]]. eapply H; eauto. Qed.

(* exact half, guarded by ~K_full_sign *)
Theorem basic_exact q r fuel ivs n :
  basic r -> K_full_sign r = false -> nifr q fuel r = Val (Some ivs) ->
  (In_ivs n ivs <-> exists s, matches r s /\ intval s = Some n).
Proof.
  intros Hb Hk Hn. destruct (basic_nifr q r Hb fuel ivs Hn) as [_ [Ho Hx]]. split.
  - apply Hx. exact Hk.
  - intros [s [Hm Hv]]. eapply Ho; eauto.
Qed.

Example basic_example :
  basic (RUnion (RStr [54%N]) (RRange [49%N] [52%N])) /\
  K_full_sign (RUnion (RStr [54%N]) (RRange [49%N] [52%N])) = false /\
  nifr_top true (RUnion (RStr [54%N]) (RRange [49%N] [52%N])) = Val (Some [(1, 4); (6, 6)]).
Proof.
  split; [|split; reflexivity].
  apply b_union; [apply b_single; reflexivity | apply b_range; try reflexivity; lia].
Qed.

(* the <full> shape refutes exactness: -1 is in the reported interval, no matched string has value -1 *)
Lemma star_digits_no_sign s : star (matches r09) s -> forall n, intval s = Some n -> 0 <= n.
Proof.
  intro H.
  assert (Hz : forall acc, 0 <= acc -> 0 <= digits_val s acc).
  { induction H as [|u v Hu Hv IH]; intros acc Hacc; simpl; [exact Hacc|].
    destruct Hu as [lo [hi [x [E1 [E2 [E3 [L1 L2]]]]]]]. inversion E1; inversion E2; subst.
    cbn [app digits_val]. apply IH. lia. }
  intros n Hn. inversion H as [E|u v Hu Hv E].
  - subst s. simpl in Hn. discriminate.
  - destruct Hu as [lo [hi [x [E1 [E2 [E3 [L1 L2]]]]]]]. inversion E1; inversion E2; subst.
    cbn [app] in *.
    assert (Hx : isdig x = true) by (unfold isdig; apply andb_true_iff; split; apply N.leb_le; lia).
    assert (Hi : intval (x :: v) = numeral (x :: v)) by (digits x Hx; reflexivity).
    unfold str, chr in *. rewrite Hi in Hn.
    change (numeral (x :: v)) with (if forallb isdig (x :: v) then Some (digits_val (x :: v) 0) else None) in Hn.
    destruct (forallb isdig (x :: v)); [|discriminate].
    assert (Hn' : n = digits_val (x :: v) 0) by congruence. rewrite Hn'. apply Hz. lia.
Qed.

Theorem full_refuted :
  exists r ivs n, documented_shapeb r = true /\ nifr_top true r = Val (Some ivs) /\ In_ivs n ivs /\
                  ~ exists s, matches r s /\ intval s = Some n.
Proof.
  exists (RStar r09), [(- maxsize, maxsize)], (-1). split; [reflexivity|split; [reflexivity|split]].
  - exists (- maxsize, maxsize). split; [left; reflexivity|]. unfold In_iv; simpl; auto.
  - intros [s [Hm Hv]]. simpl in Hm. pose proof (star_digits_no_sign s Hm (-1) Hv). lia.
Qed.

(* a sign behind zero padding: in the documented shape, no <full> element, still not exact *)
Theorem inner_sign_refuted :
  exists r ivs n, documented_shapeb r = true /\ K_full_sign r = false /\ K_inner_sign r = true /\
                  nifr_top true r = Val (Some ivs) /\ In_ivs n ivs /\
                  ~ exists s, matches r s /\ intval s = Some n.
Proof.
  exists (RConcat zero_lit (RConcat re_minus_sign (RRange [49%N] [57%N]))), [(-9, -1)], (-5).
  split; [reflexivity|split; [reflexivity|split; [reflexivity|split; [reflexivity|split]]]].
  - exists (-9, -1). split; [left; reflexivity|]. unfold In_iv, maxsize; simpl; lia.
  - intros [s [Hm Hv]]. simpl in Hm.
    destruct Hm as [u [v [E [Hu [u2 [v2 [E2 [Hu2 [lo [hi [x [A [B [C D]]]]]]]]]]]]]].
    subst. simpl in Hv. discriminate.
Qed.

(* OUTSIDE the documented shape the `value_or(lambda: False)` quirk makes the result unsound:
   Star(Option(Re("5"))) is given [(0,0)] but matches "5" *)
Theorem valueor_lambda_refuted :
  exists r ivs s n, K_valueor_lambda r = true /\ nifr_top true r = Val (Some ivs) /\
                    matches r s /\ intval s = Some n /\ ~ In_ivs n ivs /\
                    nifr_top false r = Val None.
Proof.
  exists (RStar (ROpt (RStr [53%N]))), [(0, 0)], [53%N], 5.
  split; [reflexivity|split; [reflexivity|split; [|split; [reflexivity|split; [|reflexivity]]]]].
  - simpl. change [53%N] with ([53%N] ++ []). constructor; [right; reflexivity|constructor].
  - intros [i [[Hi|[]] Hin]]. subst i. unfold In_iv, maxsize in Hin. simpl in Hin. lia.
Qed.

(* OUTSIDE the documented shape: an element of value zero that can carry a sign is stripped as zero padding.
   Concat(Star(Concat(Option(Re("-")), Re("0"))), Range("1","2")) is given [(1,2)] but matches "-01" (= -1).
   Holds for the repaired code (q = false) as well as for q = true. *)
Theorem signed_zero_refuted :
  exists r ivs s n, K_signed_zero r = true /\ documented_shapeb r = false /\
                    nifr_top false r = Val (Some ivs) /\ nifr_top true r = Val (Some ivs) /\
                    matches r s /\ intval s = Some n /\ ~ In_ivs n ivs.
Proof.
  exists (RConcat (RStar (RConcat (ROpt re_minus_sign) zero_lit)) (RRange [49%N] [50%N])),
         [(1, 2)], [45%N; 48%N; 49%N], (-1).
  split; [reflexivity|split; [reflexivity|split; [reflexivity|split; [reflexivity|split; [|split; [reflexivity|]]]]]].
  - simpl. exists [45%N; 48%N], [49%N]. split; [reflexivity|split].
    + change [45%N; 48%N] with ([45%N; 48%N] ++ []). constructor; [|constructor].
      exists [45%N], [48%N]. split; [reflexivity|split; [right; reflexivity|reflexivity]].
    + exists 49%N, 50%N, 49%N. repeat split; lia.
  - intros [i [[Hi|[]] Hin]]. subst i. unfold In_iv, maxsize in Hin. simpl in Hin. lia.
Qed.

(* the class never meets the documented shape *)
Lemma has_sign_recognized_star c :
  (re_eqb c zero_lit || re_eqb c (RRange [48%N] [48%N]) || re_eqb c r09) = true -> has_sign c = false /\ signed_zero c = false.
Proof.
  intro H. apply orb_true_iff in H as [H|H]; [apply orb_true_iff in H as [H|H]|];
    apply re_eqb_eq in H; subst c; split; reflexivity.
Qed.

Theorem signed_zero_outside_shape r : recognizedb r = true -> K_signed_zero r = false.
Proof.
  unfold K_signed_zero. induction r as [w|a b|c IH|c IH|c IH|a IHa b IHb|a IHa b IHb|a IHa b IHb|c IH| |]; intro H;
    simpl in *; try discriminate H; try reflexivity.
  - destruct w as [|x [|y w]]; [reflexivity|reflexivity|discriminate H].
  - destruct (has_sign_recognized_star c H) as [H1 H2]. rewrite H1, H2. reflexivity.
  - destruct (has_sign_recognized_star c H) as [H1 H2]. rewrite H1, H2. reflexivity.
  - unfold sign_lit in H. apply orb_true_iff in H. destruct c as [w|a b| | | | | | | | |]; try (destruct H; discriminate).
    destruct w as [|x [|y w]]; try reflexivity. destruct H as [H|H]; simpl in H; rewrite andb_false_r in H; discriminate.
  - apply andb_true_iff in H as [Ha Hb]. rewrite (IHa Ha), (IHb Hb). reflexivity.
  - apply andb_true_iff in H as [Ha Hb]. rewrite (IHa Ha), (IHb Hb). reflexivity.
Qed.
