(* C15 — MODEL of isla.helpers.merge_intervals, isla.z3_helpers.compress_concatenation_elements
   and isla.z3_helpers.numeric_intervals_from_regex (with its chain
   regex_range -> seq_to_re -> union -> zeroes -> full_range -> concat -> Nothing).
   Mirrors the Python code as it is (quirks included).  No proofs in this file. *)
From Coq Require Import List NArith ZArith Bool.
From ISLA Require Import Str Outcome IvRe.
Import ListNotations.
Open Scope Z_scope.

Definition iv := (Z * Z)%type.
Definition maxsize : Z := 9223372036854775807.      (* sys.maxsize *)

(* ------------------------------------------------------------------ *)
(* seqref_to_int : Python int(str), for strings over ASCII             *)
(* ------------------------------------------------------------------ *)
Definition is_digit (c : chr) : bool := (N.leb 48 c && N.leb c 57)%N.
Definition digit_val (c : chr) : Z := Z.of_N c - 48.
Definition is_ws (c : chr) : bool :=
  ((N.leb 9 c && N.leb c 13) || (N.leb 28 c && N.leb c 32))%N.

Fixpoint lstrip (s : str) : str :=
  match s with c :: s' => if is_ws c then lstrip s' else s | [] => [] end.
Definition strip (s : str) : str := rev (lstrip (rev (lstrip s))).

(* digits with single underscores between digits ("1_0" is 10) *)
Fixpoint py_digits (s : str) (acc : Z) (prev_digit : bool) : option Z :=
  match s with
  | [] => if prev_digit then Some acc else None
  | c :: s' =>
      if is_digit c then py_digits s' (acc * 10 + digit_val c) true
      else if N.eqb c 95 then (if prev_digit then py_digits s' acc false else None)
      else None
  end.

Definition py_int (s : str) : option Z :=
  match strip s with
  | 43%N :: t => py_digits t 0 false
  | 45%N :: t => option_map Z.opp (py_digits t 0 false)
  | t => py_digits t 0 false
  end.

(* ONE_DIGIT_REGEX.match(s): PREFIX match of [0-9] *)
Definition starts_digit (s : str) : bool :=
  match s with c :: _ => is_digit c | [] => false end.

(* ------------------------------------------------------------------ *)
(* merge_intervals                                                     *)
(* ------------------------------------------------------------------ *)
(* sorted(l, key=lambda i: i[0]) : stable *)
Fixpoint insert_lo (x : iv) (l : list iv) : list iv :=
  match l with
  | [] => [x]
  | y :: l' => if fst x <=? fst y then x :: y :: l' else y :: insert_lo x l'
  end.
Fixpoint sort_lo (l : list iv) : list iv :=
  match l with [] => [] | x :: l' => insert_lo x (sort_lo l') end.

(* reduce(... acc[:-1] + merge_two_intervals(acc[-1], interval) ...): `cur` is acc[-1] *)
Fixpoint merge_from (cur : iv) (l : list iv) : list iv :=
  match l with
  | [] => [cur]
  | i :: l' =>
      if snd cur + 1 <? fst i then cur :: merge_from i l'
      else merge_from (fst cur, Z.max (snd cur) (snd i)) l'
  end.
Definition merge_sorted (l : list iv) : list iv :=
  match l with [] => [] | x :: l' => merge_from x l' end.
Definition merge (l : list iv) : list iv := merge_sorted (sort_lo l).

Fixpoint all_some {A} (ls : list (option (list A))) : option (list A) :=
  match ls with
  | [] => Some []
  | None :: _ => None
  | Some l :: ls' => match all_some ls' with Some r => Some (l ++ r) | None => None end
  end.
(* merge_intervals( *maybes ) *)
Definition merge_maybe (ls : list (option (list iv))) : option (list iv) :=
  option_map merge (all_some ls).

(* ------------------------------------------------------------------ *)
(* compress_concatenation_elements                                     *)
(* ------------------------------------------------------------------ *)
Definition is_star (r : re) : bool := match r with RStar _ => true | _ => false end.
Definition is_plus (r : re) : bool := match r with RPlus _ => true | _ => false end.
Definition is_union (r : re) : bool := match r with RUnion _ _ => true | _ => false end.
Definition key (r : re) : re := match r with RStar c | RPlus c => c | _ => r end.
(* children()[0] when it is a regular expression (None: string child or no child) *)
Definition kid0 (r : re) : option re :=
  match r with
  | RStar c | RPlus c | ROpt c | RComp c => Some c
  | RUnion a _ | RConcat a _ | RInter a _ => Some a
  | _ => None
  end.
Definition kid0_is (o c : re) : bool :=
  match kid0 o with Some k => re_eqb k c | None => false end.

(* itertools.groupby(l, key) *)
Fixpoint groupby (l : list re) : list (list re) :=
  match l with
  | [] => []
  | x :: l' =>
      match groupby l' with
      | (y :: g) :: gs => if re_eqb (key x) (key y) then (x :: y :: g) :: gs
                          else [x] :: (y :: g) :: gs
      | gs => [x] :: gs
      end
  end.

(* elements of g at positions other than i  (`other_elem is not elem`) *)
Fixpoint others_at {A} (i : nat) (g : list A) : list A :=
  match g, i with
  | [], _ => []
  | _ :: g', O => g'
  | x :: g', S j => x :: others_at j g'
  end.
Fixpoint forall_idx {A} (f : nat -> A -> bool) (i : nat) (l : list A) : bool :=
  match l with [] => true | x :: l' => f i x && forall_idx f (S i) l' end.

Definition assert_plus_group (g : list re) : bool :=
  forall_idx (fun i e => negb (is_star e) ||
     existsb (fun o => re_eqb o (key e) || kid0_is o (key e)) (others_at i g)) O g.
Definition assert_star_group (g : list re) : bool :=
  forallb (fun e => negb (is_star e) ||
     (let os := filter (fun o => negb (re_eqb o e)) g in
      existsb (fun o => re_eqb o (key e)) os && forallb (fun o => re_eqb o (key e)) os)) g.

Definition unplus (r : re) : re := match r with RPlus c => c | _ => r end.

Definition compress_group (g : list re) : res (list re) :=
  match g with
  | [] => Ok []
  | [x] => Ok [x]
  | x :: _ =>
      if forallb is_star g then Ok [x]
      else if existsb is_plus g then
        if assert_plus_group g then
          let cl := filter (fun e => negb (is_star e)) g in
          let cl := filter (fun e => negb (is_plus e)) cl ++ filter is_plus cl in
          Ok (map unplus (removelast cl) ++ [last cl x])
        else Raise AssertErr
      else if existsb is_star g then
        if assert_star_group g then
          let cl := filter (fun e => negb (is_star e)) g in
          Ok (removelast cl ++ [RPlus (last cl x)])
        else Raise AssertErr
      else if forallb (fun e => re_eqb e x) g then Ok g
      else Raise AssertErr
  end.

Fixpoint compress_groups (gs : list (list re)) : res (list re) :=
  match gs with
  | [] => Ok []
  | g :: gs' => bind (compress_group g) (fun a => bind (compress_groups gs') (fun b => Ok (a ++ b)))
  end.
Definition compress (l : list re) : res (list re) := compress_groups (groupby l).

Fixpoint re_list_eqb (a b : list re) : bool :=
  match a, b with
  | [], [] => true
  | x :: a', y :: b' => re_eqb x y && re_list_eqb a' b'
  | _, _ => false
  end.

(* ------------------------------------------------------------------ *)
(* numeric_intervals_from_regex                                        *)
(* ------------------------------------------------------------------ *)
Inductive out := OutOfFuel | Exn (e : exn) | Val (v : option (list iv)).

Definition iv_eqb (a b : iv) : bool := (fst a =? fst b) && (snd a =? snd b).
Fixpoint ivs_eqb (a b : list iv) : bool :=
  match a, b with
  | [], [] => true
  | x :: a', y :: b' => iv_eqb x y && ivs_eqb a' b'
  | _, _ => false
  end.
Definition out_eqb (a b : out) : bool :=
  match a, b with
  | OutOfFuel, OutOfFuel => true
  | Exn e, Exn f => exn_eqb e f
  | Val None, Val None => true
  | Val (Some x), Val (Some y) => ivs_eqb x y
  | _, _ => false
  end.

(* `m.map(lambda i: i == target).value_or(False)` *)
Definition is_ivs (o : option (list iv)) (target : list iv) : bool :=
  match o with Some l => ivs_eqb l target | None => false end.
(* `m.map(lambda i: i == target).value_or(lambda: False)`: on Nothing the DEFAULT, a lambda
   object, is returned — and a function object is truthy.  q = true models the code as it is. *)
Definition is_ivs_q (q : bool) (o : option (list iv)) (target : list iv) : bool :=
  match o with Some l => ivs_eqb l target | None => q end.

Definition c_plus : chr := 43%N.
Definition c_minus : chr := 45%N.
Definition r09 : re := RRange [48%N] [57%N].
Definition re_plus_sign : re := RStr [c_plus].
Definition re_minus_sign : re := RStr [c_minus].

(* z3_split_at_operator(regex, Z3_OP_RE_CONCAT) *)
Fixpoint split_concat (r : re) : list re :=
  match r with RConcat a b => split_concat a ++ split_concat b | _ => [r] end.

(* replace_in_z3_expr: every Range(c, c) becomes Re(c), at any depth *)
Fixpoint norm_range (r : re) : re :=
  match r with
  | RRange a b => if str_eqb a b then RStr a else r
  | RStar a => RStar (norm_range a)
  | RPlus a => RPlus (norm_range a)
  | ROpt a => ROpt (norm_range a)
  | RComp a => RComp (norm_range a)
  | RUnion a b => RUnion (norm_range a) (norm_range b)
  | RConcat a b => RConcat (norm_range a) (norm_range b)
  | RInter a b => RInter (norm_range a) (norm_range b)
  | _ => r
  end.

(* z3.Concat(x, *rest) for len >= 2 (left-nested); z3 raises for fewer than two arguments *)
Definition mk_concat (x : re) (rest : list re) : re := fold_left RConcat rest x.

Definition neg_ivs (l : list iv) : list iv := map (fun i : iv => (- snd i, - fst i)) (rev l).

Definition out_bind (o : out) (f : option (list iv) -> out) : out :=
  match o with Val v => f v | _ => o end.

Fixpoint outs_all (os : list out) : out :=      (* evaluate all, then merge_intervals *)
  match os with
  | [] => Val (Some [])
  | o :: os' => out_bind o (fun v => out_bind (outs_all os') (fun w =>
                  Val (match v, w with Some a, Some b => Some (a ++ b) | _, _ => None end)))
  end.
Definition merge_outs (os : list out) : out :=
  out_bind (outs_all os) (fun v => Val (option_map merge v)).

Section NIFR.
  Variable q : bool.        (* true: `value_or(lambda: False)` as in the code *)

  (* the zero-stripping loop: returns the remaining children *)
  Fixpoint strip_zeroes (rec : re -> out) (cs : list re) : out * list re :=
    match cs with
    | [] => (Val None, [])
    | c :: cs' =>
        match rec c with
        | Val v => if is_ivs v [(0, 0)] then strip_zeroes rec cs' else (Val None, cs)
        | o => (o, cs)
        end
    end.

  Definition concat_tail (rec : re -> out) (rest : list re) : out :=
    match rest with
    | [] => Exn OtherErr                 (* z3.Concat() of no arguments *)
    | [x] => rec x
    | x :: rest' => rec (mk_concat x rest')
    end.

  Fixpoint nifr (fuel : nat) (r : re) : out :=
    match fuel with
    | O => OutOfFuel
    | S f =>
      let rec := nifr f in
      match r with
      | RRange a b =>
          if starts_digit a && starts_digit b then
            Val (match py_int a, py_int b with
                 | Some lo, Some hi => if lo <=? hi then Some [(lo, hi)] else None
                 | _, _ => None
                 end)
          else Val None
      | RStr w => Val (option_map (fun n => [(n, n)]) (py_int w))
      | RUnion a b => merge_outs [rec a; rec b]
      | RStar c | RPlus c =>
          out_bind (rec c) (fun v =>
            if is_ivs_q q v [(0, 0)] then Val (Some [(0, 0)])
            else if re_eqb c r09 then Val (Some [(- maxsize, maxsize)])
            else Val None)
      | RConcat _ _ =>
          match compress (map norm_range (split_concat r)) with
          | Raise e => Exn e
          | Ok [] => Exn IndexErr
          | Ok (first :: rest) =>
              if is_union first || re_eqb first (ROpt re_minus_sign) then
                let alts := match first with RUnion a b => [a; b]
                                           | _ => [re_plus_sign; re_minus_sign] end in
                match rest with
                | [] => Exn OtherErr     (* z3.Concat(x): "At least two arguments expected" *)
                | _ => merge_outs (map (fun x => rec (mk_concat x rest)) alts)
                end
              else if re_eqb first re_plus_sign || re_eqb first (ROpt re_plus_sign) then
                concat_tail rec rest
              else if re_eqb first re_minus_sign then
                out_bind (concat_tail rec rest) (fun v => Val (option_map neg_ivs v))
              else
                match strip_zeroes rec (first :: rest) with
                | (Val _, remaining) =>
                    if Nat.ltb (length remaining) (length (first :: rest)) then
                      match remaining with
                      | [] => Val (Some [(0, 0)])
                      | [x] => rec x
                      | x :: more => rec (mk_concat x more)
                      end
                    else
                      match first :: rest with
                      | [c0; c1] =>
                          out_bind (rec c0) (fun v0 =>
                            if is_ivs v0 [(1, 9)] && is_star c1 && re_eqb (key c1) r09
                            then Val (Some [(1, maxsize)])
                            else if is_ivs_q q v0 [(1, 9)] && is_plus c1 && re_eqb (key c1) r09
                            then Val (Some [(10, maxsize)])
                            else if is_ivs_q q v0 [(0, 9)] && (is_plus c1 || is_star c1)
                                    && re_eqb (key c1) r09
                            then Val (Some [(0, maxsize)])
                            else Val None)
                      | _ => Val None
                      end
                | (o, _) => o
                end
          end
      | _ => Val None
      end
    end.
End NIFR.

Definition nifr_top (q : bool) (r : re) : out := nifr q (S (re_size r)) r.
