(* CODE model, regex part: the Python `re` pattern TEXT that isla/z3_helpers.py builds for a z3
   regular expression, represented at the level at which sre_parse reads it:
   a sequence of ATOMS, each with the language it matches and a flag "already carries a
   quantifier".  The text-level facts this encodes (tied to the real `re` by the correspondence):
     re.escape(s)            -> one literal atom per character of s
     "[a-b]"                 -> one class atom (a, b plain characters, a <= b; a > b: re.error)
     "(X)*" "(X)+" "(X)?"    -> one quantified group atom
     "((A)|(B))"             -> one group atom
     X + "{lo,hi}"           -> the quantifier binds ONLY THE LAST ATOM of X;
                                re.error if X is empty, its last atom is quantified, or lo > hi
     ".*?"                   -> quantified atom: any characters except newline
     re.match("^" + P + "$") -> P matches the whole string, or the string minus one final newline
   [None] stands for a text that re.compile rejects (re.error is raised when str.in_re runs). *)
From Coq Require Import List NArith Bool.
From ISLA Require Import Str Regex.
Import ListNotations.
Local Open Scope N_scope.

Record piece := mkPiece { p_re : regex; p_q : bool }.
Definition pat := option (list piece).

Fixpoint seqp (ps : list piece) : regex :=
  match ps with
  | [] => REps
  | p :: ps' => RCat (p_re p) (seqp ps')
  end.

Definition pat_lit (s : str) : pat := Some (map (fun c => mkPiece (RChar c) false) s).

Definition pat_group (f : regex -> regex) (p : pat) : pat :=
  option_map (fun ps => [mkPiece (f (seqp ps)) true]) p.

Definition pat_union (a b : pat) : pat :=
  match a, b with
  | Some x, Some y => Some [mkPiece (RAlt (seqp x) (seqp y)) false]
  | _, _ => None
  end.

Definition pat_concat (a b : pat) : pat :=
  match a, b with
  | Some x, Some y => Some (x ++ y)
  | _, _ => None
  end.

Definition pat_loop (lo hi : nat) (p : pat) : pat :=
  match p with
  | None => None
  | Some ps =>
      match rev ps with
      | [] => None                                   (* nothing to repeat *)
      | x :: r =>
          if p_q x || Nat.ltb hi lo then None        (* multiple repeat / min > max *)
          else Some (rev r ++ [mkPiece (rloop (p_re x) lo hi) true])
      end
  end.

Definition c_nl : chr := 10%N.
Definition pat_all : pat := Some [mkPiece (RStar (RSet true [(c_nl, c_nl)])) true].

(* characters that change the reading of "[a-b]" *)
Definition plain_c (c : chr) : bool :=
  negb (N.eqb c 92 || N.eqb c 93 || N.eqb c 94 || N.eqb c 45 || N.eqb c 91).

Fixpoint ends_nl (s : str) : bool :=
  match s with
  | [] => false
  | [c] => N.eqb c c_nl
  | _ :: s' => ends_nl s'
  end.

(* re.match("^P$", s) is not None *)
Definition py_fullmatch (ps : list piece) (s : str) : bool :=
  rmatch (seqp ps) s || (ends_nl s && rmatch (seqp ps) (removelast s)).

(* str.replace of a two-character sequence x y by r (left to right, non-overlapping) *)
Fixpoint repl2 (x y r : chr) (s : str) : str :=
  match s with
  | a :: ((b :: s'') as s') =>
      if N.eqb a x && N.eqb b y then r :: repl2 x y r s'' else a :: repl2 x y r s'
  | _ => s
  end.

(* evaluate_z3_seq_to_re: "\t" "\n" "\r" "\v" "\f" written with a backslash become control chars *)
Definition tore_unescape (s : str) : str :=
  repl2 92 102 12 (repl2 92 118 11 (repl2 92 114 13 (repl2 92 110 10 (repl2 92 116 9 s)))).
