(* C15 — minimal regular-expression vocabulary used by the interval-inference model.

   AST of the Z3 regular expressions that `numeric_intervals_from_regex` /
   `compress_concatenation_elements` inspect.  In the installed Z3, `z3.Union(a,b,c)` and
   `z3.Concat(a,b,c)` build LEFT-NESTED BINARY applications, so union / concat / intersect
   are binary here.  String literals are lists of code points (Base/Str.v).

   `matches` is the declarative language semantics (SMT-LIB / Z3 meaning of the operators);
   `matchb` is an executable Brzozowski-derivative matcher used by the correspondence with
   Z3's own `InRe` (its equivalence with `matches` is NOT proved; both are transcriptions of the
   SMT-LIB operator meanings, `matchb` is the one tied to Z3 on every run).  No proofs in this file. *)
From Coq Require Import List NArith Bool.
From ISLA Require Import Str.
Import ListNotations.

Inductive re :=
| RStr (w : str)                (* z3.Re("w")         : seq.to.re of a string literal *)
| RRange (a b : str)            (* z3.Range("a","b")  : re.range of two string literals *)
| RStar (r : re)
| RPlus (r : re)
| ROpt (r : re)
| RUnion (r1 r2 : re)
| RConcat (r1 r2 : re)
| RInter (r1 r2 : re)
| RComp (r : re)
| RAllChar
| REmpty.

Fixpoint re_eqb (x y : re) : bool :=
  match x, y with
  | RStr v, RStr w => str_eqb v w
  | RRange a b, RRange c d => str_eqb a c && str_eqb b d
  | RStar a, RStar b | RPlus a, RPlus b | ROpt a, ROpt b | RComp a, RComp b => re_eqb a b
  | RUnion a b, RUnion c d | RConcat a b, RConcat c d | RInter a b, RInter c d =>
      re_eqb a c && re_eqb b d
  | RAllChar, RAllChar | REmpty, REmpty => true
  | _, _ => false
  end.

Fixpoint re_size (r : re) : nat :=
  match r with
  | RStr _ | RRange _ _ | RAllChar | REmpty => 1
  | RStar a | RPlus a | ROpt a | RComp a => S (re_size a)
  | RUnion a b | RConcat a b | RInter a b => S (re_size a + re_size b)
  end.

(* ---- declarative semantics ---- *)
Inductive star (P : str -> Prop) : str -> Prop :=
| star_nil : star P []
| star_app u v : P u -> star P v -> star P (u ++ v).

Fixpoint matches (r : re) (s : str) : Prop :=
  match r with
  | RStr w => s = w
  | RRange a b => exists lo hi x, a = [lo] /\ b = [hi] /\ s = [x] /\ (lo <= x)%N /\ (x <= hi)%N
  | RStar a => star (matches a) s
  | RPlus a => exists u v, s = u ++ v /\ matches a u /\ star (matches a) v
  | ROpt a => s = [] \/ matches a s
  | RUnion a b => matches a s \/ matches b s
  | RConcat a b => exists u v, s = u ++ v /\ matches a u /\ matches b v
  | RInter a b => matches a s /\ matches b s
  | RComp a => ~ matches a s
  | RAllChar => exists x, s = [x]
  | REmpty => False
  end.

(* language of the concatenation of a list of regular expressions *)
Fixpoint matches_cat (rs : list re) (s : str) : Prop :=
  match rs with
  | [] => s = []
  | r :: rs' => exists u v, s = u ++ v /\ matches r u /\ matches_cat rs' v
  end.

(* ---- executable matcher (derivatives) ---- *)
Fixpoint nullable (r : re) : bool :=
  match r with
  | RStr w => match w with [] => true | _ => false end
  | RRange _ _ | RAllChar | REmpty => false
  | RStar _ | ROpt _ => true
  | RPlus a => nullable a
  | RUnion a b => nullable a || nullable b
  | RConcat a b | RInter a b => nullable a && nullable b
  | RComp a => negb (nullable a)
  end.

Fixpoint deriv (c : chr) (r : re) : re :=
  match r with
  | RStr w => match w with x :: w' => if N.eqb x c then RStr w' else REmpty | [] => REmpty end
  | RRange a b =>
      match a, b with
      | [lo], [hi] => if N.leb lo c && N.leb c hi then RStr [] else REmpty
      | _, _ => REmpty
      end
  | RStar a => RConcat (deriv c a) (RStar a)
  | RPlus a => RConcat (deriv c a) (RStar a)
  | ROpt a => deriv c a
  | RUnion a b => RUnion (deriv c a) (deriv c b)
  | RConcat a b =>
      if nullable a then RUnion (RConcat (deriv c a) b) (deriv c b) else RConcat (deriv c a) b
  | RInter a b => RInter (deriv c a) (deriv c b)
  | RComp a => RComp (deriv c a)
  | RAllChar => RStr []
  | REmpty => REmpty
  end.

Fixpoint matchb (r : re) (s : str) : bool :=
  match s with
  | [] => nullable r
  | c :: s' => matchb (deriv c r) s'
  end.
