(* C15 — over-approximation half of numeric_intervals_from_regex on the recognised vocabulary,
   concatenations included, under the guard  inner_sign r = false  (no sign literal behind a concatenation).
   Invariant (Good): all bounds within +-maxsize, and every matched string whose LENIENT value
   (IvConcatFacts.lval) is n has n in the intervals. *)
From Coq Require Import List NArith ZArith Bool Lia.
From ISLA Require Import Str Outcome IvRe Intervals IvShape IvCompressFacts IntervalsFacts IvReFacts
                         IvCompressLang IvConcatFacts.
Import ListNotations.
Open Scope Z_scope.

Definition Good (r : re) (ivs : list iv) : Prop :=
  Forall bounded ivs /\ forall s n, matches r s -> lval s = Some n -> In_ivs n ivs.

(* ---- the concatenation case of nifr, as two named steps (convertible with the model) ---- *)
Definition elems_step (q : bool) (rec : re -> out) (first : re) (rest : list re) : out :=
  if is_union first || re_eqb first (ROpt re_minus_sign) then
    let alts := match first with RUnion a b => [a; b]
                               | _ => [re_plus_sign; re_minus_sign] end in
    match rest with
    | [] => Exn OtherErr
    | _ => merge_outs (map (fun x => rec (mk_concat x rest)) alts)
    end
  else if re_eqb first re_plus_sign || re_eqb first (ROpt re_plus_sign) then
    concat_tail rec rest
  else if re_eqb first re_minus_sign then
    out_bind (concat_tail rec rest) (fun v => Val (option_map neg_ivs v))
  else
    match strip_zeroes rec (first :: rest) with
    | (Val _, remaining) =>
        if Nat.ltb (length remaining) (length (first :: rest)) then
          match remaining with
          | [] => Val (Some [(0, 0)])
          | [x] => rec x
          | x :: more => rec (mk_concat x more)
          end
        else
          match first :: rest with
          | [c0; c1] =>
              out_bind (rec c0) (fun v0 =>
                if is_ivs v0 [(1, 9)] && is_star c1 && re_eqb (key c1) r09
                then Val (Some [(1, maxsize)])
                else if is_ivs_q q v0 [(1, 9)] && is_plus c1 && re_eqb (key c1) r09
                then Val (Some [(10, maxsize)])
                else if is_ivs_q q v0 [(0, 9)] && (is_plus c1 || is_star c1)
                        && re_eqb (key c1) r09
                then Val (Some [(0, maxsize)])
                else Val None)
          | _ => Val None
          end
    | (o, _) => o
    end.

Definition concat_step (q : bool) (rec : re -> out) (r : re) : out :=
  match compress (map norm_range (split_concat r)) with
  | Raise e => Exn e
  | Ok [] => Exn IndexErr
  | Ok (first :: rest) => elems_step q rec first rest
  end.

Lemma nifr_concat q f a b : nifr q (S f) (RConcat a b) = concat_step q (nifr q f) (RConcat a b).
Proof. reflexivity. Qed.

(* ---- small facts ---- *)
Lemma merge_two_good ia ib : Forall bounded ia -> Forall bounded ib ->
  Forall bounded (merge (ia ++ ib)) /\ forall n, In_ivs n ia \/ In_ivs n ib -> In_ivs n (merge (ia ++ ib)).
Proof.
  intros Ha Hb. assert (Hab : Forall bounded (ia ++ ib)) by (apply Forall_app; split; assumption).
  split; [apply merge_bounded; exact Hab|]. intros n H. apply (proj2 (merge_ok_member _ n Hab)).
  apply In_ivs_app. exact H.
Qed.

Lemma strip_spec rec l : forall v rem, strip_zeroes rec l = (Val v, rem) ->
  exists zs, l = zs ++ rem /\ Forall (fun z => rec z = Val (Some [(0, 0)])) zs.
Proof.
  induction l as [|c cs IH]; intros v rem H; simpl in H.
  - inversion H; subst. exists []. split; [reflexivity|constructor].
  - destruct (rec c) as [| |v0] eqn:Ec; try (inversion H; fail).
    destruct (is_ivs v0 [(0, 0)]) eqn:Ez.
    + destruct (IH v rem H) as [zs [El Hz]]. exists (c :: zs). split; [simpl; rewrite El; reflexivity|].
      constructor; [|exact Hz]. rewrite Ec. apply is_ivs_eq in Ez. subst v0. reflexivity.
    + inversion H; subst. exists []. split; [reflexivity|constructor].
Qed.

Lemma first_nosign first : helem first -> is_union first = false ->
  re_eqb first (ROpt re_minus_sign) = false -> re_eqb first re_plus_sign = false ->
  re_eqb first (ROpt re_plus_sign) = false -> re_eqb first re_minus_sign = false -> has_sign first = false.
Proof.
  intros [R [I C]] U M1 P1 P2 M2.
  destruct first as [w|a b|c|c|c|a b|a b|a b|c| |]; simpl in R, U, C; try discriminate; try reflexivity.
  - destruct w as [|x [|? ?]]; try discriminate R.
    destruct (N.eqb_spec x 43) as [E|N1]; [subst x; discriminate P1|].
    destruct (N.eqb_spec x 45) as [E|N2]; [subst x; discriminate M2|].
    simpl. unfold c_plus, c_minus. apply N.eqb_neq in N1, N2. rewrite N1, N2. reflexivity.
  - destruct (star_child c R) as [E|[E|E]]; subst c; reflexivity.
  - destruct (star_child c R) as [E|[E|E]]; subst c; reflexivity.
  - unfold sign_lit in R. apply orb_true_iff in R as [H|H]; apply re_eqb_eq in H; subst c;
      [rewrite re_eqb_refl in P2; discriminate P2|rewrite re_eqb_refl in M1; discriminate M1].
Qed.

Lemma plus09_nonempty v : matches (RPlus r09) v -> v <> [].
Proof.
  intros [a [b [E [[lo [hi [x [_ [_ [Ea _]]]]]] _]]]] Hv. subst. discriminate Hv.
Qed.

Section Step.
  Variable q : bool.
  Variable rec : re -> out.
  Hypothesis IH : forall x ivs, recognizedb x = true -> inner_sign x = false ->
                                rec x = Val (Some ivs) -> Good x ivs.
  Hypothesis HN : forall x, telem x -> is_union x = false -> rec x = Val None -> forall s, ~ matches x s.

  Lemma concat_tail_eq rest : rest <> [] -> concat_tail rec rest = rec (cat_re rest).
  Proof. destruct rest as [|x [|y r]]; [congruence|reflexivity|reflexivity]. Qed.

  Lemma good_mk x rest ivs : recognizedb x = true -> inner_sign x = false -> Forall telem rest ->
    rec (mk_concat x rest) = Val (Some ivs) ->
    Forall bounded ivs /\ forall t n, matches_cat (x :: rest) t -> lval t = Some n -> In_ivs n ivs.
  Proof.
    intros Hx Hi Hr Hn. destruct (mk_concat_rec rest x Hx Hi Hr) as [R I].
    destruct (IH _ _ R I Hn) as [B G]. split; [exact B|]. intros t n Hm Hv.
    apply (G t n); [apply mk_concat_lang; exact Hm|exact Hv].
  Qed.

  Lemma good_cat l ivs : l <> [] -> Forall telem l -> rec (cat_re l) = Val (Some ivs) ->
    Forall bounded ivs /\ forall t n, matches_cat l t -> lval t = Some n -> In_ivs n ivs.
  Proof.
    intros Hne Hl Hn. destruct (cat_re_rec l Hne Hl) as [R I].
    destruct (IH _ _ R I Hn) as [B G]. split; [exact B|]. intros t n Hm Hv.
    apply (G t n); [apply cat_re_lang; exact Hm|exact Hv].
  Qed.

  (* elements recognised as zero and free of signs match digit strings of value 0 *)
  Lemma zeros_val zs : Forall telem zs -> Forall (fun z => rec z = Val (Some [(0, 0)])) zs ->
    forall z, matches_cat zs z -> digits_val z 0 = 0.
  Proof.
    intro Ht. induction Ht as [|e zs He Hzs IHz]; intros Hz z Hm; simpl in Hm.
    - subst z. reflexivity.
    - inversion Hz as [|e' zs' Hez Hz']; subst. destruct Hm as [u [v [E [Hu Hv]]]]. subst z.
      destruct He as [R [S C]]. destruct (IH e _ R (inner_le_has e S) Hez) as [_ G].
      pose proof (nosign_digits e R S u Hu) as Du.
      pose proof (G u _ Hu (lval_digits u Du)) as Hin. apply In_ivs_zero in Hin.
      rewrite dv_app, Hin. apply IHz; assumption.
  Qed.

  Lemma elems_good first rest ivs :
    helem first -> Forall telem rest -> elems_step q rec first rest = Val (Some ivs) ->
    Forall bounded ivs /\ forall s n, matches_cat (first :: rest) s -> lval s = Some n -> In_ivs n ivs.
  Proof.
    intros Hf Hr Hn. unfold elems_step in Hn.
    destruct (is_union first || re_eqb first (ROpt re_minus_sign)) eqn:E1.
    { (* union or optional minus as first element: distribute over the alternatives *)
      assert (Hne : rest <> []) by (intro; subst rest; discriminate Hn).
      apply orb_true_iff in E1 as [E1|E1].
      - destruct first as [w|a b|c|c|c|a b|a' b'|a' b'|c| |]; try discriminate E1.
        assert (Hn' : merge_outs [rec (mk_concat a rest); rec (mk_concat b rest)] = Val (Some ivs))
          by (destruct rest; [congruence|exact Hn]).
        apply merge_outs_val in Hn'. destruct Hn' as [ia [ib [Ea [Eb Ei]]]].
        destruct Hf as [Rf [If _]]. simpl in Rf, If. apply andb_true_iff in Rf as [Ra Rb].
        apply orb_false_iff in If as [Ia Ib].
        destruct (good_mk a rest ia Ra Ia Hr Ea) as [Ba Ga]. destruct (good_mk b rest ib Rb Ib Hr Eb) as [Bb Gb].
        destruct (merge_two_good ia ib Ba Bb) as [Bm Gm]. subst ivs. split; [exact Bm|].
        intros s n Hm Hv. apply Gm. destruct Hm as [u [v [E [[Hu|Hu] Hm]]]]; [left; apply (Ga s n)|right; apply (Gb s n)];
          try exact Hv; exists u, v; auto.
      - apply re_eqb_eq in E1. subst first.
        assert (Hn' : merge_outs [rec (mk_concat re_plus_sign rest); rec (mk_concat re_minus_sign rest)] = Val (Some ivs))
          by (destruct rest; [congruence|exact Hn]).
        apply merge_outs_val in Hn'. destruct Hn' as [ia [ib [Ea [Eb Ei]]]].
        destruct (good_mk re_plus_sign rest ia eq_refl eq_refl Hr Ea) as [Ba Ga].
        destruct (good_mk re_minus_sign rest ib eq_refl eq_refl Hr Eb) as [Bb Gb].
        destruct (merge_two_good ia ib Ba Bb) as [Bm Gm]. subst ivs. split; [exact Bm|].
        intros s n Hm Hv. apply Gm. destruct Hm as [u [v [E [[Hu|Hu] Hm]]]].
        + subst u. simpl in E. subst s. left. apply (Ga (43%N :: v) n); [|rewrite lval_plus; exact Hv].
          exists [43%N], v. split; [reflexivity|]. split; [reflexivity|exact Hm].
        + right. apply (Gb s n); [|exact Hv]. exists u, v. auto. }
    destruct (re_eqb first re_plus_sign || re_eqb first (ROpt re_plus_sign)) eqn:E2.
    { (* plus sign / optional plus sign *)
      assert (Hne : rest <> []) by (intro; subst rest; discriminate Hn).
      rewrite (concat_tail_eq rest Hne) in Hn. destruct (good_cat rest ivs Hne Hr Hn) as [B G].
      split; [exact B|]. intros s n [u [v [E [Hu Hm]]]] Hv. apply (G v n Hm).
      apply orb_true_iff in E2 as [E2|E2]; apply re_eqb_eq in E2; subst first.
      - simpl in Hu. subst u s. exact Hv.
      - destruct Hu as [Hu|Hu]; simpl in Hu; subst u s; exact Hv. }
    destruct (re_eqb first re_minus_sign) eqn:E3.
    { (* minus sign: negate and reverse *)
      assert (Hne : rest <> []) by (intro; subst rest; discriminate Hn).
      rewrite (concat_tail_eq rest Hne) in Hn.
      destruct (rec (cat_re rest)) as [| |[ivs'|]] eqn:Er; try discriminate Hn.
      simpl in Hn. inversion Hn; subst ivs. destruct (good_cat rest ivs' Hne Hr Er) as [B G].
      split; [apply neg_bounded; exact B|]. intros s n [u [v [E [Hu Hm]]]] Hv.
      apply re_eqb_eq in E3. subst first. simpl in Hu. subst u s. apply neg_In. apply (G v (- n) Hm).
      change (lval ([c_minus] ++ v)) with (option_map Z.opp (lval v)) in Hv.
      destruct (lval v) as [m|]; [|discriminate Hv]. simpl in Hv. inversion Hv. f_equal. lia. }
    (* no sign in front: zero stripping, then the [1-9][0-9]* cases *)
    apply orb_false_iff in E1 as [U1 M1]. apply orb_false_iff in E2 as [P1 P2].
    assert (Hs : has_sign first = false) by (apply first_nosign; assumption).
    assert (Hft : telem first) by (destruct Hf as [R [_ C]]; repeat split; assumption).
    assert (Hall : Forall telem (first :: rest)) by (constructor; assumption).
    destruct (strip_zeroes rec (first :: rest)) as [o rem] eqn:Est.
    destruct o as [| |v]; try discriminate Hn.
    destruct (strip_spec rec _ v rem Est) as [zs [El Hz]].
    assert (Hsplit : Forall telem zs /\ Forall telem rem) by (apply Forall_app; rewrite <- El; exact Hall).
    destruct Hsplit as [Tz Tr].
    destruct (Nat.ltb (length rem) (length (first :: rest))) eqn:Elt.
    { destruct rem as [|x more].
      - inversion Hn; subst ivs. split; [constructor; [unfold bounded, maxsize; simpl; lia|constructor]|].
        intros s n Hm Hv. rewrite El, app_nil_r in Hm.
        assert (Ds : forallb isdig s = true) by (apply (nosign_cat zs Tz); exact Hm).
        rewrite (lval_digits s Ds), (zeros_val zs Tz Hz s Hm) in Hv. inversion Hv.
        apply In_ivs_single. unfold In_iv, maxsize. simpl. lia.
      - assert (Hn' : rec (cat_re (x :: more)) = Val (Some ivs)) by (destruct more; exact Hn).
        destruct (good_cat (x :: more) ivs ltac:(discriminate) Tr Hn') as [B G]. split; [exact B|].
        intros s n Hm Hv. rewrite El in Hm. assert (Hall' : Forall telem (zs ++ x :: more)) by (rewrite <- El; exact Hall).
        pose proof (nosign_cat _ Hall' s Hm) as Ds.
        apply matches_cat_app in Hm. destruct Hm as [z [t [E [Hmz Hmt]]]]. subst s.
        rewrite digits_app in Ds. apply andb_true_iff in Ds as [Dz Dt].
        apply (G t n Hmt). rewrite (lval_digits t Dt).
        rewrite (lval_digits (z ++ t)) in Hv by (rewrite digits_app, Dz, Dt; reflexivity).
        rewrite dv_app, (zeros_val zs Tz Hz z Hmz) in Hv. exact Hv. }
    destruct rest as [|c1 [|c2 rest']]; try discriminate Hn.
    destruct (rec first) as [| |v0] eqn:E0; try discriminate Hn. cbn [out_bind] in Hn.
    inversion Hr as [|c1' r' Tc1 _]; subst.
    (* every matched string: digits, value = digits of v continued from the value of u *)
    assert (Hsem : forall s n, matches_cat [first; c1] s -> lval s = Some n ->
              exists u v, matches first u /\ matches c1 v /\ forallb isdig u = true /\ forallb isdig v = true /\
                          n = digits_val v (digits_val u 0)).
    { intros s n [u [v' [E [Hu Hm]]]] Hv. apply matches_cat_single in Hm. subst s.
      destruct Hft as [R [S _]]. destruct Tc1 as [R1 [S1 _]].
      pose proof (nosign_digits first R S u Hu) as Du. pose proof (nosign_digits c1 R1 S1 v' Hm) as Dv.
      exists u, v'. repeat split; try assumption.
      rewrite (lval_digits (u ++ v')) in Hv by (rewrite digits_app, Du, Dv; reflexivity).
      rewrite dv_app in Hv. inversion Hv. reflexivity. }
    assert (Hlow : forall u, matches first u -> forallb isdig u = true -> v0 = Some [(1, 9)] -> 1 <= digits_val u 0).
    { intros u Hu Du Ev. subst v0. destruct Hf as [R [I _]]. destruct (IH first _ R I E0) as [_ G].
      pose proof (G u _ Hu (lval_digits u Du)) as Hin. apply In_ivs_single in Hin.
      unfold In_iv, maxsize in Hin. cbn [fst snd] in Hin. lia. }
    destruct (is_ivs v0 [(1, 9)] && is_star c1 && re_eqb (key c1) r09) eqn:C1.
    { inversion Hn; subst ivs. split; [constructor; [unfold bounded, maxsize; simpl; lia|constructor]|].
      intros s n Hm Hv. destruct (Hsem s n Hm Hv) as [u [v1 [Hu [Hv1 [Du [Dv En]]]]]].
      apply andb_true_iff in C1 as [C1 _]. apply andb_true_iff in C1 as [C1 _]. apply is_ivs_eq in C1.
      pose proof (Hlow u Hu Du C1) as L. pose proof (dv_ge v1 Dv (digits_val u 0) ltac:(lia)) as L2.
      apply In_ivs_single. unfold In_iv. cbn [fst snd]. split; [right; lia|left; reflexivity]. }
    destruct (is_ivs_q q v0 [(1, 9)] && is_plus c1 && re_eqb (key c1) r09) eqn:C2.
    { inversion Hn; subst ivs. split; [constructor; [unfold bounded, maxsize; simpl; lia|constructor]|].
      intros s n Hm Hv. destruct (Hsem s n Hm Hv) as [u [v1 [Hu [Hv1 [Du [Dv En]]]]]].
      apply andb_true_iff in C2 as [C2 K]. apply andb_true_iff in C2 as [C2 Pl].
      assert (Ec : c1 = RPlus r09) by (destruct c1; try discriminate Pl; apply re_eqb_eq in K; simpl in K; subst; reflexivity).
      subst c1. pose proof (plus09_nonempty v1 Hv1) as Nv.
      destruct (is_ivs_q_cases q v0 _ C2) as [Ev|Ev].
      - pose proof (Hlow u Hu Du Ev) as L. pose proof (dv_ge10 v1 Nv Dv (digits_val u 0) ltac:(lia)) as L2.
        apply In_ivs_single. unfold In_iv. cbn [fst snd]. split; [right; lia|left; reflexivity].
      - exfalso. subst v0. exact (HN first Hft U1 E0 u Hu). }
    destruct (is_ivs_q q v0 [(0, 9)] && (is_plus c1 || is_star c1) && re_eqb (key c1) r09) eqn:C3; [|discriminate Hn].
    inversion Hn; subst ivs. split; [constructor; [unfold bounded, maxsize; simpl; lia|constructor]|].
    intros s n Hm Hv. destruct (Hsem s n Hm Hv) as [u [v1 [Hu [Hv1 [Du [Dv En]]]]]].
    pose proof (dv_ge u Du 0 ltac:(lia)) as L. pose proof (dv_ge v1 Dv (digits_val u 0) ltac:(lia)) as L2.
    apply In_ivs_single. unfold In_iv. cbn [fst snd]. split; [right; lia|left; reflexivity].
  Qed.

  Lemma concat_step_good r ivs : recognizedb r = true -> inner_sign r = false ->
    concat_step q rec r = Val (Some ivs) -> Good r ivs.
  Proof.
    intros Hr Hi Hn. destruct (split_struct r Hr Hi) as [h [t [Es [Hh Ht]]]].
    unfold concat_step in Hn. rewrite Es in Hn. cbn [map] in Hn.
    destruct (compress (norm_range h :: map norm_range t)) as [[|first rest]|e] eqn:Ec; try discriminate Hn.
    assert (Ht' : Forall telem (map norm_range t)).
    { apply Forall_forall. intros e He. apply in_map_iff in He as [e0 [E0 He0]]. subst e.
      apply norm_telem. rewrite Forall_forall in Ht. apply Ht. exact He0. }
    destruct (compress_struct _ _ first rest (norm_helem h Hh) Ht' Ec) as [Hf Hrest].
    destruct (elems_good first rest ivs Hf Hrest Hn) as [B G]. split; [exact B|].
    intros s n Hm Hv. apply (G s n); [|exact Hv].
    apply (compress_lang _ _ Ec). change (norm_range h :: map norm_range t) with (map norm_range (h :: t)).
    apply norm_cat_lang.
    - constructor; [destruct Hh as [R _]; exact R|]. eapply Forall_impl; [|exact Ht]. intros e [R _]. exact R.
    - rewrite <- Es. apply split_concat_lang. exact Hm.
  Qed.
End Step.

(* ---- a single sign-free element for which the model answers Nothing matches no string ---- *)
Lemma py_int_digit a : isdig a = true -> py_int [a] = Some (Z.of_N a - 48).
Proof. intro H. digits a H; reflexivity. Qed.

Lemma nifr_range_gt q f a b : isdig a = true -> isdig b = true -> (b < a)%N ->
  nifr q (S f) (RRange [a] [b]) = Val None.
Proof.
  intros Ha Hb Hab. cbn [nifr]. change (starts_digit [a]) with (isdig a). change (starts_digit [b]) with (isdig b).
  rewrite Ha, Hb, (py_int_digit a Ha), (py_int_digit b Hb). cbn [andb].
  destruct (Z.leb_spec (Z.of_N a - 48) (Z.of_N b - 48)) as [L|L]; [lia|reflexivity].
Qed.

Lemma nifr_star_child q f c : (c = zero_lit \/ c = RRange [48%N] [48%N] \/ c = r09) ->
  (nifr q (S (S f)) (RStar c) = Val (Some (if re_eqb c r09 then [(- maxsize, maxsize)] else [(0, 0)]))) /\
  (nifr q (S (S f)) (RPlus c) = Val (Some (if re_eqb c r09 then [(- maxsize, maxsize)] else [(0, 0)]))).
Proof. intros [E|[E|E]]; subst c; split; reflexivity. Qed.

Lemma nifr_none_empty q f x : telem x -> is_union x = false -> nifr q f x = Val None -> forall s, ~ matches x s.
Proof.
  intros [R [S C]] U Hn s Hm. destruct f as [|f]; [discriminate Hn|].
  destruct x as [w|a b|c|c|c|a b|a b|a b|c| |]; simpl in R, U, C; try discriminate.
  - destruct w as [|d [|? ?]]; try discriminate R. simpl in S. rewrite orb_false_r in S.
    apply orb_false_iff in S as [S1 S2]. unfold c_plus, c_minus in *. rewrite S1, S2, !orb_false_r in R.
    rewrite (nifr_single q f d R) in Hn. discriminate Hn.
  - destruct a as [|x [|? ?]]; try discriminate R. destruct b as [|y [|? ?]]; try discriminate R.
    apply andb_true_iff in R as [Rx Ry]. destruct Hm as [lo [hi [z [E1 [E2 [E3 [L1 L2]]]]]]].
    inversion E1; inversion E2; subst. rewrite (nifr_range q f lo hi Rx Ry) in Hn by lia. discriminate Hn.
  - destruct f as [|f]; [discriminate Hn|]. rewrite (proj1 (nifr_star_child q f c (star_child c R))) in Hn. discriminate Hn.
  - destruct f as [|f]; [discriminate Hn|]. rewrite (proj2 (nifr_star_child q f c (star_child c R))) in Hn. discriminate Hn.
  - simpl in S. unfold sign_lit in R. apply orb_true_iff in R as [H|H]; apply re_eqb_eq in H; subst c; discriminate S.
Qed.

(* strings matched by a star over a base that matches only "0" *)
Lemma star_zero_dv (P : str -> Prop) : (forall u, P u -> u = [48%N]) ->
  forall s, star P s -> forallb isdig s = true /\ digits_val s 0 = 0.
Proof.
  intros HP s Hs. induction Hs as [|u v Hu Hv [IH1 IH2]]; [split; reflexivity|].
  apply HP in Hu. subst u. split; [simpl; exact IH1|]. simpl. exact IH2.
Qed.

Lemma zero_child_lang c : (c = zero_lit \/ c = RRange [48%N] [48%N]) -> forall u, matches c u -> u = [48%N].
Proof.
  intros [E|E] u Hu; subst c; [exact Hu|].
  destruct Hu as [lo [hi [z [E1 [E2 [E3 [L1 L2]]]]]]]. inversion E1; inversion E2; subst. f_equal. lia.
Qed.

Lemma plus_star c s : matches (RPlus c) s -> star (matches c) s.
Proof. intros [u [v [E [Hu Hv]]]]. subst s. constructor; assumption. Qed.

Lemma good_full r : Good r [(- maxsize, maxsize)].
Proof.
  split; [constructor; [unfold bounded, maxsize; simpl; lia|constructor]|].
  intros s n _ _. apply In_ivs_single. unfold In_iv. cbn [fst snd]. auto.
Qed.

Lemma good_zero r : (forall s, matches r s -> forallb isdig s = true /\ digits_val s 0 = 0) -> Good r [(0, 0)].
Proof.
  intro H. split; [constructor; [unfold bounded, maxsize; simpl; lia|constructor]|].
  intros s n Hm Hv. destruct (H s Hm) as [D Z0]. rewrite (lval_digits s D), Z0 in Hv. inversion Hv.
  apply In_ivs_single. unfold In_iv, maxsize. cbn [fst snd]. lia.
Qed.

Lemma good_starplus q f c r ivs : (r = RStar c \/ r = RPlus c) ->
  (c = zero_lit \/ c = RRange [48%N] [48%N] \/ c = r09) ->
  nifr q (S f) r = Val (Some ivs) -> Good r ivs.
Proof.
  intros Hr Hc Hn. destruct f as [|f]; [destruct Hr; subst r; discriminate Hn|].
  destruct (nifr_star_child q f c Hc) as [N1 N2].
  assert (Hi : ivs = if re_eqb c r09 then [(- maxsize, maxsize)] else [(0, 0)]).
  { destruct Hr; subst r; [rewrite N1 in Hn|rewrite N2 in Hn]; inversion Hn; reflexivity. }
  assert (Hst : forall s, matches r s -> star (matches c) s).
  { intros s Hm. destruct Hr; subst r; [exact Hm|apply plus_star; exact Hm]. }
  destruct Hc as [E|[E|E]]; subst c; simpl in Hi; subst ivs.
  - apply good_zero; intros s Hm.
    apply (star_zero_dv _ (zero_child_lang zero_lit (or_introl eq_refl))); apply Hst; exact Hm.
  - apply good_zero; intros s Hm.
    apply (star_zero_dv _ (zero_child_lang (RRange [48%N] [48%N]) (or_intror eq_refl))); apply Hst; exact Hm.
  - apply good_full.
Qed.

(* ================================================================== *)
(* the theorem                                                         *)
(* ================================================================== *)
Theorem nifr_good q : forall f r ivs, recognizedb r = true -> inner_sign r = false ->
  nifr q f r = Val (Some ivs) -> Good r ivs.
Proof.
  induction f as [|f IHf]; intros r ivs Hr Hi Hn; [discriminate Hn|].
  destruct r as [w|a b|c|c|c|a b|a b|a b|c| |]; pose proof Hr as Hr0; simpl in Hr; try discriminate Hr.
  - destruct w as [|d [|? ?]]; try discriminate Hr. destruct (isdig d) eqn:D.
    + rewrite (nifr_single q f d D) in Hn. inversion Hn; subst ivs. split.
      * constructor; [|constructor]. apply isdig_range in D. unfold bounded, maxsize. cbn [fst snd]. lia.
      * intros s n Hm Hv. simpl in Hm. subst s. rewrite (lval_digits [d]) in Hv by (simpl; rewrite D; reflexivity).
        simpl in Hv. inversion Hv. apply In_ivs_single. unfold In_iv. cbn [fst snd]. lia.
    + change (is_digit d) with (isdig d) in Hr. rewrite D in Hr. simpl in Hr.
      apply orb_true_iff in Hr as [E|E]; apply N.eqb_eq in E; subst d; discriminate Hn.
  - destruct a as [|x [|? ?]]; try discriminate Hr. destruct b as [|y [|? ?]]; try discriminate Hr.
    apply andb_true_iff in Hr as [Rx Ry]. destruct (N.leb_spec x y) as [L|L].
    + rewrite (nifr_range q f x y Rx Ry L) in Hn. inversion Hn; subst ivs. split.
      * constructor; [|constructor]. apply isdig_range in Rx, Ry. unfold bounded, maxsize. cbn [fst snd]. lia.
      * intros s n [lo [hi [z [E1 [E2 [E3 [L1 L2]]]]]]] Hv. inversion E1; inversion E2; subst.
        apply isdig_range in Rx, Ry.
        assert (Dz : isdig z = true) by (unfold isdig; apply andb_true_iff; split; apply N.leb_le; lia).
        rewrite (lval_digits [z]) in Hv by (simpl; rewrite Dz; reflexivity). simpl in Hv. inversion Hv.
        apply In_ivs_single. unfold In_iv. cbn [fst snd]. lia.
    + rewrite (nifr_range_gt q f x y Rx Ry L) in Hn. discriminate Hn.
  - apply (good_starplus q f c (RStar c) ivs (or_introl eq_refl) (star_child c Hr) Hn).
  - apply (good_starplus q f c (RPlus c) ivs (or_intror eq_refl) (star_child c Hr) Hn).
  - discriminate Hn.
  - cbn [nifr] in Hn. apply merge_outs_val in Hn. destruct Hn as [ia [ib [Ea [Eb Ei]]]].
    apply andb_true_iff in Hr as [Ra Rb]. simpl in Hi. apply orb_false_iff in Hi as [Ia Ib].
    destruct (IHf a ia Ra Ia Ea) as [Ba Ga]. destruct (IHf b ib Rb Ib Eb) as [Bb Gb].
    destruct (merge_two_good ia ib Ba Bb) as [Bm Gm]. subst ivs. split; [exact Bm|].
    intros s n [Hm|Hm] Hv; apply Gm; [left; apply (Ga s n)|right; apply (Gb s n)]; assumption.
  - rewrite nifr_concat in Hn.
    apply (concat_step_good q (nifr q f) (IHf) (nifr_none_empty q f) (RConcat a b) ivs Hr0 Hi Hn).
Qed.

(* over-approximation half on the recognised vocabulary (documented shape included), guard: no inner sign *)
Theorem recognized_overapprox q r fuel ivs s n :
  recognizedb r = true -> K_inner_sign r = false -> nifr q fuel r = Val (Some ivs) ->
  matches r s -> intval s = Some n -> In_ivs n ivs.
Proof.
  intros Hr Hk Hn Hm Hv. destruct (nifr_good q fuel r ivs Hr Hk Hn) as [_ G].
  apply (G s n Hm). apply intval_lval. exact Hv.
Qed.

Corollary documented_overapprox q r fuel ivs s n :
  documented_shapeb r = true -> K_inner_sign r = false -> nifr q fuel r = Val (Some ivs) ->
  matches r s -> intval s = Some n -> In_ivs n ivs.
Proof.
  intros Hd. unfold documented_shapeb in Hd. apply andb_true_iff in Hd as [Hr _]. apply recognized_overapprox. exact Hr.
Qed.

(* ---- non-vacuity: -?0*[1-9][0-9]* built as z3.Concat(Option(Re "-"), Star(Re "0"), Range("1","9"), Star(Range("0","9"))) ---- *)
Definition ex_signed_number : re :=
  RConcat (RConcat (RConcat (ROpt re_minus_sign) (RStar zero_lit)) (RRange [49%N] [57%N])) (RStar r09).

Example overapprox_example :
  documented_shapeb ex_signed_number = true /\ K_inner_sign ex_signed_number = false /\
  nifr_top true ex_signed_number = Val (Some [(- maxsize, -1); (1, maxsize)]) /\
  matches ex_signed_number [45%N; 48%N; 52%N; 50%N] /\ intval [45%N; 48%N; 52%N; 50%N] = Some (-42).
Proof.
  split; [reflexivity|]. split; [reflexivity|]. split; [vm_compute; reflexivity|].
  split; [apply matchb_spec; vm_compute; reflexivity|reflexivity].
Qed.

(* ---- the guard is needed: INSIDE documented_shapeb the over-approximation half fails when a sign sits behind
   a concatenation.  z3.Concat(Star(Re "0"), Union(Concat(Re "-", Re "0"), Re "0"), Re "5") is given [(5,5)]
   (the union evaluates to [(0,0)] and is stripped as zero padding) but matches "-05" (= -5).
   Same root cause as K_signed_zero (a zero-valued element that can carry a sign), here within the recognised
   vocabulary; the class is K_inner_sign. ---- *)
Definition cx_inner_zero : re :=
  RConcat (RConcat (RStar zero_lit) (RUnion (RConcat re_minus_sign zero_lit) zero_lit)) (RStr [53%N]).

Theorem inner_sign_overapprox_refuted :
  exists r ivs s n, documented_shapeb r = true /\ K_inner_sign r = true /\ K_signed_zero r = false /\
                    nifr_top true r = Val (Some ivs) /\ nifr_top false r = Val (Some ivs) /\
                    matches r s /\ intval s = Some n /\ ~ In_ivs n ivs.
Proof.
  exists cx_inner_zero, [(5, 5)], [45%N; 48%N; 53%N], (-5).
  split; [reflexivity|]. split; [reflexivity|]. split; [reflexivity|].
  split; [vm_compute; reflexivity|]. split; [vm_compute; reflexivity|].
  split; [apply matchb_spec; vm_compute; reflexivity|]. split; [reflexivity|].
  intro H. apply In_ivs_single in H. unfold In_iv, maxsize in H. cbn [fst snd] in H. lia.
Qed.
