(* C15 — recognisers used as hypotheses / finding classes (boolean, executable; no proofs).
   recognizedb : the vocabulary of the docstring grammar of numeric_intervals_from_regex
     (every literal one digit or one sign, ranges between digits, star/plus only over "0",
      Range("0","0") or Range("0","9"), option only over a sign, unions and concatenations);
     a superset of the documented shape (the inclusion is proved for the inductive
     transcription `doc_regex` in IntervalsFacts.v and re-checked on every generated regex).
   K_* : classes of the open findings. *)
From Coq Require Import List NArith ZArith Bool.
From ISLA Require Import Str Outcome IvRe Intervals.
Import ListNotations.

Definition zero_lit : re := RStr [48%N].
Definition sign_lit (r : re) : bool := re_eqb r re_plus_sign || re_eqb r re_minus_sign.

Fixpoint recognizedb (r : re) : bool :=
  match r with
  | RStr [c] => is_digit c || N.eqb c c_plus || N.eqb c c_minus
  | RRange [a] [b] => is_digit a && is_digit b
  | RStar c | RPlus c => re_eqb c zero_lit || re_eqb c (RRange [48%N] [48%N]) || re_eqb c r09
  | ROpt c => sign_lit c
  | RUnion a b | RConcat a b => recognizedb a && recognizedb b
  | _ => false
  end.

Fixpoint ordered_ranges (r : re) : bool :=
  match r with
  | RRange [a] [b] => N.leb a b
  | RRange _ _ => false
  | RStar c | RPlus c | ROpt c | RComp c => ordered_ranges c
  | RUnion a b | RConcat a b | RInter a b => ordered_ranges a && ordered_ranges b
  | _ => true
  end.
Definition documented_shapeb (r : re) : bool := recognizedb r && ordered_ranges r.

(* contains a <full> element  Star/Plus(Range("0","9")) *)
Fixpoint has_full (r : re) : bool :=
  match r with
  | RStar c | RPlus c => re_eqb c r09 || has_full c
  | ROpt c | RComp c => has_full c
  | RUnion a b | RConcat a b | RInter a b => has_full a || has_full b
  | _ => false
  end.
Fixpoint has_sign (r : re) : bool :=
  match r with
  | RStr w => existsb (fun c => N.eqb c c_plus || N.eqb c c_minus) w
  | RStar c | RPlus c | ROpt c | RComp c => has_sign c
  | RUnion a b | RConcat a b | RInter a b => has_sign a || has_sign b
  | _ => false
  end.
(* a sign literal occurs in the right operand of some concatenation (not at the front) *)
Fixpoint inner_sign (r : re) : bool :=
  match r with
  | RConcat a b => has_sign b || inner_sign a || inner_sign b
  | RStar c | RPlus c | ROpt c | RComp c => inner_sign c
  | RUnion a b | RInter a b => inner_sign a || inner_sign b
  | _ => false
  end.
Definition has_concat := fix hc (r : re) : bool :=
  match r with
  | RConcat _ _ => true
  | RStar c | RPlus c | ROpt c | RComp c => hc c
  | RUnion a b | RInter a b => hc a || hc b
  | _ => false
  end.

(* a sign literal below a star/plus, or a literal of two or more characters that contains a sign:
   such an element can be recognised as "zero" ([(0,0)]) and is then stripped as zero padding although it
   matches strings that carry a sign.  Never the case inside the documented shape (signed_zero_outside_shape). *)
Fixpoint signed_zero (r : re) : bool :=
  match r with
  | RStr w => match w with _ :: _ :: _ => has_sign r | _ => false end
  | RStar c | RPlus c => has_sign c || signed_zero c
  | ROpt c | RComp c => signed_zero c
  | RUnion a b | RConcat a b | RInter a b => signed_zero a || signed_zero b
  | _ => false
  end.
Definition K_signed_zero (r : re) : bool := signed_zero r.

Definition K_full_sign (r : re) : bool := has_full r.
Definition K_inner_sign (r : re) : bool := inner_sign r.
(* the `value_or(lambda: False)` quirk changes the result *)
Definition K_valueor_lambda (r : re) : bool := negb (out_eqb (nifr_top true r) (nifr_top false r)).
