(* SPEC model: SMT-LIB 2.6 standard semantics (theories Ints, Strings incl. RegLan) of ground
   expressions.  [denote e = None] when e is ill-sorted or its value is not fixed by the standard
   (division / modulo by zero).  Validated against the real Z3 on every generated atom by
   harness/c05.py (a disagreement there is a bug of THIS file, not of ISLa).  No proofs here. *)
From Coq Require Import List NArith ZArith Bool.
From ISLA Require Import Str Regex SmtAst.
Import ListNotations.
Open Scope Z_scope.

Inductive value := VB (b : bool) | VI (z : Z) | VS (s : str) | VR (r : regex).

(* ---------- strings ---------- *)
Definition slen (s : str) : Z := Z.of_nat (length s).

Fixpoint str_prefixb (a b : str) : bool :=
  match a, b with
  | [], _ => true
  | x :: a', y :: b' => N.eqb x y && str_prefixb a' b'
  | _ :: _, [] => false
  end.
Definition str_suffixb (a b : str) : bool := str_prefixb (rev a) (rev b).

(* first position of t in s *)
Fixpoint find_sub (t s : str) : option nat :=
  if str_prefixb t s then Some O
  else match s with
       | [] => None
       | _ :: s' => option_map S (find_sub t s')
       end.
Definition str_contains (s t : str) : bool :=
  match find_sub t s with Some _ => true | None => false end.

Definition str_at (s : str) (i : Z) : str :=
  if (0 <=? i) && (i <? slen s) then firstn 1 (skipn (Z.to_nat i) s) else [].
Definition str_substr (s : str) (i n : Z) : str :=
  if (0 <=? i) && (i <? slen s) && (0 <? n) then firstn (Z.to_nat n) (skipn (Z.to_nat i) s) else [].
Definition str_indexof (s t : str) (i : Z) : Z :=
  if (0 <=? i) && (i <=? slen s) then
    match find_sub t (skipn (Z.to_nat i) s) with
    | Some k => i + Z.of_nat k
    | None => -1
    end
  else -1.
Definition str_replace (s t t' : str) : str :=
  match find_sub t s with
  | Some k => firstn k s ++ t' ++ skipn (k + length t) s
  | None => s
  end.
Fixpoint repl_all (fuel : nat) (s t t' : str) : str :=
  match fuel with
  | O => s
  | S f => match find_sub t s with
           | None => s
           | Some k => firstn k s ++ t' ++ repl_all f (skipn (k + length t) s) t t'
           end
  end.
Definition str_replace_all (s t t' : str) : str :=
  match t with [] => s | _ => repl_all (S (length s)) s t t' end.

Fixpoint str_ltb (a b : str) : bool :=
  match a, b with
  | _, [] => false
  | [], _ :: _ => true
  | x :: a', y :: b' => N.ltb x y || (N.eqb x y && str_ltb a' b')
  end.
Definition str_leb (a b : str) : bool := str_ltb a b || str_eqb a b.

Definition is_digit_c (c : chr) : bool := N.leb 48 c && N.leb c 57.
Definition digits_val (s : str) : Z :=
  fold_left (fun acc c => acc * 10 + Z.of_N (c - 48)) s 0.
Definition all_digits (s : str) : bool :=
  match s with [] => false | _ => forallb is_digit_c s end.
Definition str_to_int (s : str) : Z := if all_digits s then digits_val s else -1.

Fixpoint dec_digits (fuel : nat) (n : N) (acc : str) : str :=
  match fuel with
  | O => acc
  | S f => let acc' := (48 + n mod 10)%N :: acc in
           if (n / 10 =? 0)%N then acc' else dec_digits f (n / 10)%N acc'
  end.
Definition N_to_dec (n : N) : str := dec_digits (S (N.size_nat n)) n [].
Definition str_from_int (z : Z) : str := if z <? 0 then [] else N_to_dec (Z.to_N z).
Definition str_to_code (s : str) : Z := match s with [c] => Z.of_N c | _ => -1 end.
Definition max_char : Z := 196607.   (* 0x2FFFF *)
Definition str_from_code (z : Z) : str :=
  if (0 <=? z) && (z <=? max_char) then [Z.to_N z] else [].
Definition str_is_digit (s : str) : bool := match s with [c] => is_digit_c c | _ => false end.

(* ---------- integers: SMT-LIB div/mod are Euclidean (0 <= mod < |b|) ---------- *)
Definition emod (a b : Z) : Z := Z.modulo a (Z.abs b).
Definition ediv (a b : Z) : Z := Z.sgn b * Z.div a (Z.abs b).

(* ---------- evaluation ---------- *)
Definition d1 (o : op1) (v : value) : option value :=
  match o, v with
  | ONot, VB b => Some (VB (negb b))
  | OLen, VS s => Some (VI (slen s))
  | OToInt, VS s => Some (VI (str_to_int s))
  | OToCode, VS s => Some (VI (str_to_code s))
  | OFromInt, VI z => Some (VS (str_from_int z))
  | OFromCode, VI z => Some (VS (str_from_code z))
  | OIsDigit, VS s => Some (VB (str_is_digit s))
  | ONeg, VI z => Some (VI (- z))
  | OAbs, VI z => Some (VI (Z.abs z))
  | OToRe, VS s => Some (VR (rstr s))
  | OStar, VR r => Some (VR (RStar r))
  | OPlus, VR r => Some (VR (rplus r))
  | OOpt, VR r => Some (VR (ropt r))
  | OComp, VR r => Some (VR (RNot r))
  | _, _ => None
  end.

Definition d2 (o : op2) (v w : value) : option value :=
  match o, v, w with
  | OAnd, VB a, VB b => Some (VB (a && b))
  | OOr, VB a, VB b => Some (VB (a || b))
  | OEq, VB a, VB b => Some (VB (Bool.eqb a b))
  | OEq, VI a, VI b => Some (VB (a =? b))
  | OEq, VS a, VS b => Some (VB (str_eqb a b))
  | OLt, VI a, VI b => Some (VB (a <? b))
  | OLe, VI a, VI b => Some (VB (a <=? b))
  | OGt, VI a, VI b => Some (VB (b <? a))
  | OGe, VI a, VI b => Some (VB (b <=? a))
  | OAdd, VI a, VI b => Some (VI (a + b))
  | OSub, VI a, VI b => Some (VI (a - b))
  | OMul, VI a, VI b => Some (VI (a * b))
  | ODiv, VI a, VI b => if b =? 0 then None else Some (VI (ediv a b))
  | OMod, VI a, VI b => if b =? 0 then None else Some (VI (emod a b))
  | OConcat, VS a, VS b => Some (VS (a ++ b))
  | OAt, VS a, VI i => Some (VS (str_at a i))
  | OPrefixOf, VS a, VS b => Some (VB (str_prefixb a b))
  | OSuffixOf, VS a, VS b => Some (VB (str_suffixb a b))
  | OContains, VS a, VS b => Some (VB (str_contains a b))
  | OStrLt, VS a, VS b => Some (VB (str_ltb a b))
  | OStrLe, VS a, VS b => Some (VB (str_leb a b))
  | OInRe, VS s, VR r => Some (VB (rmatch r s))
  | ORConcat, VR a, VR b => Some (VR (RCat a b))
  | ORUnion, VR a, VR b => Some (VR (RAlt a b))
  | ORInter, VR a, VR b => Some (VR (RAnd a b))
  | ORDiff, VR a, VR b => Some (VR (RAnd a (RNot b)))
  | ORange, VS [x], VS [y] => Some (VR (RSet false [(x, y)]))
  | ORange, VS _, VS _ => Some (VR RNone)
  | _, _, _ => None
  end.

Definition d3 (o : op3) (u v w : value) : option value :=
  match o, u, v, w with
  | OSubstr, VS s, VI i, VI n => Some (VS (str_substr s i n))
  | OIndexOf, VS s, VS t, VI i => Some (VI (str_indexof s t i))
  | OReplace, VS s, VS t, VS t' => Some (VS (str_replace s t t'))
  | OReplaceAll, VS s, VS t, VS t' => Some (VS (str_replace_all s t t'))
  | _, _, _, _ => None
  end.

Definition obind {A B} (x : option A) (f : A -> option B) : option B :=
  match x with Some a => f a | None => None end.

Fixpoint denote (e : expr) : option value :=
  match e with
  | EStr s => Some (VS s)
  | EVar s => Some (VS s)
  | EInt z => Some (VI z)
  | EBool b => Some (VB b)
  | ERAll => Some (VR (RStar RAny))
  | ERNone => Some (VR RNone)
  | ERAllChar => Some (VR RAny)
  | E1 o a => obind (denote a) (d1 o)
  | E2 o a b => obind (denote a) (fun v => obind (denote b) (d2 o v))
  | E3 o a b c => obind (denote a) (fun u => obind (denote b) (fun v => obind (denote c) (d3 o u v)))
  | ELoop lo hi a =>
      obind (denote a) (fun v =>
        match v with
        | VR r => Some (VR (match hi with
                            | Some h => rloop r lo h
                            | None => RCat (rpow r lo) (RStar r)
                            end))
        | _ => None
        end)
  | EPow n a =>
      obind (denote a) (fun v => match v with VR r => Some (VR (rpow r n)) | _ => None end)
  end.

(* the truth value the standard assigns to a ground atom (None: ill-sorted / not fixed) *)
Definition smt_denote (e : expr) : option bool :=
  match denote e with Some (VB b) => Some b | _ => None end.
