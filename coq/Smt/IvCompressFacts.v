(* C15 — compress_concatenation_elements never reaches one of its assertions. *)
From Coq Require Import List NArith ZArith Bool Lia.
From ISLA Require Import Str Outcome IvRe Intervals.
Import ListNotations.

Lemma re_eqb_eq x : forall y, re_eqb x y = true <-> x = y.
Proof.
  induction x as [w|a b|x IH|x IH|x IH|x1 IH1 x2 IH2|x1 IH1 x2 IH2|x1 IH1 x2 IH2|x IH| |];
    intros [w'|a' b'|y|y|y|y1 y2|y1 y2|y1 y2|y| |]; simpl;
    try (split; [discriminate | intro H; discriminate H]); try tauto.
  - rewrite str_eqb_eq. split; [intros ->; reflexivity | intro H; inversion H; reflexivity].
  - rewrite andb_true_iff, !str_eqb_eq. split; [intros [-> ->]; reflexivity | intro H; inversion H; auto].
  - rewrite IH. split; [intros ->; reflexivity | intro H; inversion H; reflexivity].
  - rewrite IH. split; [intros ->; reflexivity | intro H; inversion H; reflexivity].
  - rewrite IH. split; [intros ->; reflexivity | intro H; inversion H; reflexivity].
  - rewrite andb_true_iff, IH1, IH2. split; [intros [-> ->]; reflexivity | intro H; inversion H; auto].
  - rewrite andb_true_iff, IH1, IH2. split; [intros [-> ->]; reflexivity | intro H; inversion H; auto].
  - rewrite andb_true_iff, IH1, IH2. split; [intros [-> ->]; reflexivity | intro H; inversion H; auto].
  - rewrite IH. split; [intros ->; reflexivity | intro H; inversion H; reflexivity].
Qed.

Lemma re_eqb_refl x : re_eqb x x = true.
Proof. apply re_eqb_eq. reflexivity. Qed.

(* every group produced by groupby is non-empty and all its elements have the same key *)
Definition same_key (g : list re) : Prop := exists k, Forall (fun e => key e = k) g.

Lemma groupby_keys l : Forall (fun g => g <> [] /\ same_key g) (groupby l).
Proof.
  induction l as [|x l IH]; simpl; [constructor|].
  destruct (groupby l) as [|[|y g] gs] eqn:E.
  - constructor; [|constructor]. split; [discriminate|]. exists (key x). constructor; [reflexivity|constructor].
  - constructor; [|exact IH]. split; [discriminate|]. exists (key x). constructor; [reflexivity|constructor].
  - inversion IH as [|g0 gs0 [_ [k Hk]] Hgs]; subst.
    destruct (re_eqb (key x) (key y)) eqn:Ek.
    + apply re_eqb_eq in Ek. constructor; [|exact Hgs]. split; [discriminate|].
      exists k. inversion Hk as [|y0 g1 Hy Hg]; subst. constructor; [congruence|]. constructor; [reflexivity|exact Hg].
    + constructor; [|exact IH]. split; [discriminate|]. exists (key x). constructor; [reflexivity|constructor].
Qed.

(* an element with key k is k itself (and then neither star nor plus), k* or k+ *)
Lemma key_cases e k : key e = k ->
  (e = k /\ is_star e = false /\ is_plus e = false) \/ e = RStar k \/ e = RPlus k.
Proof. intro H. destruct e; simpl in H; subst; auto. Qed.

Lemma other_ok o k : key o = k -> re_eqb o k || kid0_is o k = true.
Proof.
  intro H. destruct (key_cases o k H) as [[E _]|[E|E]]; subst o.
  - rewrite re_eqb_refl. reflexivity.
  - unfold kid0_is. simpl. rewrite re_eqb_refl. apply orb_true_r.
  - unfold kid0_is. simpl. rewrite re_eqb_refl. apply orb_true_r.
Qed.

Lemma forall_idx_true {A} (f : nat -> A -> bool) l : forall i,
  (forall j x, In x l -> f j x = true) -> forall_idx f i l = true.
Proof.
  induction l as [|x l IH]; intros i H; simpl; [reflexivity|].
  rewrite (H i x (or_introl eq_refl)). simpl. apply IH. intros j y Hy. apply H. right. exact Hy.
Qed.

Lemma others_at_incl {A} (g : list A) : forall i x, In x (others_at i g) -> In x g.
Proof.
  induction g as [|y g IH]; intros i x H; simpl in *; [destruct i; contradiction|].
  destruct i as [|j]; [right; exact H|]. destruct H as [H|H]; [left; exact H | right; eapply IH; exact H].
Qed.

Lemma others_at_nonempty {A} (g : list A) : forall i, (2 <= length g)%nat -> others_at i g <> [].
Proof.
  induction g as [|y g IH]; intros i H; simpl in *; [lia|].
  destruct i as [|j]; [destruct g; simpl in *; [lia|discriminate]|discriminate].
Qed.

Lemma existsb_all {A} (P : A -> bool) l : l <> [] -> (forall x, In x l -> P x = true) -> existsb P l = true.
Proof.
  destruct l as [|x l]; [congruence|]. intros _ H. simpl. rewrite (H x (or_introl eq_refl)). reflexivity.
Qed.

Lemma assert_plus_ok g k : (2 <= length g)%nat -> Forall (fun e => key e = k) g -> assert_plus_group g = true.
Proof.
  intros Hlen Hk. unfold assert_plus_group. apply forall_idx_true. intros j e He.
  rewrite Forall_forall in Hk. destruct (is_star e); simpl; [|reflexivity].
  apply existsb_all; [apply others_at_nonempty; exact Hlen|].
  intros o Ho. apply others_at_incl in Ho. rewrite (Hk e He). apply other_ok. apply Hk. exact Ho.
Qed.

Lemma assert_star_ok g k :
  Forall (fun e => key e = k) g -> existsb is_plus g = false -> forallb is_star g = false ->
  assert_star_group g = true.
Proof.
  intros Hk Hnp Hns. unfold assert_star_group. apply forallb_forall. intros e He.
  rewrite Forall_forall in Hk.
  destruct (is_star e) eqn:Es; simpl; [|reflexivity].
  assert (Ee : e = RStar k).
  { destruct (key_cases e k (Hk e He)) as [[_ [C _]]|[E|E]]; [congruence|exact E|subst e; discriminate]. }
  rewrite (Hk e He).
  (* elements different from e are atoms equal to k *)
  assert (Hos : forall o, In o (filter (fun o => negb (re_eqb o e)) g) -> re_eqb o k = true).
  { intros o Ho. apply filter_In in Ho as [Ho Hne].
    destruct (key_cases o k (Hk o Ho)) as [[E _]|[E|E]].
    - subst o. apply re_eqb_refl.
    - subst o e. rewrite re_eqb_refl in Hne. discriminate.
    - subst o. exfalso. assert (X : existsb is_plus g = true) by (apply existsb_exists; exists (RPlus k); auto).
      congruence. }
  apply andb_true_iff. split.
  - (* some non-star element exists *)
    assert (Hex : exists o, In o g /\ is_star o = false).
    { clear -Hns. induction g as [|y g IH]; simpl in Hns; [discriminate|].
      destruct (is_star y) eqn:E; simpl in Hns.
      - destruct (IH Hns) as [o [Ho Hs]]. exists o. split; [right; exact Ho|exact Hs].
      - exists y. split; [left; reflexivity|exact E]. }
    destruct Hex as [o [Ho Hso]]. apply existsb_exists. exists o. split.
    + apply filter_In. split; [exact Ho|]. destruct (re_eqb o e) eqn:X; [|reflexivity].
      apply re_eqb_eq in X. subst o. congruence.
    + apply Hos. apply filter_In. split; [exact Ho|]. destruct (re_eqb o e) eqn:X; [|reflexivity].
      apply re_eqb_eq in X. subst o. congruence.
  - apply forallb_forall. exact Hos.
Qed.

Lemma compress_group_ok g : g <> [] -> same_key g -> exists r, compress_group g = Ok r.
Proof.
  intros Hne [k Hk]. destruct g as [|x [|y g']]; [congruence|eexists; reflexivity|].
  set (g := x :: y :: g') in *. unfold compress_group. fold g.
  destruct (forallb is_star g) eqn:E1; [eexists; reflexivity|].
  destruct (existsb is_plus g) eqn:E2.
  - rewrite (assert_plus_ok g k); [eexists; reflexivity|simpl; lia|exact Hk].
  - destruct (existsb is_star g) eqn:E3.
    + rewrite (assert_star_ok g k Hk E2 E1). eexists; reflexivity.
    + assert (Hall : forallb (fun e => re_eqb e x) g = true).
      { apply forallb_forall. intros e He. rewrite Forall_forall in Hk.
        assert (Ae : forall o, In o g -> o = k).
        { intros o Ho. destruct (key_cases o k (Hk o Ho)) as [[E _]|[E|E]]; [exact E| |].
          - exfalso. assert (X : existsb is_star g = true) by (apply existsb_exists; exists o; subst o; auto). congruence.
          - exfalso. assert (X : existsb is_plus g = true) by (apply existsb_exists; exists o; subst o; auto). congruence. }
        rewrite (Ae e He), (Ae x (or_introl eq_refl)). apply re_eqb_refl. }
      subst g. cbv beta match. rewrite Hall. eexists; reflexivity.
Qed.

Lemma compress_groups_ok gs : Forall (fun g => g <> [] /\ same_key g) gs -> exists r, compress_groups gs = Ok r.
Proof.
  induction gs as [|g gs IH]; intro H; simpl; [eexists; reflexivity|].
  inversion H as [|g0 gs0 [Hne Hk] Hgs]; subst.
  destruct (compress_group_ok g Hne Hk) as [a Ha]. destruct (IH Hgs) as [b Hb].
  rewrite Ha, Hb. simpl. eexists; reflexivity.
Qed.

(* compress_concatenation_elements never raises: its two asserts and the final `assert False` are unreachable *)
Theorem compress_no_assert l : exists r, compress l = Ok r.
Proof. unfold compress. apply compress_groups_ok, groupby_keys. Qed.
