(* C15 — correctness of the derivative matcher of Smt/IvRe.v:  matchb r s = true <-> matches r s.
   (Constructive: complement is handled through the boolean decision itself.) *)
From Coq Require Import List NArith Bool Lia.
From ISLA Require Import Str IvRe.
Import ListNotations.

(* ---- star ---- *)
Lemma star_one (P : str -> Prop) u : P u -> star P u.
Proof. intro H. rewrite <- (app_nil_r u). constructor; [exact H|constructor]. Qed.

Lemma star_app_star (P : str -> Prop) u v : star P u -> star P v -> star P (u ++ v).
Proof.
  intros Hu Hv. induction Hu as [|a b Ha Hb IH]; [exact Hv|].
  rewrite <- app_assoc. constructor; assumption.
Qed.

Lemma star_mono (P Q : str -> Prop) : (forall s, P s -> Q s) -> forall s, star P s -> star Q s.
Proof. intros H s Hs. induction Hs as [|u v Hu Hv IH]; constructor; auto. Qed.

(* a non-empty star word starts with a non-empty factor *)
Lemma star_cons_inv (P : str -> Prop) s : star P s -> forall c t, s = c :: t ->
  exists u v, t = u ++ v /\ P (c :: u) /\ star P v.
Proof.
  intro Hs. induction Hs as [|u v Hu Hv IH]; intros c t E; [discriminate|].
  destruct u as [|x u'].
  - simpl in E. exact (IH c t E).
  - simpl in E. inversion E as [[Ex Et]]. subst x. exists u', v. auto.
Qed.

(* ---- nullable ---- *)
Lemma nullable_spec r : nullable r = true <-> matches r [].
Proof.
  induction r as [w|a b|c IH|c IH|c IH|a IHa b IHb|a IHa b IHb|a IHa b IHb|c IH| |]; simpl.
  - destruct w as [|x w]; split; intro H; try reflexivity; discriminate.
  - split; [discriminate|]. intros [lo [hi [x [_ [_ [E _]]]]]]. discriminate.
  - split; [intros _; constructor|reflexivity].
  - rewrite IH. split.
    + intro H. exists [], []. split; [reflexivity|split; [exact H|constructor]].
    + intros [u [v [E [Hu _]]]]. symmetry in E. apply app_eq_nil in E as [Eu _]. subst u. exact Hu.
  - split; [intros _; left; reflexivity|reflexivity].
  - rewrite orb_true_iff, IHa, IHb. tauto.
  - rewrite andb_true_iff, IHa, IHb. split.
    + intros [Ha Hb]. exists [], []. auto.
    + intros [u [v [E [Hu Hv]]]]. symmetry in E. apply app_eq_nil in E as [Eu Ev]. subst u v. auto.
  - rewrite andb_true_iff, IHa, IHb. tauto.
  - rewrite negb_true_iff. split.
    + intros Hn Hm. apply IH in Hm. congruence.
    + intro Hn. destruct (nullable c) eqn:E; [|reflexivity]. exfalso. apply Hn, IH. reflexivity.
  - split; [discriminate|]. intros [x E]. discriminate.
  - split; [discriminate|tauto].
Qed.

(* ---- derivative ---- *)
Lemma deriv_spec r : forall c s, matches (deriv c r) s <-> matches r (c :: s).
Proof.
  induction r as [w|a b|r IH|r IH|r IH|a IHa b IHb|a IHa b IHb|a IHa b IHb|r IH| |]; intros c s.
  - simpl. destruct w as [|x w]; simpl.
    + split; [tauto|discriminate].
    + destruct (N.eqb_spec x c) as [E|E]; simpl.
      * subst x. split; [intros ->; reflexivity|intro H; inversion H; reflexivity].
      * split; [tauto|]. intro H. inversion H as [[H1 H2]]. congruence.
  - cbn [deriv]. destruct a as [|lo [|a2 a']].
    + simpl. split; [tauto|]. intros [lo1 [hi1 [x [E _]]]]. discriminate.
    + destruct b as [|hi [|b2 b']].
      * simpl. split; [tauto|]. intros [lo1 [hi1 [x [_ [E _]]]]]. discriminate.
      * destruct (N.leb lo c && N.leb c hi) eqn:E; simpl.
        -- apply andb_true_iff in E as [E1 E2]. apply N.leb_le in E1, E2. split.
           ++ intros ->. exists lo, hi, c. auto.
           ++ intros [lo1 [hi1 [x [_ [_ [Ex _]]]]]]. inversion Ex. reflexivity.
        -- split; [tauto|]. intros [lo1 [hi1 [x [A [B [Ex [L1 L2]]]]]]].
           inversion A; inversion B; inversion Ex; subst.
           apply N.leb_le in L1, L2. rewrite L1, L2 in E. discriminate.
      * simpl. split; [tauto|]. intros [lo1 [hi1 [x [_ [E _]]]]]. discriminate.
    + simpl. split; [tauto|]. intros [lo1 [hi1 [x [E _]]]]. discriminate.
  - simpl. split.
    + intros [u [v [E [Hu Hv]]]]. subst s. apply IH in Hu.
      change (c :: u ++ v) with ((c :: u) ++ v). constructor; assumption.
    + intro H. destruct (star_cons_inv _ _ H c s eq_refl) as [u [v [E [Hu Hv]]]].
      exists u, v. split; [exact E|split; [apply IH; exact Hu|exact Hv]].
  - simpl. split.
    + intros [u [v [E [Hu Hv]]]]. subst s. apply IH in Hu. exists (c :: u), v. auto.
    + intros [u [v [E [Hu Hv]]]]. destruct u as [|x u'].
      * simpl in E. subst v. destruct (star_cons_inv _ _ Hv c s eq_refl) as [u [v [E [Hu' Hv']]]].
        exists u, v. split; [exact E|split; [apply IH; exact Hu'|exact Hv']].
      * simpl in E. inversion E as [[Ex Es]]. subst x. exists u', v.
        split; [reflexivity|split; [apply IH; exact Hu|exact Hv]].
  - simpl. rewrite IH. split; [auto|]. intros [H|H]; [discriminate|exact H].
  - simpl. rewrite IHa, IHb. tauto.
  - cbn [deriv].
    assert (Hd : matches (RConcat (deriv c a) b) s <->
                 exists u v, s = u ++ v /\ matches a (c :: u) /\ matches b v).
    { simpl. split; intros [u [v [E [Hu Hv]]]]; exists u, v; (split; [exact E|split; [apply IHa; exact Hu|exact Hv]]). }
    destruct (nullable a) eqn:En.
    + change (matches (RUnion (RConcat (deriv c a) b) (deriv c b)) s) with
        (matches (RConcat (deriv c a) b) s \/ matches (deriv c b) s).
      rewrite Hd, IHb. apply nullable_spec in En. simpl. split.
      * intros [[u [v [E [Hu Hv]]]]|H].
        -- exists (c :: u), v. subst s. auto.
        -- exists [], (c :: s). auto.
      * intros [u [v [E [Hu Hv]]]]. destruct u as [|x u'].
        -- simpl in E. subst v. right. exact Hv.
        -- simpl in E. inversion E as [[Ex Es]]. subst x. left. exists u', v. auto.
    + rewrite Hd. simpl. split.
      * intros [u [v [E [Hu Hv]]]]. exists (c :: u), v. subst s. auto.
      * intros [u [v [E [Hu Hv]]]]. destruct u as [|x u'].
        -- exfalso. apply nullable_spec in Hu. congruence.
        -- simpl in E. inversion E as [[Ex Es]]. subst x. exists u', v. auto.
  - simpl. rewrite IHa, IHb. tauto.
  - simpl. rewrite IH. tauto.
  - simpl. split; [intros ->; exists c; reflexivity|]. intros [x E]. inversion E. reflexivity.
  - simpl. tauto.
Qed.

(* ---- the matcher ---- *)
Theorem matchb_spec r s : matchb r s = true <-> matches r s.
Proof.
  revert r. induction s as [|c s IH]; intro r; simpl.
  - apply nullable_spec.
  - rewrite IH. apply deriv_spec.
Qed.

Corollary matches_dec r s : {matches r s} + {~ matches r s}.
Proof.
  destruct (matchb r s) eqn:E.
  - left. apply matchb_spec. exact E.
  - right. intro H. apply matchb_spec in H. congruence.
Qed.

Corollary matchb_false r s : matchb r s = false <-> ~ matches r s.
Proof.
  split.
  - intros E H. apply matchb_spec in H. congruence.
  - intro H. destruct (matchb r s) eqn:E; [|reflexivity]. exfalso. apply H, matchb_spec. exact E.
Qed.
