(* Ground SMT-LIB expressions over Bool / Int / String / RegLan as they occur in ISLa atoms after
   variable instantiation.  One untyped term language (sorts are checked by the evaluators:
   ill-sorted terms have no denotation).  Leaves:
     EStr s : string LITERAL of the atom (a z3 StringVal holding the code points s)
     EVar s : an ISLa variable that has been instantiated with the string s
   n-ary z3 applications of and / or / plus / times are encoded left-nested (Python: reduce, sum, prod). *)
From Coq Require Import List NArith ZArith Bool.
From ISLA Require Import Str.
Import ListNotations.

Inductive op1 :=
| ONot | OLen | OToInt | OToCode | OFromInt | OFromCode | OIsDigit | ONeg | OAbs
| OToRe | OStar | OPlus | OOpt | OComp.

Inductive op2 :=
| OAnd | OOr | OEq | OLt | OLe | OGt | OGe | OAdd | OSub | OMul | ODiv | OMod
| OConcat | OAt | OPrefixOf | OSuffixOf | OContains | OStrLt | OStrLe
| OInRe | ORConcat | ORUnion | ORInter | ORDiff | ORange.

Inductive op3 := OSubstr | OIndexOf | OReplace | OReplaceAll.

Inductive expr :=
| EStr (s : str)
| EVar (s : str)
| EInt (z : Z)
| EBool (b : bool)
| ERAll | ERNone | ERAllChar
| E1 (o : op1) (a : expr)
| E2 (o : op2) (a b : expr)
| E3 (o : op3) (a b c : expr)
| ELoop (lo : nat) (hi : option nat) (a : expr)     (* (_ re.loop lo hi) ; hi = None: one-parameter form *)
| EPow (n : nat) (a : expr).                        (* (_ re.^ n) *)

Fixpoint has_var (e : expr) : bool :=
  match e with
  | EVar _ => true
  | E1 _ a | ELoop _ _ a | EPow _ a => has_var a
  | E2 _ a b => has_var a || has_var b
  | E3 _ a b c => has_var a || has_var b || has_var c
  | _ => false
  end.

Fixpoint esize (e : expr) : nat :=
  match e with
  | E1 _ a | ELoop _ _ a | EPow _ a => S (esize a)
  | E2 _ a b => S (esize a + esize b)
  | E3 _ a b c => S (esize a + esize b + esize c)
  | _ => 1
  end.
