(* C15 — the tight guard drops_signed: (a) it is implied by the old guard (no inner sign), so the tight theorem
   subsumes the old one; (b) a converse-style refutation FAMILY: for every tail element t whose intervals are not
   symmetric, the regex  0* (-0 | 0) t  is in the class, is given the intervals of t alone, and matches "-0w"
   for every digit string w matched by t — unsound whenever  -value(w)  is not in the intervals of t;
   (c) examples separating the two guards. *)
From Coq Require Import List NArith ZArith Bool Lia.
From ISLA Require Import Str Outcome IvRe Intervals IvShape IvCompressFacts IntervalsFacts IvReFacts
                         IvCompressLang IvConcatFacts IvConcatSound IvTightShape IvTightSound.
Import ListNotations.
Open Scope Z_scope.

(* ================================================================== *)
(* (a) no inner sign  ==>  nothing signed is dropped                   *)
(* ================================================================== *)
Lemma stripped_forall (P : re -> Prop) rec l : Forall P l -> Forall P (stripped rec l).
Proof.
  intro H. induction H as [|c cs Hc Hcs IH]; simpl; [constructor|].
  destruct (rec c) as [| |v]; try constructor. destruct (is_ivs v [(0, 0)]); constructor; assumption.
Qed.

Lemma sflag_nosign ds zs : Forall telem zs -> forall nul, sflag ds nul zs = false.
Proof.
  intro H. induction H as [|z zs [_ [S _]] Hzs IH]; intro nul; simpl; [reflexivity|]. rewrite S. simpl. apply IH.
Qed.

Theorem inner_sign_no_drop q : forall f r, recognizedb r = true -> inner_sign r = false -> drops_signed q f r = false.
Proof.
  induction f as [|f IHf]; intros r Hr Hi; [reflexivity|].
  destruct r as [w|a b|c|c|c|a b|a b|a b|c| |]; try reflexivity.
  - simpl in Hr, Hi. apply andb_true_iff in Hr as [Ra Rb]. apply orb_false_iff in Hi as [Ia Ib].
    cbn [drops_signed]. rewrite (IHf a Ra Ia), (IHf b Rb Ib). reflexivity.
  - rewrite nifr_concat_ds. unfold concat_ds.
    destruct (split_struct _ Hr Hi) as [h [t [Es [Hh Ht]]]]. rewrite Es. cbn [map].
    destruct (compress (norm_range h :: map norm_range t)) as [[|first rest]|e] eqn:Ec; try reflexivity.
    assert (Ht' : Forall telem (map norm_range t)).
    { apply Forall_forall. intros e He. apply in_map_iff in He as [e0 [E0 He0]]. subst e.
      apply norm_telem. rewrite Forall_forall in Ht. apply Ht. exact He0. }
    destruct (compress_struct _ _ first rest (norm_helem h Hh) Ht' Ec) as [Hf Hrest].
    assert (Hmk : forall x, recognizedb x = true -> inner_sign x = false -> drops_signed q f (mk_concat x rest) = false).
    { intros x Rx Ix. destruct (mk_concat_rec rest x Rx Ix Hrest) as [R I]. apply IHf; assumption. }
    assert (Hcat : forall l, Forall telem l -> ds_tail (drops_signed q f) l = false).
    { intros l Hl. destruct l as [|x l']; [reflexivity|]. rewrite ds_tail_eq by discriminate.
      destruct (cat_re_rec (x :: l') ltac:(discriminate) Hl) as [R I]. apply IHf; assumption. }
    unfold elems_ds.
    destruct (is_union first || re_eqb first (ROpt re_minus_sign)) eqn:E1.
    { destruct rest as [|y rest']; [reflexivity|]. apply orb_true_iff in E1 as [E1|E1].
      - destruct first as [w|a' b'|c|c|c|a' b'|a' b'|a' b'|c| |]; try discriminate E1.
        destruct Hf as [Rf [If _]]. simpl in Rf, If. apply andb_true_iff in Rf as [Ra Rb].
        apply orb_false_iff in If as [Ia Ib]. cbn [existsb]. rewrite (Hmk a' Ra Ia), (Hmk b' Rb Ib). reflexivity.
      - apply re_eqb_eq in E1. subst first. cbn [existsb].
        rewrite (Hmk re_plus_sign eq_refl eq_refl), (Hmk re_minus_sign eq_refl eq_refl). reflexivity. }
    destruct (re_eqb first re_plus_sign || re_eqb first (ROpt re_plus_sign)) eqn:E2; [apply Hcat; exact Hrest|].
    destruct (re_eqb first re_minus_sign) eqn:E3; [apply Hcat; exact Hrest|].
    apply orb_false_iff in E1 as [U1 M1]. apply orb_false_iff in E2 as [P1 P2].
    assert (Hs : has_sign first = false) by (apply first_nosign; assumption).
    assert (Hft : telem first) by (destruct Hf as [R [_ C]]; repeat split; assumption).
    assert (Hall : Forall telem (first :: rest)) by (constructor; assumption).
    destruct (strip_zeroes (nifr q f) (first :: rest)) as [o rem] eqn:Est.
    destruct o as [| |v]; try reflexivity.
    destruct (stripped_spec _ _ v rem Est) as [El _].
    rewrite (sflag_nosign _ _ (stripped_forall telem (nifr q f) _ Hall)).
    assert (Tr : Forall telem rem).
    { rewrite El in Hall. apply Forall_app in Hall. exact (proj2 Hall). }
    rewrite (Hcat rem Tr). rewrite andb_false_r. reflexivity.
Qed.

(* ================================================================== *)
(* (b) the refutation family                                           *)
(* ================================================================== *)
Definition sz_union : re := RUnion (RConcat re_minus_sign zero_lit) zero_lit.       (* -0 | 0 *)
Definition sz_family (t : re) : re := RConcat (RConcat (RStar zero_lit) sz_union) t. (* 0* (-0 | 0) t *)

Lemma split_single t : is_concat t = false -> split_concat t = [t].
Proof. destruct t; try reflexivity; discriminate. Qed.

Lemma family_compress t : is_concat t = false -> norm_range t = t -> re_eqb sz_union (key t) = false ->
  compress (map norm_range (split_concat (sz_family t))) = Ok [RStar zero_lit; sz_union; t].
Proof.
  intros C N K. unfold sz_family. cbn [split_concat]. rewrite (split_single t C).
  change (split_concat sz_union) with [sz_union]. cbn [app map]. rewrite N.
  change (norm_range (RStar zero_lit)) with (RStar zero_lit). change (norm_range sz_union) with sz_union.
  unfold compress. rewrite groupby_cons_ne by reflexivity. rewrite groupby_cons_ne by exact K. reflexivity.
Qed.

Lemma rec_star0 q k : nifr q (6 + k) (RStar zero_lit) = Val (Some [(0, 0)]).
Proof. reflexivity. Qed.
Lemma rec_szu q k : nifr q (6 + k) sz_union = Val (Some [(0, 0)]).
Proof. reflexivity. Qed.

(* the element-list step on [0*; (-0|0); t], for an abstract recursive call *)
Section FamilyStep.
  Variables (q : bool) (rec : re -> out) (ds : re -> bool) (t : re) (ivs : list iv).
  Hypothesis R0 : rec (RStar zero_lit) = Val (Some [(0, 0)]).
  Hypothesis RU : rec sz_union = Val (Some [(0, 0)]).
  Hypothesis Rt : rec t = Val (Some ivs).

  Lemma family_strip :
    strip_zeroes rec [RStar zero_lit; sz_union; t] =
      if is_ivs (Some ivs) [(0, 0)] then (Val None, []) else (Val None, [t]).
  Proof. cbn [strip_zeroes]. rewrite R0. cbn [is_ivs ivs_eqb iv_eqb fst snd Z.eqb andb]. rewrite RU.
         cbn [is_ivs ivs_eqb iv_eqb fst snd Z.eqb andb]. rewrite Rt. reflexivity. Qed.

  Lemma family_stripped : exists X, stripped rec [RStar zero_lit; sz_union; t] = RStar zero_lit :: sz_union :: X.
  Proof. cbn [stripped]. rewrite R0. cbn [is_ivs ivs_eqb iv_eqb fst snd Z.eqb andb]. rewrite RU.
         cbn [is_ivs ivs_eqb iv_eqb fst snd Z.eqb andb]. eexists. reflexivity. Qed.

  Lemma elems_step_family : elems_step q rec (RStar zero_lit) [sz_union; t] = Val (Some ivs).
  Proof.
    unfold elems_step.
    change (is_union (RStar zero_lit) || re_eqb (RStar zero_lit) (ROpt re_minus_sign))%bool with false.
    change (re_eqb (RStar zero_lit) re_plus_sign || re_eqb (RStar zero_lit) (ROpt re_plus_sign))%bool with false.
    change (re_eqb (RStar zero_lit) re_minus_sign) with false. cbv iota.
    rewrite family_strip. destruct (is_ivs (Some ivs) [(0, 0)]) eqn:Ez.
    - apply is_ivs_eq in Ez. inversion Ez. reflexivity.
    - cbn [length Nat.ltb Nat.leb]. exact Rt.
  Qed.

  Lemma elems_ds_family : elems_ds ds rec (RStar zero_lit) [sz_union; t] = true.
  Proof.
    unfold elems_ds.
    change (is_union (RStar zero_lit) || re_eqb (RStar zero_lit) (ROpt re_minus_sign))%bool with false.
    change (re_eqb (RStar zero_lit) re_plus_sign || re_eqb (RStar zero_lit) (ROpt re_plus_sign))%bool with false.
    change (re_eqb (RStar zero_lit) re_minus_sign) with false. cbv iota.
    rewrite family_strip. destruct family_stripped as [X EX]. rewrite EX.
    destruct (is_ivs (Some ivs) [(0, 0)]); reflexivity.
  Qed.
End FamilyStep.

Section Family.
  Variables (q : bool) (k : nat) (t : re) (ivs : list iv).
  Hypothesis C : is_concat t = false.
  Hypothesis N : norm_range t = t.
  Hypothesis K : re_eqb sz_union (key t) = false.
  Hypothesis Ht : nifr q (6 + k) t = Val (Some ivs).

  Lemma family_nifr : nifr q (7 + k) (sz_family t) = Val (Some ivs).
  Proof.
    change (7 + k)%nat with (S (6 + k)). unfold sz_family. rewrite nifr_concat. fold (sz_family t).
    unfold concat_step. rewrite (family_compress t C N K).
    exact (elems_step_family q (nifr q (6 + k)) t ivs (rec_star0 q k) (rec_szu q k) Ht).
  Qed.

  Lemma family_drops : drops_signed q (7 + k) (sz_family t) = true.
  Proof.
    change (7 + k)%nat with (S (6 + k)). unfold sz_family. rewrite nifr_concat_ds. fold (sz_family t).
    unfold concat_ds. rewrite (family_compress t C N K).
    exact (elems_ds_family (nifr q (6 + k)) (drops_signed q (6 + k)) t ivs (rec_star0 q k) (rec_szu q k) Ht).
  Qed.

  (* every digit string matched by the tail, prefixed with "-0", is matched by the family member *)
  Lemma family_matches w : matches t w -> matches (sz_family t) (45%N :: 48%N :: w).
  Proof.
    intro Hw. exists [45%N; 48%N], w. split; [reflexivity|]. split; [|exact Hw].
    exists [], [45%N; 48%N]. split; [reflexivity|]. split; [constructor|].
    left. exists [45%N], [48%N]. split; [reflexivity|]. split; reflexivity.
  Qed.

  Lemma family_value w : forallb isdig w = true -> intval (45%N :: 48%N :: w) = Some (- digits_val w 0).
  Proof.
    intro D. change (intval (45%N :: 48%N :: w)) with (option_map Z.opp (numeral (48%N :: w))).
    unfold numeral. change (forallb isdig (48%N :: w)) with (forallb isdig w). unfold str, chr in *. rewrite D. reflexivity.
  Qed.

  Theorem family_unsound w :
    matches t w -> forallb isdig w = true -> ~ In_ivs (- digits_val w 0) ivs ->
    nifr q (7 + k) (sz_family t) = Val (Some ivs) /\ drops_signed q (7 + k) (sz_family t) = true /\
    matches (sz_family t) (45%N :: 48%N :: w) /\ intval (45%N :: 48%N :: w) = Some (- digits_val w 0) /\
    ~ In_ivs (- digits_val w 0) ivs.
  Proof.
    intros Hw D Hni. split; [exact family_nifr|]. split; [exact family_drops|].
    split; [apply family_matches; exact Hw|]. split; [apply family_value; exact D|exact Hni].
  Qed.
End Family.

(* instances: every non-zero digit literal and every digit range [a-b] with 1 <= a < b as tail *)
Theorem family_digit q k d : isdig d = true -> d <> 48%N ->
  let r := sz_family (RStr [d]) in let n := Z.of_N d - 48 in
  recognizedb r = true /\ drops_signed q (7 + k) r = true /\ nifr q (7 + k) r = Val (Some [(n, n)]) /\
  matches r [45%N; 48%N; d] /\ intval [45%N; 48%N; d] = Some (- n) /\ ~ In_ivs (- n) [(n, n)].
Proof.
  intros D Nz r n. pose proof (isdig_range d D) as Rg.
  assert (Ht : nifr q (6 + k) (RStr [d]) = Val (Some [(n, n)])) by (apply (nifr_single q (5 + k) d D)).
  assert (Hni : ~ In_ivs (- digits_val [d] 0) [(n, n)]).
  { intro H. apply In_ivs_single in H. unfold In_iv, maxsize in H. cbn [fst snd digits_val] in H. unfold n in H. lia. }
  destruct (family_unsound q k (RStr [d]) [(n, n)] eq_refl eq_refl eq_refl Ht [d] eq_refl
              ltac:(simpl; rewrite D; reflexivity) Hni) as [A [B [M [V X]]]].
  split; [unfold r; simpl; change (is_digit d) with (isdig d); rewrite D; reflexivity|].
  split; [exact B|]. split; [exact A|]. split; [exact M|].
  assert (En : digits_val [d] 0 = n) by (unfold n; simpl; lia). rewrite En in V, X. split; [exact V|exact X].
Qed.

Theorem family_range q k a b : isdig a = true -> isdig b = true -> (48 < a)%N -> (a < b)%N ->
  let r := sz_family (RRange [a] [b]) in let lo := Z.of_N a - 48 in let hi := Z.of_N b - 48 in
  documented_shapeb r = true /\ drops_signed q (7 + k) r = true /\ nifr q (7 + k) r = Val (Some [(lo, hi)]) /\
  forall x, (a <= x <= b)%N ->
    matches r [45%N; 48%N; x] /\ intval [45%N; 48%N; x] = Some (- (Z.of_N x - 48)) /\ ~ In_ivs (- (Z.of_N x - 48)) [(lo, hi)].
Proof.
  intros Da Db La Lab r lo hi. pose proof (isdig_range a Da) as Ra. pose proof (isdig_range b Db) as Rb.
  assert (Ht : nifr q (6 + k) (RRange [a] [b]) = Val (Some [(lo, hi)]))
    by (apply (nifr_range q (5 + k) a b Da Db); lia).
  assert (Nn : norm_range (RRange [a] [b]) = RRange [a] [b]).
  { cbn [norm_range]. destruct (str_eqb [a] [b]) eqn:E; [|reflexivity]. apply str_eqb_eq in E. inversion E. lia. }
  split.
  { unfold r, documented_shapeb. simpl. change (is_digit a) with (isdig a). change (is_digit b) with (isdig b).
    rewrite Da, Db. simpl. apply N.leb_le. lia. }
  split; [exact (family_drops q k (RRange [a] [b]) [(lo, hi)] eq_refl Nn eq_refl Ht)|].
  split; [exact (family_nifr q k (RRange [a] [b]) [(lo, hi)] eq_refl Nn eq_refl Ht)|].
  intros x Hx.
  assert (Dx : isdig x = true) by (unfold isdig; apply andb_true_iff; split; apply N.leb_le; lia).
  assert (Mx : matches (RRange [a] [b]) [x]) by (exists a, b, x; repeat split; lia).
  split; [apply family_matches; exact Mx|].
  split.
  - rewrite (family_value [x]) by (simpl; rewrite Dx; reflexivity). simpl. f_equal. all: lia.
  - intro H. apply In_ivs_single in H. unfold In_iv, maxsize in H. cbn [fst snd] in H. unfold lo, hi in H. lia.
Qed.

(* ================================================================== *)
(* (c) examples separating the guards                                  *)
(* ================================================================== *)
(* inner sign, but nothing signed is dropped: the tight theorem applies, the old one does not *)
Definition ex_inner_kept : re := RConcat zero_lit (RConcat re_minus_sign (RRange [49%N] [57%N])).
(* a signed zero element IS dropped, but behind the non-nullable "0": the sign cannot reach the front *)
Definition ex_inner_shielded : re := RConcat (RConcat zero_lit sz_union) (RStr [53%N]).

Example tight_examples :
  (documented_shapeb ex_inner_kept = true /\ K_inner_sign ex_inner_kept = true /\
   K_drops_signed true ex_inner_kept = false /\ K_drops_signed false ex_inner_kept = false /\
   nifr_top true ex_inner_kept = Val (Some [(-9, -1)])) /\
  (documented_shapeb ex_inner_shielded = true /\ K_inner_sign ex_inner_shielded = true /\
   K_drops_signed true ex_inner_shielded = false /\ K_drops_signed false ex_inner_shielded = false /\
   nifr_top true ex_inner_shielded = Val (Some [(5, 5)]) /\
   matches ex_inner_shielded [48%N; 48%N; 53%N] /\ intval [48%N; 48%N; 53%N] = Some 5) /\
  (K_drops_signed true cx_inner_zero = true /\ K_drops_signed false cx_inner_zero = true /\
   cx_inner_zero = sz_family (RStr [53%N])).
Proof.
  split; [repeat split; vm_compute; reflexivity|]. split.
  - split; [reflexivity|]. split; [reflexivity|]. split; [vm_compute; reflexivity|]. split; [vm_compute; reflexivity|].
    split; [vm_compute; reflexivity|]. split; [apply matchb_spec; vm_compute; reflexivity|reflexivity].
  - repeat split; vm_compute; reflexivity.
Qed.
