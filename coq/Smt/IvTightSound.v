(* C15 — over-approximation half of numeric_intervals_from_regex on the recognised vocabulary under the
   TIGHTER guard  drops_signed q fuel r = false  (IvTightShape.v): no element that carries a sign is dropped as
   zero padding while the sign can reach the front.  Inner signs are allowed.  Same invariant (Good, lenient
   value) as IvConcatSound.v; elements behind the first one may now carry signs. *)
From Coq Require Import List NArith ZArith Bool Lia.
From ISLA Require Import Str Outcome IvRe Intervals IvShape IvCompressFacts IntervalsFacts IvReFacts
                         IvCompressLang IvConcatFacts IvConcatSound IvTightShape.
Import ListNotations.
Open Scope Z_scope.

(* ================================================================== *)
(* elements of the flattened list: recognised, not a concatenation     *)
(* ================================================================== *)
Definition relem (e : re) : Prop := recognizedb e = true /\ is_concat e = false.

Lemma split_relem r : recognizedb r = true -> Forall relem (split_concat r).
Proof.
  induction r as [w|a b|c IH|c IH|c IH|a IHa b IHb|a IHa b IHb|a IHa b IHb|c IH| |]; intro Hr;
    try (constructor; [split; [exact Hr|reflexivity]|constructor]).
  simpl in *. apply andb_true_iff in Hr as [Ha Hb]. apply Forall_app. split; [apply IHa|apply IHb]; assumption.
Qed.

Lemma norm_relem e : relem e -> relem (norm_range e).
Proof. intros [A C]. split; [apply norm_recognized; exact A|rewrite norm_is_concat; exact C]. Qed.

Lemma relem_derived l e' : Forall relem l -> derived l e' -> relem e'.
Proof.
  intros Hl [Hi|[e [He [Hsp Hr]]]]; rewrite Forall_forall in Hl; [apply Hl; exact Hi|].
  destruct (Hl e He) as [A C]. unfold starplus in Hsp.
  assert (Hc : exists c, key e = c /\ (c = zero_lit \/ c = RRange [48%N] [48%N] \/ c = r09)).
  { destruct e; try discriminate Hsp; simpl in A; eexists; (split; [reflexivity|apply star_child; exact A]). }
  destruct Hc as [c [Ek Hc]].
  destruct Hc as [E|[E|E]]; rewrite E in Ek; rewrite Ek in Hr; destruct Hr as [E'|E']; subst e'; split; reflexivity.
Qed.

Lemma compress_relem l r : Forall relem l -> compress l = Ok r -> Forall relem r.
Proof.
  intros Hl Hc. apply Forall_forall. intros e' He'. eapply relem_derived; [exact Hl|]. eapply compress_elems; eauto.
Qed.

Lemma mk_concat_recog rest : forall x, recognizedb x = true -> Forall relem rest -> recognizedb (mk_concat x rest) = true.
Proof.
  unfold mk_concat. induction rest as [|y rest IH]; intros x Hx Hr; [exact Hx|].
  inversion Hr as [|y' r' [Ry _] Hr']; subst. simpl fold_left. apply IH; [|exact Hr'].
  simpl. rewrite Hx, Ry. reflexivity.
Qed.

Lemma cat_re_recog l : l <> [] -> Forall relem l -> recognizedb (cat_re l) = true.
Proof.
  destruct l as [|x rest]; [congruence|]. intros _ H. inversion H as [|x' r' [Rx _] Hr]; subst.
  apply mk_concat_recog; assumption.
Qed.

Lemma relem_nosign first : relem first -> is_union first = false ->
  re_eqb first (ROpt re_minus_sign) = false -> re_eqb first re_plus_sign = false ->
  re_eqb first (ROpt re_plus_sign) = false -> re_eqb first re_minus_sign = false -> has_sign first = false.
Proof.
  intros [R C] U M1 P1 P2 M2.
  destruct first as [w|a b|c|c|c|a b|a b|a b|c| |]; simpl in R, U, C; try discriminate; try reflexivity.
  - destruct w as [|x [|? ?]]; try discriminate R.
    destruct (N.eqb_spec x 43) as [E|N1]; [subst x; discriminate P1|].
    destruct (N.eqb_spec x 45) as [E|N2]; [subst x; discriminate M2|].
    simpl. unfold c_plus, c_minus. apply N.eqb_neq in N1, N2. rewrite N1, N2. reflexivity.
  - destruct (star_child c R) as [E|[E|E]]; subst c; reflexivity.
  - destruct (star_child c R) as [E|[E|E]]; subst c; reflexivity.
  - unfold sign_lit in R. apply orb_true_iff in R as [H|H]; apply re_eqb_eq in H; subst c;
      [rewrite re_eqb_refl in P2; discriminate P2|rewrite re_eqb_refl in M1; discriminate M1].
Qed.

(* ================================================================== *)
(* the stripped prefix                                                 *)
(* ================================================================== *)
Lemma stripped_spec rec l : forall v rem, strip_zeroes rec l = (Val v, rem) ->
  l = stripped rec l ++ rem /\ Forall (fun z => rec z = Val (Some [(0, 0)])) (stripped rec l).
Proof.
  induction l as [|c cs IH]; intros v rem H; simpl in H |- *.
  - inversion H; subst. split; [reflexivity|constructor].
  - destruct (rec c) as [| |v0] eqn:Ec; try (inversion H; fail).
    destruct (is_ivs v0 [(0, 0)]) eqn:Ez.
    + destruct (IH v rem H) as [El Hz]. split; [simpl; rewrite <- El; reflexivity|].
      constructor; [|exact Hz]. rewrite Ec. apply is_ivs_eq in Ez. subst v0. reflexivity.
    + inversion H; subst. split; [reflexivity|constructor].
Qed.

(* a non-empty digit prefix forces the whole string to be digits *)
Lemma lval_digit_prefix p w n : p <> [] -> forallb isdig p = true -> lval (p ++ w) = Some n ->
  forallb isdig w = true /\ n = digits_val (p ++ w) 0.
Proof.
  destruct p as [|c p']; [congruence|]. intros _ D H. pose proof D as D'. simpl in D'.
  apply andb_true_iff in D' as [Dc _]. apply isdig_range in Dc.
  change ((c :: p') ++ w) with (c :: (p' ++ w)) in *. unfold lval in H.
  destruct (N.eqb_spec c 43) as [E|_]; [lia|]. destruct (N.eqb_spec c 45) as [E|_]; [lia|].
  unfold lnum in H. destruct (forallb isdig (c :: p' ++ w)) eqn:F; [|discriminate H].
  inversion H. split; [|reflexivity].
  change (c :: p' ++ w) with ((c :: p') ++ w) in F. rewrite digits_app in F. apply andb_true_iff in F as [_ F]. exact F.
Qed.

Lemma zero_prefix_lval p t n : forallb isdig p = true -> digits_val p 0 = 0 -> lval (p ++ t) = Some n -> lval t = Some n.
Proof.
  intros D V H. destruct p as [|c p']; [exact H|].
  destruct (lval_digit_prefix (c :: p') t n ltac:(discriminate) D H) as [Dt En].
  rewrite (lval_digits t Dt). rewrite dv_app, V in En. subst n. reflexivity.
Qed.

Section StepT.
  Variable q : bool.
  Variable rec : re -> out.
  Variable dsf : re -> bool.
  Hypothesis IH : forall x ivs, recognizedb x = true -> dsf x = false -> rec x = Val (Some ivs) -> Good x ivs.
  Hypothesis IHS : forall x ivs, recognizedb x = true -> has_sign x = false -> rec x = Val (Some ivs) -> Good x ivs.
  Hypothesis HN : forall x, telem x -> is_union x = false -> rec x = Val None -> forall s, ~ matches x s.

  Lemma ds_tail_eq rest : rest <> [] -> ds_tail dsf rest = dsf (cat_re rest).
  Proof. destruct rest as [|x [|y r]]; [congruence|reflexivity|reflexivity]. Qed.

  Lemma good_mk_t x rest ivs : recognizedb x = true -> Forall relem rest -> dsf (mk_concat x rest) = false ->
    rec (mk_concat x rest) = Val (Some ivs) ->
    Forall bounded ivs /\ forall t n, matches_cat (x :: rest) t -> lval t = Some n -> In_ivs n ivs.
  Proof.
    intros Hx Hr Hd Hn. destruct (IH _ _ (mk_concat_recog rest x Hx Hr) Hd Hn) as [B G]. split; [exact B|].
    intros t n Hm Hv. apply (G t n); [apply mk_concat_lang; exact Hm|exact Hv].
  Qed.

  Lemma good_cat_t l ivs : l <> [] -> Forall relem l -> dsf (cat_re l) = false -> rec (cat_re l) = Val (Some ivs) ->
    Forall bounded ivs /\ forall t n, matches_cat l t -> lval t = Some n -> In_ivs n ivs.
  Proof.
    intros Hne Hl Hd Hn. destruct (IH _ _ (cat_re_recog l Hne Hl) Hd Hn) as [B G]. split; [exact B|].
    intros t n Hm Hv. apply (G t n); [apply cat_re_lang; exact Hm|exact Hv].
  Qed.

  (* the stripped prefix contributes a digit string of value 0 (or nothing) to every string with a lenient value *)
  Lemma strip_sound zs : Forall relem zs -> Forall (fun z => rec z = Val (Some [(0, 0)])) zs ->
    forall nul p, sflag dsf nul zs = false -> forallb isdig p = true -> digits_val p 0 = 0 ->
      (nul = false -> p <> []) ->
      forall u, matches_cat zs u -> forall t n, lval (p ++ u ++ t) = Some n -> lval t = Some n.
  Proof.
    intro Hr. induction Hr as [|z zs [Rz Cz] Hzs IHz]; intros Hz nul p Hfl Dp Vp Hnul u Hm t n Hv.
    - simpl in Hm. subst u. simpl in Hv. exact (zero_prefix_lval p t n Dp Vp Hv).
    - inversion Hz as [|z' zs' Hez Hz']; subst. destruct Hm as [u1 [u' [E [Hu1 Hu']]]]. subst u.
      cbn [sflag] in Hfl. apply orb_false_iff in Hfl as [Fz Fl].
      assert (Hu1d : forallb isdig u1 = true /\ digits_val u1 0 = 0).
      { destruct (has_sign z) eqn:Sz.
        - (* signed element: a non-empty digit prefix precedes it *)
          simpl in Fz. apply orb_false_iff in Fz as [Nul Dz]. specialize (Hnul Nul).
          rewrite <- app_assoc in Hv.
          destruct (lval_digit_prefix p (u1 ++ u' ++ t) n Hnul Dp Hv) as [Dall _].
          rewrite digits_app in Dall. apply andb_true_iff in Dall as [Du1 _]. split; [exact Du1|].
          destruct (IH z _ Rz Dz Hez) as [_ G]. pose proof (G u1 _ Hu1 (lval_digits u1 Du1)) as Hin.
          apply In_ivs_zero in Hin. exact Hin.
        - pose proof (nosign_digits z Rz Sz u1 Hu1) as Du1. split; [exact Du1|].
          destruct (IHS z _ Rz Sz Hez) as [_ G]. pose proof (G u1 _ Hu1 (lval_digits u1 Du1)) as Hin.
          apply In_ivs_zero in Hin. exact Hin. }
      destruct Hu1d as [Du1 Vu1].
      refine (IHz Hz' (nul && nullable z)%bool (p ++ u1) Fl _ _ _ u' Hu' t n _).
      + rewrite digits_app, Dp, Du1. reflexivity.
      + rewrite dv_app, Vp. exact Vu1.
      + intros Hn0 E. apply app_eq_nil in E as [Ep Eu]. apply andb_false_iff in Hn0 as [Hn0|Hn0].
        * exact (Hnul Hn0 Ep).
        * subst u1. apply nullable_spec in Hu1. congruence.
      + rewrite <- !app_assoc in Hv |- *. exact Hv.
  Qed.

  Lemma elems_good_t first rest ivs :
    Forall relem (first :: rest) -> elems_ds dsf rec first rest = false ->
    elems_step q rec first rest = Val (Some ivs) ->
    Forall bounded ivs /\ forall s n, matches_cat (first :: rest) s -> lval s = Some n -> In_ivs n ivs.
  Proof.
    intros Hall Hd Hn. inversion Hall as [|f' r' Hf Hr]; subst. unfold elems_step in Hn. unfold elems_ds in Hd.
    destruct (is_union first || re_eqb first (ROpt re_minus_sign)) eqn:E1.
    { assert (Hne : rest <> []) by (intro; subst rest; discriminate Hn).
      apply orb_true_iff in E1 as [E1|E1].
      - destruct first as [w|a b|c|c|c|a b|a' b'|a' b'|c| |]; try discriminate E1.
        assert (Hn' : merge_outs [rec (mk_concat a rest); rec (mk_concat b rest)] = Val (Some ivs))
          by (destruct rest; [congruence|exact Hn]).
        assert (Hd' : dsf (mk_concat a rest) = false /\ dsf (mk_concat b rest) = false).
        { destruct rest; [congruence|]. cbn [existsb] in Hd. rewrite orb_false_r in Hd.
          apply orb_false_iff in Hd. exact Hd. }
        destruct Hd' as [Da Db].
        apply merge_outs_val in Hn'. destruct Hn' as [ia [ib [Ea [Eb Ei]]]].
        destruct Hf as [Rf _]. simpl in Rf. apply andb_true_iff in Rf as [Ra Rb].
        destruct (good_mk_t a rest ia Ra Hr Da Ea) as [Ba Ga]. destruct (good_mk_t b rest ib Rb Hr Db Eb) as [Bb Gb].
        destruct (merge_two_good ia ib Ba Bb) as [Bm Gm]. subst ivs. split; [exact Bm|].
        intros s n Hm Hv. apply Gm. destruct Hm as [u [v [E [[Hu|Hu] Hm]]]]; [left; apply (Ga s n)|right; apply (Gb s n)];
          try exact Hv; exists u, v; auto.
      - apply re_eqb_eq in E1. subst first.
        assert (Hn' : merge_outs [rec (mk_concat re_plus_sign rest); rec (mk_concat re_minus_sign rest)] = Val (Some ivs))
          by (destruct rest; [congruence|exact Hn]).
        assert (Hd' : dsf (mk_concat re_plus_sign rest) = false /\ dsf (mk_concat re_minus_sign rest) = false).
        { destruct rest; [congruence|]. cbn [existsb] in Hd. rewrite orb_false_r in Hd.
          apply orb_false_iff in Hd. exact Hd. }
        destruct Hd' as [Da Db].
        apply merge_outs_val in Hn'. destruct Hn' as [ia [ib [Ea [Eb Ei]]]].
        destruct (good_mk_t re_plus_sign rest ia eq_refl Hr Da Ea) as [Ba Ga].
        destruct (good_mk_t re_minus_sign rest ib eq_refl Hr Db Eb) as [Bb Gb].
        destruct (merge_two_good ia ib Ba Bb) as [Bm Gm]. subst ivs. split; [exact Bm|].
        intros s n Hm Hv. apply Gm. destruct Hm as [u [v [E [[Hu|Hu] Hm]]]].
        + subst u. simpl in E. subst s. left. apply (Ga (43%N :: v) n); [|rewrite lval_plus; exact Hv].
          exists [43%N], v. split; [reflexivity|]. split; [reflexivity|exact Hm].
        + right. apply (Gb s n); [|exact Hv]. exists u, v. auto. }
    destruct (re_eqb first re_plus_sign || re_eqb first (ROpt re_plus_sign)) eqn:E2.
    { assert (Hne : rest <> []) by (intro; subst rest; discriminate Hn).
      rewrite (concat_tail_eq rec rest Hne) in Hn. rewrite (ds_tail_eq rest Hne) in Hd.
      destruct (good_cat_t rest ivs Hne Hr Hd Hn) as [B G].
      split; [exact B|]. intros s n [u [v [E [Hu Hm]]]] Hv. apply (G v n Hm).
      apply orb_true_iff in E2 as [E2|E2]; apply re_eqb_eq in E2; subst first.
      - simpl in Hu. subst u s. exact Hv.
      - destruct Hu as [Hu|Hu]; simpl in Hu; subst u s; exact Hv. }
    destruct (re_eqb first re_minus_sign) eqn:E3.
    { assert (Hne : rest <> []) by (intro; subst rest; discriminate Hn).
      rewrite (concat_tail_eq rec rest Hne) in Hn. rewrite (ds_tail_eq rest Hne) in Hd.
      destruct (rec (cat_re rest)) as [| |[ivs'|]] eqn:Er; try discriminate Hn.
      simpl in Hn. inversion Hn; subst ivs. destruct (good_cat_t rest ivs' Hne Hr Hd Er) as [B G].
      split; [apply neg_bounded; exact B|]. intros s n [u [v [E [Hu Hm]]]] Hv.
      apply re_eqb_eq in E3. subst first. simpl in Hu. subst u s. apply neg_In. apply (G v (- n) Hm).
      change (lval ([c_minus] ++ v)) with (option_map Z.opp (lval v)) in Hv.
      destruct (lval v) as [m|]; [|discriminate Hv]. simpl in Hv. inversion Hv. f_equal. lia. }
    apply orb_false_iff in E1 as [U1 M1]. apply orb_false_iff in E2 as [P1 P2].
    assert (Hs : has_sign first = false) by (apply relem_nosign; assumption).
    assert (Hft : telem first) by (destruct Hf as [R C]; repeat split; assumption).
    destruct (strip_zeroes rec (first :: rest)) as [o rem] eqn:Est.
    destruct o as [| |v]; try discriminate Hn.
    destruct (stripped_spec rec _ v rem Est) as [El Hz].
    set (zs := stripped rec (first :: rest)) in *.
    assert (Hsplit : Forall relem zs /\ Forall relem rem) by (apply Forall_app; rewrite <- El; exact Hall).
    destruct Hsplit as [Tz Tr].
    apply orb_false_iff in Hd as [Hfl Hd].
    destruct (Nat.ltb (length rem) (length (first :: rest))) eqn:Elt.
    { cbn [andb] in Hd. destruct rem as [|x more].
      - inversion Hn; subst ivs. split; [constructor; [unfold bounded, maxsize; simpl; lia|constructor]|].
        intros s n Hm Hv. rewrite El, app_nil_r in Hm.
        assert (Hv' : lval ([] ++ s ++ []) = Some n) by (rewrite app_nil_r; exact Hv).
        pose proof (strip_sound zs Tz Hz true [] Hfl eq_refl eq_refl ltac:(discriminate) s Hm [] n Hv') as H0.
        simpl in H0. inversion H0. apply In_ivs_single. unfold In_iv, maxsize. simpl. lia.
      - assert (Hn' : rec (cat_re (x :: more)) = Val (Some ivs)) by (destruct more; exact Hn).
        rewrite (ds_tail_eq (x :: more)) in Hd by discriminate.
        destruct (good_cat_t (x :: more) ivs ltac:(discriminate) Tr Hd Hn') as [B G]. split; [exact B|].
        intros s n Hm Hv. rewrite El in Hm.
        apply matches_cat_app in Hm. destruct Hm as [z [t [E [Hmz Hmt]]]]. subst s.
        apply (G t n Hmt).
        exact (strip_sound zs Tz Hz true [] Hfl eq_refl eq_refl ltac:(discriminate) z Hmz t n Hv). }
    destruct rest as [|c1 [|c2 rest']]; try discriminate Hn.
    destruct (rec first) as [| |v0] eqn:E0; try discriminate Hn. cbn [out_bind] in Hn.
    assert (Hsem : telem c1 -> forall s n, matches_cat [first; c1] s -> lval s = Some n ->
              exists u v, matches first u /\ matches c1 v /\ forallb isdig u = true /\ forallb isdig v = true /\
                          n = digits_val v (digits_val u 0)).
    { intros Tc1 s n [u [v' [E [Hu Hm]]]] Hv. apply matches_cat_single in Hm. subst s.
      destruct Hft as [R [S _]]. destruct Tc1 as [R1 [S1 _]].
      pose proof (nosign_digits first R S u Hu) as Du. pose proof (nosign_digits c1 R1 S1 v' Hm) as Dv.
      exists u, v'. repeat split; try assumption.
      rewrite (lval_digits (u ++ v')) in Hv by (rewrite digits_app, Du, Dv; reflexivity).
      rewrite dv_app in Hv. inversion Hv. reflexivity. }
    assert (Hlow : forall u, matches first u -> forallb isdig u = true -> v0 = Some [(1, 9)] -> 1 <= digits_val u 0).
    { intros u Hu Du Ev. subst v0. destruct Hf as [R _]. destruct (IHS first _ R Hs E0) as [_ G].
      pose proof (G u _ Hu (lval_digits u Du)) as Hin. apply In_ivs_single in Hin.
      unfold In_iv, maxsize in Hin. cbn [fst snd] in Hin. lia. }
    assert (Hc1 : (is_plus c1 || is_star c1) = true -> re_eqb (key c1) r09 = true -> telem c1).
    { intros PS K. destruct c1 as [w|a b|c|c|c|a b|a b|a b|c| |]; try discriminate PS; simpl in K;
        apply re_eqb_eq in K; subst c; repeat split; reflexivity. }
    destruct (is_ivs v0 [(1, 9)] && is_star c1 && re_eqb (key c1) r09) eqn:C1.
    { inversion Hn; subst ivs. split; [constructor; [unfold bounded, maxsize; simpl; lia|constructor]|].
      apply andb_true_iff in C1 as [C1 K]. apply andb_true_iff in C1 as [C1 St].
      assert (Tc1 : telem c1) by (apply Hc1; [rewrite St; apply orb_true_r|exact K]).
      intros s n Hm Hv. destruct (Hsem Tc1 s n Hm Hv) as [u [v1 [Hu [Hv1 [Du [Dv En]]]]]].
      apply is_ivs_eq in C1.
      pose proof (Hlow u Hu Du C1) as L. pose proof (dv_ge v1 Dv (digits_val u 0) ltac:(lia)) as L2.
      apply In_ivs_single. unfold In_iv. cbn [fst snd]. split; [right; lia|left; reflexivity]. }
    destruct (is_ivs_q q v0 [(1, 9)] && is_plus c1 && re_eqb (key c1) r09) eqn:C2.
    { inversion Hn; subst ivs. split; [constructor; [unfold bounded, maxsize; simpl; lia|constructor]|].
      apply andb_true_iff in C2 as [C2 K]. apply andb_true_iff in C2 as [C2 Pl].
      assert (Tc1 : telem c1) by (apply Hc1; [rewrite Pl; reflexivity|exact K]).
      intros s n Hm Hv. destruct (Hsem Tc1 s n Hm Hv) as [u [v1 [Hu [Hv1 [Du [Dv En]]]]]].
      assert (Ec : c1 = RPlus r09) by (destruct c1; try discriminate Pl; apply re_eqb_eq in K; simpl in K; subst; reflexivity).
      subst c1. pose proof (plus09_nonempty v1 Hv1) as Nv.
      destruct (is_ivs_q_cases q v0 _ C2) as [Ev|Ev].
      - pose proof (Hlow u Hu Du Ev) as L. pose proof (dv_ge10 v1 Nv Dv (digits_val u 0) ltac:(lia)) as L2.
        apply In_ivs_single. unfold In_iv. cbn [fst snd]. split; [right; lia|left; reflexivity].
      - exfalso. subst v0. exact (HN first Hft U1 E0 u Hu). }
    destruct (is_ivs_q q v0 [(0, 9)] && (is_plus c1 || is_star c1) && re_eqb (key c1) r09) eqn:C3; [|discriminate Hn].
    inversion Hn; subst ivs. split; [constructor; [unfold bounded, maxsize; simpl; lia|constructor]|].
    apply andb_true_iff in C3 as [C3 K]. apply andb_true_iff in C3 as [C3 PS].
    assert (Tc1 : telem c1) by (apply Hc1; assumption).
    intros s n Hm Hv. destruct (Hsem Tc1 s n Hm Hv) as [u [v1 [Hu [Hv1 [Du [Dv En]]]]]].
    pose proof (dv_ge u Du 0 ltac:(lia)) as L. pose proof (dv_ge v1 Dv (digits_val u 0) ltac:(lia)) as L2.
    apply In_ivs_single. unfold In_iv. cbn [fst snd]. split; [right; lia|left; reflexivity].
  Qed.

  Lemma concat_step_good_t r ivs : recognizedb r = true -> concat_ds dsf rec r = false ->
    concat_step q rec r = Val (Some ivs) -> Good r ivs.
  Proof.
    intros Hr Hd Hn. pose proof (split_relem r Hr) as Hs.
    unfold concat_step in Hn. unfold concat_ds in Hd.
    destruct (compress (map norm_range (split_concat r))) as [[|first rest]|e] eqn:Ec; try discriminate Hn.
    assert (Hs' : Forall relem (map norm_range (split_concat r))).
    { apply Forall_forall. intros e He. apply in_map_iff in He as [e0 [E0 He0]]. subst e.
      apply norm_relem. rewrite Forall_forall in Hs. apply Hs. exact He0. }
    pose proof (compress_relem _ _ Hs' Ec) as Hall.
    destruct (elems_good_t first rest ivs Hall Hd Hn) as [B G]. split; [exact B|].
    intros s n Hm Hv. apply (G s n); [|exact Hv].
    apply (compress_lang _ _ Ec). apply norm_cat_lang.
    - eapply Forall_impl; [|exact Hs]. intros e [R _]. exact R.
    - apply split_concat_lang. exact Hm.
  Qed.
End StepT.

(* ================================================================== *)
(* the theorem                                                         *)
(* ================================================================== *)
Lemma nifr_concat_ds q f a b :
  drops_signed q (S f) (RConcat a b) = concat_ds (drops_signed q f) (nifr q f) (RConcat a b).
Proof. reflexivity. Qed.

Lemma leaf_inner r : recognizedb r = true -> is_union r = false -> is_concat r = false -> inner_sign r = false.
Proof.
  intros R U C. destruct r as [w|a b|c|c|c|a b|a b|a b|c| |]; simpl in R, U, C; try discriminate; try reflexivity.
  - destruct (star_child c R) as [E|[E|E]]; subst c; reflexivity.
  - destruct (star_child c R) as [E|[E|E]]; subst c; reflexivity.
  - unfold sign_lit in R. apply orb_true_iff in R as [H|H]; apply re_eqb_eq in H; subst c; reflexivity.
Qed.

Theorem nifr_good_tight q : forall f r ivs, recognizedb r = true -> drops_signed q f r = false ->
  nifr q f r = Val (Some ivs) -> Good r ivs.
Proof.
  induction f as [|f IHf]; intros r ivs Hr Hd Hn; [discriminate Hn|].
  destruct (is_union r) eqn:U.
  { destruct r as [w|a b|c|c|c|a b|a' b'|a' b'|c| |]; try discriminate U.
    cbn [nifr] in Hn. apply merge_outs_val in Hn. destruct Hn as [ia [ib [Ea [Eb Ei]]]].
    simpl in Hr. apply andb_true_iff in Hr as [Ra Rb]. cbn [drops_signed] in Hd. apply orb_false_iff in Hd as [Da Db].
    destruct (IHf a ia Ra Da Ea) as [Ba Ga]. destruct (IHf b ib Rb Db Eb) as [Bb Gb].
    destruct (merge_two_good ia ib Ba Bb) as [Bm Gm]. subst ivs. split; [exact Bm|].
    intros s n [Hm|Hm] Hv; apply Gm; [left; apply (Ga s n)|right; apply (Gb s n)]; assumption. }
  destruct (is_concat r) eqn:C.
  { destruct r as [w|a b|c|c|c|a b|a' b'|a' b'|c| |]; try discriminate C.
    rewrite nifr_concat in Hn. rewrite nifr_concat_ds in Hd.
    apply (concat_step_good_t q (nifr q f) (drops_signed q f) IHf
             (fun x ivs0 R S H => nifr_good q f x ivs0 R (inner_le_has x S) H)
             (nifr_none_empty q f) (RConcat a' b') ivs Hr Hd Hn). }
  exact (nifr_good q (S f) r ivs Hr (leaf_inner r Hr U C) Hn).
Qed.

(* over-approximation half under the tight guard *)
Theorem recognized_overapprox_tight q r fuel ivs s n :
  recognizedb r = true -> drops_signed q fuel r = false -> nifr q fuel r = Val (Some ivs) ->
  matches r s -> intval s = Some n -> In_ivs n ivs.
Proof.
  intros Hr Hk Hn Hm Hv. destruct (nifr_good_tight q fuel r ivs Hr Hk Hn) as [_ G].
  apply (G s n Hm). apply intval_lval. exact Hv.
Qed.

Corollary documented_overapprox_tight q r ivs s n :
  documented_shapeb r = true -> K_drops_signed q r = false -> nifr_top q r = Val (Some ivs) ->
  matches r s -> intval s = Some n -> In_ivs n ivs.
Proof.
  intros Hd. unfold documented_shapeb in Hd. apply andb_true_iff in Hd as [Hr _].
  unfold K_drops_signed, nifr_top. apply recognized_overapprox_tight. exact Hr.
Qed.
