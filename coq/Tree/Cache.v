(* Model of the CACHE PROTOCOL of DerivationTree.is_open and of the tree-building public
   operations that maintain it: __init__, is_open / __compute_is_open, replace_path (three-way
   case, retain_id), substitute, new_ids, expand_one_step.  No proofs here (CacheFacts.v).

   A [ctree] node carries, besides label / id / children,
     c : option bool   the private slot __is_open  (None = not computed yet)
     o : N             an OBJECT TAG standing for the identity of the Python object.
   DerivationTrees are shared between trees (replace_path reuses the untouched siblings and the
   replacement object), and is_open() WRITES the slot of the object it is called on; all trees
   that contain this object see the write.  The model keeps every tree of a history in a register
   file and performs such a write at every node carrying the same tag; the value written at an
   alias is computed from that alias (on reachable states aliases are identical copies, so this
   is the same value; the correspondence check compares all slots of all registers).        *)
From ISLA Require Export TreeOps Grammar.

Inductive ctree := CNode (l : str) (i : N) (o : N) (c : option bool) (op : bool) (ks : list ctree).

Definition cl (t : ctree) := let 'CNode l _ _ _ _ _ := t in l.
Definition ci (t : ctree) := let 'CNode _ i _ _ _ _ := t in i.
Definition co (t : ctree) := let 'CNode _ _ o _ _ _ := t in o.
Definition cc (t : ctree) := let 'CNode _ _ _ c _ _ := t in c.
Definition copn (t : ctree) := let 'CNode _ _ _ _ op _ := t in op.
Definition cks (t : ctree) := let 'CNode _ _ _ _ _ ks := t in ks.

Fixpoint erase (t : ctree) : tree :=
  match t with CNode l i _ _ op ks => Node l i op (map erase ks) end.

Fixpoint csize (t : ctree) : nat :=
  match t with CNode _ _ _ _ _ ks => S (list_sum (map csize ks)) end.

Fixpoint cnodes (t : ctree) : list ctree :=
  match t with CNode _ _ _ _ _ ks => t :: flat_map cnodes ks end.

Definition is_true (c : option bool) : bool := match c with Some true => true | _ => false end.
Definition is_false (c : option bool) : bool := match c with Some false => true | _ => false end.

(* Python `children` *)
Definition pych (t : ctree) : option (list ctree) := if copn t then None else Some (cks t).

(* ---- __init__(value, children, id, is_open=p), object tag o ----
     self.__is_open = is_open
     if children is None: True   elif not children: False
     elif any(child.__is_open for child in children): True                                  *)
Definition mk (l : str) (ch : option (list ctree)) (i o : N) (p : option bool) : ctree :=
  match ch with
  | None => CNode l i o (Some true) true []
  | Some [] => CNode l i o (Some false) false []
  | Some ks => CNode l i o (if existsb (fun k => is_true (cc k)) ks then Some true else p) false ks
  end.

(* ---- __compute_is_open: pre-order traversal aborted at the first node whose slot is True
        or whose children are None ---- *)
Definition hit (n : ctree) : bool := is_true (cc n) || copn n.

Fixpoint cio_loop (fuel : nat) (stack : list ctree) : option bool :=
  match stack with
  | [] => Some false
  | n :: rest =>
      match fuel with
      | 0 => None
      | S f => if hit n then Some true
               else cio_loop f ((if copn n then [] else cks n) ++ rest)
      end
  end.

Definition compute_is_open (t : ctree) : option bool :=      (* None = out of fuel *)
  if copn t then Some true else cio_loop (csize t) [t].

(* the write `self.__is_open = ...` of is_open(), performed at every alias (tag o) *)
Fixpoint fill (o : N) (t : ctree) : ctree :=
  match t with
  | CNode l i o' c op ks =>
      CNode l i o'
            (if N.eqb o o' then match c with None => compute_is_open t | Some _ => c end else c)
            op (map (fill o) ks)
  end.

(* ---- the register file ---- *)
Record state := { regs : list ctree; noid : N }.

(* result of one operation: None = model out of fuel; Raise = Python exception, state unchanged *)
Inductive out := OutTrees (ts : list ctree) | OutBool (b : bool) | OutExn (e : exn).

Definition bad_reg : out := OutExn OtherErr.     (* harness error: register does not exist *)

(* tree.is_open() on register k *)
Definition st_is_open (st : state) (k : nat) : option (res bool * state) :=
  match nth_error (regs st) k with
  | None => Some (Raise OtherErr, st)
  | Some t =>
      match cc t with
      | Some b => Some (Ok b, st)
      | None =>
          match compute_is_open t with
          | None => None
          | Some b => Some (Ok b, {| regs := map (fill (co t)) (regs st); noid := noid st |})
          end
      end
  end.

(* descent of replace_path: stack.append(stack[-1].children[idx]) *)
Fixpoint c_descend (t : ctree) (p : path) : res ctree :=
  match p with
  | [] => Ok t
  | i :: p' =>
      if copn t then Raise TypeErr else
      match nth_error (cks t) i with
      | None => Raise IndexErr
      | Some c => c_descend c p'
      end
  end.

(* rebuilding the parents; the parent at depth d gets the fresh object tag o + d *)
Definition parent_flag (replacement parent : ctree) : option bool :=
  if is_true (cc replacement) || copn replacement then Some true
  else if is_false (cc replacement) && is_false (cc parent) then Some false
  else None.

Fixpoint c_replace (t : ctree) (p : path) (r : ctree) (o : N) : res ctree :=
  match p with
  | [] => Ok r
  | i :: p' =>
      if copn t then Raise TypeErr else
      match nth_error (cks t) i with
      | None => Raise IndexErr
      | Some c =>
          match c_replace c p' r (N.succ o) with
          | Raise e => Raise e
          | Ok c' =>
              Ok (mk (cl t) (Some (firstn i (cks t) ++ c' :: skipn (S i) (cks t))) (ci t) o
                     (parent_flag c' t))
          end
      end
  end.

Definition bump (o : N) (p : path) : N := (o + N.of_nat (length p) + 1)%N.

(* regs[src].replace_path(p, regs[rep], retain_id) ; result appended as a new register *)
Definition st_replace (st : state) (src : nat) (p : path) (rep : nat) (retain : bool)
  : option (out * state) :=
  match nth_error (regs st) src, nth_error (regs st) rep with
  | Some t, Some r =>
      match c_descend t p with
      | Raise e => Some (OutExn e, st)
      | Ok old =>
          if retain then
            match st_is_open st rep with
            | None => None
            | Some (Raise e, _) => Some (OutExn e, st)
            | Some (Ok b, st1) =>
                match nth_error (regs st1) src, nth_error (regs st1) rep with
                | Some t1, Some r1 =>
                    let r' := mk (cl r1) (pych r1) (ci old) (noid st1) (Some b) in
                    match c_replace t1 p r' (N.succ (noid st1)) with
                    | Raise e => Some (OutExn e, st1)
                    | Ok t' => Some (OutTrees [t'],
                                     {| regs := regs st1 ++ [t']; noid := bump (N.succ (noid st1)) p |})
                    end
                | _, _ => Some (bad_reg, st)
                end
            end
          else
            match c_replace t p r (noid st) with
            | Raise e => Some (OutExn e, st)
            | Ok t' => Some (OutTrees [t'], {| regs := regs st ++ [t']; noid := bump (noid st) p |})
            end
      end
  | _, _ => Some (bad_reg, st)
  end.

(* ---- has_unique_ids: no two DIFFERENT objects (`is not`) with the same id ---- *)
Definition has_unique_ids (t : ctree) : bool :=
  let ns := cnodes t in
  forallb (fun a => negb (existsb (fun b => negb (N.eqb (co a) (co b)) && N.eqb (ci a) (ci b)) ns)) ns.

(* Python dict assignment d[k] = v : position of the first insertion is kept *)
Fixpoint dict_set {V} (d : list (N * V)) (k : N) (v : V) : list (N * V) :=
  match d with
  | [] => [(k, v)]
  | (k', v') :: d' => if N.eqb k k' then (k, v) :: d' else (k', v') :: dict_set d' k v
  end.

Definition find_node_c (t : ctree) (i : N) : option path := find_node (erase t) i.

(* id_subst_map: a key tree is kept iff every replacement of the map either has the key's id
   at its root or does not contain that id at all *)
Definition id_subst_map (pairs : list (ctree * ctree)) : list (N * ctree) :=
  fold_left
    (fun m kr =>
       let key := fst kr in
       if forallb (fun kr' => N.eqb (ci (snd kr')) (ci key)
                              || match find_node_c (snd kr') (ci key) with None => true | Some _ => false end)
                  pairs
       then dict_set m (ci key) (snd kr) else m)
    pairs [].

(* for tree_id in id_subst_map: if (path := result.find_node(tree_id)) is not None: replace *)
Fixpoint subst_loop (m : list (N * ctree)) (result : ctree) (o : N) : res (ctree * N) :=
  match m with
  | [] => Ok (result, o)
  | (i, repl) :: m' =>
      match find_node_c result i with
      | None => subst_loop m' result o
      | Some p =>
          match c_replace result p repl o with
          | Raise e => Raise e
          | Ok r' => subst_loop m' r' (bump o p)
          end
      end
  end.

(* regs[src].substitute({ regs[kr].get_subtree(kp) : regs[rr]  for (kr, kp, rr) in entries }) *)
Definition st_subst (st : state) (src : nat) (entries : list (nat * path * nat)) : option (out * state) :=
  match nth_error (regs st) src with
  | None => Some (bad_reg, st)
  | Some t =>
      if negb (has_unique_ids t) then Some (OutExn AssertErr, st) else
      let pairs :=
        map (fun e => let '(kr, kp, rr) := e in
                      match nth_error (regs st) kr, nth_error (regs st) rr with
                      | Some k, Some r => match c_descend k kp with Ok key => Some (key, r) | Raise _ => None end
                      | _, _ => None
                      end) entries in
      if existsb (fun x => match x with None => true | Some _ => false end) pairs then Some (bad_reg, st) else
      let pairs' := flat_map (fun x => match x with Some kr => [kr] | None => [] end) pairs in
      match subst_loop (id_subst_map pairs') t (noid st) with
      | Raise e => Some (OutExn e, st)
      | Ok (t', o') => Some (OutTrees [t'], {| regs := regs st ++ [t']; noid := o' |})
      end
  end.

(* ---- new_ids(): children first (left to right), then the node: post-order id allocation ---- *)
Fixpoint c_new_ids (t : ctree) (nid o : N) : ctree * (N * N) :=
  match t with
  | CNode l _ _ _ op ks =>
      let '(ks', (nid1, o1)) :=
        (fix go (ks : list ctree) (nid o : N) : list ctree * (N * N) :=
           match ks with
           | [] => ([], (nid, o))
           | k :: ks' =>
               let '(k', (n1, o1)) := c_new_ids k nid o in
               let '(r, (n2, o2)) := go ks' n1 o1 in
               (k' :: r, (n2, o2))
           end) ks nid o in
      (mk l (if op then None else Some ks') nid1 o1 None, (N.succ nid1, N.succ o1))
  end.

Definition st_new_ids (st : state) (src : nat) (nid : N) : option (out * state) :=
  match nth_error (regs st) src with
  | None => Some (bad_reg, st)
  | Some t =>
      let '(t', (_, o')) := c_new_ids t nid (noid st) in
      Some (OutTrees [t'], {| regs := regs st ++ [t']; noid := o' |})
  end.

(* ---- the public constructor applied bottom-up to a literal tree (ids given) ---- *)
Fixpoint construct (t : tree) (o : N) : ctree * N :=
  match t with
  | Node l i op ks =>
      let '(ks', o1) :=
        (fix go (ks : list tree) (o : N) : list ctree * N :=
           match ks with
           | [] => ([], o)
           | k :: ks' =>
               let '(k', o1) := construct k o in
               let '(r, o2) := go ks' o1 in
               (k' :: r, o2)
           end) ks o in
      (mk l (if op then None else Some ks') i o1 None, N.succ o1)
  end.

Definition st_construct (st : state) (t : tree) : option (out * state) :=
  let '(t', o') := construct t (noid st) in
  Some (OutTrees [t'], {| regs := regs st ++ [t']; noid := o' |}).

(* ---- expand_one_step(canonical_grammar) ---- *)
(* children objects of one alternative: DerivationTree(sym, None if is_nonterminal(sym) else []) *)
Fixpoint mk_children (syms : list str) (nid o : N) : list ctree * (N * N) :=
  match syms with
  | [] => ([], (nid, o))
  | s :: syms' =>
      let '(r, no) := mk_children syms' (N.succ nid) (N.succ o) in
      (mk s (if is_nt s then None else Some []) nid o None :: r, no)
  end.

Fixpoint mk_alts (al : list (list str)) (nid o : N) : list (list ctree) * (N * N) :=
  match al with
  | [] => ([], (nid, o))
  | a :: al' =>
      let '(c, (n1, o1)) := mk_children a nid o in
      let '(r, no) := mk_alts al' n1 o1 in
      (c :: r, no)
  end.

(* nonterminal_expansions: KeyError at the first open leaf whose label the grammar does not define *)
Fixpoint mk_expansions (g : grammar) (ol : list (path * tree)) (nid o : N)
  : res (list (path * list (list ctree)) * N) :=
  match ol with
  | [] => Ok ([], o)
  | (p, leaf) :: ol' =>
      if negb (defined g (lbl leaf)) then Raise KeyErr else
      let '(cs, (n1, o1)) := mk_alts (alts g (lbl leaf)) nid o in
      match mk_expansions g ol' n1 o1 with
      | Raise e => Raise e
      | Ok (r, o2) => Ok ((p, cs) :: r, o2)
      end
  end.

(* itertools.product over the lists: first list varies slowest *)
Fixpoint cart {A} (ls : list (list A)) : list (list A) :=
  match ls with
  | [] => [[]]
  | l :: ls' => flat_map (fun x => map (cons x) (cart ls')) l
  end.

Fixpoint expand_with (t : ctree) (choice : list (path * list ctree)) (o : N) : res (ctree * N) :=
  match choice with
  | [] => Ok (t, o)
  | (p, newch) :: choice' =>
      match c_descend t p with
      | Raise e => Raise e
      | Ok leaf =>
          match c_replace t p (mk (cl leaf) (Some newch) (ci leaf) o None) (N.succ o) with
          | Raise e => Raise e
          | Ok t' => expand_with t' choice' (bump (N.succ o) p)
          end
      end
  end.

Fixpoint expand_all (t : ctree) (choices : list (list (path * list ctree))) (o : N)
  : res (list ctree * N) :=
  match choices with
  | [] => Ok ([], o)
  | c :: cs =>
      match expand_with t c o with
      | Raise e => Raise e
      | Ok (t', o1) =>
          match expand_all t cs o1 with
          | Raise e => Raise e
          | Ok (r, o2) => Ok (t' :: r, o2)
          end
      end
  end.

Definition st_expand (st : state) (src : nat) (g : grammar) (nid : N) : option (out * state) :=
  match nth_error (regs st) src with
  | None => Some (bad_reg, st)
  | Some t =>
      match mk_expansions g (open_leaves (erase t)) nid (noid st) with
      | Raise e => Some (OutExn e, st)
      | Ok (exps, o1) =>
          match exps with
          | [] => Some (OutTrees [], st)
          | _ =>
              let choices := map (fun c => combine (map fst exps) c) (cart (map snd exps)) in
              match choices with
              | [] => Some (OutExn AssertErr, st)
              | _ =>
                  match expand_all t choices o1 with
                  | Raise e => Some (OutExn e, st)
                  | Ok (ts, o2) => Some (OutTrees ts, {| regs := regs st ++ ts; noid := o2 |})
                  end
              end
          end
      end
  end.

(* ---- operations of a history ---- *)
Inductive op :=
| OConstruct (t : tree)
| OIsOpen (k : nat)
| OReplace (src : nat) (p : path) (rep : nat) (retain : bool)
| OSubst (src : nat) (entries : list (nat * path * nat))
| ONewIds (src : nat) (nid : N)
| OExpand (src : nat) (g : grammar) (nid : N)
| OGet (src : nat) (p : path).      (* register := regs[src].get_subtree(p), p valid: an ALIAS *)

Definition step (st : state) (o : op) : option (out * state) :=
  match o with
  | OConstruct t => st_construct st t
  | OIsOpen k => match st_is_open st k with
                 | None => None
                 | Some (Ok b, st') => Some (OutBool b, st')
                 | Some (Raise e, st') => Some (OutExn e, st')
                 end
  | OReplace src p rep retain => st_replace st src p rep retain
  | OSubst src entries => st_subst st src entries
  | ONewIds src nid => st_new_ids st src nid
  | OExpand src g nid => st_expand st src g nid
  | OGet src p =>
      match nth_error (regs st) src with
      | None => Some (bad_reg, st)
      | Some t => match c_descend t p with
                  | Raise e => Some (OutExn e, st)
                  | Ok s => Some (OutTrees [s], {| regs := regs st ++ [s]; noid := noid st |})
                  end
      end
  end.

(* state after a history (None: out of fuel somewhere) *)
Fixpoint run_ops (st : state) (ops : list op) : option state :=
  match ops with
  | [] => Some st
  | o :: ops' => match step st o with
                 | None => None
                 | Some (_, st') => run_ops st' ops'
                 end
  end.

Definition init_state : state := {| regs := []; noid := 0 |}.
