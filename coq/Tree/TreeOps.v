(* Model of the structural (cache-free) public operations of
   isla.derivation_tree.DerivationTree, over the shared [tree] type.
   The cache protocol (__is_open slot, object aliasing) is in Cache.v, the
   path-indexed trie in Trie.v.  No proofs here (see TreeOpsFacts.v).

   Python `children` of a node:  None      <-> opn = true
                                 tuple(ks) <-> opn = false, kids = ks          *)
From ISLA Require Export Outcome Tree Preds.

(* `children` as the Python code sees them when it writes `node.children or []` *)
Definition ckids (t : tree) : list tree := if opn t then [] else kids t.

(* `not node.children` : None or empty tuple *)
Definition no_children (t : tree) : bool :=
  opn t || match kids t with [] => true | _ => false end.

(* ---- to_string(show_open_leaves): worklist loop `stack.pop(0)` / `stack = children + stack` ---- *)
Definition leaf_text (show : bool) (n : tree) : str :=
  if opn n then (if show then lbl n else [])
  else if is_nt (lbl n) then [] else lbl n.

Fixpoint to_string_loop (fuel : nat) (show : bool) (stack : list tree) (acc : str) : option str :=
  match stack with
  | [] => Some acc
  | n :: rest =>
      match fuel with
      | 0 => None                                   (* out of fuel *)
      | S f =>
          if no_children n then to_string_loop f show rest (acc ++ leaf_text show n)
          else to_string_loop f show (kids n ++ rest) acc
      end
  end.

(* None = out of fuel (never for fuel = size t, see to_string_fuel) *)
Definition to_string (show : bool) (t : tree) : option str :=
  to_string_loop (size t) show [t] [].

(* ---- is_valid_path ---- *)
Fixpoint is_valid_path (t : tree) (p : path) : bool :=
  match p with
  | [] => true
  | i :: p' =>
      if no_children t || (length (kids t) <=? i) then false
      else match nth_error (kids t) i with
           | Some c => is_valid_path c p'
           | None => false
           end
  end.

(* ---- traverse(action, kind=PREORDER) as used by paths(): explicit stack, children pushed
        so that child 0 is popped first ---- *)
Fixpoint paths_loop (fuel : nat) (stack acc : list (path * tree)) : option (list (path * tree)) :=
  match stack with
  | [] => Some acc
  | (p, n) :: rest =>
      match fuel with
      | 0 => None
      | S f => paths_loop f (mapi_from (fun i c => (p ++ [i], c)) 0 (ckids n) ++ rest)
                          (acc ++ [(p, n)])
      end
  end.

Definition paths (t : tree) : option (list (path * tree)) := paths_loop (size t) [([], t)] [].

(* consumers of self.paths() below use [nodes t] (= paths t by TreeOpsFacts.paths_nodes) *)

(* ---- find_node(id): first node in paths() with that id ---- *)
Definition find_node (t : tree) (i : N) : option path :=
  match find (fun pt => N.eqb (tid (snd pt)) i) (nodes t) with
  | Some pt => Some (fst pt)
  | None => None
  end.

(* ---- filter(f, enforce_unique) ---- *)
Definition py_filter (f : tree -> bool) (unique : bool) (t : tree) : res (list (path * tree)) :=
  let r := filter (fun pt => f (snd pt)) (nodes t) in
  if unique && (1 <? length r) then Raise RuntimeErr else Ok r.

Definition leaves (t : tree) : list (path * tree) := filter (fun pt => no_children (snd pt)) (nodes t).
Definition open_leaves (t : tree) : list (path * tree) := filter (fun pt => opn (snd pt)) (nodes t).

(* ---- next_path(path, skip_children) ---- *)
Definition num_children (t : tree) (p : path) : res nat :=
  match py_get_subtree t p with
  | Raise e => Raise e
  | Ok None => Raise TypeErr                 (* `_, children = None` *)
  | Ok (Some s) => Ok (length (ckids s))
  end.

(* for i in range(1, len(path)): k = remaining iterations *)
Fixpoint next_sibling (t : tree) (pth : path) (k i : nat) : res (option path) :=
  match k with
  | 0 => Ok None
  | S k' =>
      let pre := firstn (length pth - i) pth in
      let x := nth (length pth - i) pth 0 in
      match num_children t pre with
      | Raise e => Raise e
      | Ok n => if x + 1 <? n then Ok (Some (pre ++ [x + 1])) else next_sibling t pth k' (S i)
      end
  end.

Definition next_path (t : tree) (pth : path) (skip_children : bool) : res (option path) :=
  match (if skip_children then Ok 0 else num_children t pth) with
  | Raise e => Raise e
  | Ok n0 =>
      if negb skip_children && (0 <? n0) then Ok (Some (pth ++ [0])) else
      match next_sibling t pth (length pth - 1) 1 with
      | Raise e => Raise e
      | Ok (Some q) => Ok (Some q)
      | Ok None =>
          match pth with
          | x :: _ =>
              match num_children t [] with
              | Raise e => Raise e
              | Ok n => if x + 1 <? n then Ok (Some [x + 1])
                        else if skip_children || path_eqb (last (map fst (nodes t)) []) pth
                             then Ok None else Raise AssertErr
              end
          | [] => if skip_children || path_eqb (last (map fst (nodes t)) []) pth
                  then Ok None else Raise AssertErr
          end
      end
  end.

(* ---- replace_path (structure only; caches in Cache.c_replace) ----
   descent `stack[-1].children[idx]`: None is not subscriptable (TypeError),
   index out of range (IndexError); then parents rebuilt bottom-up keeping label and id *)
Fixpoint replace_path (t : tree) (p : path) (r : tree) : res tree :=
  match p with
  | [] => Ok r
  | i :: p' =>
      if opn t then Raise TypeErr else
      match nth_error (kids t) i with
      | None => Raise IndexErr
      | Some c =>
          match replace_path c p' r with
          | Raise e => Raise e
          | Ok c' => Ok (Node (lbl t) (tid t) false (firstn i (kids t) ++ c' :: skipn (S i) (kids t)))
          end
      end
  end.

(* ---- structurally_equal (recursive in Python as well) ---- *)
Fixpoint structurally_equal (t u : tree) : bool :=
  match t, u with
  | Node l1 _ o1 ks1, Node l2 _ o2 ks2 =>
      if negb (str_eqb l1 l2) || negb (Bool.eqb o1 o2) then false
      else if o1 then true
      else if negb (length ks1 =? length ks2) then false
      else (fix all2 (a b : list tree) : bool :=
              match a, b with
              | x :: a', y :: b' => structurally_equal x y && all2 a' b'
              | _, _ => true
              end) ks1 ks2
  end.

(* ---- structural hash: compute_hash_iteratively(structural=True) without the cache slots.
   Python's hash() on a str and on a tuple (str, int, ..., int) are abstract:
   open leaf: hash(value);  otherwise: hash((value,) + tuple(children hashes)) ---- *)
Section SHash.
  Variable H : Type.
  Variable hash_str : str -> H.
  Variable hash_tup : str -> list H -> H.
  Fixpoint shash (t : tree) : H :=
    match t with
    | Node l _ o ks => if o then hash_str l else hash_tup l (map shash ks)
    end.
End SHash.

(* ---- is_prefix (recursive; len(self) = number of paths) ---- *)
Fixpoint is_prefix_t (t u : tree) : bool :=
  match t, u with
  | Node l1 _ o1 ks1, Node l2 _ o2 ks2 =>
      if size u <? size t then false
      else if negb (str_eqb l1 l2) then false
      else if no_children t then o1 || (no_children u && negb o2)
      else if no_children u then false
      else if negb (length ks1 =? length ks2) then false
      else (fix all2 (a b : list tree) : bool :=
              match a, b with
              | x :: a', y :: b' => is_prefix_t x y && all2 a' b'
              | _, _ => true
              end) ks1 ks2
  end.

(* ---- is_potential_prefix: parallel BFS (queue.pop(0), append) ---- *)
Fixpoint pot_prefix_loop (fuel : nat) (queue : list (tree * tree)) : option bool :=
  match queue with
  | [] => Some true
  | (a, b) :: rest =>
      match fuel with
      | 0 => None
      | S f =>
          if negb (no_children a) && negb (no_children b)
             && negb (length (kids a) =? length (kids b)) then Some false
          else
            let zs := combine (ckids a) (ckids b) in
            if forallb (fun ab => str_eqb (lbl (fst ab)) (lbl (snd ab))) zs
            then pot_prefix_loop f (rest ++ zs)
            else
              (* the loop returns False at the first differing pair; pairs before it were
                 only appended, so the verdict is False either way *)
              Some false
      end
  end.

Definition is_potential_prefix (t u : tree) : option bool :=
  if negb (str_eqb (lbl t) (lbl u)) then Some false
  else pot_prefix_loop (size t) [(t, u)].

(* node degree bound used by the trie theorems *)
Fixpoint max_degree (t : tree) : nat :=
  match t with
  | Node _ _ _ ks => Nat.max (length ks) (fold_right Nat.max 0 (map max_degree ks))
  end.
