(* C16 (proof extension): declarative specs of is_prefix and is_potential_prefix (ids ignored).
   is_prefix:  t.is_prefix(u)  iff  every node of t is a node of u with the same label, and every
     node of t that is not an open leaf is not open in u either and has the same number of children
     there  (u is t with open leaves expanded).
   is_potential_prefix:  on every COMMON path the labels agree, and two nodes that both have
     children have the same number of them. *)
From ISLA Require Import Tree PathFacts TreeFacts TreeOps TreeOpsFacts.
From Coq Require Import Lia.

(* ------------------------------------------------------------------ *)
(* generic                                                             *)
(* ------------------------------------------------------------------ *)
Lemma nth_error_same_length {A B} (a : list A) (b : list B) j x :
  length a = length b -> nth_error a j = Some x -> exists y, nth_error b j = Some y.
Proof.
  intros Hl Hx. assert (Hj : j < length b) by (rewrite <- Hl; apply nth_error_Some; congruence).
  destruct (nth_error b j) as [y|] eqn:E; [eauto|]. apply nth_error_None in E. lia.
Qed.

Lemma list_sum_pointwise (f : tree -> nat) : forall a b : list tree, length a = length b ->
  (forall j x y, nth_error a j = Some x -> nth_error b j = Some y -> f x <= f y) ->
  list_sum (map f a) <= list_sum (map f b).
Proof.
  induction a as [|x a IH]; intros [|y b] Hl H; cbn [length] in Hl; try discriminate; [cbn; lia|].
  cbn [map list_sum fold_right]. pose proof (H 0 x y eq_refl eq_refl) as H0.
  assert (IHa : list_sum (map f a) <= list_sum (map f b)).
  { apply IH; [lia|]. intros j x' y' Hx Hy. exact (H (S j) x' y' Hx Hy). }
  unfold list_sum in *. lia.
Qed.

Lemma size_pos t : 1 <= size t.
Proof. destruct t. cbn [size]. lia. Qed.

(* ------------------------------------------------------------------ *)
(* is_prefix                                                           *)
(* ------------------------------------------------------------------ *)
Definition PrefixOf (t u : tree) : Prop :=
  forall p s, subtree t p = Some s ->
    exists s', subtree u p = Some s' /\ lbl s' = lbl s
               /\ (opn s = false -> opn s' = false /\ length (kids s') = length (kids s)).

Lemma PrefixOf_node l1 i1 o1 ks1 l2 i2 o2 ks2 :
  PrefixOf (Node l1 i1 o1 ks1) (Node l2 i2 o2 ks2) <->
  l2 = l1 /\ (o1 = false -> o2 = false /\ length ks2 = length ks1)
  /\ (forall j c, nth_error ks1 j = Some c -> exists c', nth_error ks2 j = Some c' /\ PrefixOf c c').
Proof.
  split.
  - intro H. destruct (H [] _ eq_refl) as (s' & Hs' & Hl & Ho). cbn in Hs'. inversion Hs'; subst s'.
    cbn [lbl opn kids] in *. split; [exact Hl|]. split; [exact Ho|].
    intros j c Hc. destruct (H [j] c) as (c' & Hc' & _); [cbn; rewrite Hc; reflexivity|].
    cbn in Hc'. destruct (nth_error ks2 j) as [c2|] eqn:E2; [|discriminate]. inversion Hc'; subst c2.
    exists c'. split; [reflexivity|]. intros p s Hs.
    destruct (H (j :: p) s) as (s2 & Hs2 & Hrest); [cbn; rewrite Hc; exact Hs|].
    cbn in Hs2. rewrite E2 in Hs2. eauto.
  - intros (Hl & Ho & Hk) [|j p] s Hs; cbn in Hs.
    + inversion Hs; subst s. exists (Node l2 i2 o2 ks2). cbn [lbl opn kids]. auto.
    + destruct (nth_error ks1 j) as [c|] eqn:Ec; [|discriminate].
      destruct (Hk j c Ec) as (c' & Hc' & Hp). destruct (Hp p s Hs) as (s' & Hs' & Hrest).
      exists s'. cbn. rewrite Hc'. auto.
Qed.

Lemma PrefixOf_refl t : PrefixOf t t.
Proof. intros p s Hs. exists s. auto. Qed.

Lemma PrefixOf_trans t u v : PrefixOf t u -> PrefixOf u v -> PrefixOf t v.
Proof.
  intros H1 H2 p s Hs. destruct (H1 p s Hs) as (s1 & Hs1 & Hl1 & Ho1).
  destruct (H2 p s1 Hs1) as (s2 & Hs2 & Hl2 & Ho2). exists s2. split; [exact Hs2|].
  split; [congruence|]. intro Ho. destruct (Ho1 Ho) as [Ho1' Hk1]. destruct (Ho2 Ho1') as [Ho2' Hk2].
  split; [exact Ho2' | congruence].
Qed.

(* an expanded tree is at least as big *)
Lemma PrefixOf_size t : shape_ok t = true -> forall u, PrefixOf t u -> size t <= size u.
Proof.
  induction t as [l1 i1 o1 ks1 IH] using tree_ind'. intros Hsh [l2 i2 o2 ks2] H.
  apply shape_ok_unfold in Hsh as [Ho Hks]. apply PrefixOf_node in H as (_ & Hc & Hk).
  destruct o1.
  - rewrite (Ho eq_refl). cbn [size map list_sum fold_right]. lia.
  - destruct (Hc eq_refl) as [_ Hlen]. cbn [size]. apply le_n_S. apply list_sum_pointwise; [congruence|].
    intros j x y Hx Hy. destruct (Hk j x Hx) as (c' & Hc' & Hp). rewrite Hy in Hc'. inversion Hc'; subst c'.
    assert (Hin : In x ks1) by (eapply nth_error_In; eauto).
    rewrite Forall_forall in IH, Hks. apply IH; auto.
Qed.

Definition all2_pref :=
  fix all2 (a b : list tree) : bool :=
    match a, b with
    | x :: a', y :: b' => is_prefix_t x y && all2 a' b'
    | _, _ => true
    end.

Lemma is_prefix_unfold l1 i1 o1 ks1 l2 i2 o2 ks2 :
  is_prefix_t (Node l1 i1 o1 ks1) (Node l2 i2 o2 ks2) =
  if size (Node l2 i2 o2 ks2) <? size (Node l1 i1 o1 ks1) then false
  else if negb (str_eqb l1 l2) then false
  else if no_children (Node l1 i1 o1 ks1) then o1 || (no_children (Node l2 i2 o2 ks2) && negb o2)
  else if no_children (Node l2 i2 o2 ks2) then false
  else if negb (length ks1 =? length ks2) then false
  else all2_pref ks1 ks2.
Proof. reflexivity. Qed.

Lemma all2_pref_spec : forall a b, length a = length b ->
  (all2_pref a b = true <->
   forall j x y, nth_error a j = Some x -> nth_error b j = Some y -> is_prefix_t x y = true).
Proof.
  induction a as [|x a IH]; intros [|y b] Hl; cbn [length] in Hl; try discriminate; cbn [all2_pref].
  - split; [intros _ j x y Hx; destruct j; discriminate | reflexivity].
  - rewrite andb_true_iff, IH by lia. split.
    + intros [H0 H] [|j] x' y' Hx Hy; cbn in Hx, Hy; [inversion Hx; inversion Hy; subst; exact H0 | eauto].
    + intro H. split; [exact (H 0 x y eq_refl eq_refl) | intros j x' y' Hx Hy; exact (H (S j) x' y' Hx Hy)].
Qed.

Lemma no_children_node l i o ks : no_children (Node l i o ks) = o || match ks with [] => true | _ => false end.
Proof. reflexivity. Qed.

Theorem is_prefix_spec t : shape_ok t = true -> forall u, is_prefix_t t u = true <-> PrefixOf t u.
Proof.
  induction t as [l1 i1 o1 ks1 IH] using tree_ind'. intros Hsh [l2 i2 o2 ks2].
  pose proof Hsh as Hsh0. apply shape_ok_unfold in Hsh as [Ho Hks].
  rewrite is_prefix_unfold, PrefixOf_node. rewrite !no_children_node.
  assert (IHk : forall j x y, nth_error ks1 j = Some x -> (is_prefix_t x y = true <-> PrefixOf x y)).
  { intros j x y Hx. assert (Hin : In x ks1) by (eapply nth_error_In; eauto).
    rewrite Forall_forall in IH, Hks. apply IH; auto. }
  split.
  - (* the code says True *)
    intro H. destruct (Nat.ltb_spec (size (Node l2 i2 o2 ks2)) (size (Node l1 i1 o1 ks1))) as [_|Hsz]; [discriminate|].
    destruct (str_eqb l1 l2) eqn:El; [|discriminate]. apply str_eqb_eq in El. subst l2. cbn [negb] in H.
    split; [reflexivity|]. destruct o1; cbn [orb] in H.
    + rewrite (Ho eq_refl). split; [discriminate|]. intros j c Hc. destruct j; discriminate.
    + destruct ks1 as [|k1 ks1'] eqn:Ek1.
      * apply andb_true_iff in H as [H1 H2]. destruct o2; [discriminate|]. cbn [orb] in H1.
        destruct ks2; [|discriminate]. split; [auto|]. intros j c Hc. destruct j; discriminate.
      * rewrite <- Ek1 in *. destruct o2; [discriminate|]. cbn [orb] in H.
        destruct ks2 as [|k2 ks2'] eqn:Ek2; [discriminate|]. rewrite <- Ek2 in *.
        destruct (Nat.eqb_spec (length ks1) (length ks2)) as [Hlen|_]; [|discriminate]. cbn [negb] in H.
        split; [auto|]. intros j c Hc. destruct (nth_error_same_length ks1 ks2 j c Hlen Hc) as (c' & Hc').
        exists c'. split; [exact Hc'|]. apply (IHk j c c' Hc).
        apply (proj1 (all2_pref_spec ks1 ks2 Hlen) H j c c' Hc Hc').
  - (* the spec holds *)
    intros (-> & Hc & Hk).
    assert (Hp : PrefixOf (Node l1 i1 o1 ks1) (Node l1 i2 o2 ks2)) by (apply PrefixOf_node; auto).
    pose proof (PrefixOf_size _ Hsh0 _ Hp) as Hsz.
    destruct (Nat.ltb_spec (size (Node l1 i2 o2 ks2)) (size (Node l1 i1 o1 ks1))) as [Hlt|_]; [lia|].
    rewrite str_eqb_refl. cbn [negb]. destruct o1; cbn [orb]; [reflexivity|].
    destruct (Hc eq_refl) as [-> Hlen]. cbn [orb negb]. destruct ks1 as [|k1 ks1'] eqn:Ek1.
    + destruct ks2; [reflexivity | discriminate].
    + rewrite <- Ek1 in *. destruct ks2 as [|k2 ks2'] eqn:Ek2; [rewrite Ek1 in Hlen; discriminate|].
      rewrite <- Ek2 in *. symmetry in Hlen.
      destruct (Nat.eqb_spec (length ks1) (length ks2)) as [_|Hne]; [|contradiction]. cbn [negb].
      apply (all2_pref_spec ks1 ks2 Hlen). intros j x y Hx Hy. apply (IHk j x y Hx).
      destruct (Hk j x Hx) as (c' & Hc' & Hpc). rewrite Hy in Hc'. inversion Hc'; subst c'. exact Hpc.
Qed.

(* expanding an open leaf gives a tree of which the original is a prefix: the "only if" reading of
   "u is obtained from t by expanding open leaves" *)
Theorem expand_leaf_PrefixOf : forall p t leaf r t', shape_ok t = true ->
  subtree t p = Some leaf -> opn leaf = true -> lbl r = lbl leaf ->
  replace_path t p r = Ok t' -> PrefixOf t t'.
Proof.
  induction p as [|i p IH]; intros t leaf r t' Hsh Hs Ho Hl Hr.
  - cbn in Hs, Hr. inversion Hs; inversion Hr; subst. destruct leaf as [l0 i0 o0 ks0].
    cbn [opn lbl] in *. subst o0. apply shape_ok_unfold in Hsh as [Hk _]. rewrite (Hk eq_refl).
    destruct t' as [l2 i2 o2 ks2]. apply PrefixOf_node. cbn [lbl] in Hl.
    split; [exact Hl|]. split; [discriminate|]. intros j c Hc. destruct j; discriminate.
  - destruct t as [l0 i0 o0 ks0]. cbn [subtree kids] in Hs. cbn [replace_path opn kids lbl tid] in Hr.
    destruct o0; [discriminate|]. destruct (nth_error ks0 i) as [c|] eqn:Ec; [|discriminate].
    destruct (replace_path c p r) as [c'|e] eqn:Er; [|discriminate]. inversion Hr; subst t'.
    assert (Hin : In c ks0) by (eapply nth_error_In; eauto).
    assert (Hshc : shape_ok c = true) by (eapply (shape_ok_kids (Node l0 i0 false ks0)); eauto).
    pose proof (IH c leaf r c' Hshc Hs Ho Hl Er) as Hpc.
    assert (Hi : i < length ks0) by (apply nth_error_Some; congruence).
    apply PrefixOf_node. split; [reflexivity|]. split.
    + intros _. split; [reflexivity|]. apply splice_length. exact Hi.
    + intros j d Hd. destruct (Nat.eq_dec j i) as [->|Hne].
      * exists c'. split; [apply nth_error_splice_eq; exact Hi|]. rewrite Ec in Hd. inversion Hd; subst d. exact Hpc.
      * exists d. split; [|apply PrefixOf_refl].
        etransitivity; [apply (nth_error_splice_neq ks0 i j c' Hi Hne) | exact Hd].
Qed.

(* ------------------------------------------------------------------ *)
(* is_potential_prefix                                                 *)
(* ------------------------------------------------------------------ *)
Definition PotPrefix (t u : tree) : Prop :=
  forall p s s', subtree t p = Some s -> subtree u p = Some s' ->
    lbl s = lbl s'
    /\ (no_children s = false -> no_children s' = false -> length (kids s) = length (kids s')).

Lemma PotPrefix_node a b :
  PotPrefix a b <->
  lbl a = lbl b
  /\ (no_children a = false -> no_children b = false -> length (kids a) = length (kids b))
  /\ (forall j c c', nth_error (kids a) j = Some c -> nth_error (kids b) j = Some c' -> PotPrefix c c').
Proof.
  split.
  - intro H. destruct (H [] a b eq_refl eq_refl) as [Hl Hn]. split; [exact Hl|]. split; [exact Hn|].
    intros j c c' Hc Hc' p s s' Hs Hs'. apply (H (j :: p) s s'); cbn; [rewrite Hc | rewrite Hc']; assumption.
  - intros (Hl & Hn & Hk) [|j p] s s' Hs Hs'; cbn in Hs, Hs'.
    + inversion Hs; inversion Hs'; subst. auto.
    + destruct (nth_error (kids a) j) as [c|] eqn:Ec; [|discriminate].
      destruct (nth_error (kids b) j) as [c'|] eqn:Ec'; [|discriminate].
      exact (Hk j c c' Ec Ec' p s s' Hs Hs').
Qed.

Lemma in_combine_nth {A B} : forall (a : list A) (b : list B) x y,
  In (x, y) (combine a b) <-> exists j, nth_error a j = Some x /\ nth_error b j = Some y.
Proof.
  induction a as [|x0 a IH]; intros [|y0 b] x y; cbn [combine In].
  - split; [contradiction | intros ([|j] & H & _); discriminate].
  - split; [contradiction | intros ([|j] & H & _); discriminate].
  - split; [contradiction | intros ([|j] & _ & H); discriminate].
  - rewrite IH. split.
    + intros [H|(j & H1 & H2)]; [inversion H; subst; exists 0; auto | exists (S j); auto].
    + intros ([|j] & H1 & H2); cbn in H1, H2; [left; congruence | right; eauto].
Qed.

Definition pair_size (ab : tree * tree) : nat := size (fst ab).

Lemma combine_size : forall a b : list tree,
  list_sum (map pair_size (combine a b)) <= list_sum (map size a).
Proof.
  induction a as [|x a IH]; intros [|y b]; cbn [combine map]; unfold list_sum; cbn [fold_right]; try lia.
  specialize (IH b). unfold list_sum in IH. unfold pair_size at 1. cbn [fst]. lia.
Qed.

Definition pair_shape (ab : tree * tree) : Prop := shape_ok (fst ab) = true /\ shape_ok (snd ab) = true.
Definition pair_lbl (ab : tree * tree) : Prop := lbl (fst ab) = lbl (snd ab).
Definition pair_pp (ab : tree * tree) : Prop := PotPrefix (fst ab) (snd ab).

Lemma pot_prefix_loop_spec : forall fuel queue,
  list_sum (map pair_size queue) <= fuel -> Forall pair_shape queue -> Forall pair_lbl queue ->
  exists v, pot_prefix_loop fuel queue = Some v /\ (v = true <-> Forall pair_pp queue).
Proof.
  induction fuel as [|f IH]; intros queue Hf Hsh Hlb.
  - destruct queue as [|[a b] rest].
    + exists true. split; [reflexivity|]. split; [constructor | reflexivity].
    + exfalso. cbn [map list_sum fold_right] in Hf. unfold pair_size at 1 in Hf. cbn [fst] in Hf.
      pose proof (size_pos a). lia.
  - destruct queue as [|[a b] rest]; cbn [pot_prefix_loop].
    + exists true. split; [reflexivity|]. split; [constructor | reflexivity].
    + inversion Hsh as [|x y [Hsa Hsb] Hsh']; subst. inversion Hlb as [|x y Hl Hlb']; subst.
      cbn [fst snd] in Hsa, Hsb. unfold pair_lbl in Hl. cbn [fst snd] in Hl.
      rewrite (ckids_shape a Hsa), (ckids_shape b Hsb).
      assert (Hpp : PotPrefix a b <->
                (no_children a = false -> no_children b = false -> length (kids a) = length (kids b))
                /\ Forall pair_pp (combine (kids a) (kids b))).
      { rewrite PotPrefix_node. split.
        - intros (_ & Hn & Hk). split; [exact Hn|]. apply Forall_forall. intros [c c'] Hin.
          apply in_combine_nth in Hin as (j & Hc & Hc'). exact (Hk j c c' Hc Hc').
        - intros (Hn & Hk). split; [exact Hl|]. split; [exact Hn|]. intros j c c' Hc Hc'.
          rewrite Forall_forall in Hk. apply (Hk (c, c')). apply in_combine_nth. eauto. }
      destruct (negb (no_children a) && negb (no_children b) && negb (length (kids a) =? length (kids b))) eqn:Eg.
      * exists false. split; [reflexivity|]. split; [discriminate|]. intro HF. exfalso.
        inversion HF as [|x y Hab _]; subst. apply Hpp in Hab as [Hn _].
        apply andb_true_iff in Eg as [Eg E3]. apply andb_true_iff in Eg as [E1 E2].
        apply negb_true_iff in E1, E2, E3. apply Nat.eqb_neq in E3. auto.
      * assert (Hn : no_children a = false -> no_children b = false -> length (kids a) = length (kids b)).
        { intros E1 E2. rewrite E1, E2 in Eg. cbn [negb andb] in Eg. apply negb_false_iff, Nat.eqb_eq in Eg. exact Eg. }
        destruct (forallb (fun ab => str_eqb (lbl (fst ab)) (lbl (snd ab))) (combine (kids a) (kids b))) eqn:Ez.
        -- destruct (IH (rest ++ combine (kids a) (kids b))) as (v & Hv & Hiff).
           ++ rewrite map_app, list_sum_app. cbn [map list_sum fold_right] in Hf. unfold pair_size at 1 in Hf. cbn [fst] in Hf.
              pose proof (combine_size (kids a) (kids b)) as Hc. destruct a as [la ia oa ka]. cbn [size kids] in *. unfold list_sum in *. cbn [fold_right] in *. lia.
           ++ apply Forall_app. split; [exact Hsh'|]. apply Forall_forall. intros [c c'] Hin.
              apply in_combine_nth in Hin as (j & Hc & Hc'). split; cbn [fst snd].
              ** eapply shape_ok_kids; [exact Hsa | eapply nth_error_In; eauto].
              ** eapply shape_ok_kids; [exact Hsb | eapply nth_error_In; eauto].
           ++ apply Forall_app. split; [exact Hlb'|]. apply Forall_forall. intros ab Hin.
              rewrite forallb_forall in Ez. apply str_eqb_eq. apply Ez. exact Hin.
           ++ exists v. split; [exact Hv|]. rewrite Hiff, Forall_app. split.
              ** intros [Hr Hz]. constructor; [apply Hpp; auto | exact Hr].
              ** intro HF. inversion HF as [|x y Hab Hr]; subst. apply Hpp in Hab as [_ Hz]. auto.
        -- exists false. split; [reflexivity|]. split; [discriminate|]. intro HF. exfalso.
           inversion HF as [|x y Hab _]; subst. apply Hpp in Hab as [_ Hz].
           assert (Ht : forallb (fun ab => str_eqb (lbl (fst ab)) (lbl (snd ab))) (combine (kids a) (kids b)) = true).
           { apply forallb_forall. intros [c c'] Hin. rewrite Forall_forall in Hz. specialize (Hz _ Hin).
             destruct (Hz [] c c' eq_refl eq_refl) as [Hcl _]. cbn [fst snd]. apply str_eqb_eq. exact Hcl. }
           congruence.
Qed.

(* never out of fuel; True exactly when the spec holds *)
Theorem is_potential_prefix_spec t u : shape_ok t = true -> shape_ok u = true ->
  exists v, is_potential_prefix t u = Some v /\ (v = true <-> PotPrefix t u).
Proof.
  intros Ht Hu. unfold is_potential_prefix. destruct (str_eqb (lbl t) (lbl u)) eqn:El; cbn [negb].
  - apply str_eqb_eq in El.
    destruct (pot_prefix_loop_spec (size t) [(t, u)]) as (v & Hv & Hiff).
    + cbn [map list_sum fold_right]. unfold pair_size. cbn [fst]. lia.
    + constructor; [split; assumption | constructor].
    + constructor; [exact El | constructor].
    + exists v. split; [exact Hv|]. rewrite Hiff. split.
      * intro HF. inversion HF; subst. assumption.
      * intro H. constructor; [exact H | constructor].
  - exists false. split; [reflexivity|]. split; [discriminate|]. intro H. exfalso.
    destruct (H [] t u eq_refl eq_refl) as [Hl _]. apply str_eqb_eq in Hl. congruence.
Qed.

(* a prefix is a potential prefix *)
Theorem PrefixOf_PotPrefix t u : PrefixOf t u -> PotPrefix t u.
Proof.
  intros H p s s' Hs Hs'. destruct (H p s Hs) as (s2 & Hs2 & Hl & Ho). rewrite Hs' in Hs2. inversion Hs2; subst s2.
  split; [congruence|]. intros Hn _. unfold no_children in Hn. apply orb_false_iff in Hn as [Hn _].
  destruct (Ho Hn) as [_ Hlen]. congruence.
Qed.

(* non-vacuity *)
Example prefix_nonvacuous :
  let t := Node [60;97;62]%N 1 false [Node [60;98;62]%N 2 true []; Node [120]%N 3 false []] in
  let u := Node [60;97;62]%N 7 false [Node [60;98;62]%N 8 false [Node [121]%N 9 false []]; Node [120]%N 5 false []] in
  shape_ok t = true /\ shape_ok u = true /\ is_prefix_t t u = true /\ is_prefix_t u t = false
  /\ is_potential_prefix t u = Some true /\ is_potential_prefix u t = Some true.
Proof. repeat split; reflexivity. Qed.
