(* C16: specification and proofs for the structural tree operations (TreeOps.v). *)
From ISLA Require Import Tree PathFacts TreeFacts TreeOps.
From Coq Require Import Sorted Lia.

(* ------------------------------------------------------------------ *)
(* generic list facts                                                  *)
(* ------------------------------------------------------------------ *)
Lemma shape_ok_unfold l i o ks :
  shape_ok (Node l i o ks) = true -> (o = true -> ks = []) /\ Forall (fun c => shape_ok c = true) ks.
Proof.
  simpl. intro H. apply andb_true_iff in H as [H1 H2]. split.
  - intros ->. destruct ks; [reflexivity | discriminate].
  - apply Forall_forall. rewrite forallb_forall in H2. exact H2.
Qed.

Lemma ckids_shape t : shape_ok t = true -> ckids t = kids t.
Proof.
  destruct t as [l i o ks]. intro H. apply shape_ok_unfold in H as [H _].
  unfold ckids; simpl. destruct o; [rewrite H; reflexivity | reflexivity].
Qed.

(* ------------------------------------------------------------------ *)
(* to_string                                                           *)
(* ------------------------------------------------------------------ *)
(* SPEC: the sub-terms of a tree in document order, and the string of a tree as the
   concatenation of the labels of its terminal leaves *)
Definition subterms (t : tree) : list tree := map snd (nodes t).
Definition is_term_leaf (s : tree) : bool :=
  negb (opn s) && match kids s with [] => true | _ => false end && negb (is_nt (lbl s)).
Definition term_string (t : tree) : str :=
  flat_map (fun s => if is_term_leaf s then lbl s else []) (subterms t).

Lemma subterms_children j ks :
  map snd (concat (mapi_from (fun i c => map (fun pt : path * tree => (i :: fst pt, snd pt)) c) j (map nodes ks)))
  = flat_map subterms ks.
Proof.
  revert j; induction ks as [|k ks IH]; intro j; simpl; [reflexivity|].
  rewrite map_app, IH. f_equal. unfold subterms. rewrite map_map. reflexivity.
Qed.

Lemma subterms_unfold l i o ks :
  subterms (Node l i o ks) = Node l i o ks :: flat_map subterms ks.
Proof. unfold subterms at 1. rewrite nodes_unfold. simpl. f_equal. apply subterms_children. Qed.

(* structural reading of the worklist loop *)
Fixpoint ts (show : bool) (t : tree) : str :=
  match t with
  | Node l i o ks => if no_children (Node l i o ks) then leaf_text show (Node l i o ks)
                     else flat_map (ts show) ks
  end.

Lemma to_string_loop_spec show : forall fuel stack acc,
  list_sum (map size stack) <= fuel ->
  to_string_loop fuel show stack acc = Some (acc ++ flat_map (ts show) stack).
Proof.
  induction fuel as [|f IH]; intros stack acc Hf.
  - destruct stack as [|n rest]; simpl; [rewrite app_nil_r; reflexivity|].
    destruct n; simpl in Hf; lia.
  - destruct stack as [|n rest]; [simpl; rewrite app_nil_r; reflexivity|].
    cbn [to_string_loop]. destruct n as [l i o ks].
    destruct (no_children (Node l i o ks)) eqn:En.
    + rewrite IH.
      * cbn [flat_map ts]. rewrite En. rewrite app_assoc. reflexivity.
      * simpl in Hf. lia.
    + rewrite IH.
      * cbn [flat_map ts]. rewrite En. cbn [kids]. rewrite flat_map_app. reflexivity.
      * cbn [kids]. rewrite map_app, list_sum_app. simpl in Hf. lia.
Qed.

Lemma to_string_ts show t : to_string show t = Some (ts show t).
Proof.
  unfold to_string. rewrite to_string_loop_spec.
  - simpl. rewrite app_nil_r. reflexivity.
  - simpl. lia.
Qed.

Lemma flat_map_ext_Forall {A B} (f g : A -> list B) l :
  Forall (fun x => f x = g x) l -> flat_map f l = flat_map g l.
Proof. induction 1 as [|x l Hx _ IH]; simpl; [reflexivity | rewrite Hx, IH; reflexivity]. Qed.

Lemma Forall_impl2 {A} (P Q R : A -> Prop) l :
  (forall x, P x -> Q x -> R x) -> Forall P l -> Forall Q l -> Forall R l.
Proof.
  intros H HP HQ. rewrite Forall_forall in *. intros x Hx. auto.
Qed.

Lemma flat_map_nested {A B C} (f : B -> list C) (g : A -> list B) l :
  flat_map f (flat_map g l) = flat_map (fun x => flat_map f (g x)) l.
Proof. induction l as [|x l IH]; simpl; [reflexivity | rewrite flat_map_app, IH; reflexivity]. Qed.

Lemma ts_yield t : shape_ok t = true -> ts true t = yield t.
Proof.
  induction t as [l i o ks IH] using tree_ind'. intro Hs.
  apply shape_ok_unfold in Hs as [Ho Hks]. cbn [ts yield].
  unfold no_children, leaf_text; cbn [opn kids lbl].
  destruct ks as [|k ks'].
  - rewrite orb_true_r. reflexivity.
  - destruct o; [specialize (Ho eq_refl); discriminate|]. cbn [orb].
    apply flat_map_ext_Forall.
    eapply Forall_impl2; [|exact IH|exact Hks]. intros x H1 H2. auto.
Qed.

Lemma ts_term_string t : shape_ok t = true -> ts false t = term_string t.
Proof.
  induction t as [l i o ks IH] using tree_ind'. intro Hs.
  apply shape_ok_unfold in Hs as [Ho Hks]. unfold term_string. rewrite subterms_unfold.
  cbn [ts flat_map]. unfold no_children, leaf_text, is_term_leaf; cbn [opn kids lbl].
  destruct ks as [|k ks'].
  - rewrite orb_true_r. cbn [flat_map]. rewrite app_nil_r.
    destruct o; cbn; [reflexivity|]. destruct (is_nt l); reflexivity.
  - destruct o; [specialize (Ho eq_refl); discriminate|]. cbn [orb negb andb app].
    rewrite flat_map_nested.
    apply flat_map_ext_Forall.
    eapply Forall_impl2; [|exact IH|exact Hks]. intros x H1 H2. cbn beta.
    rewrite (H1 H2). reflexivity.
Qed.

(* to_string(show_open_leaves=True) = str(tree) is the yield of the tree *)
Theorem to_string_yield t : shape_ok t = true -> to_string true t = Some (yield t).
Proof. intro H. rewrite to_string_ts, ts_yield by assumption. reflexivity. Qed.

(* to_string() is the concatenation of the terminal leaves in document order *)
Theorem to_string_terminals t : shape_ok t = true -> to_string false t = Some (term_string t).
Proof. intro H. rewrite to_string_ts, ts_term_string by assumption. reflexivity. Qed.

(* ------------------------------------------------------------------ *)
(* openness                                                            *)
(* ------------------------------------------------------------------ *)
Theorem open_iff_leaf t :
  is_openT t = true <-> exists p s, subtree t p = Some s /\ opn s = true.
Proof.
  induction t as [l i o ks IH] using tree_ind'. cbn [is_openT]. split.
  - intro H. apply orb_true_iff in H as [H|H].
    + exists [], (Node l i o ks). subst. split; reflexivity.
    + apply existsb_exists in H as (c & Hin & Hc).
      rewrite Forall_forall in IH. apply (IH c Hin) in Hc as (p & s & Hp & Hs).
      apply In_nth_error in Hin as (k & Hk).
      exists (k :: p), s. simpl. rewrite Hk. auto.
  - intros (p & s & Hp & Hs). destruct p as [|k p]; simpl in Hp.
    + inversion Hp; subst. simpl in Hs. subst. reflexivity.
    + destruct (nth_error ks k) as [c|] eqn:Ek; [|discriminate].
      apply orb_true_iff. right. apply existsb_exists. exists c.
      assert (Hin : In c ks) by (eapply nth_error_In; eauto). split; [assumption|].
      rewrite Forall_forall in IH. apply (IH c Hin). eauto.
Qed.

(* ------------------------------------------------------------------ *)
(* paths(): the explicit-stack traversal enumerates [nodes t]          *)
(* ------------------------------------------------------------------ *)
Definition shift (p : path) (l : list (path * tree)) : list (path * tree) :=
  map (fun qs => (p ++ fst qs, snd qs)) l.

Lemma shift_app p a b : shift p (a ++ b) = shift p a ++ shift p b.
Proof. unfold shift. apply map_app. Qed.

Lemma shift_children p j ks :
  shift p (concat (mapi_from (fun i c => map (fun pt : path * tree => (i :: fst pt, snd pt)) c) j (map nodes ks)))
  = flat_map (fun pn => shift (fst pn) (nodes (snd pn))) (mapi_from (fun i c => (p ++ [i], c)) j ks).
Proof.
  revert j; induction ks as [|k ks IH]; intro j; simpl; [reflexivity|].
  rewrite shift_app, IH. f_equal.
  unfold shift. rewrite map_map. apply map_ext. intros [q s]. simpl.
  rewrite <- app_assoc. reflexivity.
Qed.

Lemma shift_nodes p l i o ks :
  shift p (nodes (Node l i o ks))
  = (p, Node l i o ks)
    :: flat_map (fun pn => shift (fst pn) (nodes (snd pn))) (mapi_from (fun i c => (p ++ [i], c)) 0 ks).
Proof.
  rewrite nodes_unfold. unfold shift at 1. cbn [map fst snd]. rewrite app_nil_r. f_equal.
  apply shift_children.
Qed.

Lemma sizes_mapi (p : path) j ks :
  list_sum (map (fun pn : path * tree => size (snd pn)) (mapi_from (fun i c => (p ++ [i], c)) j ks))
  = list_sum (map size ks).
Proof. revert j; induction ks as [|k ks IH]; intro j; simpl; [reflexivity | rewrite IH; reflexivity]. Qed.

Lemma shape_mapi (p : path) j ks :
  Forall (fun c => shape_ok c = true) ks ->
  Forall (fun pn : path * tree => shape_ok (snd pn) = true) (mapi_from (fun i c => (p ++ [i], c)) j ks).
Proof. intro H; revert j; induction H as [|k ks Hk _ IH]; intro j; simpl; constructor; auto. Qed.

Lemma paths_loop_spec : forall fuel stack acc,
  Forall (fun pn : path * tree => shape_ok (snd pn) = true) stack ->
  list_sum (map (fun pn : path * tree => size (snd pn)) stack) <= fuel ->
  paths_loop fuel stack acc
  = Some (acc ++ flat_map (fun pn => shift (fst pn) (nodes (snd pn))) stack).
Proof.
  induction fuel as [|f IH]; intros stack acc Hs Hf.
  - destruct stack as [|[p n] rest]; simpl; [rewrite app_nil_r; reflexivity|].
    destruct n; simpl in Hf; lia.
  - destruct stack as [|[p n] rest]; [simpl; rewrite app_nil_r; reflexivity|].
    cbn [paths_loop]. inversion Hs as [|x y Hn Hrest]; subst. cbn [snd] in Hn.
    rewrite (ckids_shape n Hn). destruct n as [l i o ks]. cbn [kids].
    apply shape_ok_unfold in Hn as [_ Hks].
    rewrite IH.
    + rewrite flat_map_app. cbn [flat_map fst snd]. rewrite shift_nodes.
      rewrite <- !app_assoc. reflexivity.
    + apply Forall_app. split; [apply shape_mapi; assumption | assumption].
    + rewrite map_app, list_sum_app, sizes_mapi. cbn [map list_sum snd] in Hf.
      change (size (Node l i o ks)) with (S (list_sum (map size ks))) in Hf.
      assert (E : forall a l0, list_sum (a :: l0) = a + list_sum l0) by reflexivity. rewrite E in Hf.
      unfold path in *. lia.
Qed.

Lemma shift_nil l : shift [] l = l.
Proof. unfold shift. rewrite <- (map_id l) at 2. apply map_ext. intros [q s]. reflexivity. Qed.

Theorem paths_nodes t : shape_ok t = true -> paths t = Some (nodes t).
Proof.
  intro H. unfold paths. rewrite paths_loop_spec.
  - simpl. rewrite shift_nil, app_nil_r. reflexivity.
  - constructor; [assumption | constructor].
  - simpl. lia.
Qed.

(* paths() lists exactly the (path, subtree) pairs, in document (pre-)order, without repetition *)
Theorem paths_subtree t l : shape_ok t = true -> paths t = Some l ->
  (forall p s, In (p, s) l <-> subtree t p = Some s)
  /\ StronglySorted pre_lt (map fst l) /\ NoDup (map fst l).
Proof.
  intros Hs Hl. rewrite paths_nodes in Hl by assumption. inversion Hl; subst l. split; [|split].
  - apply nodes_spec.
  - rewrite <- positions_nodes. apply positions_sorted.
  - rewrite <- positions_nodes. apply positions_NoDup.
Qed.

(* ------------------------------------------------------------------ *)
(* is_valid_path                                                       *)
(* ------------------------------------------------------------------ *)
Theorem is_valid_path_spec t : shape_ok t = true ->
  forall p, is_valid_path t p = true <-> valid t p.
Proof.
  induction t as [l i o ks IH] using tree_ind'. intros Hs p.
  apply shape_ok_unfold in Hs as [Ho Hks]. unfold valid.
  destruct p as [|k p]; simpl; [split; [discriminate | reflexivity]|].
  unfold no_children; cbn [opn kids].
  destruct (nth_error ks k) as [c|] eqn:Ek.
  - assert (Hin : In c ks) by (eapply nth_error_In; eauto).
    assert (Hlt : k < length ks) by (apply nth_error_Some; congruence).
    destruct o; [rewrite (Ho eq_refl) in Hin; contradiction|].
    destruct ks as [|k0 ks0] eqn:Eks; [contradiction|]. rewrite <- Eks in *.
    cbn [orb]. destruct (Nat.leb_spec (length ks) k) as [Hle|_]; [lia|].
    rewrite Forall_forall in IH, Hks. apply (IH c Hin (Hks c Hin)).
  - split; [|intro H; contradiction H; reflexivity].
    assert (Hge : length ks <= k) by (apply nth_error_None; assumption).
    destruct (Nat.leb_spec (length ks) k) as [_|Hlt]; [|lia].
    rewrite orb_true_r. discriminate.
Qed.

(* ------------------------------------------------------------------ *)
(* find_node                                                           *)
(* ------------------------------------------------------------------ *)
Definition uniq_ids (t : tree) : Prop := NoDup (map (fun pt => tid (snd pt)) (nodes t)).

Lemma NoDup_map_inj {A B} (f : A -> B) l x y :
  NoDup (map f l) -> In x l -> In y l -> f x = f y -> x = y.
Proof.
  induction l as [|a l IH]; simpl; intros Hnd Hx Hy Hf; [contradiction|].
  inversion Hnd as [|b m Hnotin Hnd']; subst.
  destruct Hx as [->|Hx], Hy as [->|Hy]; auto.
  - exfalso. apply Hnotin. rewrite Hf. apply in_map. assumption.
  - exfalso. apply Hnotin. rewrite <- Hf. apply in_map. assumption.
Qed.

(* soundness needs no uniqueness: the answer is a node with that id *)
Lemma find_node_sound t i p : find_node t i = Some p ->
  exists s, subtree t p = Some s /\ tid s = i.
Proof.
  unfold find_node. destruct (find _ (nodes t)) as [[q s]|] eqn:E; [|discriminate].
  intro H. inversion H; subst. apply find_some in E as [Hin Hid]. simpl in *.
  apply N.eqb_eq in Hid. exists s. split; [apply nodes_spec; assumption | assumption].
Qed.

Lemma find_node_complete t i : (exists p s, subtree t p = Some s /\ tid s = i) ->
  exists p, find_node t i = Some p.
Proof.
  intros (p & s & Hp & Hi). unfold find_node.
  destruct (find _ (nodes t)) as [[q s']|] eqn:E; [eauto|].
  exfalso. apply nodes_spec in Hp. eapply find_none in E; [|exact Hp].
  simpl in E. apply N.eqb_neq in E. contradiction.
Qed.

Theorem find_node_path t i p : uniq_ids t ->
  (find_node t i = Some p <-> exists s, subtree t p = Some s /\ tid s = i).
Proof.
  intro Hu. split; [apply find_node_sound|].
  intros (s & Hp & Hi).
  destruct (find_node_complete t i) as (q & Hq); [eauto|].
  destruct (find_node_sound _ _ _ Hq) as (s' & Hq' & Hi').
  apply nodes_spec in Hp, Hq'.
  assert (E : (q, s') = (p, s)).
  { eapply (NoDup_map_inj (fun pt : path * tree => tid (snd pt))); eauto. simpl. congruence. }
  inversion E; subst. assumption.
Qed.

(* ------------------------------------------------------------------ *)
(* replace_path: frame                                                 *)
(* ------------------------------------------------------------------ *)
Lemma nth_error_splice_eq {A} (l : list A) i x :
  i < length l -> nth_error (firstn i l ++ x :: skipn (S i) l) i = Some x.
Proof.
  intro H. rewrite nth_error_app2; rewrite firstn_length_le by lia; [|lia].
  rewrite Nat.sub_diag. reflexivity.
Qed.

Lemma nth_error_firstn_lt {A} : forall (l : list A) i j, j < i -> nth_error (firstn i l) j = nth_error l j.
Proof.
  induction l as [|a l IH]; intros i j H; [rewrite firstn_nil; reflexivity|].
  destruct i as [|i]; [lia|]. destruct j as [|j]; [reflexivity|]. simpl. apply IH. lia.
Qed.

Lemma nth_error_skipn_add {A} : forall n (l : list A) d, nth_error (skipn n l) d = nth_error l (n + d).
Proof.
  induction n as [|n IH]; intros l d; [reflexivity|].
  destruct l as [|a l]; [destruct d; reflexivity|]. simpl. apply IH.
Qed.

Lemma nth_error_splice_neq {A} (l : list A) i j x :
  i < length l -> j <> i -> nth_error (firstn i l ++ x :: skipn (S i) l) j = nth_error l j.
Proof.
  intros H Hne. destruct (Nat.lt_ge_cases j i) as [Hlt|Hge].
  - rewrite nth_error_app1 by (rewrite firstn_length_le; lia).
    apply nth_error_firstn_lt. assumption.
  - rewrite nth_error_app2 by (rewrite firstn_length_le; lia).
    rewrite firstn_length_le by lia.
    destruct (j - i) as [|d] eqn:Ed; [lia|]. cbn [nth_error].
    rewrite nth_error_skipn_add. f_equal. lia.
Qed.

Lemma splice_length {A} (l : list A) i x :
  i < length l -> length (firstn i l ++ x :: skipn (S i) l) = length l.
Proof.
  intro H. rewrite app_length, firstn_length_le by lia. cbn [length]. rewrite skipn_length. lia.
Qed.

Theorem replace_frame : forall p t r t', replace_path t p r = Ok t' ->
  subtree t' p = Some r
  /\ (forall q, ~ prefix p q -> ~ prefix q p -> subtree t' q = subtree t q)
  /\ (forall q, sprefix q p -> exists s s', subtree t q = Some s /\ subtree t' q = Some s'
                                           /\ lbl s' = lbl s /\ tid s' = tid s
                                           /\ length (kids s') = length (kids s)).
Proof.
  induction p as [|i p IH]; intros t r t' H.
  - simpl in H. inversion H; subst. split; [reflexivity|]. split.
    + intros q Hq. contradiction Hq. apply prefix_nil.
    + intros q (a & x & Hq). destruct q; discriminate.
  - destruct t as [l id o ks]. cbn [replace_path opn kids lbl tid] in H. destruct o; [discriminate|].
    destruct (nth_error ks i) as [c|] eqn:Ec; [|discriminate].
    destruct (replace_path c p r) as [c'|e] eqn:Er; [|discriminate].
    assert (Ht : t' = Node l id false (firstn i ks ++ c' :: skipn (S i) ks)) by congruence.
    subst t'. clear H.
    assert (Hlt : i < length ks) by (apply nth_error_Some; congruence).
    destruct (IH _ _ _ Er) as (H1 & H2 & H3). split; [|split].
    + cbn [subtree kids]. rewrite nth_error_splice_eq by assumption. assumption.
    + intros q Hn1 Hn2. destruct q as [|j q]; [contradiction Hn2; apply prefix_nil|].
      cbn [subtree kids]. destruct (Nat.eq_dec j i) as [->|Hne].
      * rewrite nth_error_splice_eq by assumption. rewrite Ec. apply H2.
        -- intro Hp. apply Hn1. apply prefix_cons. assumption.
        -- intro Hp. apply Hn2. apply prefix_cons. assumption.
      * rewrite nth_error_splice_neq by assumption. reflexivity.
    + intros q Hq. destruct q as [|j q].
      * exists (Node l id false ks), (Node l id false (firstn i ks ++ c' :: skipn (S i) ks)).
        cbn [subtree kids lbl tid]. rewrite splice_length by assumption. auto.
      * destruct Hq as (a & x & Hq). simpl in Hq. inversion Hq; subst j.
        destruct (H3 q) as (s & s' & Hs & Hs' & Hrest); [exists a, x; assumption|].
        exists s, s'. cbn [subtree kids]. rewrite nth_error_splice_eq by assumption. rewrite Ec. auto.
Qed.

(* replace_path succeeds exactly on the paths of the tree *)
Theorem replace_path_total : forall p t r, shape_ok t = true -> valid t p ->
  exists t', replace_path t p r = Ok t'.
Proof.
  induction p as [|i p IH]; intros t r Hs Hv; [simpl; eauto|].
  destruct t as [l id o ks]. unfold valid in Hv. simpl in Hv.
  destruct (nth_error ks i) as [c|] eqn:Ec; [|contradiction Hv; reflexivity].
  assert (Hin : In c ks) by (eapply nth_error_In; eauto).
  apply shape_ok_unfold in Hs as [Ho Hks].
  destruct o; [rewrite (Ho eq_refl) in Hin; contradiction|].
  simpl. rewrite Ec. rewrite Forall_forall in Hks.
  destruct (IH c r (Hks c Hin) Hv) as (c' & Hc'). rewrite Hc'. eauto.
Qed.

(* ------------------------------------------------------------------ *)
(* structural equality and structural hash                             *)
(* ------------------------------------------------------------------ *)
Section SHashFacts.
  Variable H : Type.
  Variable hash_str : str -> H.
  Variable hash_tup : str -> list H -> H.
  Notation sh := (shash H hash_str hash_tup).

  Lemma all2_map_shash : forall ks1 ks2,
    Forall (fun x => forall u, structurally_equal x u = true -> sh x = sh u) ks1 ->
    length ks1 = length ks2 ->
    (fix all2 (a b : list tree) : bool :=
       match a, b with
       | x :: a', y :: b' => structurally_equal x y && all2 a' b'
       | _, _ => true
       end) ks1 ks2 = true ->
    map sh ks1 = map sh ks2.
  Proof.
    induction ks1 as [|x ks1 IH]; intros [|y ks2] HF Hlen Hall; try discriminate; [reflexivity|].
    inversion HF as [|a b Hx HF']; subst. apply andb_true_iff in Hall as [Hxy Hall].
    simpl. rewrite (Hx y Hxy). f_equal. apply IH; [assumption | simpl in Hlen; lia | assumption].
  Qed.

  Theorem shash_congr : forall t u, structurally_equal t u = true -> sh t = sh u.
  Proof.
    induction t as [l1 i1 o1 ks1 IH] using tree_ind'. intros [l2 i2 o2 ks2] Heq.
    cbn [structurally_equal] in Heq.
    destruct (str_eqb l1 l2) eqn:El; [|discriminate]. apply str_eqb_eq in El. subst l2.
    destruct (Bool.eqb o1 o2) eqn:Eo; [|discriminate]. apply eqb_prop in Eo. subst o2.
    cbn [negb orb] in Heq. cbn [shash]. destruct o1; [reflexivity|].
    destruct (length ks1 =? length ks2) eqn:Elen; [|discriminate]. apply Nat.eqb_eq in Elen.
    cbn [negb] in Heq. f_equal. apply all2_map_shash; assumption.
  Qed.
End SHashFacts.

(* structurally_equal is an equivalence-style relation: reflexive *)
Lemma structurally_equal_refl t : structurally_equal t t = true.
Proof.
  induction t as [l i o ks IH] using tree_ind'. cbn [structurally_equal].
  rewrite str_eqb_refl, eqb_reflx. cbn. destruct o; [reflexivity|].
  rewrite Nat.eqb_refl. cbn. induction IH as [|x ks Hx _ IHks]; [reflexivity|].
  rewrite Hx. exact IHks.
Qed.
