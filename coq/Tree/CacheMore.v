(* C16 (proof extension): the slot invariant through expand_one_step, hence for ALL histories.
   expand_one_step builds, per open leaf and alternative, fresh children with the constructor
   (mk_children / mk_alts / mk_expansions), takes the itertools.product of the alternatives (cart),
   and for every choice replaces the leaves one after the other with replace_path (expand_with /
   expand_all).  Every tree involved is built by mk / c_descend / c_replace from trees that satisfy
   Inv, so the invariant is preserved. *)
From ISLA Require Import Tree PathFacts TreeFacts TreeOps TreeOpsFacts Cache CacheFacts.
From Coq Require Import Lia.

Lemma mk_children_Inv : forall syms nid o, Forall Inv (fst (mk_children syms nid o)).
Proof.
  induction syms as [|s syms IH]; intros nid o; cbn [mk_children]; [constructor|].
  specialize (IH (N.succ nid) (N.succ o)). destruct (mk_children syms (N.succ nid) (N.succ o)) as [r no].
  cbn [fst] in *. constructor; [|exact IH].
  apply mk_Inv. intros ks Hks. destruct (is_nt s); [discriminate|]. inversion Hks; subst ks.
  split; [constructor | discriminate].
Qed.

Lemma mk_alts_Inv : forall al nid o, Forall (Forall Inv) (fst (mk_alts al nid o)).
Proof.
  induction al as [|a al IH]; intros nid o; cbn [mk_alts]; [constructor|].
  pose proof (mk_children_Inv a nid o) as Hc. destruct (mk_children a nid o) as [c [n1 o1]].
  specialize (IH n1 o1). destruct (mk_alts al n1 o1) as [r no]. cbn [fst] in *. constructor; assumption.
Qed.

Lemma mk_expansions_Inv g : forall ol nid o r o',
  mk_expansions g ol nid o = Ok (r, o') ->
  Forall (fun pc : path * list (list ctree) => Forall (Forall Inv) (snd pc)) r.
Proof.
  induction ol as [|[p leaf] ol IH]; intros nid o r o' H; cbn [mk_expansions] in H.
  - inversion H; subst. constructor.
  - destruct (negb (defined g (lbl leaf))); [discriminate|].
    pose proof (mk_alts_Inv (alts g (lbl leaf)) nid o) as Ha.
    destruct (mk_alts (alts g (lbl leaf)) nid o) as [cs [n1 o1]]. cbn [fst] in Ha.
    destruct (mk_expansions g ol n1 o1) as [[r' o2]|e] eqn:E; [|discriminate].
    inversion H; subst. constructor; [exact Ha | eapply IH; exact E].
Qed.

(* itertools.product picks one element of every list *)
Lemma cart_Forall {A} (P : A -> Prop) : forall ls : list (list A),
  Forall (Forall P) ls -> Forall (Forall P) (cart ls).
Proof.
  induction ls as [|l ls IH]; intro H; cbn [cart]; [repeat constructor|].
  inversion H as [|x y Hl Hls]; subst. specialize (IH Hls).
  apply Forall_forall. intros c Hc. apply in_flat_map in Hc as (x & Hx & Hc).
  apply in_map_iff in Hc as (c' & <- & Hc'). rewrite Forall_forall in Hl, IH. constructor; auto.
Qed.

Lemma combine_Forall_snd {A B} (P : B -> Prop) : forall (a : list A) (b : list B),
  Forall P b -> Forall (fun ab : A * B => P (snd ab)) (combine a b).
Proof.
  induction a as [|x a IH]; intros [|y b] H; cbn [combine]; try constructor.
  - inversion H; subst. assumption.
  - inversion H; subst. apply IH. assumption.
Qed.

Lemma expand_with_Inv : forall choice t o t' o',
  Inv t -> Forall (fun pc : path * list ctree => Forall Inv (snd pc)) choice ->
  expand_with t choice o = Ok (t', o') -> Inv t'.
Proof.
  induction choice as [|[p newch] choice IH]; intros t o t' o' Ht Hc H; cbn [expand_with] in H.
  - inversion H; subst. exact Ht.
  - inversion Hc as [|x y Hnew Hc']; subst. cbn [snd] in Hnew.
    destruct (c_descend t p) as [leaf|e] eqn:Ed; [|discriminate].
    destruct (c_replace t p _ (N.succ o)) as [t1|e] eqn:Ec; [|discriminate].
    apply (IH t1 (bump (N.succ o) p) t' o'); [|exact Hc'|exact H].
    eapply c_replace_Inv; [exact Ht| |exact Ec].
    apply mk_Inv. intros ks Hks. inversion Hks; subst ks. split; [exact Hnew | discriminate].
Qed.

Lemma expand_all_Inv t : Inv t -> forall choices o ts o',
  Forall (Forall (fun pc : path * list ctree => Forall Inv (snd pc))) choices ->
  expand_all t choices o = Ok (ts, o') -> Forall Inv ts.
Proof.
  intro Ht. induction choices as [|c cs IH]; intros o ts o' Hc H; cbn [expand_all] in H.
  - inversion H; subst. constructor.
  - inversion Hc as [|x y Hc1 Hcs]; subst.
    destruct (expand_with t c o) as [[t1 o1]|e] eqn:E1; [|discriminate].
    destruct (expand_all t cs o1) as [[r o2]|e] eqn:E2; [|discriminate].
    inversion H; subst. constructor; [eapply expand_with_Inv; eauto | eapply IH; eauto].
Qed.

Lemma st_expand_Inv st src g nid r st' :
  StInv st -> st_expand st src g nid = Some (r, st') -> StInv st'.
Proof.
  intros H Hs. unfold st_expand in Hs.
  destruct (nth_error (regs st) src) as [t|] eqn:Et; [|inversion Hs; subst; assumption].
  destruct (mk_expansions g (open_leaves (erase t)) nid (noid st)) as [[exps o1]|e] eqn:Ex;
    [|inversion Hs; subst; assumption].
  pose proof (mk_expansions_Inv g _ _ _ _ _ Ex) as Hex.
  destruct exps as [|e0 exps0] eqn:Eexps; [inversion Hs; subst; assumption|]. rewrite <- Eexps in *.
  set (choices := map (fun c => combine (map fst exps) c) (cart (map snd exps))) in *.
  assert (Hch : Forall (Forall (fun pc : path * list ctree => Forall Inv (snd pc))) choices).
  { unfold choices. apply Forall_forall. intros ch Hin. apply in_map_iff in Hin as (c & <- & Hc).
    apply combine_Forall_snd.
    assert (Hcart : Forall (Forall (Forall Inv)) (cart (map snd exps))).
    { apply cart_Forall. apply Forall_map. exact Hex. }
    rewrite Forall_forall in Hcart. apply Hcart. exact Hc. }
  destruct choices as [|c0 cs0] eqn:Ech; [inversion Hs; subst; assumption|]. rewrite <- Ech in *.
  destruct (expand_all t choices o1) as [[ts o2]|e] eqn:Ea; inversion Hs; subst; [|assumption].
  apply StInv_add; [assumption|]. eapply expand_all_Inv; [eapply StInv_nth; eauto | exact Hch | exact Ea].
Qed.

(* every operation of a history keeps the invariant *)
Lemma step_Inv_all st o r st' : StInv st -> step st o = Some (r, st') -> StInv st'.
Proof.
  intros H Hs. destruct (no_expand o) eqn:E; [eapply step_Inv; eauto|].
  destruct o; try discriminate E. cbn [step] in Hs. eapply st_expand_Inv; eauto.
Qed.

Lemma run_ops_Inv : forall ops st st', StInv st -> run_ops st ops = Some st' -> StInv st'.
Proof.
  induction ops as [|o ops IH]; intros st st' H Hr; cbn [run_ops] in Hr.
  - inversion Hr; subst. exact H.
  - destruct (step st o) as [[r st1]|] eqn:Es; [|discriminate].
    eapply IH; [eapply step_Inv_all; eauto | exact Hr].
Qed.

(* cache_inv, FULL: after any history over {constructor, is_open, replace_path (retain_id on/off),
   substitute, new_ids, expand_one_step, get_subtree alias} every cached flag of every tree, when
   present, equals the recomputed value *)
Theorem cache_inv : forall ops st st',
  StInv st -> run_ops st ops = Some st' -> forall t, In t (regs st') -> CacheOK t.
Proof.
  intros ops st st' H Hr t Ht. pose proof (run_ops_Inv ops st st' H Hr) as H'.
  unfold StInv in H'. rewrite Forall_forall in H'. apply H'. exact Ht.
Qed.

Corollary cache_inv_init ops st' : run_ops init_state ops = Some st' ->
  forall t, In t (regs st') -> forall n, In n (cnodes t) -> forall b, cc n = Some b -> b = is_openT (erase n).
Proof. intros Hr t Ht. exact (cache_inv ops init_state st' init_StInv Hr t Ht). Qed.

(* and every is_open() answer given during such a history is the recomputed value *)
Theorem is_open_answer_any_history ops st k b st1 t :
  run_ops init_state ops = Some st -> nth_error (regs st) k = Some t ->
  st_is_open st k = Some (Ok b, st1) -> b = is_openT (erase t).
Proof.
  intros Hr Hk Ho. eapply st_is_open_answer; [|exact Hk|exact Ho].
  exact (run_ops_Inv ops init_state st init_StInv Hr).
Qed.

(* non-vacuity: a history WITH expand_one_step (two open leaves, 2 x 2 alternatives -> 4 trees) *)
Definition ex_grammar : grammar :=
  [([60;98;62]%N, [[[120]%N]; [[60;98;62]%N; [121]%N]])].
Definition ex_history_expand : list op :=
  [OConstruct (Node [60;97;62]%N 3 false [Node [60;98;62]%N 1 true []; Node [60;98;62]%N 2 true []]);
   OIsOpen 0; OExpand 0 ex_grammar 10; OIsOpen 2; OReplace 1 [0] 4 true; OExpand 5 ex_grammar 40].
Example ex_history_expand_runs :
  forallb no_expand ex_history_expand = false /\
  exists st, run_ops init_state ex_history_expand = Some st /\ length (regs st) = 10.
Proof. split; [reflexivity|]. eexists. split; vm_compute; reflexivity. Qed.
