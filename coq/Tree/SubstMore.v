(* C16 (proof extension 2): declarative spec of substitute (under unique ids) and of new_ids.
   substitute = sequential loop "for id in id_subst_map: find_node, replace_path" (Cache.subst_loop).
   SPEC: the SIMULTANEOUS substitution subst_sim: walking down from the root, the first node whose
   id is a key of the map is replaced by the mapped tree (nothing below it is looked at); every
   other node keeps label, id, openness and arity. *)
From ISLA Require Import Tree PathFacts TreeFacts TreeOps TreeOpsFacts Cache CacheFacts PrefixMore PrefixReach.
From Coq Require Import Lia.

(* ------------------------------------------------------------------ *)
(* the specification                                                   *)
(* ------------------------------------------------------------------ *)
Fixpoint lookup (i : N) (m : list (N * tree)) : option tree :=
  match m with
  | [] => None
  | (k, r) :: m' => if N.eqb i k then Some r else lookup i m'
  end.

Fixpoint subst_sim (m : list (N * tree)) (t : tree) : tree :=
  match t with
  | Node l i o ks => match lookup i m with
                     | Some r => r
                     | None => Node l i o (map (subst_sim m) ks)
                     end
  end.

(* path-wise reading of subst_sim: a path of t none of whose PROPER ancestors has a mapped id leads,
   in the result, to the mapped tree (if the node's id is mapped) or to a node with the same label,
   id, openness and arity *)
Definition unmapped_above (m : list (N * tree)) (t : tree) (p : path) : Prop :=
  forall q s, sprefix q p -> subtree t q = Some s -> lookup (tid s) m = None.

Lemma subst_sim_pathwise m : forall p t s, subtree t p = Some s -> unmapped_above m t p ->
  match lookup (tid s) m with
  | Some r => subtree (subst_sim m t) p = Some r
  | None => exists s', subtree (subst_sim m t) p = Some s' /\ lbl s' = lbl s /\ tid s' = tid s
                       /\ opn s' = opn s /\ length (kids s') = length (kids s)
  end.
Proof.
  induction p as [|n p IH]; intros t s Hs Hu.
  - cbn in Hs. inversion Hs; subst s. destruct t as [l i o ks]. cbn [tid subst_sim subtree].
    destruct (lookup i m) as [r|]; [reflexivity|]. eexists. split; [reflexivity|]. cbn. rewrite map_length. auto.
  - destruct t as [l i o ks]. cbn [subtree kids] in Hs. destruct (nth_error ks n) as [c|] eqn:Ec; [|discriminate].
    assert (Hroot : lookup i m = None).
    { apply (Hu [] (Node l i o ks)); [exists n, p; reflexivity | reflexivity]. }
    assert (Hu' : unmapped_above m c p).
    { intros q s0 (a & r & Hq) Hs0. apply (Hu (n :: q) s0); [exists a, r; cbn; congruence|].
      cbn [subtree kids]. rewrite Ec. exact Hs0. }
    specialize (IH c s Hs Hu'). cbn [subst_sim]. rewrite Hroot. cbn [subtree kids].
    rewrite (map_nth_error (subst_sim m) n ks Ec). exact IH.
Qed.

(* ------------------------------------------------------------------ *)
(* the loop on plain trees                                             *)
(* ------------------------------------------------------------------ *)
Fixpoint seq_subst (m : list (N * tree)) (t : tree) : res tree :=
  match m with
  | [] => Ok t
  | (i, r) :: m' =>
      match find_node t i with
      | None => seq_subst m' t
      | Some p => match replace_path t p r with
                  | Raise e => Raise e
                  | Ok t' => seq_subst m' t'
                  end
      end
  end.

Definition erase_map (m : list (N * ctree)) : list (N * tree) := map (fun kv => (fst kv, erase (snd kv))) m.

Lemma subst_loop_erase : forall m t o,
  match subst_loop m t o with
  | Ok (t', _) => seq_subst (erase_map m) (erase t) = Ok (erase t')
  | Raise e => seq_subst (erase_map m) (erase t) = Raise e
  end.
Proof.
  induction m as [|[i r] m IH]; intros t o; [reflexivity|].
  cbn [subst_loop erase_map map seq_subst fst snd]. unfold find_node_c.
  destruct (find_node (erase t) i) as [p|]; [|apply IH].
  pose proof (c_replace_erase p t r o) as Hr. destruct (c_replace t p r o) as [t1|e]; rewrite Hr; [apply IH | reflexivity].
Qed.

(* ------------------------------------------------------------------ *)
(* occurrences of an id, path-wise                                     *)
(* ------------------------------------------------------------------ *)
Definition absent (j : N) (t : tree) : Prop := forall p s, subtree t p = Some s -> tid s <> j.
Definition once (j : N) (t : tree) : Prop :=
  forall p q s s', subtree t p = Some s -> subtree t q = Some s' -> tid s = j -> tid s' = j -> p = q.

Lemma absent_kid j l i o ks n c : absent j (Node l i o ks) -> nth_error ks n = Some c -> absent j c.
Proof. intros H Hc p s Hs. apply (H (n :: p) s). cbn [subtree kids]. rewrite Hc. exact Hs. Qed.

Lemma once_kid j l i o ks n c : once j (Node l i o ks) -> nth_error ks n = Some c -> once j c.
Proof.
  intros H Hc p q s s' Hs Hs' Hi Hi'.
  assert (E : n :: p = n :: q).
  { apply (H (n :: p) (n :: q) s s'); try assumption; cbn [subtree kids]; rewrite Hc; assumption. }
  congruence.
Qed.

Lemma uniq_once t j : uniq_ids t -> once j t.
Proof.
  intros Hu p q s s' Hs Hs' Hi Hi'. apply nodes_spec in Hs, Hs'.
  assert (E : (p, s) = (q, s')).
  { eapply (NoDup_map_inj (fun pt : path * tree => tid (snd pt))); eauto. cbn. congruence. }
  congruence.
Qed.

Lemma find_none_absent t j : find_node t j = None -> absent j t.
Proof.
  intros H p s Hs Hi. destruct (find_node_complete t j) as (q & Hq); [eauto|]. congruence.
Qed.

Lemma lookup_none i m : ~ In i (map fst m) -> lookup i m = None.
Proof.
  induction m as [|[k r] m IH]; intro H; [reflexivity|]. cbn [lookup]. cbn [map fst In] in H.
  destruct (N.eqb_spec i k) as [->|_]; [exfalso; auto|]. apply IH. auto.
Qed.

Lemma nth_error_ext {A} : forall a b : list A, (forall j, nth_error a j = nth_error b j) -> a = b.
Proof.
  induction a as [|x a IH]; intros [|y b] H.
  - reflexivity.
  - specialize (H 0). discriminate.
  - specialize (H 0). discriminate.
  - pose proof (H 0) as H0. cbn in H0. inversion H0; subst. f_equal. apply IH. intro j. exact (H (S j)).
Qed.

Lemma map_ext_nth {A B} (f g : A -> B) l :
  (forall n x, nth_error l n = Some x -> f x = g x) -> map f l = map g l.
Proof.
  intro H. apply nth_error_ext. intro j. rewrite !nth_error_map'.
  destruct (nth_error l j) as [x|] eqn:E; [cbn; f_equal; eauto | reflexivity].
Qed.

(* an entry whose key does not occur in t is irrelevant *)
Lemma subst_sim_absent_head i r m t : absent i t -> subst_sim ((i, r) :: m) t = subst_sim m t.
Proof.
  induction t as [l k o ks IH] using tree_ind'. intro Ha. cbn [subst_sim lookup].
  destruct (N.eqb_spec k i) as [E|_]; [exfalso; exact (Ha [] _ eq_refl E)|].
  destruct (lookup k m); [reflexivity|]. f_equal. apply map_ext_nth. intros n x Hx.
  rewrite Forall_forall in IH. apply IH; [eapply nth_error_In; eauto | eapply absent_kid; eauto].
Qed.

(* a tree without mapped ids is left alone *)
Lemma subst_sim_id m t : (forall j, In j (map fst m) -> absent j t) -> subst_sim m t = t.
Proof.
  induction t as [l k o ks IH] using tree_ind'. intro Ha. cbn [subst_sim].
  rewrite lookup_none.
  - f_equal. rewrite <- (map_id ks) at 2. apply map_ext_nth. intros n x Hx.
    rewrite Forall_forall in IH. apply IH; [eapply nth_error_In; eauto|].
    intros j Hj. eapply absent_kid; eauto.
  - intro Hk. exact (Ha k Hk [] _ eq_refl eq_refl).
Qed.

(* ONE iteration of the loop = moving the entry from the map into the tree *)
Lemma subst_step i r m : forall p t s t1,
  subtree t p = Some s -> tid s = i -> once i t -> ~ In i (map fst m) ->
  (forall j, In j (map fst m) -> absent j r) ->
  replace_path t p r = Ok t1 ->
  subst_sim ((i, r) :: m) t = subst_sim m t1.
Proof.
  induction p as [|n p IH]; intros t s t1 Hs Hi Ho Hni Hr Hrep.
  - cbn in Hs, Hrep. inversion Hs; inversion Hrep; subst. destruct s as [l k o ks]. cbn [tid subst_sim lookup].
    rewrite N.eqb_refl. symmetry. apply subst_sim_id. exact Hr.
  - destruct t as [l k o ks]. cbn [subtree kids] in Hs. cbn [replace_path opn kids lbl tid] in Hrep.
    destruct o; [discriminate|]. destruct (nth_error ks n) as [c|] eqn:Ec; [|discriminate].
    destruct (replace_path c p r) as [c'|e] eqn:Er; [|discriminate].
    assert (Et1 : t1 = Node l k false (firstn n ks ++ c' :: skipn (S n) ks)) by (inversion Hrep; reflexivity).
    clear Hrep. remember (firstn n ks ++ c' :: skipn (S n) ks) as ks' eqn:Eks. subst t1.
    assert (Hk : k <> i).
    { intro E. assert (E' : [] = n :: p); [|discriminate].
      apply (Ho [] (n :: p) (Node l k false ks) s); try assumption; [reflexivity | cbn [subtree kids]; rewrite Ec; exact Hs]. }
    cbn [subst_sim lookup]. destruct (N.eqb_spec k i) as [E|_]; [contradiction|].
    destruct (lookup k m); [reflexivity|]. f_equal.
    assert (Hn : n < length ks) by (apply nth_error_Some; congruence).
    apply nth_error_ext. intro j. rewrite !nth_error_map'. destruct (Nat.eq_dec j n) as [->|Hne].
    + replace (nth_error ks' n) with (Some c') by (subst ks'; symmetry; apply nth_error_splice_eq; exact Hn).
      rewrite Ec. cbn [option_map]. f_equal.
      apply (IH c s c' Hs Hi); try assumption. eapply once_kid; eauto.
    + replace (nth_error ks' j) with (nth_error ks j) by (subst ks'; symmetry; apply nth_error_splice_neq; assumption).
      destruct (nth_error ks j) as [x|] eqn:Ex; [|reflexivity].
      cbn [option_map]. f_equal. apply subst_sim_absent_head. intros q s' Hq Hi'.
      assert (E' : j :: q = n :: p); [|congruence].
      apply (Ho (j :: q) (n :: p) s' s); try assumption; cbn [subtree kids]; [rewrite Ex | rewrite Ec]; assumption.
Qed.

(* replacing by a tree without id j keeps "j occurs at most once" *)
Lemma once_replace j : forall p t r t1, once j t -> absent j r -> replace_path t p r = Ok t1 -> once j t1.
Proof.
  intros p t r t1 Ho Ha Hrep. destruct (replace_frame p t r t1 Hrep) as (Hat & Hoff & Habove).
  assert (Hback : forall q s, subtree t1 q = Some s -> tid s = j -> exists s0, subtree t q = Some s0 /\ tid s0 = j).
  { intros q s Hq Hi. destruct (prefixb p q) eqn:E1.
    - apply prefixb_spec in E1 as (q' & ->). rewrite subtree_app, Hat in Hq. exfalso. exact (Ha q' s Hq Hi).
    - destruct (prefixb q p) eqn:E2.
      + apply prefixb_spec in E2 as (q' & Hq'). destruct q' as [|a q'].
        * exfalso. rewrite app_nil_r in Hq'. subst q. assert (prefixb p p = true) by (apply prefixb_spec; exists []; symmetry; apply app_nil_r). congruence.
        * destruct (Habove q) as (s0 & s0' & Hs0 & Hs0' & _ & Hid & _); [exists a, q'; exact Hq'|].
          rewrite Hq in Hs0'. inversion Hs0'; subst s0'. exists s0. split; [exact Hs0 | congruence].
      + exists s. split; [|exact Hi]. rewrite <- Hoff; [exact Hq | |].
        * intro H. apply prefixb_spec in H. congruence.
        * intro H. apply prefixb_spec in H. congruence. }
  intros q q' s s' Hq Hq' Hi Hi'. destruct (Hback q s Hq Hi) as (s0 & Hs0 & Hi0).
  destruct (Hback q' s' Hq' Hi') as (s1 & Hs1 & Hi1). exact (Ho q q' s0 s1 Hs0 Hs1 Hi0 Hi1).
Qed.

(* the sequential loop computes the simultaneous substitution and never raises *)
Theorem seq_subst_spec : forall m t,
  NoDup (map fst m) ->
  (forall j, In j (map fst m) -> once j t) ->
  (forall i r, In (i, r) m -> shape_ok r = true /\ forall j, In j (map fst m) -> j <> i -> absent j r) ->
  shape_ok t = true ->
  seq_subst m t = Ok (subst_sim m t).
Proof.
  induction m as [|[i r] m IH]; intros t Hnd Ho Hg Hsh.
  - cbn [seq_subst]. rewrite subst_sim_id; [reflexivity | intros j []].
  - cbn [map fst] in Hnd. inversion Hnd as [|a b Hni Hnd']; subst.
    destruct (Hg i r (or_introl eq_refl)) as [Hshr Habs].
    assert (Hr : forall j, In j (map fst m) -> absent j r).
    { intros j Hj. apply Habs; [right; exact Hj | intro E; subst; contradiction]. }
    assert (Hg' : forall i0 r0, In (i0, r0) m ->
              shape_ok r0 = true /\ forall j, In j (map fst m) -> j <> i0 -> absent j r0).
    { intros i0 r0 Hin. destruct (Hg i0 r0 (or_intror Hin)) as [H1 H2]. split; [exact H1|].
      intros j Hj Hne. apply H2; [right; exact Hj | exact Hne]. }
    cbn [seq_subst]. destruct (find_node t i) as [p|] eqn:Ef.
    + destruct (find_node_sound t i p Ef) as (s & Hs & Hi).
      destruct (replace_path_total p t r Hsh) as (t1 & Hrep); [unfold valid; congruence|].
      rewrite Hrep. rewrite (subst_step i r m p t s t1 Hs Hi (Ho i (or_introl eq_refl)) Hni Hr Hrep).
      apply IH; try assumption.
      * intros j Hj. eapply once_replace; [apply Ho; right; exact Hj | apply Hr; exact Hj | exact Hrep].
      * exact (replace_path_shape p t r t1 Hsh Hshr Hrep).
    + rewrite (subst_sim_absent_head i r m t (find_none_absent t i Ef)).
      apply IH; try assumption. intros j Hj. apply Ho. right. exact Hj.
Qed.

(* ------------------------------------------------------------------ *)
(* id_subst_map: what the dict comprehension keeps                     *)
(* ------------------------------------------------------------------ *)
(* the filter of the comprehension for a key id i: EVERY replacement of the map either has id i at
   its root or does not contain a node with id i *)
Definition keep (pairs : list (ctree * ctree)) (i : N) : bool :=
  forallb (fun kr' => N.eqb (ci (snd kr')) i
                      || match find_node_c (snd kr') i with None => true | Some _ => false end) pairs.

Lemma dict_set_in {V} (m : list (N * V)) k v i r :
  In (i, r) (dict_set m k v) -> (i, r) = (k, v) \/ In (i, r) m.
Proof.
  induction m as [|[k' v'] m IH]; cbn [dict_set].
  - intros [H|[]]. left. symmetry. exact H.
  - destruct (N.eqb k k'); intros [H|H]; cbn [In].
    + left. symmetry. exact H.
    + right. right. exact H.
    + right. left. exact H.
    + destruct (IH H) as [E|E]; [left; exact E | right; right; exact E].
Qed.

Lemma dict_set_keys {V} (m : list (N * V)) k v j :
  In j (map fst (dict_set m k v)) -> j = k \/ In j (map fst m).
Proof.
  induction m as [|[k' v'] m IH]; cbn [dict_set].
  - intros [H|[]]. left. cbn in H. congruence.
  - destruct (N.eqb_spec k k') as [->|Hne]; cbn [map fst In]; intros [H|H]; auto.
    destruct (IH H); auto.
Qed.

Lemma dict_set_nodup {V} (m : list (N * V)) k v : NoDup (map fst m) -> NoDup (map fst (dict_set m k v)).
Proof.
  induction m as [|[k' v'] m IH]; cbn [dict_set]; intro H.
  - cbn. constructor; [intros [] | constructor].
  - cbn [map fst] in H. inversion H as [|a b Hni Hnd]; subst.
    destruct (N.eqb_spec k k') as [->|Hne]; cbn [map fst].
    + constructor; assumption.
    + constructor; [|apply IH; exact Hnd]. intro Hin. apply dict_set_keys in Hin as [E|Hin]; [congruence | contradiction].
Qed.

Definition map_ok (pairs : list (ctree * ctree)) (m : list (N * ctree)) : Prop :=
  NoDup (map fst m) /\
  forall i r, In (i, r) m -> keep pairs i = true /\ exists key, In (key, r) pairs /\ ci key = i.

Lemma id_subst_map_ok pairs : map_ok pairs (id_subst_map pairs).
Proof.
  unfold id_subst_map.
  assert (G : forall l m0, (forall kr, In kr l -> In kr pairs) -> map_ok pairs m0 ->
            map_ok pairs (fold_left
              (fun m kr =>
                 let key := fst kr in
                 if forallb (fun kr' => N.eqb (ci (snd kr')) (ci key)
                                        || match find_node_c (snd kr') (ci key) with None => true | Some _ => false end)
                            pairs
                 then dict_set m (ci key) (snd kr) else m) l m0)).
  { induction l as [|[key r] l IH]; intros m0 Hl Hm; [exact Hm|]. cbn [fold_left]. apply IH.
    - intros kr Hkr. apply Hl. right. exact Hkr.
    - cbn [fst snd]. change (forallb _ pairs) with (keep pairs (ci key)).
      destruct (keep pairs (ci key)) eqn:Ek; [|exact Hm]. destruct Hm as [Hnd Hin]. split.
      + apply dict_set_nodup. exact Hnd.
      + intros i r0 H. apply dict_set_in in H as [E|H]; [|apply Hin; exact H].
        inversion E; subst. split; [exact Ek|]. exists key. split; [apply Hl; left; reflexivity | reflexivity]. }
  apply G; [auto|]. split; [constructor | intros i r []].
Qed.

(* ------------------------------------------------------------------ *)
(* substitute                                                          *)
(* ------------------------------------------------------------------ *)
(* the class on which the sequential loop is NOT the simultaneous substitution: a replacement whose
   root id is ANOTHER key of the map (the loop then finds the freshly inserted replacement when it
   looks for that other key: chained replacement, dependent on dict order) *)
Definition K_chain (m : list (N * ctree)) : bool :=
  existsb (fun kv => negb (N.eqb (ci (snd kv)) (fst kv)) && existsb (N.eqb (ci (snd kv))) (map fst m)) m.

Lemma erase_map_keys m : map fst (erase_map m) = map fst m.
Proof. unfold erase_map. rewrite map_map. reflexivity. Qed.

Lemma erase_map_in m i r : In (i, r) (erase_map m) -> exists cr, In (i, cr) m /\ r = erase cr.
Proof.
  unfold erase_map. intro H. apply in_map_iff in H as ([k cr] & E & Hin). cbn [fst snd] in E.
  inversion E; subst. eauto.
Qed.

Theorem substitute_spec pairs t o :
  uniq_ids (erase t) -> shape_ok (erase t) = true ->
  (forall kr, In kr pairs -> shape_ok (erase (snd kr)) = true) ->
  K_chain (id_subst_map pairs) = false ->
  exists t' o', subst_loop (id_subst_map pairs) t o = Ok (t', o')
                /\ erase t' = subst_sim (erase_map (id_subst_map pairs)) (erase t).
Proof.
  intros Hu Hsh Hshr HK. destruct (id_subst_map_ok pairs) as [Hnd Hin].
  set (m := id_subst_map pairs) in *.
  assert (Hseq : seq_subst (erase_map m) (erase t) = Ok (subst_sim (erase_map m) (erase t))).
  { apply seq_subst_spec.
    - rewrite erase_map_keys. exact Hnd.
    - intros j _. apply uniq_once. exact Hu.
    - intros i r Hir. apply erase_map_in in Hir as (cr & Hcr & ->).
      destruct (Hin i cr Hcr) as [_ (key & Hkey & Hci)]. split; [exact (Hshr _ Hkey)|].
      intros j Hj Hne. rewrite erase_map_keys in Hj.
      apply in_map_iff in Hj as ([j' crj] & Ej & Hjin). cbn [fst] in Ej. subst j'.
      destruct (Hin j crj Hjin) as [Hkeep _]. unfold keep in Hkeep. rewrite forallb_forall in Hkeep.
      specialize (Hkeep _ Hkey). cbn [snd] in Hkeep. apply orb_true_iff in Hkeep as [E|E].
      + exfalso. apply N.eqb_eq in E.
        assert (HT : K_chain m = true); [|congruence].
        unfold K_chain. apply existsb_exists. exists (i, cr). split; [exact Hcr|]. cbn [fst snd].
        apply andb_true_iff. split.
        * apply negb_true_iff. apply N.eqb_neq. congruence.
        * apply existsb_exists. exists j. split; [|apply N.eqb_eq; exact E].
          apply in_map_iff. exists (j, crj). auto.
      + unfold find_node_c in E. destruct (find_node (erase cr) j) eqn:Ef; [discriminate|].
        apply find_none_absent. exact Ef.
    - exact Hsh. }
  pose proof (subst_loop_erase m t o) as Hl. destruct (subst_loop m t o) as [[t' o']|e].
  - exists t', o'. split; [reflexivity|]. rewrite Hseq in Hl. inversion Hl. reflexivity.
  - rewrite Hseq in Hl. discriminate.
Qed.

(* FULL statement (no guard K_chain) is false of the model: <s>#1(<a>#2 open, <b>#3 open) with
   {#2 -> <a>#3("x"), #3 -> <b>#4("y")}: the loop replaces #2, then finds the NEW node #3 at path (0)
   and replaces it again; the old <b>#3 stays open.  Simultaneous reading: <s>(<a>("x"), <b>("y")). *)
Definition chain_a : tree := Node [60;97;62]%N 2 true [].
Definition chain_b : tree := Node [60;98;62]%N 3 true [].
Definition chain_t : tree := Node [60;115;62]%N 1 false [chain_a; chain_b].
Definition chain_ra : tree := Node [60;97;62]%N 3 false [Node [120]%N 10 false []].
Definition chain_rb : tree := Node [60;98;62]%N 4 false [Node [121]%N 11 false []].
Definition chain_pairs : list (ctree * ctree) :=
  [(fst (construct chain_a 0), fst (construct chain_ra 20)); (fst (construct chain_b 10), fst (construct chain_rb 30))].

Theorem substitute_chain_refuted :
  uniq_ids chain_t /\ has_unique_ids (fst (construct chain_t 40)) = true
  /\ K_chain (id_subst_map chain_pairs) = true
  /\ exists t' o', subst_loop (id_subst_map chain_pairs) (fst (construct chain_t 40)) 50 = Ok (t', o')
       /\ erase t' = Node [60;115;62]%N 1 false [chain_rb; chain_b]
       /\ subst_sim (erase_map (id_subst_map chain_pairs)) chain_t = Node [60;115;62]%N 1 false [chain_ra; chain_rb]
       /\ erase t' <> subst_sim (erase_map (id_subst_map chain_pairs)) chain_t.
Proof.
  split.
  { unfold uniq_ids. vm_compute. repeat (constructor; [cbn; intuition discriminate|]). constructor. }
  split; [vm_compute; reflexivity|]. split; [vm_compute; reflexivity|].
  eexists. eexists. split; [vm_compute; reflexivity|]. split; [vm_compute; reflexivity|].
  split; [vm_compute; reflexivity|]. vm_compute. discriminate.
Qed.

(* non-vacuity of the guarded theorem: same tree, replacements with fresh root ids *)
Definition ok_pairs : list (ctree * ctree) :=
  [(fst (construct chain_a 0), fst (construct (Node [60;97;62]%N 7 false [Node [120]%N 10 false []]) 20));
   (fst (construct chain_b 10), fst (construct chain_rb 30))].

Example substitute_nonvacuous :
  uniq_ids chain_t /\ shape_ok chain_t = true /\ K_chain (id_subst_map ok_pairs) = false
  /\ length (id_subst_map ok_pairs) = 2
  /\ subst_sim (erase_map (id_subst_map ok_pairs)) chain_t
     = Node [60;115;62]%N 1 false [Node [60;97;62]%N 7 false [Node [120]%N 10 false []]; chain_rb].
Proof.
  split.
  { unfold uniq_ids. vm_compute. repeat (constructor; [cbn; intuition discriminate|]). constructor. }
  repeat split; vm_compute; reflexivity.
Qed.

(* ------------------------------------------------------------------ *)
(* new_ids                                                             *)
(* ------------------------------------------------------------------ *)
(* SPEC: same tree up to ids; the new ids are nid, nid+1, ... handed out in POST-order (children
   left to right, then the node), so they are pairwise different; next free id = nid + size *)
Fixpoint post_ids (t : tree) : list N :=
  match t with Node _ i _ ks => flat_map post_ids ks ++ [i] end.

Fixpoint nseq (n : N) (k : nat) : list N :=
  match k with 0 => [] | S k' => n :: nseq (N.succ n) k' end.

Lemma nseq_app : forall a b n, nseq n (a + b) = nseq n a ++ nseq (n + N.of_nat a) b.
Proof.
  induction a as [|a IH]; intros b n; cbn [nseq Nat.add app].
  - f_equal. lia.
  - f_equal. rewrite IH. f_equal. f_equal. lia.
Qed.

Lemma nseq_ge : forall k n x, In x (nseq n k) -> (n <= x)%N.
Proof.
  induction k as [|k IH]; intros n x H; cbn [nseq In] in H; [contradiction|].
  destruct H as [->|H]; [lia|]. apply IH in H. lia.
Qed.

Lemma nseq_NoDup : forall k n, NoDup (nseq n k).
Proof.
  induction k as [|k IH]; intro n; cbn [nseq]; constructor; [|apply IH].
  intro H. apply nseq_ge in H. lia.
Qed.

Definition new_ids_ok (t : ctree) (nid : N) (r : ctree * (N * N)) : Prop :=
  same_struct (erase t) (erase (fst r))
  /\ post_ids (erase (fst r)) = nseq nid (size (erase t))
  /\ fst (snd r) = (nid + N.of_nat (size (erase t)))%N.

Lemma new_ids_list_ok : forall ks,
  Forall (fun k => forall nid o, new_ids_ok k nid (c_new_ids k nid o)) ks ->
  forall nid o,
    let r := new_ids_list ks nid o in
    let n := list_sum (map size (map erase ks)) in
    map strip_ids (map erase ks) = map strip_ids (map erase (fst r))
    /\ flat_map post_ids (map erase (fst r)) = nseq nid n
    /\ fst (snd r) = (nid + N.of_nat n)%N.
Proof.
  induction 1 as [|k ks Hk _ IH]; intros nid o; cbn zeta.
  - cbn. repeat split. lia.
  - cbn [new_ids_list]. specialize (Hk nid o). destruct (c_new_ids k nid o) as [k' [n1 o1]].
    destruct Hk as (Hs & Hp & Hn). cbn [fst snd] in Hs, Hp, Hn.
    specialize (IH n1 o1). cbn zeta in IH. destruct (new_ids_list ks n1 o1) as [r [n2 o2]].
    destruct IH as (IHs & IHp & IHn). cbn [fst snd] in *.
    cbn [map flat_map list_sum fold_right]. unfold same_struct in Hs. rewrite Hs, IHs, Hp, IHp.
    change (fold_right Nat.add 0 (map size (map erase ks))) with (list_sum (map size (map erase ks))).
    split; [reflexivity|]. split.
    + rewrite nseq_app. subst n1. reflexivity.
    + subst n2 n1. lia.
Qed.

Theorem new_ids_spec t : shape_ok (erase t) = true -> forall nid o, new_ids_ok t nid (c_new_ids t nid o).
Proof.
  induction t as [l i0 o0 c op ks IH] using ctree_ind'. intros Hsh nid o. rewrite c_new_ids_unfold.
  apply shape_erase in Hsh as [Hop Hks].
  assert (IH' : Forall (fun k => forall nid o, new_ids_ok k nid (c_new_ids k nid o)) ks).
  { rewrite Forall_forall in *. intros k Hk. apply IH; auto. }
  pose proof (new_ids_list_ok ks IH' nid o) as H. cbn zeta in H.
  destruct (new_ids_list ks nid o) as [ks' [n1 o1]]. destruct H as (Hs & Hp & Hn). cbn [fst snd] in *.
  unfold new_ids_ok. cbn [fst snd]. rewrite erase_mk. cbn [erase].
  destruct op.
  - rewrite (Hop eq_refl) in *. cbn in Hn, Hp. cbn [map]. unfold same_struct. cbn [strip_ids map post_ids flat_map size list_sum fold_right app nseq].
    subst n1. repeat split; f_equal; lia.
  - unfold same_struct. cbn [strip_ids post_ids size]. rewrite Hs, Hp.
    split; [reflexivity|]. split.
    + replace (S (list_sum (map size (map erase ks)))) with (list_sum (map size (map erase ks)) + 1) by lia.
      rewrite nseq_app. cbn [nseq]. subst n1. reflexivity.
    + subst n1. lia.
Qed.

(* pre-order ids are a permutation of the post-order ids, so post-order-consecutive ids are unique *)
From Coq Require Import Permutation.

Lemma ids_perm t : Permutation (map tid (subterms t)) (post_ids t).
Proof.
  induction t as [l i o ks IH] using tree_ind'. rewrite subterms_unfold. cbn [map tid post_ids].
  apply Permutation_cons_app. rewrite app_nil_r.
  induction IH as [|k ks Hk _ IHks]; [constructor|]. cbn [flat_map]. rewrite map_app.
  apply Permutation_app; assumption.
Qed.

Theorem new_ids_structure t nid o : shape_ok (erase t) = true ->
  let t' := fst (c_new_ids t nid o) in
  structurally_equal (erase t) (erase t') = true
  /\ same_struct (erase t) (erase t')
  /\ post_ids (erase t') = nseq nid (size (erase t))
  /\ uniq_ids (erase t')
  /\ fst (snd (c_new_ids t nid o)) = (nid + N.of_nat (size (erase t)))%N.
Proof.
  intro Hsh. cbn zeta. destruct (new_ids_spec t Hsh nid o) as (Hs & Hp & Hn).
  assert (Hsh' : shape_ok (erase (fst (c_new_ids t nid o))) = true).
  { rewrite <- (same_struct_shape _ _ Hs). exact Hsh. }
  split; [apply structurally_equal_spec; assumption|]. split; [exact Hs|]. split; [exact Hp|].
  split; [|exact Hn]. unfold uniq_ids.
  replace (map (fun pt : path * tree => tid (snd pt)) (nodes (erase (fst (c_new_ids t nid o)))))
    with (map tid (subterms (erase (fst (c_new_ids t nid o))))) by (unfold subterms; apply map_map).
  eapply Permutation_NoDup; [apply Permutation_sym; apply ids_perm|]. rewrite Hp. apply nseq_NoDup.
Qed.

Example new_ids_nonvacuous :
  let t := fst (construct chain_t 40) in
  shape_ok (erase t) = true
  /\ erase (fst (c_new_ids t 100 50)) =
     Node [60;115;62]%N 102 false [Node [60;97;62]%N 100 true []; Node [60;98;62]%N 101 true []].
Proof. split; vm_compute; reflexivity. Qed.
