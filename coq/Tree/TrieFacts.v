(* C16: facts about the trie key codec and the path-indexed view (Trie.v). *)
From ISLA Require Import Tree PathFacts TreeFacts TreeOps Trie.
From Coq Require Import Lia.

(* the codec round-trips on EVERY path (the alphabet limit is in datrie, not in the codec) *)
Lemma key_body_key p : key_body (path_to_trie_key p) = p.
Proof.
  unfold key_body, path_to_trie_key. cbn [filter Nat.eqb negb].
  induction p as [|i p IH]; [reflexivity|]. cbn [map filter].
  destruct (i + 2 =? 1) eqn:E; [apply Nat.eqb_eq in E; lia|]. cbn [negb map].
  rewrite IH. f_equal. lia.
Qed.

Theorem key_roundtrip p : trie_key_to_path (path_to_trie_key p) = Ok p.
Proof. unfold trie_key_to_path. cbn [path_to_trie_key Nat.eqb]. rewrite key_body_key. reflexivity. Qed.

Lemma key_inj p q : path_to_trie_key p = path_to_trie_key q -> p = q.
Proof. intro H. rewrite <- (key_body_key p), <- (key_body_key q), H. reflexivity. Qed.

(* a key is storable in the datrie iff every child index on the path is below 28 *)
Lemma alphabet_ok_key p : alphabet_ok (path_to_trie_key p) = forallb (fun i => i <? 28) p.
Proof.
  unfold path_to_trie_key, alphabet_ok. cbn [forallb].
  assert (E1 : (1 <? alphabet_size) = true) by reflexivity. rewrite E1. cbn [andb].
  induction p as [|i p IH]; [reflexivity|]. cbn [map forallb]. rewrite IH. f_equal.
  unfold alphabet_size.
  destruct (Nat.ltb_spec (i + 2) 30) as [H1|H1], (Nat.ltb_spec i 28) as [H2|H2]; try reflexivity; lia.
Qed.

(* ---- refutation witnesses (the faithful model violates the full statements) ---- *)
Definition wide_tree (n : nat) : tree :=
  Node [60; 97; 62]%N 0 false (map (fun i => Node [120]%N (N.of_nat (S i)) false []) (seq 0 n)).

(* K_wide: a node with 29 children: the trie has one key less than the tree has paths *)
Lemma trie_view_refuted :
  exists t, max_degree t = 29 /\ st_keys (trie_of t) <> map fst (nodes t).
Proof. exists (wide_tree 29). split; [reflexivity|]. vm_compute. discriminate. Qed.

Lemma trie_getitem_refuted :
  exists t p s, subtree t p = Some s /\ st_getitem (trie_of t) p = Raise KeyErr.
Proof. exists (wide_tree 32), [30], (Node [120]%N 31 false []). split; vm_compute; reflexivity. Qed.

Definition deep_tree : tree :=
  Node [60; 97; 62]%N 1 false
       [Node [60; 98; 62]%N 2 false [Node [120]%N 3 false []; Node [60; 99; 62]%N 4 false [Node [121]%N 5 false []]];
        Node [122]%N 6 false []].

(* HISTORY of the defect K_rootitems (repaired in /repo by commit 0065353): the code as it was before the
   fix (variant fixed = false of the model) cut root-view value paths to the last index.  The theorem about
   the current code is root_items_repaired below. *)
Lemma root_items_defect_history :
  exists t, max_degree t <= 28 /\
            st_items false (trie_of t) <> Ok (map (fun pt => (fst pt, pt)) (nodes t)).
Proof. exists deep_tree. split; [vm_compute; lia|]. vm_compute. discriminate. Qed.

(* the old witness on the repaired code (also replayed on the implementation as a corpus case) *)
Example root_items_fixed_witness :
  st_items true (trie_of deep_tree) = Ok (map (fun pt => (fst pt, pt)) (nodes deep_tree)).
Proof. vm_compute. reflexivity. Qed.

(* sub-view on the same witness: relative paths of the subtree at q *)
Example trie_view_witness :
  st_items false (get_subtrie (trie_of deep_tree) [0]) =
  Ok (map (fun pt => (fst pt, pt))
          (nodes (Node [60; 98; 62]%N 2 false [Node [120]%N 3 false []; Node [60; 99; 62]%N 4 false [Node [121]%N 5 false []]]))).
Proof. vm_compute. reflexivity. Qed.

(* ------------------------------------------------------------------ *)
(* contents of tree.trie(): exactly the storable (path, subtree) pairs, in document order *)
(* ------------------------------------------------------------------ *)
From Coq Require Import Sorted.

Lemma key_ltb_asym : forall a b, key_ltb a b = true -> key_eqb b a = false /\ key_ltb b a = false.
Proof.
  induction a as [|x a IH]; intros [|y b] H; cbn [key_ltb key_eqb] in *; try discriminate; auto.
  destruct (Nat.ltb_spec x y) as [Hxy|Hxy].
  - assert (E1 : (y =? x) = false) by (apply Nat.eqb_neq; lia).
    assert (E2 : (y <? x) = false) by (apply Nat.ltb_ge; lia).
    rewrite E1, E2. auto.
  - destruct (Nat.ltb_spec y x) as [Hyx|Hyx]; [discriminate|].
    assert (x = y) by lia. subst. rewrite Nat.eqb_refl.
    cbn [andb]. apply IH. assumption.
Qed.

Lemma dt_insert_last {V} (tr : dtrie V) k v :
  Forall (fun kv => key_ltb (fst kv) k = true) tr -> dt_insert tr k v = tr ++ [(k, v)].
Proof.
  induction 1 as [|[k' v'] tr Hk _ IH]; [reflexivity|]. cbn [dt_insert app]. cbn [fst] in Hk.
  apply key_ltb_asym in Hk as [H1 H2]. rewrite H1, H2, IH. reflexivity.
Qed.

Lemma key_ltb_map2 : forall p q, pre_lt p q ->
  key_ltb (map (fun i => i + 2) p) (map (fun i => i + 2) q) = true.
Proof.
  induction p as [|a p IH]; intros [|b q] H; cbn [map key_ltb].
  - exfalso. eapply pre_lt_nil_r; eauto.
  - reflexivity.
  - exfalso. eapply pre_lt_nil_r; eauto.
  - apply pre_lt_cons_inv in H as [H|[-> H]].
    + destruct (Nat.ltb_spec (a + 2) (b + 2)); [reflexivity | lia].
    + destruct (Nat.ltb_spec (b + 2) (b + 2)); [lia|]. apply IH. assumption.
Qed.

Lemma key_ltb_key p q : pre_lt p q -> key_ltb (path_to_trie_key p) (path_to_trie_key q) = true.
Proof.
  intro H. unfold path_to_trie_key. cbn [key_ltb].
  assert (E : (1 <? 1) = false) by reflexivity. rewrite E. apply key_ltb_map2. assumption.
Qed.

Definition storable (pt : path * tree) : bool := alphabet_ok (path_to_trie_key (fst pt)).
Definition entry (pt : path * tree) : tkey * (path * tree) := (path_to_trie_key (fst pt), pt).

Lemma trie_fold : forall (l : list (path * tree)) acc,
  StronglySorted pre_lt (map fst l) ->
  (forall kv pt, In kv acc -> In pt l -> key_ltb (fst kv) (path_to_trie_key (fst pt)) = true) ->
  fold_left (fun tr pt => dt_set tr (path_to_trie_key (fst pt)) pt) l acc
  = acc ++ map entry (filter storable l).
Proof.
  induction l as [|pt l IH]; intros acc Hs Hlt; cbn [fold_left filter map]; [rewrite app_nil_r; reflexivity|].
  cbn [map] in Hs. inversion Hs as [|x y Hs' Hall]; subst.
  unfold dt_set at 2. fold (storable pt). destruct (storable pt) eqn:Eok.
  - rewrite dt_insert_last.
    + rewrite IH; [cbn [map]; rewrite <- app_assoc; reflexivity | assumption |].
      intros kv pt' Hin Hin'. apply in_app_iff in Hin as [Hin|[<-|[]]].
      * apply Hlt; [assumption | right; assumption].
      * cbn [fst]. apply key_ltb_key. rewrite Forall_forall in Hall. apply Hall. apply in_map. assumption.
    + apply Forall_forall. intros kv Hin. apply Hlt; [assumption | left; reflexivity].
  - apply IH; [assumption|]. intros kv pt' Hin Hin'. apply Hlt; [assumption | right; assumption].
Qed.

(* for EVERY tree (wide or not): the stored entries are the storable nodes in document order *)
Theorem trie_contents t :
  st_trie (trie_of t) = map entry (filter storable (nodes t)).
Proof.
  unfold trie_of. cbn [st_trie]. rewrite trie_fold; [reflexivity | | intros kv pt Hin; destruct Hin].
  rewrite <- positions_nodes. apply positions_sorted.
Qed.

(* paths of a tree only use child indices below its maximal degree *)
Lemma max_degree_kid c ks : In c ks -> max_degree c <= fold_right Nat.max 0 (map max_degree ks).
Proof.
  induction ks as [|k ks IH]; intro H; [destruct H|]. destruct H as [->|Hin]; cbn [map fold_right]; [lia|].
  specialize (IH Hin). lia.
Qed.

Lemma subtree_indices : forall p t s, subtree t p = Some s -> Forall (fun i => i < max_degree t) p.
Proof.
  induction p as [|i p IH]; intros t s H; [constructor|]. destruct t as [l id o ks]. cbn in H.
  destruct (nth_error ks i) as [c|] eqn:Ec; [|discriminate].
  assert (Hin : In c ks) by (eapply nth_error_In; eauto).
  assert (Hlt : i < length ks) by (apply nth_error_Some; congruence).
  pose proof (max_degree_kid c ks Hin) as Hc. cbn [max_degree]. constructor; [lia|].
  specialize (IH c s H). rewrite Forall_forall in *. intros j Hj. specialize (IH j Hj). lia.
Qed.

Lemma all_storable t : K_wide t = false -> filter storable (nodes t) = nodes t.
Proof.
  intro Hk. unfold K_wide in Hk. apply Nat.ltb_ge in Hk.
  assert (G : forall l : list (path * tree), (forall pt, In pt l -> storable pt = true) -> filter storable l = l).
  { induction l as [|x l IHl]; intro Hl; [reflexivity|]. cbn [filter]. rewrite (Hl x (or_introl eq_refl)).
    f_equal. apply IHl. intros pt Hpt. apply Hl. right. assumption. }
  apply G. intros [p s] Hin. unfold storable. cbn [fst]. rewrite alphabet_ok_key.
  apply nodes_spec in Hin. apply subtree_indices in Hin. apply forallb_forall. intros i Hi.
  rewrite Forall_forall in Hin. specialize (Hin i Hi). apply Nat.ltb_lt. lia.
Qed.

Lemma key_body_1 k : key_body (1 :: k) = key_body k.
Proof. reflexivity. Qed.

(* trie_view, keys of the root view: when no node has more than 28 children the keys of tree.trie()
   are exactly the paths of the tree, in document order *)
Theorem trie_keys_partial t : K_wide t = false -> st_keys (trie_of t) = map fst (nodes t).
Proof.
  intro Hk. unfold st_keys. rewrite trie_contents, all_storable by assumption.
  cbn [trie_of st_root]. induction (nodes t) as [|pt l IH]; [reflexivity|].
  cbn [map dt_suffixes entry fst strip_prefix]. rewrite IH. f_equal.
  rewrite key_body_1. apply key_body_key.
Qed.

Example trie_keys_nonvacuous : K_wide deep_tree = false /\ K_wide (wide_tree 28) = false /\ K_wide (wide_tree 29) = true.
Proof. repeat split; reflexivity. Qed.

(* ------------------------------------------------------------------ *)
(* root view of the REPAIRED code (fixed = true = current /repo): items() = (path, (path, subtree)) *)
(* ------------------------------------------------------------------ *)
From ISLA Require Import TreeOpsFacts.

Lemma key_eqb_eq a : forall b, key_eqb a b = true <-> a = b.
Proof.
  induction a as [|x a IH]; intros [|y b]; cbn [key_eqb]; split; intro H; try discriminate; try reflexivity.
  - apply andb_true_iff in H as [H1 H2]. apply Nat.eqb_eq in H1. apply IH in H2. congruence.
  - inversion H; subst. rewrite Nat.eqb_refl. cbn [andb]. apply IH. reflexivity.
Qed.

Lemma dt_get_entry : forall (l : list (path * tree)) x,
  NoDup (map fst l) -> In x l -> dt_get (map entry l) (path_to_trie_key (fst x)) = Ok x.
Proof.
  induction l as [|h l IH]; intros x Hnd Hin; [contradiction|].
  cbn [map entry dt_get]. fold (entry h). unfold entry at 1. cbn [fst].
  destruct (key_eqb (path_to_trie_key (fst x)) (path_to_trie_key (fst h))) eqn:E.
  - apply key_eqb_eq in E. apply key_inj in E. f_equal. symmetry.
    eapply (NoDup_map_inj (@fst path tree)); eauto. left; reflexivity.
  - destruct Hin as [->|Hin].
    + assert (key_eqb (path_to_trie_key (fst x)) (path_to_trie_key (fst x)) = true) by (apply key_eqb_eq; reflexivity).
      congruence.
    + cbn [map] in Hnd. inversion Hnd; subst. apply IH; assumption.
Qed.

Lemma suffixes_all (l : list (path * tree)) :
  dt_suffixes (map entry l) [] = map (fun pt => path_to_trie_key (fst pt)) l.
Proof. induction l as [|h l IH]; [reflexivity|]. cbn [map entry dt_suffixes strip_prefix fst]. rewrite IH. reflexivity. Qed.

Lemma res_all_ok {A B} (F : A -> res B) (G : A -> B) l :
  (forall x, In x l -> F x = Ok (G x)) -> res_all (map F l) = Ok (map G l).
Proof.
  induction l as [|x l IH]; intro H; [reflexivity|]. cbn [map res_all].
  rewrite (H x (or_introl eq_refl)). rewrite IH; [reflexivity|]. intros y Hy. apply H. right. assumption.
Qed.

(* repaired code, trees without a node of more than 28 children: the root view lists every node with
   its full path as key AND as value path *)
Theorem root_items_repaired t : K_wide t = false ->
  st_items true (trie_of t) = Ok (map (fun pt => (fst pt, pt)) (nodes t)).
Proof.
  intro Hk. unfold st_items. rewrite trie_contents, all_storable by assumption.
  cbn [trie_of st_root app]. rewrite suffixes_all, map_map.
  apply res_all_ok. intros x Hx.
  rewrite dt_get_entry; [|rewrite <- positions_nodes; apply positions_NoDup|assumption].
  cbn [cut_value_path]. rewrite key_body_1, key_body_key. destruct x; reflexivity.
Qed.

Theorem root_values_repaired t : K_wide t = false -> st_values true (trie_of t) = Ok (nodes t).
Proof.
  intro Hk. unfold st_values. rewrite trie_contents, all_storable by assumption.
  cbn [trie_of st_root app]. rewrite suffixes_all, map_map.
  rewrite <- (map_id (nodes t)) at 2. apply res_all_ok. intros x Hx.
  rewrite dt_get_entry; [|rewrite <- positions_nodes; apply positions_NoDup|assumption].
  cbn [cut_value_path]. destruct x; reflexivity.
Qed.
