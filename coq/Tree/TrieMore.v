(* C16 (proof extension): the SUB-VIEW half of trie_view.
   Under K_wide t = false, for every path q:  keys / values / items of
   tree.trie().get_subtrie(q) list exactly the nodes of [subtree t q] in pre-order, with paths
   RELATIVE to q (empty when q is not a path of t); trie()[p] = (p, subtree t p).
   Built on TrieFacts.trie_contents / key_body_key / dt_get_entry. *)
From ISLA Require Import Tree PathFacts TreeFacts TreeOps TreeOpsFacts Trie TrieFacts.
From Coq Require Import Lia.

(* relative path: [strip q p = Some r] iff p = q ++ r *)
Fixpoint strip (q p : path) : option path :=
  match q, p with
  | [], _ => Some p
  | a :: q', b :: p' => if a =? b then strip q' p' else None
  | _ :: _, [] => None
  end.

Lemma strip_spec : forall q p r, strip q p = Some r <-> p = q ++ r.
Proof.
  induction q as [|a q IH]; intros p r; cbn [strip app].
  - split; intro H; [inversion H; reflexivity | subst; reflexivity].
  - destruct p as [|b p]; [split; intro H; discriminate|].
    destruct (Nat.eqb_spec a b) as [->|Hne].
    + rewrite IH. split; intro H; [subst; reflexivity | inversion H; reflexivity].
    + split; intro H; [discriminate | inversion H; congruence].
Qed.

Lemma strip_app q r : strip q (q ++ r) = Some r.
Proof. apply strip_spec. reflexivity. Qed.

(* the nodes of t below q, with relative paths *)
Definition rel1 (q : path) (pt : path * tree) : list (path * tree) :=
  match strip q (fst pt) with Some r => [(r, snd pt)] | None => [] end.
Definition below (q : path) (l : list (path * tree)) : list (path * tree) := flat_map (rel1 q) l.

Lemma below_nil l : below [] l = l.
Proof.
  unfold below. induction l as [|[p s] l IH]; [reflexivity|]. cbn [flat_map rel1 strip fst snd app].
  rewrite IH. reflexivity.
Qed.

Lemma below_app q a b : below q (a ++ b) = below q a ++ below q b.
Proof. unfold below. apply flat_map_app. Qed.

Lemma below_child_other i q j (l : list (path * tree)) : i <> j ->
  below (i :: q) (map (fun pt => (j :: fst pt, snd pt)) l) = [].
Proof.
  intro Hne. unfold below. induction l as [|[p s] l IH]; [reflexivity|].
  cbn [map flat_map]. unfold rel1 at 1. cbn [fst snd strip].
  destruct (Nat.eqb_spec i j) as [E|_]; [contradiction|]. cbn [app]. exact IH.
Qed.

Lemma below_child_same i q (l : list (path * tree)) :
  below (i :: q) (map (fun pt => (i :: fst pt, snd pt)) l) = below q l.
Proof.
  unfold below. induction l as [|[p s] l IH]; [reflexivity|].
  cbn [map flat_map fst snd]. rewrite IH. f_equal. unfold rel1. cbn [fst snd strip].
  rewrite Nat.eqb_refl. reflexivity.
Qed.

Lemma below_children i q : forall (ks : list tree) j,
  below (i :: q) (concat (mapi_from (fun i c => map (fun pt => (i :: fst pt, snd pt)) c) j (map nodes ks)))
  = match (if j <=? i then nth_error ks (i - j) else None) with
    | Some c => below q (nodes c)
    | None => []
    end.
Proof.
  induction ks as [|k ks IH]; intro j; cbn [map mapi_from concat].
  - destruct (j <=? i); [destruct (i - j)|]; reflexivity.
  - rewrite below_app, IH. destruct (Nat.eq_dec i j) as [->|Hne].
    + rewrite below_child_same. rewrite Nat.leb_refl, Nat.sub_diag. cbn [nth_error].
      destruct (Nat.leb_spec (S j) j) as [Hl|_]; [lia|]. apply app_nil_r.
    + rewrite below_child_other by assumption. cbn [app].
      destruct (Nat.leb_spec j i) as [Hl|Hl].
      * destruct (Nat.leb_spec (S j) i) as [_|Hl']; [|lia].
        replace (i - j) with (S (i - S j)) by lia. reflexivity.
      * destruct (Nat.leb_spec (S j) i) as [Hl'|_]; [lia|]. reflexivity.
Qed.

(* KEY LEMMA: filtering the pre-order list of t by the prefix q and making paths relative gives the
   pre-order list of the subtree at q (and nothing when q is not a path of t) *)
Theorem below_nodes : forall q t,
  below q (nodes t) = match subtree t q with Some s => nodes s | None => [] end.
Proof.
  induction q as [|i q IH]; intro t; [apply below_nil|].
  destruct t as [l id o ks]. rewrite nodes_unfold.
  change (below (i :: q) (?x :: ?r)) with (rel1 (i :: q) x ++ below (i :: q) r).
  unfold rel1 at 1. cbn [fst strip app]. rewrite below_children. cbn [Nat.leb subtree kids]. rewrite Nat.sub_0_r.
  destruct (nth_error ks i) as [c|]; [apply IH | reflexivity].
Qed.

(* ---- the datrie side ---- *)
Lemma strip_prefix_map2 : forall q p,
  strip_prefix (map (fun i => i + 2) q) (map (fun i => i + 2) p)
  = option_map (map (fun i => i + 2)) (strip q p).
Proof.
  induction q as [|a q IH]; intro p; cbn [map strip_prefix strip option_map]; [reflexivity|].
  destruct p as [|b p]; cbn [map]; [reflexivity|].
  destruct (Nat.eqb_spec a b) as [->|Hne].
  - rewrite Nat.eqb_refl. apply IH.
  - destruct (Nat.eqb_spec (a + 2) (b + 2)) as [E|_]; [lia | reflexivity].
Qed.

Lemma strip_prefix_key q p :
  strip_prefix (path_to_trie_key q) (path_to_trie_key p) = option_map (map (fun i => i + 2)) (strip q p).
Proof. unfold path_to_trie_key. cbn [strip_prefix Nat.eqb]. apply strip_prefix_map2. Qed.

Lemma key_app q r : path_to_trie_key q ++ map (fun i => i + 2) r = path_to_trie_key (q ++ r).
Proof. unfold path_to_trie_key. cbn [app]. rewrite map_app. reflexivity. Qed.

Lemma key_body_suffix r : key_body (1 :: map (fun i => i + 2) r) = r.
Proof. exact (key_body_key r). Qed.

Lemma skipn_app_exact {A} (a b : list A) n : n = length a -> skipn n (a ++ b) = b.
Proof. intros ->. induction a as [|x a IH]; [reflexivity | exact IH]. Qed.

Lemma cut_sub fixed q r : cut_value_path fixed (path_to_trie_key q) (q ++ r) = r.
Proof. unfold path_to_trie_key. cbn [cut_value_path]. apply skipn_app_exact. apply map_length. Qed.

Lemma res_all_app {A} (a b : list (res A)) x y :
  res_all a = Ok x -> res_all b = Ok y -> res_all (a ++ b) = Ok (x ++ y).
Proof.
  revert x. induction a as [|[v|e] a IH]; intros x Ha Hb; cbn [res_all app] in *.
  - inversion Ha; subst. exact Hb.
  - destruct (res_all a) as [r|e]; [|discriminate]. inversion Ha; subst.
    rewrite (IH r eq_refl Hb). reflexivity.
  - discriminate.
Qed.

(* generic evaluation of a view over a stored list with distinct paths *)
Section View.
  Variable l : list (path * tree).
  Hypothesis Hnd : NoDup (map fst l).
  Variable q : path.
  Variable B : Type.
  Variable mkv : tkey -> path * tree -> B.          (* what the view builds from suffix and value *)
  Variable out : path * tree -> B.                   (* ... expressed on the relative node *)
  Hypothesis mkv_out : forall r s, mkv (map (fun i => i + 2) r) (q ++ r, s) = out (r, s).

  Lemma view_eval : forall l', incl l' l ->
    res_all (map (fun suf => match dt_get (map entry l) (path_to_trie_key q ++ suf) with
                             | Ok v => Ok (mkv suf v)
                             | Raise e => Raise e
                             end) (dt_suffixes (map entry l') (path_to_trie_key q)))
    = Ok (map out (below q l')).
  Proof.
    induction l' as [|[p s] l' IH]; intro Hin; [reflexivity|].
    assert (Hin' : incl l' l) by (intros x Hx; apply Hin; right; exact Hx).
    specialize (IH Hin'). cbn [map entry dt_suffixes fst].
    change (below q ((p, s) :: l')) with (rel1 q (p, s) ++ below q l').
    unfold rel1. cbn [fst snd]. rewrite strip_prefix_key.
    destruct (strip q p) as [r|] eqn:Es; cbn [option_map]; [|exact IH].
    apply strip_spec in Es. subst p. cbn [map app res_all].
    rewrite key_app.
    pose proof (dt_get_entry l (q ++ r, s) Hnd (Hin _ (or_introl eq_refl))) as Hg.
    cbn [fst] in Hg. rewrite Hg.
    rewrite IH, mkv_out. reflexivity.
  Qed.
End View.

Lemma nodes_NoDup t : NoDup (map fst (nodes t)).
Proof. rewrite <- positions_nodes. apply positions_NoDup. Qed.

Definition sub_nodes (t : tree) (q : path) : list (path * tree) :=
  match subtree t q with Some s => nodes s | None => [] end.

(* trie_view, sub-view half: items() of tree.trie().get_subtrie(q) *)
Theorem sub_items fixed t q : K_wide t = false ->
  st_items fixed (get_subtrie (trie_of t) q) = Ok (map (fun pt => (fst pt, pt)) (sub_nodes t q)).
Proof.
  intro Hk. unfold st_items, get_subtrie. cbn [st_trie st_root].
  rewrite trie_contents, all_storable by assumption.
  unfold sub_nodes. rewrite <- below_nodes.
  apply (view_eval (nodes t) (nodes_NoDup t) q _
           (fun suf v => (key_body (1 :: suf), (cut_value_path fixed (path_to_trie_key q) (fst v), snd v)))
           (fun pt => (fst pt, pt))).
  - intros r s. cbn [fst snd]. rewrite key_body_suffix, cut_sub. reflexivity.
  - apply incl_refl.
Qed.

Theorem sub_values fixed t q : K_wide t = false ->
  st_values fixed (get_subtrie (trie_of t) q) = Ok (sub_nodes t q).
Proof.
  intro Hk. unfold st_values, get_subtrie. cbn [st_trie st_root].
  rewrite trie_contents, all_storable by assumption.
  unfold sub_nodes. rewrite <- below_nodes. rewrite <- (map_id (below q (nodes t))).
  apply (view_eval (nodes t) (nodes_NoDup t) q _
           (fun (suf : tkey) v => (cut_value_path fixed (path_to_trie_key q) (fst v), snd v))
           (fun pt => pt)).
  - intros r s. cbn [fst snd]. rewrite cut_sub. reflexivity.
  - apply incl_refl.
Qed.

Lemma sub_suffixes q : forall l : list (path * tree),
  map (fun suf => key_body (1 :: suf)) (dt_suffixes (map entry l) (path_to_trie_key q))
  = map fst (below q l).
Proof.
  induction l as [|[p s] l IH]; [reflexivity|]. cbn [map entry dt_suffixes fst].
  change (below q ((p, s) :: l)) with (rel1 q (p, s) ++ below q l).
  unfold rel1. cbn [fst snd]. rewrite strip_prefix_key.
  destruct (strip q p) as [r|]; cbn [option_map app map]; [|exact IH].
  rewrite IH, key_body_suffix. reflexivity.
Qed.

Theorem sub_keys t q : K_wide t = false ->
  st_keys (get_subtrie (trie_of t) q) = map fst (sub_nodes t q).
Proof.
  intro Hk. unfold st_keys, get_subtrie. cbn [st_trie st_root].
  rewrite trie_contents, all_storable by assumption.
  unfold sub_nodes. rewrite <- below_nodes. apply sub_suffixes.
Qed.

(* the full statement of trie_view as written in Props/C16.v *)
Theorem trie_view_partial t : K_wide t = false ->
  (forall q s, subtree t q = Some s ->
     st_items true (get_subtrie (trie_of t) q) = Ok (map (fun pt => (fst pt, pt)) (nodes s)))
  /\ st_keys (trie_of t) = map fst (nodes t).
Proof.
  intro Hk. split; [|apply trie_keys_partial; assumption].
  intros q s Hs. rewrite sub_items by assumption. unfold sub_nodes. rewrite Hs. reflexivity.
Qed.

(* a path that is not in the tree gives the empty view *)
Corollary sub_items_invalid fixed t q : K_wide t = false -> subtree t q = None ->
  st_items fixed (get_subtrie (trie_of t) q) = Ok [].
Proof. intros Hk Hq. rewrite sub_items by assumption. unfold sub_nodes. rewrite Hq. reflexivity. Qed.

(* trie()[p] *)
Theorem trie_getitem_partial t p s : K_wide t = false -> subtree t p = Some s ->
  st_getitem (trie_of t) p = Ok (p, s).
Proof.
  intros Hk Hs. unfold st_getitem. rewrite trie_contents, all_storable by assumption.
  apply (dt_get_entry (nodes t) (p, s) (nodes_NoDup t)). apply nodes_spec. exact Hs.
Qed.

Theorem trie_getitem_missing t p : K_wide t = false -> subtree t p = None ->
  st_getitem (trie_of t) p = Raise KeyErr.
Proof.
  intros Hk Hs. unfold st_getitem. rewrite trie_contents, all_storable by assumption.
  assert (G : forall l : list (path * tree), ~ In p (map fst l) ->
              dt_get (map entry l) (path_to_trie_key p) = Raise KeyErr).
  { induction l as [|[p' s'] l IH]; intro Hn; [reflexivity|]. cbn [map entry dt_get fst].
    destruct (key_eqb (path_to_trie_key p) (path_to_trie_key p')) eqn:E.
    - apply key_eqb_eq, key_inj in E. subst p'. exfalso. apply Hn. left. reflexivity.
    - apply IH. intro Hin. apply Hn. right. exact Hin. }
  apply G. rewrite <- positions_nodes, positions_spec. unfold valid. rewrite Hs. intro H. apply H. reflexivity.
Qed.

Theorem trie_getitem_view t p : K_wide t = false ->
  st_getitem (trie_of t) p = match subtree t p with Some s => Ok (p, s) | None => Raise KeyErr end.
Proof.
  intro Hk. destruct (subtree t p) as [s|] eqn:E;
    [exact (trie_getitem_partial t p s Hk E) | exact (trie_getitem_missing t p Hk E)].
Qed.

(* non-vacuity / concrete instance: the view at [0] of deep_tree *)
Example sub_items_nonvacuous :
  K_wide deep_tree = false /\ exists s, subtree deep_tree [0] = Some s /\ length (nodes s) = 4.
Proof. split; [reflexivity|]. eexists. split; reflexivity. Qed.
