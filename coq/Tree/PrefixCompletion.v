(* C16 (proof extension 2): the completion notions of the other developments are extensions in the
   sense of is_prefix.
     FuzzFacts.completion g t t'  (C12: specification of the fuzzer's output)
     Eval3Facts.compl g t t'      (evaluator: completion with the same node identities)
   both imply PrefixOf t t', hence t.is_prefix(t') = True, hence t' is reached from t by a sequence
   of open-leaf replacements (PrefixReach.expansions). *)
From ISLA Require Import Tree PathFacts TreeFacts TreeOps TreeOpsFacts PrefixMore PrefixReach.
From ISLA Require Import Grammar GrammarFacts Fuzz FuzzFacts Eval3Facts.
From Coq Require Import Lia.

Lemma wf_shape_ok_c16 g t : wf_tree g t -> shape_ok t = true.
Proof.
  induction t as [l i o ks IH] using tree_ind'. intro H.
  inversion H as [A j HA Hd | w j Hw | A j ks' HA Hne Hal Hall | A j HA He | A j j' HA He]; subst;
    try reflexivity.
  cbn [shape_ok andb]. rewrite Forall_forall in *. apply forallb_forall. intros c Hc. apply IH; auto.
Qed.

(* a completion relates two encoded Python trees (no grammar hypothesis on t needed) *)
Lemma completion_shape g t : forall t', completion g t t' -> shape_ok t = true /\ shape_ok t' = true.
Proof.
  induction t as [l i o ks IH] using tree_ind'. intros t' H.
  inversion H as [A i' t0 Hl Hw | l' i' ks0 ks' HF]; subst.
  - split; [reflexivity | eapply wf_shape_ok_c16; eauto].
  - cbn [shape_ok andb]. clear H. induction HF as [|k k' r r' Hk _ IHF]; [split; reflexivity|].
    inversion IH as [|x y Hx Hy]; subst. destruct (Hx k' Hk) as [H1 H2]. destruct (IHF Hy) as [H3 H4].
    cbn [forallb]. rewrite H1, H2, H3, H4. split; reflexivity.
Qed.

Theorem completion_PrefixOf g : forall p t t' s, completion g t t' -> subtree t p = Some s ->
  exists s', subtree t' p = Some s' /\ lbl s' = lbl s
             /\ (opn s = false -> opn s' = false /\ length (kids s') = length (kids s)).
Proof.
  induction p as [|n p IH]; intros t t' s Hc Hs.
  - cbn in Hs. inversion Hs; subst s. exists t'. split; [reflexivity|].
    split; [eapply completion_lbl; eauto|]. intro Ho.
    destruct (completion_keeps_expanded g [] t t' t Hc eq_refl Ho) as (s' & Hs' & _ & _ & Ho' & Hlen).
    cbn in Hs'. inversion Hs'; subst s'. auto.
  - inversion Hc as [A i t0 Hl Hw | l i ks ks' HF]; subst; cbn [subtree kids] in Hs.
    + destruct n; discriminate.
    + destruct (nth_error ks n) as [k|] eqn:E; [|discriminate].
      destruct (Forall2_nth_error _ _ _ _ _ HF E) as (k' & E' & Hk).
      destruct (IH _ _ _ Hk Hs) as (s' & Hs' & Hrest). exists s'. cbn [subtree kids]. rewrite E'. auto.
Qed.

Corollary completion_is_PrefixOf g t t' : completion g t t' -> PrefixOf t t'.
Proof. intros Hc p s Hs. exact (completion_PrefixOf g p t t' s Hc Hs). Qed.

(* the exported statement: t.is_prefix(t') answers True on every completion *)
Theorem completion_is_prefix g t t' : completion g t t' ->
  is_prefix_t t t' = true /\ PrefixOf t t' /\ expansions t t'.
Proof.
  intro Hc. destruct (completion_shape g t t' Hc) as [Ht Ht'].
  pose proof (completion_is_PrefixOf g t t' Hc) as Hp.
  split; [apply (is_prefix_spec t Ht t'); exact Hp|]. split; [exact Hp|].
  apply PrefixOf_expansions; assumption.
Qed.

Theorem compl_is_prefix g t t' : compl g t t' ->
  is_prefix_t t t' = true /\ PrefixOf t t' /\ expansions t t'.
Proof. intro Hc. apply (completion_is_prefix g). apply compl_completion. exact Hc. Qed.

(* C12's expand_valid: every output of the (abstract) fuzzer extends its input *)
Corollary fuzz_output_is_prefix g t t' : uses_defined g -> wf_tree g t -> expand_star g t t' ->
  is_prefix_t t t' = true.
Proof.
  intros Hud Hwf Hs. destruct (expand_valid g t t' Hud Hwf Hs) as [_ Hc].
  exact (proj1 (completion_is_prefix g t t' Hc)).
Qed.

(* non-vacuity: the fuzzer example of C12 and the evaluator example SR *)
Example completion_is_prefix_nonvacuous :
  completion ex_g ex_t ex_out /\ is_prefix_t ex_t ex_out = true
  /\ compl SR_g SR_t SR_t' /\ is_prefix_t SR_t SR_t' = true.
Proof.
  assert (H1 : completion ex_g ex_t ex_out).
  { apply is_completionb_spec. vm_compute. reflexivity. }
  assert (H2 : compl SR_g SR_t SR_t') by exact (proj1 (proj2 selfrec_unstable_refuted)).
  split; [exact H1|]. split; [exact (proj1 (completion_is_prefix _ _ _ H1))|].
  split; [exact H2 | exact (proj1 (compl_is_prefix _ _ _ H2))].
Qed.
