(* C16 (proof extension 2): the REACHABILITY reading of is_prefix.
   PrefixOf t u (path-wise declarative spec, PrefixMore.v)  <->  u results from t by a finite
   SEQUENCE of open-leaf replacements (replace_path at the path of an open leaf, by a tree with
   the same label), ids ignored.
   Also: the completion notions of the fuzzer (C12, FuzzFacts.completion) and of the evaluator
   (Eval3Facts.compl) imply PrefixOf, hence is_prefix = true, hence reachability. *)
From ISLA Require Import Tree PathFacts TreeFacts TreeOps TreeOpsFacts PrefixMore.
From Coq Require Import Lia.

(* ------------------------------------------------------------------ *)
(* "ids ignored": equality after erasing all ids                       *)
(* ------------------------------------------------------------------ *)
Fixpoint strip_ids (t : tree) : tree :=
  match t with Node l _ o ks => Node l 0%N o (map strip_ids ks) end.

Definition same_struct (t u : tree) : Prop := strip_ids t = strip_ids u.

Lemma same_struct_refl t : same_struct t t.
Proof. reflexivity. Qed.

Lemma same_struct_sym t u : same_struct t u -> same_struct u t.
Proof. unfold same_struct. congruence. Qed.

Lemma same_struct_trans t u v : same_struct t u -> same_struct u v -> same_struct t v.
Proof. unfold same_struct. congruence. Qed.

Lemma nth_error_map' {A B} (f : A -> B) : forall l j, nth_error (map f l) j = option_map f (nth_error l j).
Proof. induction l as [|x l IH]; intros [|j]; cbn; auto. Qed.

Lemma map_eq_nth {A B} (f : A -> B) : forall a b j x, map f a = map f b -> nth_error a j = Some x ->
  exists y, nth_error b j = Some y /\ f x = f y.
Proof.
  intros a b j x He Hx. pose proof (nth_error_map' f a j) as Ha. pose proof (nth_error_map' f b j) as Hb.
  rewrite He, Hx in Ha. rewrite Ha in Hb. destruct (nth_error b j) as [y|]; cbn in Hb; [|discriminate].
  exists y. split; [reflexivity|]. congruence.
Qed.

Lemma shape_ok_strip t : shape_ok (strip_ids t) = shape_ok t.
Proof.
  induction t as [l i o ks IH] using tree_ind'. cbn [strip_ids shape_ok]. f_equal.
  - destruct ks; reflexivity.
  - induction IH as [|x ks Hx _ IHks]; [reflexivity|]. cbn [map forallb]. rewrite Hx, IHks. reflexivity.
Qed.

Lemma same_struct_shape t u : same_struct t u -> shape_ok t = shape_ok u.
Proof. intro H. rewrite <- (shape_ok_strip t), <- (shape_ok_strip u). unfold same_struct in H. congruence. Qed.

Lemma same_struct_PrefixOf t : forall u, same_struct t u -> PrefixOf t u.
Proof.
  induction t as [l1 i1 o1 ks1 IH] using tree_ind'. intros [l2 i2 o2 ks2] H. unfold same_struct in H.
  cbn [strip_ids] in H. inversion H as [[Hl Ho Hk]]. subst l2 o2. apply PrefixOf_node.
  split; [reflexivity|]. split.
  - intros Ho1. split; [exact Ho1|]. apply (f_equal (@length tree)) in Hk. rewrite !map_length in Hk. congruence.
  - intros j c Hc. destruct (map_eq_nth strip_ids ks1 ks2 j c Hk Hc) as (c' & Hc' & He).
    exists c'. split; [exact Hc'|]. rewrite Forall_forall in IH. apply IH; [eapply nth_error_In; eauto | exact He].
Qed.

(* the model's own id-blind comparison decides same_struct (on encoded Python trees) *)
Lemma all2_se_spec : forall a b, length a = length b ->
  ((fix all2 (a b : list tree) : bool :=
      match a, b with
      | x :: a', y :: b' => structurally_equal x y && all2 a' b'
      | _, _ => true
      end) a b = true <->
   forall j x y, nth_error a j = Some x -> nth_error b j = Some y -> structurally_equal x y = true).
Proof.
  induction a as [|x a IH]; intros [|y b] Hl; cbn [length] in Hl; try discriminate.
  - split; [intros _ j x y Hx; destruct j; discriminate | reflexivity].
  - rewrite andb_true_iff, IH by lia. split.
    + intros [H0 H] [|j] x' y' Hx Hy; cbn in Hx, Hy; [inversion Hx; inversion Hy; subst; exact H0 | eauto].
    + intro H. split; [exact (H 0 x y eq_refl eq_refl) | intros j x' y' Hx Hy; exact (H (S j) x' y' Hx Hy)].
Qed.

Lemma map_eq_pointwise {A B} (f : A -> B) : forall a b, length a = length b ->
  (forall j x y, nth_error a j = Some x -> nth_error b j = Some y -> f x = f y) -> map f a = map f b.
Proof.
  induction a as [|x a IH]; intros [|y b] Hl H; cbn [length] in Hl; try discriminate; [reflexivity|].
  cbn [map]. f_equal; [exact (H 0 x y eq_refl eq_refl)|]. apply IH; [lia|].
  intros j x' y' Hx Hy. exact (H (S j) x' y' Hx Hy).
Qed.

Theorem structurally_equal_spec t : shape_ok t = true -> forall u, shape_ok u = true ->
  (structurally_equal t u = true <-> same_struct t u).
Proof.
  induction t as [l1 i1 o1 ks1 IH] using tree_ind'. intros Hst [l2 i2 o2 ks2] Hsu.
  apply shape_ok_unfold in Hst as [Ho1 Hk1]. apply shape_ok_unfold in Hsu as [Ho2 Hk2].
  unfold same_struct. cbn [structurally_equal strip_ids]. split.
  - intro H. destruct (str_eqb l1 l2) eqn:El; [|discriminate]. apply str_eqb_eq in El. subst l2.
    destruct (Bool.eqb o1 o2) eqn:Eo; [|discriminate]. apply eqb_prop in Eo. subst o2. cbn [negb orb] in H.
    destruct o1.
    + rewrite (Ho1 eq_refl), (Ho2 eq_refl). reflexivity.
    + destruct (Nat.eqb_spec (length ks1) (length ks2)) as [Hlen|_]; [|discriminate]. cbn [negb] in H.
      f_equal. apply map_eq_pointwise; [exact Hlen|]. intros j x y Hx Hy.
      rewrite Forall_forall in IH, Hk1, Hk2.
      assert (Hix : In x ks1) by (eapply nth_error_In; eauto).
      assert (Hiy : In y ks2) by (eapply nth_error_In; eauto).
      apply (IH x Hix (Hk1 x Hix) y (Hk2 y Hiy)).
      exact (proj1 (all2_se_spec ks1 ks2 Hlen) H j x y Hx Hy).
  - intro H. inversion H as [[Hl Ho Hk]]. subst l2 o2. rewrite str_eqb_refl, eqb_reflx. cbn [negb orb].
    destruct o1; [reflexivity|].
    assert (Hlen : length ks1 = length ks2).
    { apply (f_equal (@length tree)) in Hk. rewrite !map_length in Hk. exact Hk. }
    rewrite (proj2 (Nat.eqb_eq _ _) Hlen). cbn [negb]. apply (all2_se_spec ks1 ks2 Hlen).
    intros j x y Hx Hy. destruct (map_eq_nth strip_ids ks1 ks2 j x Hk Hx) as (y' & Hy' & He).
    rewrite Hy in Hy'. inversion Hy'; subst y'.
    rewrite Forall_forall in IH, Hk1, Hk2.
    assert (Hix : In x ks1) by (eapply nth_error_In; eauto).
    assert (Hiy : In y ks2) by (eapply nth_error_In; eauto).
    apply (IH x Hix (Hk1 x Hix) y (Hk2 y Hiy)). exact He.
Qed.

(* ------------------------------------------------------------------ *)
(* one open-leaf replacement, and finite sequences of them             *)
(* ------------------------------------------------------------------ *)
(* t' = t.replace_path(p, r) where p is the path of an open leaf of t and r is a (well-shaped)
   tree with the leaf's label *)
Definition leaf_step (t t' : tree) : Prop :=
  exists p leaf r, subtree t p = Some leaf /\ opn leaf = true /\ lbl r = lbl leaf
                   /\ shape_ok r = true /\ replace_path t p r = Ok t'.

(* reflexive-transitive closure *)
Inductive leaf_steps : tree -> tree -> Prop :=
| ls_refl : forall t, leaf_steps t t
| ls_step : forall t t' u, leaf_step t t' -> leaf_steps t' u -> leaf_steps t u.

(* u is reached from t by a sequence of open-leaf replacements, ids ignored *)
Definition expansions (t u : tree) : Prop := exists u', leaf_steps t u' /\ same_struct u' u.

Lemma leaf_steps_trans t u v : leaf_steps t u -> leaf_steps u v -> leaf_steps t v.
Proof. induction 1 as [|t t' u Hs _ IH]; intro H; [exact H | eapply ls_step; eauto]. Qed.

Lemma leaf_steps_one t t' : leaf_step t t' -> leaf_steps t t'.
Proof. intro H. eapply ls_step; [exact H | apply ls_refl]. Qed.

(* replace_path keeps the representation invariant *)
Lemma forallb_firstn {A} (f : A -> bool) : forall i l, forallb f l = true -> forallb f (firstn i l) = true.
Proof.
  induction i as [|i IH]; intros [|x l] H; cbn in *; auto. apply andb_true_iff in H as [H1 H2].
  rewrite H1. cbn. auto.
Qed.

Lemma forallb_skipn {A} (f : A -> bool) : forall i l, forallb f l = true -> forallb f (skipn i l) = true.
Proof.
  induction i as [|i IH]; intros [|x l] H; cbn in *; auto. apply andb_true_iff in H as [H1 H2]. auto.
Qed.

Lemma forallb_splice {A} (f : A -> bool) ks i c' :
  forallb f ks = true -> f c' = true -> forallb f (firstn i ks ++ c' :: skipn (S i) ks) = true.
Proof.
  intros Hk Hc. rewrite forallb_app. cbn [forallb]. rewrite forallb_firstn, Hc, forallb_skipn by assumption.
  reflexivity.
Qed.

Lemma replace_path_shape : forall p t r t', shape_ok t = true -> shape_ok r = true ->
  replace_path t p r = Ok t' -> shape_ok t' = true.
Proof.
  induction p as [|i p IH]; intros t r t' Ht Hr H.
  - cbn in H. inversion H; subst. exact Hr.
  - destruct t as [l0 i0 o0 ks0]. cbn [replace_path opn kids lbl tid] in H.
    destruct o0; [discriminate|]. destruct (nth_error ks0 i) as [c|] eqn:Ec; [|discriminate].
    destruct (replace_path c p r) as [c'|e] eqn:Er; [|discriminate]. inversion H; subst t'.
    assert (Hc : shape_ok c = true).
    { eapply (shape_ok_kids (Node l0 i0 false ks0)); [exact Ht | eapply nth_error_In; eauto]. }
    pose proof (IH c r c' Hc Hr Er) as Hc'. cbn [shape_ok] in *. cbn [andb] in *.
    apply forallb_splice; assumption.
Qed.

Lemma leaf_step_shape t t' : shape_ok t = true -> leaf_step t t' -> shape_ok t' = true.
Proof. intros Ht (p & leaf & r & _ & _ & _ & Hr & H). exact (replace_path_shape p t r t' Ht Hr H). Qed.

Lemma leaf_step_PrefixOf t t' : shape_ok t = true -> leaf_step t t' -> PrefixOf t t'.
Proof. intros Ht (p & leaf & r & Hs & Ho & Hl & _ & H). exact (expand_leaf_PrefixOf p t leaf r t' Ht Hs Ho Hl H). Qed.

(* soundness: every sequence of open-leaf replacements yields an extension *)
Lemma leaf_steps_sound t u : leaf_steps t u -> shape_ok t = true -> shape_ok u = true /\ PrefixOf t u.
Proof.
  induction 1 as [t|t t' u Hs _ IH]; intro Ht.
  - split; [exact Ht | apply PrefixOf_refl].
  - pose proof (leaf_step_shape _ _ Ht Hs) as Ht'. destruct (IH Ht') as [Hu Hp].
    split; [exact Hu|]. eapply PrefixOf_trans; [eapply leaf_step_PrefixOf; eauto | exact Hp].
Qed.

Theorem expansions_PrefixOf t u : shape_ok t = true -> expansions t u -> shape_ok u = true /\ PrefixOf t u.
Proof.
  intros Ht (u' & Hs & He). destruct (leaf_steps_sound _ _ Hs Ht) as [Hu' Hp]. split.
  - rewrite <- (same_struct_shape _ _ He). exact Hu'.
  - eapply PrefixOf_trans; [exact Hp | apply same_struct_PrefixOf; exact He].
Qed.

(* ------------------------------------------------------------------ *)
(* completeness: an extension is reached by replacing the open leaves  *)
(* ------------------------------------------------------------------ *)
(* a step below child number (length pre) is a step of the parent *)
Lemma nth_error_mid {A} (pre : list A) c post : nth_error (pre ++ c :: post) (length pre) = Some c.
Proof. rewrite nth_error_app2 by lia. rewrite Nat.sub_diag. reflexivity. Qed.

Lemma firstn_mid {A} (pre : list A) c post : firstn (length pre) (pre ++ c :: post) = pre.
Proof. rewrite firstn_app, Nat.sub_diag, firstn_all. cbn. apply app_nil_r. Qed.

Lemma skipn_mid {A} (pre : list A) c post : skipn (S (length pre)) (pre ++ c :: post) = post.
Proof.
  rewrite skipn_app. rewrite skipn_all2 by lia. replace (S (length pre) - length pre) with 1 by lia. reflexivity.
Qed.

Lemma leaf_step_ctx l i pre post c c' :
  leaf_step c c' -> leaf_step (Node l i false (pre ++ c :: post)) (Node l i false (pre ++ c' :: post)).
Proof.
  intros (p & leaf & r & Hs & Ho & Hl & Hr & H). exists (length pre :: p), leaf, r.
  split; [cbn [subtree kids]; rewrite nth_error_mid; exact Hs|]. repeat (split; [assumption|]).
  cbn [replace_path opn kids lbl tid]. rewrite nth_error_mid, H, firstn_mid, skipn_mid. reflexivity.
Qed.

Lemma leaf_steps_ctx l i pre post c c' :
  leaf_steps c c' -> leaf_steps (Node l i false (pre ++ c :: post)) (Node l i false (pre ++ c' :: post)).
Proof.
  induction 1 as [c|c c1 c' Hs _ IH]; [apply ls_refl|].
  eapply ls_step; [apply leaf_step_ctx; exact Hs | exact IH].
Qed.

Lemma leaf_steps_kids l i : forall ks ks2,
  Forall2 (fun c c2 => exists c', leaf_steps c c' /\ same_struct c' c2) ks ks2 ->
  forall pre, exists ks', leaf_steps (Node l i false (pre ++ ks)) (Node l i false (pre ++ ks'))
                          /\ map strip_ids ks' = map strip_ids ks2.
Proof.
  induction 1 as [|c c2 ks ks2 (c' & Hc & He) _ IH]; intro pre.
  - exists []. split; [apply ls_refl | reflexivity].
  - destruct (IH (pre ++ [c'])) as (ks' & Hk & Hm). exists (c' :: ks'). split.
    + eapply leaf_steps_trans; [apply leaf_steps_ctx; exact Hc|].
      rewrite <- !app_assoc in Hk. exact Hk.
    + cbn [map]. rewrite Hm. unfold same_struct in He. rewrite He. reflexivity.
Qed.

Lemma Forall2_pointwise {A B} (R : A -> B -> Prop) : forall a b, length a = length b ->
  (forall j x y, nth_error a j = Some x -> nth_error b j = Some y -> R x y) -> Forall2 R a b.
Proof.
  induction a as [|x a IH]; intros [|y b] Hl H; cbn [length] in Hl; try discriminate; constructor.
  - exact (H 0 x y eq_refl eq_refl).
  - apply IH; [lia|]. intros j x' y' Hx Hy. exact (H (S j) x' y' Hx Hy).
Qed.

Theorem PrefixOf_expansions t : shape_ok t = true -> forall u, shape_ok u = true ->
  PrefixOf t u -> expansions t u.
Proof.
  induction t as [l1 i1 o1 ks1 IH] using tree_ind'. intros Ht [l2 i2 o2 ks2] Hu Hp.
  pose proof Ht as Ht0. apply shape_ok_unfold in Ht as [Ho1 Hk1].
  pose proof Hu as Hu0. apply shape_ok_unfold in Hu as [Ho2 Hk2].
  apply PrefixOf_node in Hp as (Hl & Hc & Hk). subst l2. destruct o1.
  - (* the root is an open leaf: one replacement *)
    rewrite (Ho1 eq_refl) in *. exists (Node l1 i2 o2 ks2). split; [|apply same_struct_refl].
    apply leaf_steps_one. exists [], (Node l1 i1 true []), (Node l1 i2 o2 ks2).
    repeat split; try reflexivity. exact Hu0.
  - destruct (Hc eq_refl) as [-> Hlen].
    assert (HF : Forall2 (fun c c2 => exists c', leaf_steps c c' /\ same_struct c' c2) ks1 ks2).
    { apply Forall2_pointwise; [congruence|]. intros j x y Hx Hy.
      destruct (Hk j x Hx) as (y' & Hy' & Hpx). rewrite Hy in Hy'. inversion Hy'; subst y'.
      rewrite Forall_forall in IH, Hk1, Hk2.
      assert (Hix : In x ks1) by (eapply nth_error_In; eauto).
      assert (Hiy : In y ks2) by (eapply nth_error_In; eauto).
      exact (IH x Hix (Hk1 x Hix) y (Hk2 y Hiy) Hpx). }
    destruct (leaf_steps_kids l1 i1 ks1 ks2 HF []) as (ks' & Hs & Hm). cbn [app] in Hs.
    exists (Node l1 i1 false ks'). split; [exact Hs|]. unfold same_struct. cbn [strip_ids]. rewrite Hm. reflexivity.
Qed.

(* THE reachability reading of is_prefix *)
Theorem prefix_iff_expansions t u : shape_ok t = true -> shape_ok u = true ->
  (PrefixOf t u <-> expansions t u).
Proof.
  intros Ht Hu. split; [apply PrefixOf_expansions; assumption|].
  intro H. exact (proj2 (expansions_PrefixOf t u Ht H)).
Qed.

Corollary is_prefix_iff_expansions t u : shape_ok t = true -> shape_ok u = true ->
  (is_prefix_t t u = true <-> expansions t u).
Proof. intros Ht Hu. rewrite (is_prefix_spec t Ht u). apply prefix_iff_expansions; assumption. Qed.

(* non-vacuity: two open leaves, two replacements; not reachable in the other direction *)
Example expansions_nonvacuous :
  let t := Node [60;97;62]%N 1 false [Node [60;98;62]%N 2 true []; Node [60;99;62]%N 3 true []] in
  let u := Node [60;97;62]%N 7 false [Node [60;98;62]%N 8 false [Node [121]%N 9 false []];
                                      Node [60;99;62]%N 5 false []] in
  shape_ok t = true /\ shape_ok u = true /\ expansions t u /\ ~ expansions u t.
Proof.
  cbv zeta. split; [reflexivity|]. split; [reflexivity|]. split.
  - apply is_prefix_iff_expansions; reflexivity.
  - intro H. apply is_prefix_iff_expansions in H; [discriminate | reflexivity | reflexivity].
Qed.
