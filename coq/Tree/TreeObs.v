(* Correspondence glue for C16 (no proofs, no model code): a history is a list of
   (operation, outcome recorded from the implementation, observations recorded from the
   implementation); [run_case] replays the operations on the model (Cache.v) and evaluates every
   observation with the model functions (TreeOps.v, Trie.v).  Returns the list of
   (step index, observation index) that disagree; observation index 0 is the operation's outcome. *)
From ISLA Require Export Cache Trie.

Definition opt_eqb {A} (e : A -> A -> bool) (a b : option A) : bool :=
  match a, b with Some x, Some y => e x y | None, None => true | _, _ => false end.

Fixpoint list_eqb {A} (e : A -> A -> bool) (a b : list A) : bool :=
  match a, b with
  | [], [] => true
  | x :: a', y :: b' => e x y && list_eqb e a' b'
  | _, _ => false
  end.

Definition pair_eqb {A B} (ea : A -> A -> bool) (eb : B -> B -> bool) (a b : A * B) : bool :=
  ea (fst a) (fst b) && eb (snd a) (snd b).

(* equality of cached trees up to object tags *)
Fixpoint ctree_eqb (a b : ctree) : bool :=
  match a, b with
  | CNode l1 i1 _ c1 o1 ks1, CNode l2 i2 _ c2 o2 ks2 =>
      str_eqb l1 l2 && N.eqb i1 i2 && opt_eqb Bool.eqb c1 c2 && Bool.eqb o1 o2
      && (fix all2 (x y : list ctree) : bool :=
            match x, y with
            | [], [] => true
            | u :: x', v :: y' => ctree_eqb u v && all2 x' y'
            | _, _ => false
            end) ks1 ks2
  end.

Definition out_eqb (a b : out) : bool :=
  match a, b with
  | OutTrees x, OutTrees y => list_eqb ctree_eqb x y
  | OutBool x, OutBool y => Bool.eqb x y
  | OutExn x, OutExn y => exn_eqb x y
  | _, _ => false
  end.

Inductive chk :=
| CDump (k : nat) (t : ctree)                          (* register k, all slots (tags ignored) *)
| CStr (k : nat) (show : bool) (s : str)               (* to_string(show_open_leaves) *)
| CPaths (k : nat) (l : list (path * N))               (* paths(): (path, id of subtree) *)
| CFind (k : nat) (i : N) (r : option path)            (* find_node(id) *)
| CValid (k : nat) (p : path) (b : bool)               (* is_valid_path *)
| CSub (k : nat) (p : path) (r : res (option N))       (* get_subtree(p): id of the result *)
| CLeaves (k : nat) (l : list path)
| COpenLeaves (k : nat) (l : list path)
| CNext (k : nat) (p : path) (skip : bool) (r : res (option path))
| CTrieKeys (k : nat) (q : option path) (l : list path)  (* None: tree.trie(); Some q: .get_subtrie(q) *)
| CTrieItems (k : nat) (q : option path) (r : res (list (path * (path * N))))
| CTrieValues (k : nat) (q : option path) (r : res (list (path * N)))
| CTrieGet (k : nat) (p : path) (r : res (path * N))
| CSEq (k1 k2 : nat) (b : bool)                        (* structurally_equal *)
| CPrefix (k1 k2 : nat) (b : bool)                     (* is_prefix *)
| CPotPrefix (k1 k2 : nat) (b : bool)                  (* is_potential_prefix *)
| COpenFresh (k : nat) (b : bool)                      (* is_open() of a fresh copy (new_ids) *)
| CUnique (k : nat) (b : bool).                        (* has_unique_ids *)

Definition pn_eqb := pair_eqb path_eqb N.eqb.
Definition view (t : tree) (q : option path) : subtrie :=
  match q with None => trie_of t | Some q => get_subtrie (trie_of t) q end.

Definition eval_chk (fixed : bool) (st : state) (c : chk) : bool :=
  let reg k := nth_error (regs st) k in
  let tr k := option_map erase (reg k) in
  match c with
  | CDump k t => match reg k with Some t' => ctree_eqb t t' | None => false end
  | CStr k show s => match tr k with Some t => opt_eqb str_eqb (to_string show t) (Some s) | None => false end
  | CPaths k l => match tr k with
                  | Some t => opt_eqb (list_eqb pn_eqb)
                                      (option_map (map (fun pt => (fst pt, tid (snd pt)))) (paths t)) (Some l)
                  | None => false end
  | CFind k i r => match tr k with Some t => opt_eqb path_eqb (find_node t i) r | None => false end
  | CValid k p b => match tr k with Some t => Bool.eqb (is_valid_path t p) b | None => false end
  | CSub k p r => match tr k with
                  | Some t => res_eqb (opt_eqb N.eqb)
                                      (match py_get_subtree t p with
                                       | Ok x => Ok (option_map tid x) | Raise e => Raise e end) r
                  | None => false end
  | CLeaves k l => match tr k with Some t => list_eqb path_eqb (map fst (leaves t)) l | None => false end
  | COpenLeaves k l => match tr k with Some t => list_eqb path_eqb (map fst (open_leaves t)) l | None => false end
  | CNext k p skip r => match tr k with Some t => res_eqb (opt_eqb path_eqb) (next_path t p skip) r | None => false end
  | CTrieKeys k q l => match tr k with Some t => list_eqb path_eqb (st_keys (view t q)) l | None => false end
  | CTrieItems k q r =>
      match tr k with
      | Some t => res_eqb (list_eqb (pair_eqb path_eqb pn_eqb))
                          (match st_items fixed (view t q) with
                           | Ok l => Ok (map (fun x => (fst x, (fst (snd x), tid (snd (snd x))))) l)
                           | Raise e => Raise e end) r
      | None => false end
  | CTrieValues k q r =>
      match tr k with
      | Some t => res_eqb (list_eqb pn_eqb)
                          (match st_values fixed (view t q) with
                           | Ok l => Ok (map (fun x => (fst x, tid (snd x))) l)
                           | Raise e => Raise e end) r
      | None => false end
  | CTrieGet k p r =>
      match tr k with
      | Some t => res_eqb pn_eqb (match st_getitem (trie_of t) p with
                                  | Ok x => Ok (fst x, tid (snd x)) | Raise e => Raise e end) r
      | None => false end
  | CSEq k1 k2 b => match tr k1, tr k2 with Some t, Some u => Bool.eqb (structurally_equal t u) b | _, _ => false end
  | CPrefix k1 k2 b => match tr k1, tr k2 with Some t, Some u => Bool.eqb (is_prefix_t t u) b | _, _ => false end
  | CPotPrefix k1 k2 b => match tr k1, tr k2 with
                          | Some t, Some u => opt_eqb Bool.eqb (is_potential_prefix t u) (Some b)
                          | _, _ => false end
  | COpenFresh k b => match tr k with Some t => Bool.eqb (is_openT t) b | None => false end
  | CUnique k b => match reg k with Some t => Bool.eqb (has_unique_ids t) b | None => false end
  end.

Fixpoint bad_chks (fixed : bool) (st : state) (i : nat) (cs : list chk) : list nat :=
  match cs with
  | [] => []
  | c :: cs' => if eval_chk fixed st c then bad_chks fixed st (S i) cs' else i :: bad_chks fixed st (S i) cs'
  end.

(* failures of a history: (step, 0) = outcome differs / model out of fuel; (step, j>0) = j-th observation *)
Fixpoint run_case (fixed : bool) (st : state) (n : nat) (h : list (op * out * list chk)) : list (nat * nat) :=
  match h with
  | [] => []
  | (o, expected, cs) :: h' =>
      match step st o with
      | None => [(n, 0)]
      | Some (r, st') =>
          (if out_eqb r expected then [] else [(n, 0)])
          ++ map (fun j => (n, j)) (bad_chks fixed st' 1 cs)
          ++ run_case fixed st' (S n) h'
      end
  end.

Definition case_ok (fixed : bool) (h : list (op * out * list chk)) : bool :=
  match run_case fixed init_state 0 h with [] => true | _ => false end.
