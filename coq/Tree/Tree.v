(* Derivation trees (model of isla.derivation_tree.DerivationTree, structure only).

   Python:  DerivationTree(value, children, id)   children : None | tuple
   Here:    Node lbl id opn kids
            opn = true   <->  children is None   (kids is then [] : see shape_ok)
            opn = false  <->  children == tuple(kids)                           *)
From ISLA Require Export Str Path.

Inductive tree := Node (lbl : str) (id : N) (opn : bool) (kids : list tree).

Definition lbl (t : tree) := let 'Node l _ _ _ := t in l.
Definition tid (t : tree) := let 'Node _ i _ _ := t in i.
Definition opn (t : tree) := let 'Node _ _ o _ := t in o.
Definition kids (t : tree) := let 'Node _ _ _ k := t in k.

(* induction principle through the nested list *)
Section TreeInd.
  Variable P : tree -> Prop.
  Hypothesis HNode : forall l i o ks, Forall P ks -> P (Node l i o ks).
  Fixpoint tree_ind' (t : tree) : P t :=
    match t with
    | Node l i o ks =>
        HNode l i o ks
          ((fix go (ks : list tree) : Forall P ks :=
              match ks with
              | [] => Forall_nil P
              | k :: ks' => Forall_cons k (tree_ind' k) (go ks')
              end) ks)
    end.
End TreeInd.

(* representation invariant of encoded Python trees *)
Fixpoint shape_ok (t : tree) : bool :=
  match t with
  | Node _ _ o ks => (if o then match ks with [] => true | _ => false end else true)
                     && forallb shape_ok ks
  end.

(* ---- specification vocabulary ---- *)

(* the node at a path (None: no such node) *)
Fixpoint subtree (t : tree) (p : path) : option tree :=
  match p with
  | [] => Some t
  | i :: p' => match nth_error (kids t) i with
               | Some c => subtree c p'
               | None => None
               end
  end.

Definition valid (t : tree) (p : path) : Prop := subtree t p <> None.

(* string of a tree: concatenation of the labels of childless, non-open nodes
   whose label is not a nonterminal; open leaves contribute their label
   (this is what str(tree) shows) *)
Fixpoint yield (t : tree) : str :=
  match t with
  | Node l _ o ks =>
      match ks with
      | [] => if o then l else if is_nt l then [] else l
      | _ => flat_map yield ks
      end
  end.

Fixpoint is_openT (t : tree) : bool :=
  match t with
  | Node _ _ o ks => o || existsb is_openT ks
  end.

(* all node positions, root first, children left to right (pre-order) *)
Fixpoint mapi_from {A B} (f : nat -> A -> B) (i : nat) (l : list A) : list B :=
  match l with [] => [] | x :: l' => f i x :: mapi_from f (S i) l' end.

Fixpoint positions (t : tree) : list path :=
  match t with
  | Node _ _ _ ks =>
      [] :: concat (mapi_from (fun i c => map (cons i) c) 0 (map positions ks))
  end.

Fixpoint nodes (t : tree) : list (path * tree) :=
  match t with
  | Node _ _ _ ks =>
      ([], t) :: concat (mapi_from (fun i c => map (fun pt => (i :: fst pt, snd pt)) c) 0
                                   (map nodes ks))
  end.

Fixpoint size (t : tree) : nat :=
  match t with Node _ _ _ ks => S (list_sum (map size ks)) end.
