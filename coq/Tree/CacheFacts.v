(* C16: the cache protocol of is_open keeps every cached flag correct (Cache.v). *)
From ISLA Require Import Tree PathFacts TreeFacts TreeOps TreeOpsFacts Cache.
From Coq Require Import Lia.

(* SPEC: every cached flag, when present, equals the recomputed value *)
Definition CacheOK (t : ctree) : Prop :=
  forall n, In n (cnodes t) -> forall b, cc n = Some b -> b = is_openT (erase n).

(* invariant carried through histories: correct caches + Python-representable shape *)
Definition Inv (t : ctree) : Prop := CacheOK t /\ shape_ok (erase t) = true.

Section CInd.
  Variable P : ctree -> Prop.
  Hypothesis HNode : forall l i o c op ks, Forall P ks -> P (CNode l i o c op ks).
  Fixpoint ctree_ind' (t : ctree) : P t :=
    match t with
    | CNode l i o c op ks =>
        HNode l i o c op ks
          ((fix go (ks : list ctree) : Forall P ks :=
              match ks with
              | [] => Forall_nil P
              | k :: ks' => Forall_cons k (ctree_ind' k) (go ks')
              end) ks)
    end.
End CInd.

Definition open_kids (ks : list ctree) : bool := existsb (fun k => is_openT (erase k)) ks.

Lemma is_openT_erase l i o c op ks :
  is_openT (erase (CNode l i o c op ks)) = op || open_kids ks.
Proof.
  cbn [erase is_openT]. f_equal. unfold open_kids.
  induction ks as [|k ks IH]; [reflexivity|]. cbn [map existsb]. rewrite IH. reflexivity.
Qed.

Lemma CacheOK_unfold l i o c op ks :
  CacheOK (CNode l i o c op ks) <->
  (forall b, c = Some b -> b = (op || open_kids ks)) /\ Forall CacheOK ks.
Proof.
  unfold CacheOK. cbn [cnodes]. split.
  - intro H. split.
    + intros b Hb. rewrite <- is_openT_erase with (l := l) (i := i) (o := o) (c := c).
      apply H; [left; reflexivity | exact Hb].
    + apply Forall_forall. intros k Hk n Hn. apply H. right. apply in_flat_map. eauto.
  - intros [H1 H2] n [<-|Hn] b Hb.
    + rewrite is_openT_erase. apply H1. exact Hb.
    + apply in_flat_map in Hn as (k & Hk & Hn). rewrite Forall_forall in H2. eapply H2; eauto.
Qed.

Lemma shape_erase l i o c op ks :
  shape_ok (erase (CNode l i o c op ks)) = true <->
  (op = true -> ks = []) /\ Forall (fun k => shape_ok (erase k) = true) ks.
Proof.
  cbn [erase]. split.
  - intro H. apply shape_ok_unfold in H as [H1 H2]. split.
    + intro Ho. specialize (H1 Ho). destruct ks; [reflexivity | discriminate].
    + apply Forall_map in H2. exact H2.
  - intros [H1 H2]. cbn [shape_ok]. apply andb_true_iff. split.
    + destruct op; [rewrite (H1 eq_refl); reflexivity | reflexivity].
    + apply forallb_forall. intros x Hx. apply in_map_iff in Hx as (k & <- & Hk).
      rewrite Forall_forall in H2. auto.
Qed.

Lemma Inv_unfold l i o c op ks :
  Inv (CNode l i o c op ks) <->
  (forall b, c = Some b -> b = (op || open_kids ks)) /\ (op = true -> ks = []) /\ Forall Inv ks.
Proof.
  unfold Inv. rewrite CacheOK_unfold, shape_erase. split.
  - intros [[H1 H2] [H3 H4]]. repeat split; try assumption.
    rewrite Forall_forall in *. intros k Hk. split; auto.
  - intros (H1 & H3 & H). repeat split; try assumption;
      rewrite Forall_forall in *; intros k Hk; apply (H k Hk).
Qed.

Lemma Inv_cache t b : Inv t -> cc t = Some b -> b = is_openT (erase t).
Proof. intros [H _] Hb. apply H; [destruct t; left; reflexivity | exact Hb]. Qed.

(* ---- the constructor ---- *)
Lemma open_kids_true ks k : In k ks -> is_openT (erase k) = true -> open_kids ks = true.
Proof. intros Hin Hk. apply existsb_exists. eauto. Qed.

Lemma mk_Inv l ch i o p :
  (forall ks, ch = Some ks -> Forall Inv ks /\ forall b, p = Some b -> b = open_kids ks) ->
  Inv (mk l ch i o p).
Proof.
  intro H. destruct ch as [ks|]; cbn [mk].
  - destruct (H ks eq_refl) as [HF Hp]. destruct ks as [|k ks'].
    + apply Inv_unfold. split; [|split]; [intros b Hb; inversion Hb; reflexivity | intro; reflexivity | constructor].
    + apply Inv_unfold. split; [|split]; [|intro Hf; discriminate Hf|assumption].
      intros b Hb. cbn [orb].
      destruct (existsb (fun k0 => is_true (cc k0)) (k :: ks')) eqn:E.
      * inversion Hb; subst b. apply existsb_exists in E as (x & Hx & Hc).
        symmetry. apply open_kids_true with x; [assumption|].
        rewrite Forall_forall in HF. destruct (cc x) as [[|]|] eqn:Ex; try discriminate.
        symmetry. apply Inv_cache; [apply HF; assumption | assumption].
      * apply Hp. assumption.
  - apply Inv_unfold. split; [|split]; [intros b Hb; inversion Hb; reflexivity | intro; reflexivity | constructor].
Qed.

Lemma erase_mk l ch i o p :
  erase (mk l ch i o p) = Node l i (match ch with None => true | Some _ => false end)
                               (map erase (match ch with None => [] | Some ks => ks end)).
Proof. destruct ch as [[|k ks]|]; reflexivity. Qed.

(* ---- __compute_is_open ---- *)
Lemma existsb_flat_map {A B} (f : B -> bool) (g : A -> list B) l :
  existsb f (flat_map g l) = existsb (fun x => existsb f (g x)) l.
Proof. induction l as [|x l IH]; simpl; [reflexivity | rewrite existsb_app, IH; reflexivity]. Qed.

Lemma existsb_ext_Forall {A} (f g : A -> bool) l :
  Forall (fun x => f x = g x) l -> existsb f l = existsb g l.
Proof. induction 1 as [|x l Hx _ IH]; simpl; [reflexivity | rewrite Hx, IH; reflexivity]. Qed.

Lemma cnodes_unfold t : cnodes t = t :: flat_map cnodes (cks t).
Proof. destruct t; reflexivity. Qed.

Lemma csize_unfold t : csize t = S (list_sum (map csize (cks t))).
Proof. destruct t; reflexivity. Qed.

Lemma cio_loop_spec : forall fuel stack,
  Forall (fun n => shape_ok (erase n) = true) stack ->
  list_sum (map csize stack) <= fuel ->
  cio_loop fuel stack = Some (existsb hit (flat_map cnodes stack)).
Proof.
  induction fuel as [|f IH]; intros stack Hs Hf.
  - destruct stack as [|n rest]; [reflexivity|]. cbn [map] in Hf. rewrite csize_unfold in Hf.
    simpl in Hf. lia.
  - destruct stack as [|n rest]; [reflexivity|]. cbn [cio_loop flat_map].
    rewrite cnodes_unfold. cbn [app existsb].
    destruct (hit n) eqn:Eh; [reflexivity|]. cbn [orb].
    inversion Hs as [|x y Hn Hrest]; subst.
    assert (Ek : (if copn n then [] else cks n) = cks n).
    { destruct n as [l i o c op ks]. apply shape_erase in Hn as [Hn _]. cbn [copn cks].
      destruct op; [rewrite (Hn eq_refl); reflexivity | reflexivity]. }
    rewrite Ek. rewrite IH.
    + rewrite flat_map_app. reflexivity.
    + apply Forall_app. split; [|assumption].
      destruct n as [l i o c op ks]. apply shape_erase in Hn as [_ Hn]. exact Hn.
    + rewrite map_app, list_sum_app. cbn [map] in Hf. rewrite csize_unfold in Hf.
      assert (E : forall a l0, list_sum (a :: l0) = a + list_sum l0) by reflexivity.
      rewrite E in Hf. lia.
Qed.

Lemma hit_scan t : Inv t -> existsb hit (cnodes t) = is_openT (erase t).
Proof.
  induction t as [l i o c op ks IH] using ctree_ind'. intro HI.
  apply Inv_unfold in HI as (Hc & Hsh & HF).
  rewrite is_openT_erase. cbn [cnodes existsb]. rewrite existsb_flat_map.
  assert (E : existsb (fun x => existsb hit (cnodes x)) ks = open_kids ks).
  { unfold open_kids. apply existsb_ext_Forall.
    rewrite Forall_forall in *. intros x Hx. apply IH; auto. }
  rewrite E. unfold hit; cbn [cc copn]. destruct c as [[|]|]; cbn [is_true orb]; try reflexivity.
  apply (Hc true eq_refl).
Qed.

Theorem compute_is_open_correct t : Inv t -> compute_is_open t = Some (is_openT (erase t)).
Proof.
  intro HI. unfold compute_is_open. destruct (copn t) eqn:Eo.
  - destruct t as [l i o c op ks]. cbn [copn] in Eo. subst. rewrite is_openT_erase. reflexivity.
  - rewrite cio_loop_spec.
    + cbn [flat_map]. rewrite app_nil_r. rewrite hit_scan by assumption. reflexivity.
    + constructor; [apply HI | constructor].
    + simpl. lia.
Qed.

(* the lazily cached answer equals the fresh recomputation *)
Theorem is_open_cached_correct t : Inv t ->
  match cc t with Some b => Some b | None => compute_is_open t end = Some (is_openT (erase t)).
Proof.
  intro HI. destruct (cc t) as [b|] eqn:E; [f_equal; apply Inv_cache; assumption|].
  apply compute_is_open_correct. assumption.
Qed.

(* ---- writing a slot (at all aliases) ---- *)
Lemma fill_erase o t : erase (fill o t) = erase t.
Proof.
  induction t as [l i o' c op ks IH] using ctree_ind'. cbn [fill erase]. f_equal.
  rewrite map_map. apply map_ext_Forall. exact IH.
Qed.

Lemma open_kids_fill o ks : open_kids (map (fill o) ks) = open_kids ks.
Proof.
  unfold open_kids. induction ks as [|k ks IH]; [reflexivity|]. cbn [map existsb].
  rewrite fill_erase, IH. reflexivity.
Qed.

Lemma fill_Inv o t : Inv t -> Inv (fill o t).
Proof.
  induction t as [l i o' c op ks IH] using ctree_ind'. intro HI.
  pose proof (compute_is_open_correct _ HI) as Hcomp.
  apply Inv_unfold in HI as (Hc & Hsh & HF). cbn [fill]. apply Inv_unfold. split; [|split].
  - intros b Hb. rewrite open_kids_fill.
    destruct (N.eqb o o'); [|auto]. destruct c as [b'|]; [auto|].
    rewrite Hcomp in Hb.
    assert (Eb : b = is_openT (erase (CNode l i o' None op ks))) by congruence.
    rewrite Eb. apply is_openT_erase.
  - intro Ho. rewrite (Hsh Ho). reflexivity.
  - apply Forall_map. rewrite Forall_forall in *. intros k Hk. apply IH; auto.
Qed.

(* ---- replace_path ---- *)
Lemma open_kids_app a b : open_kids (a ++ b) = open_kids a || open_kids b.
Proof. unfold open_kids. apply existsb_app. Qed.

Lemma In_firstn' {A} (x : A) : forall n l, In x (firstn n l) -> In x l.
Proof.
  induction n as [|n IH]; intros l H; [contradiction|]. destruct l as [|a l]; [contradiction|].
  destruct H as [H|H]; [left; assumption | right; apply IH; assumption].
Qed.

Lemma In_skipn' {A} (x : A) : forall n l, In x (skipn n l) -> In x l.
Proof.
  induction n as [|n IH]; intros l H; [assumption|]. destruct l as [|a l]; [contradiction|].
  right. apply IH. assumption.
Qed.

Lemma open_kids_cons k ks : open_kids (k :: ks) = is_openT (erase k) || open_kids ks.
Proof. reflexivity. Qed.

Lemma open_kids_false_iff ks :
  open_kids ks = false <-> forall k, In k ks -> is_openT (erase k) = false.
Proof.
  unfold open_kids. split.
  - intros H k Hk. destruct (is_openT (erase k)) eqn:E; [|reflexivity].
    assert (existsb (fun k0 => is_openT (erase k0)) ks = true) by (apply existsb_exists; eauto). congruence.
  - intro H. destruct (existsb _ ks) eqn:E; [|reflexivity].
    apply existsb_exists in E as (k & Hk & Ho). rewrite (H k Hk) in Ho. discriminate.
Qed.

Lemma open_kids_false_part ks i :
  open_kids ks = false -> open_kids (firstn i ks) = false /\ open_kids (skipn (S i) ks) = false.
Proof.
  intro H. rewrite open_kids_false_iff in H. split; apply open_kids_false_iff; intros k Hk; apply H.
  - eapply In_firstn'; eauto.
  - eapply In_skipn'; eauto.
Qed.

Lemma Forall_splice {A} (P : A -> Prop) l i x :
  Forall P l -> P x -> Forall P (firstn i l ++ x :: skipn (S i) l).
Proof.
  intros Hl Hx. apply Forall_app. split.
  - rewrite Forall_forall in *. intros y Hy. apply Hl. eapply In_firstn'; eauto.
  - constructor; [assumption|]. rewrite Forall_forall in *. intros y Hy. apply Hl.
    eapply In_skipn'; eauto.
Qed.

Theorem c_replace_Inv : forall p t r o t',
  Inv t -> Inv r -> c_replace t p r o = Ok t' -> Inv t'.
Proof.
  induction p as [|i p IH]; intros t r o t' Ht Hr H.
  - cbn in H. inversion H; subst. assumption.
  - destruct t as [l id ot c op ks]. cbn [c_replace copn cks cl ci] in H.
    destruct op; [discriminate|].
    destruct (nth_error ks i) as [k|] eqn:Ek; [|discriminate].
    destruct (c_replace k p r (N.succ o)) as [k'|e] eqn:Er; [|discriminate].
    assert (E : t' = mk l (Some (firstn i ks ++ k' :: skipn (S i) ks)) id o
                        (parent_flag k' (CNode l id ot c false ks))) by congruence.
    subst t'. clear H.
    apply Inv_unfold in Ht as (Hc & _ & HF).
    assert (Hk : Inv k) by (rewrite Forall_forall in HF; apply HF; eapply nth_error_In; eauto).
    assert (Hk' : Inv k') by (exact (IH k r (N.succ o) k' Hk Hr Er)).
    apply mk_Inv. intros ks0 E0.
    assert (E1 : ks0 = firstn i ks ++ k' :: skipn (S i) ks) by congruence. subst ks0. clear E0. split.
    + apply Forall_splice; assumption.
    + intros b Hb. unfold parent_flag in Hb. cbn [cc] in Hb.
      rewrite open_kids_app, open_kids_cons.
      destruct (is_true (cc k') || copn k') eqn:E1.
      * inversion Hb; subst b. symmetry.
        assert (Ho : is_openT (erase k') = true).
        { apply orb_true_iff in E1 as [E1|E1].
          - destruct (cc k') as [[|]|] eqn:Ec; try discriminate. symmetry. apply Inv_cache; assumption.
          - destruct k' as [l' i' o' c' op' ks']. cbn [copn] in E1. subst. rewrite is_openT_erase. reflexivity. }
        rewrite Ho. cbn. apply orb_true_r.
      * destruct (is_false (cc k') && is_false c) eqn:E2; [|discriminate].
        inversion Hb; subst b. apply andb_true_iff in E2 as [E2 E3].
        destruct (cc k') as [[|]|] eqn:Ec; try discriminate.
        destruct c as [[|]|]; try discriminate.
        assert (Hk'o : is_openT (erase k') = false) by (symmetry; apply Inv_cache; assumption).
        assert (Hks : open_kids ks = false) by (symmetry; apply (Hc false eq_refl)).
        destruct (open_kids_false_part ks i Hks) as [Ha Hb']. rewrite Ha, Hk'o, Hb'. reflexivity.
Qed.

(* replace_path on cached trees is replace_path on the underlying trees *)
Theorem c_replace_erase : forall p t r o,
  match c_replace t p r o with
  | Ok t' => replace_path (erase t) p (erase r) = Ok (erase t')
  | Raise e => replace_path (erase t) p (erase r) = Raise e
  end.
Proof.
  induction p as [|i p IH]; intros t r o; [reflexivity|].
  destruct t as [l id ot c op ks]. cbn [c_replace replace_path copn cks cl ci erase opn kids lbl tid].
  destruct op; [reflexivity|]. rewrite nth_error_map.
  destruct (nth_error ks i) as [k|] eqn:Ek; cbn [option_map]; [|reflexivity].
  specialize (IH k r (N.succ o)). destruct (c_replace k p r (N.succ o)) as [k'|e]; rewrite IH; [|reflexivity].
  rewrite erase_mk. f_equal. f_equal. rewrite map_app, firstn_map. cbn [map]. rewrite skipn_map. reflexivity.
Qed.

(* ---- descent keeps the invariant ---- *)
Lemma c_descend_Inv : forall p t s, Inv t -> c_descend t p = Ok s -> Inv s.
Proof.
  induction p as [|i p IH]; intros t s Ht H; [cbn in H; inversion H; subst; assumption|].
  destruct t as [l id ot c op ks]. cbn [c_descend copn cks] in H. destruct op; [discriminate|].
  destruct (nth_error ks i) as [k|] eqn:Ek; [|discriminate].
  apply Inv_unfold in Ht as (_ & _ & HF). rewrite Forall_forall in HF.
  eapply IH; [apply HF; eapply nth_error_In; eauto | exact H].
Qed.

(* ------------------------------------------------------------------ *)
(* histories                                                           *)
(* ------------------------------------------------------------------ *)
Definition StInv (st : state) : Prop := Forall Inv (regs st).

Lemma StInv_nth st k t : StInv st -> nth_error (regs st) k = Some t -> Inv t.
Proof. intros H Hk. unfold StInv in H. rewrite Forall_forall in H. apply H. eapply nth_error_In; eauto. Qed.

Lemma StInv_add st ts o : StInv st -> Forall Inv ts -> StInv {| regs := regs st ++ ts; noid := o |}.
Proof. intros H Ht. unfold StInv. cbn [regs]. apply Forall_app. split; assumption. Qed.

Lemma st_is_open_Inv st k r st' : StInv st -> st_is_open st k = Some (r, st') -> StInv st'.
Proof.
  intros H Hs. unfold st_is_open in Hs.
  destruct (nth_error (regs st) k) as [t|]; [|inversion Hs; subst; assumption].
  destruct (cc t); [inversion Hs; subst; assumption|].
  destruct (compute_is_open t); [|discriminate]. inversion Hs; subst. unfold StInv. cbn [regs].
  apply Forall_map. unfold StInv in H. rewrite Forall_forall in *. intros x Hx. apply fill_Inv. auto.
Qed.

(* the answer of is_open() in a history is the recomputed value *)
Theorem st_is_open_answer st k b st' t : StInv st -> nth_error (regs st) k = Some t ->
  st_is_open st k = Some (Ok b, st') -> b = is_openT (erase t).
Proof.
  intros H Hk Hs. unfold st_is_open in Hs. rewrite Hk in Hs.
  pose proof (is_open_cached_correct t (StInv_nth _ _ _ H Hk)) as Hc.
  destruct (cc t) as [b'|]; [inversion Hs; subst; congruence|].
  rewrite Hc in Hs. inversion Hs. reflexivity.
Qed.

Lemma st_replace_Inv st src p rep retain r st' :
  StInv st -> st_replace st src p rep retain = Some (r, st') -> StInv st'.
Proof.
  intros H Hs. unfold st_replace in Hs.
  destruct (nth_error (regs st) src) as [t|] eqn:Et; [|inversion Hs; subst; assumption].
  destruct (nth_error (regs st) rep) as [rt|] eqn:Er; [|inversion Hs; subst; assumption].
  destruct (c_descend t p) as [old|e] eqn:Ed; [|inversion Hs; subst; assumption].
  destruct retain.
  - destruct (st_is_open st rep) as [[[b|e] st1]|] eqn:Eo; [| inversion Hs; subst; assumption | discriminate].
    pose proof (st_is_open_Inv _ _ _ _ H Eo) as H1.
    destruct (nth_error (regs st1) src) as [t1|] eqn:Et1; [|inversion Hs; subst; assumption].
    destruct (nth_error (regs st1) rep) as [r1|] eqn:Er1; [|inversion Hs; subst; assumption].
    pose proof (StInv_nth _ _ _ H1 Er1) as Hr1.
    assert (Hb : b = is_openT (erase rt)) by (exact (st_is_open_answer st rep b st1 rt H Er Eo)).
    assert (Here : erase r1 = erase rt).
    { unfold st_is_open in Eo. rewrite Er in Eo. destruct (cc rt).
      - inversion Eo; subst. congruence.
      - destruct (compute_is_open rt); [|discriminate]. inversion Eo; subst. cbn [regs] in Er1.
        rewrite nth_error_map, Er in Er1. cbn in Er1. inversion Er1. apply fill_erase. }
    assert (Hnew : Inv (mk (cl r1) (pych r1) (ci old) (noid st1) (Some b))).
    { apply mk_Inv. intros ks Hks. unfold pych in Hks. destruct r1 as [l1 i1 o1 c1 op1 ks1].
      cbn [copn cks] in Hks. destruct op1; [discriminate|]. inversion Hks; subst ks.
      apply Inv_unfold in Hr1 as (_ & _ & HF). split; [assumption|].
      intros b' Hb'. inversion Hb'; subst b'. rewrite Hb, <- Here, is_openT_erase. reflexivity. }
    destruct (c_replace t1 p _ _) as [t'|e] eqn:Ec; inversion Hs; subst; [|assumption].
    apply StInv_add; [assumption|]. constructor; [|constructor].
    eapply c_replace_Inv; [| |exact Ec]; [eapply StInv_nth; eauto | assumption].
  - destruct (c_replace t p rt (noid st)) as [t'|e] eqn:Ec; inversion Hs; subst; [|assumption].
    apply StInv_add; [assumption|]. constructor; [|constructor].
    eapply c_replace_Inv; [| |exact Ec]; eapply StInv_nth; eauto.
Qed.

Lemma subst_loop_Inv : forall m result o r o',
  Forall (fun ir => Inv (snd ir)) m -> Inv result -> subst_loop m result o = Ok (r, o') -> Inv r.
Proof.
  induction m as [|[i repl] m IH]; intros result o r o' Hm Hres H; cbn [subst_loop] in H.
  - inversion H; subst. assumption.
  - inversion Hm as [|x y Hrepl Hm']; subst. cbn [snd] in Hrepl.
    destruct (find_node_c result i) as [p|]; [|exact (IH result o r o' Hm' Hres H)].
    destruct (c_replace result p repl o) as [r'|e] eqn:Ec; [|discriminate].
    exact (IH r' (bump o p) r o' Hm' (c_replace_Inv _ _ _ _ _ Hres Hrepl Ec) H).
Qed.

Lemma dict_set_Forall {V} (P : N * V -> Prop) d k v :
  Forall P d -> P (k, v) -> Forall P (dict_set d k v).
Proof.
  induction d as [|[k' v'] d IH]; intros Hd Hp; cbn [dict_set]; [constructor; auto|].
  inversion Hd; subst. destruct (N.eqb k k'); constructor; auto.
Qed.

Lemma id_subst_map_Inv pairs :
  Forall (fun kr => Inv (snd kr)) pairs -> Forall (fun ir : N * ctree => Inv (snd ir)) (id_subst_map pairs).
Proof.
  intro H. unfold id_subst_map.
  assert (G : forall l acc, Forall (fun kr : ctree * ctree => Inv (snd kr)) l ->
                            Forall (fun ir : N * ctree => Inv (snd ir)) acc ->
                            Forall (fun ir : N * ctree => Inv (snd ir))
                              (fold_left (fun m kr =>
                                 if forallb (fun kr' : ctree * ctree => N.eqb (ci (snd kr')) (ci (fst kr))
                                     || match find_node_c (snd kr') (ci (fst kr)) with None => true | Some _ => false end) pairs
                                 then dict_set m (ci (fst kr)) (snd kr) else m) l acc)).
  { induction l as [|kr l IHl]; intros acc Hl Hacc; [exact Hacc|]. cbn [fold_left].
    inversion Hl; subst. apply IHl; [assumption|].
    destruct (forallb _ pairs); [apply dict_set_Forall; assumption | assumption]. }
  apply G; [assumption | constructor].
Qed.

Lemma st_subst_Inv st src entries r st' :
  StInv st -> st_subst st src entries = Some (r, st') -> StInv st'.
Proof.
  intros H Hs. unfold st_subst in Hs.
  destruct (nth_error (regs st) src) as [t|] eqn:Et; [|inversion Hs; subst; assumption].
  destruct (negb (has_unique_ids t)); [inversion Hs; subst; assumption|].
  match type of Hs with context [existsb ?f ?l] => destruct (existsb f l); [inversion Hs; subst; assumption|] end.
  match type of Hs with context [subst_loop (id_subst_map ?ps) t (noid st)] =>
    assert (Hps : Forall (fun kr : ctree * ctree => Inv (snd kr)) ps) end.
  { apply Forall_forall. intros [key repl] Hin. apply in_flat_map in Hin as (x & Hx & Hin).
    destruct x as [kr|]; [|contradiction]. destruct Hin as [Hin|[]]. subst kr.
    apply in_map_iff in Hx as ([[kr kp] rr] & Hx & _).
    destruct (nth_error (regs st) kr) as [k|]; [|discriminate].
    destruct (nth_error (regs st) rr) as [r0|] eqn:Err; [|discriminate].
    destruct (c_descend k kp); [|discriminate]. inversion Hx; subst. cbn [snd].
    eapply StInv_nth; eauto. }
  destruct (subst_loop _ t (noid st)) as [[t' o']|e] eqn:El; inversion Hs; subst; [|assumption].
  apply StInv_add; [assumption|]. constructor; [|constructor].
  eapply subst_loop_Inv; [apply id_subst_map_Inv; exact Hps | eapply StInv_nth; eauto | exact El].
Qed.

Definition construct_list :=
  fix go (ks : list tree) (o : N) {struct ks} : list ctree * N :=
    match ks with
    | [] => ([], o)
    | k :: ks' => let '(k', o1) := construct k o in let '(r, o2) := go ks' o1 in (k' :: r, o2)
    end.

Lemma construct_unfold l i op ks o :
  construct (Node l i op ks) o =
  let '(ks', o1) := construct_list ks o in (mk l (if op then None else Some ks') i o1 None, N.succ o1).
Proof. reflexivity. Qed.

Lemma construct_Inv t : forall o, Inv (fst (construct t o)).
Proof.
  induction t as [l i op ks IH] using tree_ind'. intro o. rewrite construct_unfold.
  assert (G : forall o0, Forall Inv (fst (construct_list ks o0))).
  { clear o. induction IH as [|k ks' Hk _ IHks]; intro o0; cbn [construct_list]; [constructor|].
    specialize (Hk o0). destruct (construct k o0) as [k' o1]. specialize (IHks o1).
    destruct (construct_list ks' o1) as [r o2]. cbn [fst] in *. constructor; assumption. }
  specialize (G o). destruct (construct_list ks o) as [ks' o1]. cbn [fst] in *.
  apply mk_Inv. intros ks0 E. destruct op; [discriminate|]. inversion E; subst. split; [assumption|discriminate].
Qed.

Definition new_ids_list :=
  fix go (ks : list ctree) (nid o : N) {struct ks} : list ctree * (N * N) :=
    match ks with
    | [] => ([], (nid, o))
    | k :: ks' => let '(k', (n1, o1)) := c_new_ids k nid o in
                  let '(r, (n2, o2)) := go ks' n1 o1 in (k' :: r, (n2, o2))
    end.

Lemma c_new_ids_unfold l i0 o0 c op ks nid o :
  c_new_ids (CNode l i0 o0 c op ks) nid o =
  let '(ks', (nid1, o1)) := new_ids_list ks nid o in
  (mk l (if op then None else Some ks') nid1 o1 None, (N.succ nid1, N.succ o1)).
Proof. reflexivity. Qed.

Lemma c_new_ids_Inv t : forall nid o, Inv (fst (c_new_ids t nid o)).
Proof.
  induction t as [l i0 o0 c op ks IH] using ctree_ind'. intros nid o. rewrite c_new_ids_unfold.
  assert (G : forall n0 o1, Forall Inv (fst (new_ids_list ks n0 o1))).
  { clear nid o. induction IH as [|k ks' Hk _ IHks]; intros n0 o1; cbn [new_ids_list]; [constructor|].
    specialize (Hk n0 o1). destruct (c_new_ids k n0 o1) as [k' [n1 o2]]. specialize (IHks n1 o2).
    destruct (new_ids_list ks' n1 o2) as [r [n2 o3]]. cbn [fst] in *. constructor; assumption. }
  specialize (G nid o). destruct (new_ids_list ks nid o) as [ks' [n1 o1]]. cbn [fst] in *.
  apply mk_Inv. intros ks0 E. destruct op; [discriminate|]. inversion E; subst. split; [assumption|discriminate].
Qed.

(* operations covered by the proved invariant: everything except expand_one_step *)
Definition no_expand (o : op) : bool := match o with OExpand _ _ _ => false | _ => true end.

Lemma step_Inv st o r st' : no_expand o = true -> StInv st -> step st o = Some (r, st') -> StInv st'.
Proof.
  intros Hne H Hs. destruct o as [t|k|src p rep retain|src entries|src nid|src g nid|src p]; cbn [step] in Hs;
    try discriminate Hne.
  - unfold st_construct in Hs. pose proof (construct_Inv t (noid st)) as Hc.
    destruct (construct t (noid st)) as [t' o']. inversion Hs; subst.
    apply StInv_add; [assumption | constructor; [exact Hc | constructor]].
  - destruct (st_is_open st k) as [[[b|e] st1]|] eqn:E; [| |discriminate];
      inversion Hs; subst; eapply st_is_open_Inv; eauto.
  - eapply st_replace_Inv; eauto.
  - eapply st_subst_Inv; eauto.
  - unfold st_new_ids in Hs. destruct (nth_error (regs st) src) as [t|]; [|inversion Hs; subst; assumption].
    pose proof (c_new_ids_Inv t nid (noid st)) as Hc.
    destruct (c_new_ids t nid (noid st)) as [t' [n' o']]. inversion Hs; subst.
    apply StInv_add; [assumption | constructor; [exact Hc | constructor]].
  - destruct (nth_error (regs st) src) as [t|] eqn:Et; [|inversion Hs; subst; assumption].
    destruct (c_descend t p) as [s|e] eqn:Ed; inversion Hs; subst; [|assumption].
    apply StInv_add; [assumption | constructor; [|constructor]].
    eapply c_descend_Inv; [eapply StInv_nth; eauto | exact Ed].
Qed.

(* FULL STATEMENT (cache_inv): for every history ops, run_ops init_state ops = Some st -> every cached
   flag of every tree of st equals the recomputed value.  Proved below for histories without
   expand_one_step (its model composes mk / c_descend / c_replace, all covered by the lemmas above;
   the missing part is the bookkeeping through itertools.product).  *)
Theorem cache_inv_partial : forall ops st st',
  forallb no_expand ops = true -> StInv st -> run_ops st ops = Some st' ->
  forall t, In t (regs st') -> CacheOK t.
Proof.
  induction ops as [|o ops IH]; intros st st' Hne H Hr t Ht.
  - cbn in Hr. inversion Hr; subst. unfold StInv in H. rewrite Forall_forall in H. apply H. assumption.
  - cbn [run_ops] in Hr. cbn [forallb] in Hne. apply andb_true_iff in Hne as [Ho Hne].
    destruct (step st o) as [[r st1]|] eqn:Es; [|discriminate].
    eapply IH; [exact Hne | eapply step_Inv; eauto | exact Hr | exact Ht].
Qed.

Lemma init_StInv : StInv init_state.
Proof. constructor. Qed.

(* non-vacuity: a history with a construct, a deep replace_path with retain_id, substitute, is_open *)
Definition ex_history : list op :=
  [OConstruct (Node [60;97;62]%N 3 false [Node [60;98;62]%N 1 true []; Node [120]%N 2 false []]);
   OConstruct (Node [121]%N 4 false []);
   OReplace 0 [0] 1 true; OIsOpen 2; OSubst 0 [(0, [1], 0)]; ONewIds 3 10; OIsOpen 0].
Example ex_history_runs :
  forallb no_expand ex_history = true /\
  exists st, run_ops init_state ex_history = Some st /\ length (regs st) = 5.
Proof. split; [reflexivity|]. eexists. split; vm_compute; reflexivity. Qed.
