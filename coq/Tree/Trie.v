(* Model of isla/trie.py: the key codec path_to_trie_key / trie_key_to_path, the datrie.Trie
   behind it (as observed: an ordered map over the alphabet chr(0)..chr(29) that SILENTLY
   DROPS a key containing any other character), and SubtreesTrie with its root_path
   arithmetic.  Characters of keys are code points (nat).  No proofs here (TrieFacts.v). *)
From ISLA Require Export TreeOps.

Definition tkey := list nat.

(* chr(1) + "".join(chr(i + 2) for i in path)   (both branches of the code give this) *)
Definition path_to_trie_key (p : path) : tkey := 1 :: map (fun i => i + 2) p.

(* tuple(ord(c) - 2 for c in key if ord(c) != 1); RuntimeError unless key starts with chr(1).
   (ord(c) - 2 for c = chr(0) would be negative; chr(0) never occurs in a key built by
   path_to_trie_key, the model truncates at 0 there) *)
Definition key_body (k : tkey) : path := map (fun c => c - 2) (filter (fun c => negb (c =? 1)) k).
Definition trie_key_to_path (k : tkey) : res path :=
  match k with
  | c :: _ => if c =? 1 then Ok (key_body k) else Raise RuntimeErr
  | [] => Raise RuntimeErr
  end.

(* ---- datrie.Trie([chr(i) for i in range(30)]) ---- *)
Definition alphabet_size := 30.
Definition alphabet_ok (k : tkey) : bool := forallb (fun c => c <? alphabet_size) k.

Fixpoint key_eqb (a b : tkey) : bool :=
  match a, b with
  | [], [] => true
  | x :: a', y :: b' => (x =? y) && key_eqb a' b'
  | _, _ => false
  end.

(* strict lexicographic order of keys = iteration order of datrie *)
Fixpoint key_ltb (a b : tkey) : bool :=
  match a, b with
  | [], [] => false
  | [], _ :: _ => true
  | _ :: _, [] => false
  | x :: a', y :: b' => if x <? y then true else if y <? x then false else key_ltb a' b'
  end.

Section DTrie.
  Variable V : Type.
  Definition dtrie := list (tkey * V).

  Fixpoint dt_insert (tr : dtrie) (k : tkey) (v : V) : dtrie :=
    match tr with
    | [] => [(k, v)]
    | (k', v') :: tr' =>
        if key_eqb k k' then (k, v) :: tr'
        else if key_ltb k k' then (k, v) :: (k', v') :: tr'
        else (k', v') :: dt_insert tr' k v
    end.

  (* trie[key] = value : keys with a character outside the alphabet are not stored, no error *)
  Definition dt_set (tr : dtrie) (k : tkey) (v : V) : dtrie :=
    if alphabet_ok k then dt_insert tr k v else tr.

  Fixpoint dt_get (tr : dtrie) (k : tkey) : res V :=
    match tr with
    | [] => Raise KeyErr
    | (k', v) :: tr' => if key_eqb k k' then Ok v else dt_get tr' k
    end.

  Fixpoint strip_prefix (pre k : tkey) : option tkey :=
    match pre, k with
    | [], _ => Some k
    | x :: pre', y :: k' => if x =? y then strip_prefix pre' k' else None
    | _ :: _, [] => None
    end.

  (* trie.suffixes(prefix): suffixes of the stored keys that start with prefix, in key order *)
  Fixpoint dt_suffixes (tr : dtrie) (pre : tkey) : list tkey :=
    match tr with
    | [] => []
    | (k, _) :: tr' =>
        match strip_prefix pre k with
        | Some s => s :: dt_suffixes tr' pre
        | None => dt_suffixes tr' pre
        end
    end.
End DTrie.
Arguments dt_insert {V}. Arguments dt_set {V}. Arguments dt_get {V}. Arguments dt_suffixes {V}.

(* ---- SubtreesTrie ---- *)
Record subtrie := { st_trie : dtrie (path * tree); st_root : tkey }.

(* tree.trie() = SubtreesTrie({path: (path, tree) for path, tree in self.paths()}) ; root_path = "" *)
Definition trie_of (t : tree) : subtrie :=
  {| st_trie := fold_left (fun tr pt => dt_set tr (path_to_trie_key (fst pt)) pt) (nodes t) [];
     st_root := [] |}.

Definition get_subtrie (st : subtrie) (q : path) : subtrie :=
  {| st_trie := st_trie st; st_root := path_to_trie_key q |}.

(* trie[path] *)
Definition st_getitem (st : subtrie) (p : path) : res (path * tree) :=
  dt_get (st_trie st) (path_to_trie_key p).

(* keys(): trie_key_to_path(chr(1) + suffix): the argument starts with chr(1), never raises *)
Definition st_keys (st : subtrie) : list path :=
  map (fun suf => key_body (1 :: suf)) (dt_suffixes (st_trie st) (st_root st)).

(* value[0][max(len(self.root_path) - 1, 0) :]   (current /repo, since fix 0065353): [fixed] = true.
   [fixed] = false is the code BEFORE that fix (value[0][len(self.root_path) - 1 :], which for
   root_path = "" is the Python slice [-1:]); it is kept only to state the history of the defect
   (TrieFacts.root_items_defect_history).  The check always evaluates the model with fixed = true. *)
Definition cut_value_path (fixed : bool) (root : tkey) (p : path) : path :=
  match root with
  | [] => if fixed then p else skipn (length p - 1) p
  | _ :: r => skipn (length r) p
  end.

Fixpoint res_all {A} (l : list (res A)) : res (list A) :=
  match l with
  | [] => Ok []
  | Ok a :: l' => match res_all l' with Ok r => Ok (a :: r) | Raise e => Raise e end
  | Raise e :: _ => Raise e
  end.

Definition st_values (fixed : bool) (st : subtrie) : res (list (path * tree)) :=
  res_all (map (fun suf =>
                  match dt_get (st_trie st) (st_root st ++ suf) with
                  | Ok v => Ok (cut_value_path fixed (st_root st) (fst v), snd v)
                  | Raise e => Raise e
                  end) (dt_suffixes (st_trie st) (st_root st))).

Definition st_items (fixed : bool) (st : subtrie) : res (list (path * (path * tree))) :=
  res_all (map (fun suf =>
                  match dt_get (st_trie st) (st_root st ++ suf) with
                  | Ok v => Ok (key_body (1 :: suf), (cut_value_path fixed (st_root st) (fst v), snd v))
                  | Raise e => Raise e
                  end) (dt_suffixes (st_trie st) (st_root st))).

(* known-finding classes (guards of the _partial theorems) *)
(* K_wide: some node has more than 28 children (child index 28 needs chr(30), outside the alphabet) *)
Definition K_wide (t : tree) : bool := 28 <? max_degree t.
(* K_rootitems (class of the FIXED finding trie-root-items, kept for the record): items()/values() asked of
   the root view (root_path = "") of a tree that has a node at depth >= 2 *)
Definition K_rootitems (t : tree) : bool := existsb (fun pt => 1 <? length (fst pt)) (nodes t).
