(* C16 (proof extension): next_path enumerates the paths of a tree in pre-order;
   leaves / open_leaves are the filters of the node list they claim to be.
   Model: TreeOps.next_path (with num_children's TypeError / IndexError and the final assertion). *)
From ISLA Require Import Tree PathFacts TreeFacts TreeOps TreeOpsFacts.
From Coq Require Import Sorted Lia.

(* ------------------------------------------------------------------ *)
(* list splitting                                                      *)
(* ------------------------------------------------------------------ *)
Lemma split_uniq {A} : forall (pre pre' : list A) x x' rest rest',
  pre ++ x :: rest = pre' ++ x' :: rest' -> length rest = length rest' ->
  pre = pre' /\ x = x' /\ rest = rest'.
Proof.
  induction pre as [|a pre IH]; intros [|a' pre'] x x' rest rest' H Hl; cbn [app] in H.
  - inversion H; subst. auto.
  - inversion H; subst. rewrite app_length in Hl. cbn [length] in Hl. lia.
  - inversion H; subst. rewrite app_length in Hl. cbn [length] in Hl. lia.
  - inversion H as [[Ha Ht]]. destruct (IH pre' x x' rest rest' Ht Hl) as (-> & -> & ->). auto.
Qed.

Lemma split_cmp {A} : forall (c pre : list A) a p' x rest,
  c ++ a :: p' = pre ++ x :: rest ->
  (exists m, pre = c ++ a :: m /\ p' = m ++ x :: rest)
  \/ (c = pre /\ a = x /\ p' = rest)
  \/ (exists m, c = pre ++ x :: m /\ rest = m ++ a :: p').
Proof.
  induction c as [|c0 c IH]; intros [|b pre] a p' x rest H; cbn [app] in H.
  - inversion H; subst. right. left. auto.
  - inversion H; subst. left. exists pre. auto.
  - inversion H; subst. right. right. exists c. auto.
  - inversion H as [[Hb Ht]]. destruct (IH pre a p' x rest Ht) as [(m & -> & ->)|[(-> & -> & ->)|(m & -> & ->)]].
    + left. exists m. auto.
    + right. left. auto.
    + right. right. exists m. auto.
Qed.

Lemma split_at {A} (d : A) : forall n (p : list A), n < length p ->
  p = firstn n p ++ nth n p d :: skipn (S n) p.
Proof.
  induction n as [|n IH]; intros [|a p] Hn; cbn [length] in Hn; try lia; [reflexivity|].
  cbn [firstn nth skipn app]. f_equal. apply IH. lia.
Qed.

(* ------------------------------------------------------------------ *)
(* validity of sibling paths                                           *)
(* ------------------------------------------------------------------ *)
Lemma valid_snoc t pre s x : subtree t pre = Some s -> (valid t (pre ++ [x]) <-> x < length (kids s)).
Proof.
  intro Hs. unfold valid. rewrite subtree_app, Hs. cbn [subtree].
  destruct (nth_error (kids s) x) as [c|] eqn:E.
  - split; [intros _; apply nth_error_Some; congruence | intros _; discriminate].
  - apply nth_error_None in E. split; [intro H; contradiction H; reflexivity | lia].
Qed.

Lemma valid_snoc_le t c a b : valid t (c ++ [b]) -> a <= b -> valid t (c ++ [a]).
Proof.
  intros Hv Hle. assert (Hc : valid t c) by (eapply valid_prefix; exact Hv).
  unfold valid in Hc. destruct (subtree t c) as [s|] eqn:Es; [|contradiction Hc; reflexivity].
  rewrite (valid_snoc t c s) in * by assumption. lia.
Qed.

Lemma num_children_valid t p s : shape_ok t = true -> subtree t p = Some s ->
  num_children t p = Ok (length (kids s)).
Proof.
  intros Hsh Hs. unfold num_children. rewrite (py_get_subtree_valid t Hsh p s Hs).
  rewrite ckids_shape; [reflexivity | eapply subtree_shape_ok; eauto].
Qed.

(* ------------------------------------------------------------------ *)
(* the search for the next sibling                                     *)
(* ------------------------------------------------------------------ *)
(* no ancestor-or-self of p among the last m levels has a right sibling *)
Definition NRS (t : tree) (p : path) (m : nat) : Prop :=
  forall pre x rest, p = pre ++ x :: rest -> length rest < m -> ~ valid t (pre ++ [x + 1]).

Lemma no_right_beyond t p : NRS t p (length p) -> forall r, valid t r -> ~ doc_lt p r.
Proof.
  intros Hn r Hr (c & a & b & p' & r' & Hp & Hr' & Hab).
  apply (Hn c a p' Hp).
  - subst p. rewrite app_length. cbn [length]. lia.
  - apply valid_snoc_le with b; [|lia]. apply valid_prefix with r'. rewrite <- app_assoc. cbn [app].
    subst r. exact Hr.
Qed.

(* pre ++ [x+1] is the least path of the tree to the right of p = pre ++ x :: rest *)
Lemma next_least t pre x rest :
  valid t (pre ++ [x + 1]) -> NRS t (pre ++ x :: rest) (length rest) ->
  forall r, valid t r -> doc_lt (pre ++ x :: rest) r -> pre_le (pre ++ [x + 1]) r.
Proof.
  intros Hq Hn r Hr (c & a & b & p' & r' & Hp & Hr' & Hab).
  destruct (split_cmp c pre a p' x rest (eq_sym Hp)) as [(m & -> & ->)|[(-> & -> & ->)|(m & -> & ->)]].
  - right. right. exists c, a, b, (m ++ [x + 1]), r'. rewrite <- app_assoc. cbn [app]. auto.
  - destruct (Nat.eq_dec b (x + 1)) as [->|Hne].
    + destruct r' as [|z r'].
      * left. symmetry. exact Hr'.
      * right. left. exists z, r'. subst r. rewrite <- app_assoc. reflexivity.
    + right. right. exists pre, (x + 1), b, [], r'. repeat split; [assumption | lia].
  - exfalso. apply (Hn (pre ++ x :: m) a p').
    + rewrite <- app_assoc. reflexivity.
    + rewrite app_length. cbn [length]. lia.
    + apply valid_snoc_le with b; [|lia]. apply valid_prefix with r'. rewrite <- app_assoc. cbn [app].
      subst r. exact Hr.
Qed.

Lemma next_sibling_spec t p : shape_ok t = true -> valid t p ->
  forall k i, i + k = length p -> 1 <= i -> NRS t p (i - 1) ->
  (exists pre x rest, p = pre ++ x :: rest /\ next_sibling t p k i = Ok (Some (pre ++ [x + 1]))
                      /\ valid t (pre ++ [x + 1]) /\ NRS t p (length rest))
  \/ (next_sibling t p k i = Ok None /\ NRS t p (length p - 1)).
Proof.
  intros Hsh Hv. induction k as [|k IH]; intros i Hik Hi Hn; cbn [next_sibling].
  - right. split; [reflexivity|]. replace (length p - 1) with (i - 1) by lia. exact Hn.
  - assert (Hlt : length p - i < length p) by lia.
    pose proof (split_at 0 (length p - i) p Hlt) as Hsplit.
    set (pre := firstn (length p - i) p) in *. set (x := nth (length p - i) p 0) in *.
    set (rest := skipn (S (length p - i)) p) in *.
    assert (Hlr : length rest = i - 1).
    { assert (Hlp : length pre = length p - i) by (unfold pre; rewrite firstn_length; lia).
      pose proof (f_equal (@length nat) Hsplit) as Hl. rewrite app_length in Hl. cbn [length] in Hl. lia. }
    assert (Hpre : valid t pre).
    { apply valid_prefix with (x :: rest). rewrite <- Hsplit. exact Hv. }
    unfold valid in Hpre. destruct (subtree t pre) as [s|] eqn:Es; [|contradiction Hpre; reflexivity].
    rewrite (num_children_valid t pre s Hsh Es).
    destruct (Nat.ltb_spec (x + 1) (length (kids s))) as [Hx|Hx].
    + left. exists pre, x, rest. split; [exact Hsplit|]. split; [reflexivity|].
      split; [apply (valid_snoc t pre s); assumption|]. rewrite Hlr. exact Hn.
    + apply IH; [lia | lia |]. replace (S i - 1) with i by lia.
      intros pre' x' rest' Hp' Hl'. destruct (Nat.eq_dec (length rest') (i - 1)) as [He|Hne].
      * rewrite Hp' in Hsplit. destruct (split_uniq pre' pre x' x rest' rest Hsplit) as (-> & -> & _); [lia|].
        rewrite (valid_snoc t pre s) by assumption. lia.
      * apply (Hn pre' x' rest' Hp'). lia.
Qed.

(* ------------------------------------------------------------------ *)
(* next_path                                                           *)
(* ------------------------------------------------------------------ *)
(* the part of next_path after the "descend to the first child" test *)
Definition next_tail (t : tree) (pth : path) (skip_children : bool) : res (option path) :=
  match next_sibling t pth (length pth - 1) 1 with
  | Raise e => Raise e
  | Ok (Some q) => Ok (Some q)
  | Ok None =>
      match pth with
      | x :: _ =>
          match num_children t [] with
          | Raise e => Raise e
          | Ok n => if x + 1 <? n then Ok (Some [x + 1])
                    else if skip_children || path_eqb (last (map fst (nodes t)) []) pth
                         then Ok None else Raise AssertErr
          end
      | [] => if skip_children || path_eqb (last (map fst (nodes t)) []) pth
              then Ok None else Raise AssertErr
      end
  end.

Lemma next_path_unfold t pth skip :
  next_path t pth skip =
  match (if skip then Ok 0 else num_children t pth) with
  | Raise e => Raise e
  | Ok n0 => if negb skip && (0 <? n0) then Ok (Some (pth ++ [0])) else next_tail t pth skip
  end.
Proof. reflexivity. Qed.

Definition final_check (t : tree) (p : path) (skip : bool) : res (option path) :=
  if skip || path_eqb (last (map fst (nodes t)) []) p then Ok None else Raise AssertErr.

Lemma next_tail_spec t p skip : shape_ok t = true -> valid t p ->
  (exists q, next_tail t p skip = Ok (Some q) /\ valid t q /\ doc_lt p q
             /\ forall r, valid t r -> doc_lt p r -> pre_le q r)
  \/ ((forall r, valid t r -> ~ doc_lt p r) /\ next_tail t p skip = final_check t p skip).
Proof.
  intros Hsh Hv. unfold next_tail. destruct p as [|x0 rest0].
  - right. split; [intros r _ H; exact (doc_lt_nil_l r H) | reflexivity].
  - assert (H0 : NRS t (x0 :: rest0) (1 - 1)) by (intros pre x rest _ Hl; cbn in Hl; lia).
    destruct (next_sibling_spec t (x0 :: rest0) Hsh Hv (length (x0 :: rest0) - 1) 1) as
      [(pre & x & rest & Hp & Hns & Hq & Hn)|[Hns Hn]]; [cbn [length]; lia | lia | exact H0 | |].
    + left. exists (pre ++ [x + 1]). rewrite Hns. split; [reflexivity|]. split; [exact Hq|].
      rewrite Hp in *. split.
      * exists pre, x, (x + 1), rest, []. repeat split. lia.
      * apply next_least; assumption.
    + rewrite Hns. rewrite (num_children_valid t [] t Hsh eq_refl).
      destruct (Nat.ltb_spec (x0 + 1) (length (kids t))) as [Hx|Hx].
      * left. exists [x0 + 1]. split; [reflexivity|].
        assert (Hq : valid t ([] ++ [x0 + 1])) by (apply (valid_snoc t [] t); [reflexivity | exact Hx]).
        split; [exact Hq|]. split.
        -- exists [], x0, (x0 + 1), rest0, []. repeat split. lia.
        -- apply (next_least t [] x0 rest0 Hq).
           cbn [app length] in *. replace (length rest0) with (S (length rest0) - 1) by lia. exact Hn.
      * right. split; [|reflexivity]. apply no_right_beyond.
        intros pre x rest Hp Hl. cbn [length] in *.
        destruct (Nat.eq_dec (length rest) (length rest0)) as [He|Hne].
        -- destruct (split_uniq pre [] x x0 rest rest0) as (-> & -> & _); [symmetry; exact Hp | exact He|].
           rewrite (valid_snoc t [] t) by reflexivity. lia.
        -- apply (Hn pre x rest Hp). lia.
Qed.

(* SPEC (order-theoretic, independent of any list): the answer of next_path is the LEAST path of the
   tree that is greater than p in pre-order (skip_children: greater and not below p), and None
   exactly when there is no such path; no exception on a path of the tree *)
Definition after (skip : bool) (p r : path) : Prop := if skip then doc_lt p r else pre_lt p r.

Theorem next_path_least t p skip : shape_ok t = true -> valid t p ->
  (exists q, next_path t p skip = Ok (Some q) /\ valid t q /\ after skip p q
             /\ forall r, valid t r -> after skip p r -> pre_le q r)
  \/ (next_path t p skip = Ok None /\ forall r, valid t r -> ~ after skip p r).
Proof.
  intros Hsh Hv. rewrite next_path_unfold.
  destruct (next_tail_spec t p skip Hsh Hv) as [(q & Hq & Hvq & Hlt & Hleast)|[Hnone Hq]].
  - (* a sibling to the right exists *)
    destruct skip; cbn [negb andb after].
    + left. exists q. auto.
    + pose proof Hv as Hv'. unfold valid in Hv'. destruct (subtree t p) as [s|] eqn:Es; [|contradiction Hv'; reflexivity].
      rewrite (num_children_valid t p s Hsh Es). destruct (Nat.ltb_spec 0 (length (kids s))) as [Hk|Hk].
      * left. exists (p ++ [0]). split; [reflexivity|]. split; [apply (valid_snoc t p s); assumption|].
        split; [left; exists 0, []; reflexivity|].
        intros r Hr [(a & r' & ->)|Hd].
        -- destruct a as [|a].
           ++ destruct r' as [|z r']; [left; reflexivity|]. right. left. exists z, r'.
              rewrite <- app_assoc. reflexivity.
           ++ right. right. exists p, 0, (S a), [], r'. repeat split. lia.
        -- right. right. apply doc_lt_app_l. exact Hd.
      * left. exists q. split; [exact Hq|]. split; [exact Hvq|]. split; [right; exact Hlt|].
        intros r Hr [(a & r' & ->)|Hd]; [|apply Hleast; assumption].
        exfalso. assert (Ha : valid t (p ++ [a])).
        { apply valid_prefix with r'. rewrite <- app_assoc. exact Hr. }
        rewrite (valid_snoc t p s) in Ha by assumption. lia.
  - (* nothing to the right *)
    destruct skip; cbn [negb andb after].
    + right. split; [rewrite Hq; reflexivity | exact Hnone].
    + pose proof Hv as Hv'. unfold valid in Hv'. destruct (subtree t p) as [s|] eqn:Es; [|contradiction Hv'; reflexivity].
      rewrite (num_children_valid t p s Hsh Es). destruct (Nat.ltb_spec 0 (length (kids s))) as [Hk|Hk].
      * left. exists (p ++ [0]). split; [reflexivity|]. split; [apply (valid_snoc t p s); assumption|].
        split; [left; exists 0, []; reflexivity|].
        intros r Hr [(a & r' & ->)|Hd]; [|exfalso; exact (Hnone r Hr Hd)].
        destruct a as [|a].
        -- destruct r' as [|z r']; [left; reflexivity|]. right. left. exists z, r'.
           rewrite <- app_assoc. reflexivity.
        -- right. right. exists p, 0, (S a), [], r'. repeat split. lia.
      * assert (Hlast : forall r, valid t r -> ~ pre_lt p r).
        { intros r Hr [(a & r' & ->)|Hd]; [|exact (Hnone r Hr Hd)].
          assert (Ha : valid t (p ++ [a])).
          { apply valid_prefix with r'. rewrite <- app_assoc. exact Hr. }
          rewrite (valid_snoc t p s) in Ha by assumption. lia. }
        right. split; [|exact Hlast]. rewrite Hq. unfold final_check. cbn [orb].
        (* the assertion of the code: p is the last element of paths() *)
        apply positions_spec in Hv. apply in_split in Hv as (l1 & l2 & Hpos).
        destruct l2 as [|r l2].
        -- rewrite <- positions_nodes, Hpos. rewrite last_last, path_eqb_refl. reflexivity.
        -- exfalso. apply (Hlast r).
           ++ apply positions_spec. rewrite Hpos. apply in_or_app. right. right. left. reflexivity.
           ++ pose proof (positions_sorted t) as Hs. rewrite Hpos in Hs.
              apply sorted_split in Hs as [_ Hs]. apply Hs. left. reflexivity.
Qed.

(* ------------------------------------------------------------------ *)
(* next_path against the pre-order list                                *)
(* ------------------------------------------------------------------ *)
Lemma pre_lt_asym p q : pre_lt p q -> ~ pre_lt q p.
Proof. intros H1 H2. exact (pre_lt_irrefl p (pre_lt_trans _ _ _ H1 H2)). Qed.

Lemma sorted_filter {A} (R : A -> A -> Prop) f l : StronglySorted R l -> StronglySorted R (filter f l).
Proof.
  induction 1 as [|a l Hs IH Hf]; cbn [filter]; [constructor|].
  destruct (f a); [|exact IH]. constructor; [exact IH|].
  apply Forall_forall. intros y Hy. apply filter_In in Hy as [Hy _].
  rewrite Forall_forall in Hf. auto.
Qed.

(* the least element above p of a sorted duplicate-free list is the head of what follows p *)
Lemma head_of_least l q :
  StronglySorted pre_lt l -> In q l -> (forall r, In r l -> pre_le q r) -> hd_error l = Some q.
Proof.
  intros Hs Hin Hle. destruct l as [|q' l]; [contradiction|]. cbn [hd_error]. f_equal.
  destruct Hin as [H|Hin]; [exact H|]. exfalso.
  inversion Hs as [|x y _ Hall]; subst. rewrite Forall_forall in Hall.
  destruct (Hle q' (or_introl eq_refl)) as [->|Hlt].
  - exact (pre_lt_irrefl q' (Hall q' Hin)).
  - exact (pre_lt_asym _ _ Hlt (Hall q Hin)).
Qed.

Lemma hd_error_In {A} (l : list A) x : hd_error l = Some x -> In x l.
Proof. destruct l; cbn; intro H; [discriminate | inversion H; left; reflexivity]. Qed.

Section AgainstList.
  Variable t : tree.
  Hypothesis Hsh : shape_ok t = true.
  Variables (l1 l2 : list path) (p : path).
  Hypothesis Hpos : positions t = l1 ++ p :: l2.

  Lemma split_valid : valid t p.
  Proof. apply positions_spec. rewrite Hpos. apply in_or_app. right. left. reflexivity. Qed.

  Lemma after_in_l2 r : valid t r -> pre_lt p r -> In r l2.
  Proof.
    intros Hr Hlt. apply positions_spec in Hr. rewrite Hpos in Hr.
    pose proof (positions_sorted t) as Hs. rewrite Hpos in Hs. apply sorted_split in Hs as [Hb _].
    apply in_app_or in Hr as [Hr|[->|Hr]]; [| |exact Hr].
    - exfalso. exact (pre_lt_asym _ _ Hlt (Hb r Hr)).
    - exfalso. exact (pre_lt_irrefl r Hlt).
  Qed.

  Lemma l2_after r : In r l2 -> valid t r /\ pre_lt p r.
  Proof.
    intro Hr. split.
    - apply positions_spec. rewrite Hpos. apply in_or_app. right. right. exact Hr.
    - pose proof (positions_sorted t) as Hs. rewrite Hpos in Hs. apply sorted_split in Hs as [_ Ha]. auto.
  Qed.

  Lemma l2_sorted : StronglySorted pre_lt l2.
  Proof.
    pose proof (positions_sorted t) as Hs. rewrite Hpos in Hs.
    assert (G : forall a b : list path, StronglySorted pre_lt (a ++ b) -> StronglySorted pre_lt b).
    { induction a as [|z a IHa]; intros b H; [exact H|]. inversion H; subst. auto. }
    apply (G (l1 ++ [p])). rewrite <- app_assoc. exact Hs.
  Qed.

  (* next_path(p) is the element that follows p in paths(); None after the last one *)
  Theorem next_path_follows : next_path t p false = Ok (hd_error l2).
  Proof.
    destruct (next_path_least t p false Hsh split_valid) as [(q & Hq & Hvq & Hlt & Hleast)|[Hq Hnone]];
      cbn [after] in *; rewrite Hq; f_equal.
    - symmetry. apply head_of_least; [exact l2_sorted | apply after_in_l2; assumption|].
      intros r Hr. apply l2_after in Hr as [Hr1 Hr2]. auto.
    - destruct (hd_error l2) as [r|] eqn:E; [|reflexivity]. exfalso.
      apply hd_error_In in E. destruct (l2_after r E) as [Hr1 Hr2]. exact (Hnone r Hr1 Hr2).
  Qed.

  (* skip_children: the first later path that is not below p *)
  Theorem next_path_skip_follows :
    next_path t p true = Ok (hd_error (filter (fun r => negb (prefixb p r)) l2)).
  Proof.
    assert (Hmem : forall r, In r (filter (fun r => negb (prefixb p r)) l2) <-> valid t r /\ doc_lt p r).
    { intro r. rewrite filter_In. split.
      - intros [Hr Hnp]. apply l2_after in Hr as [Hr1 Hr2]. split; [exact Hr1|].
        destruct Hr2 as [Hsp|Hd]; [|exact Hd]. apply sprefix_prefix, prefixb_spec in Hsp.
        rewrite Hsp in Hnp. discriminate.
      - intros [Hr Hd]. split; [apply after_in_l2; [exact Hr | right; exact Hd]|].
        destruct (prefixb p r) eqn:E; [|reflexivity]. apply prefixb_spec in E.
        apply doc_lt_not_prefix in Hd as [Hd _]. contradiction. }
    destruct (next_path_least t p true Hsh split_valid) as [(q & Hq & Hvq & Hlt & Hleast)|[Hq Hnone]];
      cbn [after] in *; rewrite Hq; f_equal.
    - symmetry. apply head_of_least; [apply sorted_filter; exact l2_sorted | apply Hmem; auto|].
      intros r Hr. apply Hmem in Hr as [Hr1 Hr2]. auto.
    - destruct (filter (fun r => negb (prefixb p r)) l2) as [|r lf]; [reflexivity|]. exfalso.
      destruct (proj1 (Hmem r) (or_introl eq_refl)) as [Hr1 Hr2]. exact (Hnone r Hr1 Hr2).
  Qed.
End AgainstList.

(* ------------------------------------------------------------------ *)
(* iterating next_path from the root                                   *)
(* ------------------------------------------------------------------ *)
(* p = (); while p is not None: yield p; p = tree.next_path(p)      (None: out of fuel or exception) *)
Fixpoint walk (fuel : nat) (t : tree) (p : path) : option (list path) :=
  match fuel with
  | 0 => None
  | S f => match next_path t p false with
           | Ok (Some q) => option_map (cons p) (walk f t q)
           | Ok None => Some [p]
           | Raise _ => None
           end
  end.

Lemma walk_from t : shape_ok t = true -> forall l2 l1 p fuel,
  positions t = l1 ++ p :: l2 -> length l2 < fuel -> walk fuel t p = Some (p :: l2).
Proof.
  intro Hsh. induction l2 as [|q l2 IH]; intros l1 p fuel Hpos Hf;
    (destruct fuel as [|f]; [cbn [length] in Hf; lia|]); cbn [walk];
    rewrite (next_path_follows t Hsh l1 _ p Hpos); cbn [hd_error]; [reflexivity|].
  rewrite (IH (l1 ++ [p]) q f); [reflexivity | rewrite <- app_assoc; exact Hpos | cbn [length] in Hf; lia].
Qed.

Lemma length_positions t : length (positions t) = size t.
Proof.
  induction t as [l i o ks IH] using tree_ind'. cbn [positions size length]. f_equal.
  generalize 0. induction IH as [|k ks Hk _ IHks]; intro n; cbn [map mapi_from concat list_sum]; [reflexivity|].
  unfold path in *. rewrite app_length, map_length, Hk, IHks. reflexivity.
Qed.

(* "Repeated calls result in an iterator over the paths in the tree": exactly positions t, in order *)
Theorem next_path_enumerates t : shape_ok t = true -> walk (size t) t [] = Some (positions t).
Proof.
  intro Hsh. destruct (positions t) as [|p0 l2] eqn:Hpos; [destruct t; discriminate|].
  assert (p0 = []) by (destruct t; cbn in Hpos; inversion Hpos; reflexivity). subst p0.
  apply (walk_from t Hsh l2 [] [] (size t)); [exact Hpos|].
  rewrite <- length_positions, Hpos. cbn [length]. lia.
Qed.

(* ------------------------------------------------------------------ *)
(* leaves / open_leaves                                                *)
(* ------------------------------------------------------------------ *)
Theorem leaves_spec t p s :
  In (p, s) (leaves t) <-> subtree t p = Some s /\ no_children s = true.
Proof. unfold leaves. rewrite filter_In, nodes_spec. reflexivity. Qed.

Theorem open_leaves_spec t p s :
  In (p, s) (open_leaves t) <-> subtree t p = Some s /\ opn s = true.
Proof. unfold open_leaves. rewrite filter_In, nodes_spec. reflexivity. Qed.

Lemma sorted_filter_fst (f : path * tree -> bool) l :
  StronglySorted pre_lt (map fst l) -> StronglySorted pre_lt (map fst (filter f l)).
Proof.
  induction l as [|x l IH]; intro H; cbn [filter map] in *; [constructor|].
  inversion H as [|y z Hs Hall]; subst. destruct (f x); [|auto]. cbn [map]. constructor; [auto|].
  apply Forall_forall. intros y Hy. apply in_map_iff in Hy as (w & <- & Hw). apply filter_In in Hw as [Hw _].
  rewrite Forall_forall in Hall. apply Hall. apply in_map. exact Hw.
Qed.

(* both lists are in document order *)
Theorem leaves_sorted t : StronglySorted pre_lt (map fst (leaves t)).
Proof. apply sorted_filter_fst. rewrite <- positions_nodes. apply positions_sorted. Qed.

Theorem open_leaves_sorted t : StronglySorted pre_lt (map fst (open_leaves t)).
Proof. apply sorted_filter_fst. rewrite <- positions_nodes. apply positions_sorted. Qed.

(* every open leaf is a leaf; a tree is open iff it has an open leaf *)
Theorem open_leaves_leaves t pt : In pt (open_leaves t) -> In pt (leaves t).
Proof.
  unfold open_leaves, leaves. rewrite !filter_In. intros [H1 H2]. split; [exact H1|].
  unfold no_children. rewrite H2. reflexivity.
Qed.

Theorem open_leaves_nonempty t : is_openT t = true <-> open_leaves t <> [].
Proof.
  rewrite open_iff_leaf. split.
  - intros (p & s & Hs & Ho) He. assert (Hin : In (p, s) (open_leaves t)) by (apply open_leaves_spec; auto).
    rewrite He in Hin. exact Hin.
  - intro Hne. destruct (open_leaves t) as [|[p s] l] eqn:E; [contradiction Hne; reflexivity|].
    exists p, s. apply open_leaves_spec. rewrite E. left. reflexivity.
Qed.

Theorem leaves_full t :
  (forall p s, In (p, s) (leaves t) <-> subtree t p = Some s /\ no_children s = true)
  /\ StronglySorted pre_lt (map fst (leaves t)).
Proof. split; [exact (leaves_spec t) | exact (leaves_sorted t)]. Qed.

Theorem open_leaves_full t :
  (forall p s, In (p, s) (open_leaves t) <-> subtree t p = Some s /\ opn s = true)
  /\ StronglySorted pre_lt (map fst (open_leaves t))
  /\ (forall pt, In pt (open_leaves t) -> In pt (leaves t))
  /\ (is_openT t = true <-> open_leaves t <> []).
Proof.
  split; [exact (open_leaves_spec t)|]. split; [exact (open_leaves_sorted t)|].
  split; [exact (open_leaves_leaves t) | exact (open_leaves_nonempty t)].
Qed.

(* filter(f, enforce_unique): the matching nodes in document order; RuntimeError exactly when
   enforce_unique is set and more than one node matches *)
Theorem py_filter_spec f unique t :
  match py_filter f unique t with
  | Ok r => (forall p s, In (p, s) r <-> subtree t p = Some s /\ f s = true)
            /\ StronglySorted pre_lt (map fst r) /\ (unique = true -> length r <= 1)
  | Raise e => e = RuntimeErr /\ unique = true
               /\ 1 < length (filter (fun pt => f (snd pt)) (nodes t))
  end.
Proof.
  unfold py_filter. destruct unique; cbn [andb].
  - destruct (Nat.ltb_spec 1 (length (filter (fun pt => f (snd pt)) (nodes t)))) as [H|H].
    + auto.
    + split; [intros p s; rewrite filter_In, nodes_spec; reflexivity|].
      split; [apply sorted_filter_fst; rewrite <- positions_nodes; apply positions_sorted | intros _; exact H].
  - split; [intros p s; rewrite filter_In, nodes_spec; reflexivity|].
    split; [apply sorted_filter_fst; rewrite <- positions_nodes; apply positions_sorted | discriminate].
Qed.

(* non-vacuity on the shared witness *)
Example next_path_nonvacuous :
  shape_ok (Node [60; 97; 62]%N 1 false
                 [Node [60; 98; 62]%N 2 false [Node [120]%N 3 false []]; Node [122]%N 6 true []]) = true
  /\ walk 4 (Node [60; 97; 62]%N 1 false
                  [Node [60; 98; 62]%N 2 false [Node [120]%N 3 false []]; Node [122]%N 6 true []]) []
     = Some [[]; [0]; [0; 0]; [1]].
Proof. split; reflexivity. Qed.
