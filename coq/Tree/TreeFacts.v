(* Facts about tree positions: nodes/positions enumerate exactly the valid paths,
   without duplicates, in pre-order (= lexicographic order of paths). *)
From ISLA Require Import Tree PathFacts.
From Coq Require Import Sorted.

Lemma in_concat_mapi {A B} (f : nat -> A -> list B) (l : list A) (i0 : nat) (y : B) :
  In y (concat (mapi_from f i0 l)) <-> exists i x, nth_error l i = Some x /\ In y (f (i0 + i) x).
Proof.
  revert i0; induction l as [|x l IH]; intro i0; simpl.
  - split; [contradiction|]. intros (i & x & H & _). destruct i; discriminate.
  - rewrite in_app_iff, IH. split.
    + intros [H|(i & z & H1 & H2)].
      * exists 0, x. rewrite Nat.add_0_r. auto.
      * exists (S i), z. rewrite Nat.add_succ_r. auto.
    + intros (i & z & H1 & H2). destruct i as [|i]; simpl in H1.
      * inversion H1; subst. rewrite Nat.add_0_r in H2. auto.
      * right. exists i, z. rewrite Nat.add_succ_r in H2. auto.
Qed.

Lemma nodes_unfold l i o ks :
  nodes (Node l i o ks) =
  ([], Node l i o ks) ::
  concat (mapi_from (fun i c => map (fun pt => (i :: fst pt, snd pt)) c) 0 (map nodes ks)).
Proof. reflexivity. Qed.

Lemma nodes_spec t : forall p s, In (p, s) (nodes t) <-> subtree t p = Some s.
Proof.
  induction t as [l i o ks IH] using tree_ind'. intros p s.
  rewrite nodes_unfold. simpl In. rewrite in_concat_mapi. split.
  - intros [H|(k & ns & Hk & Hin)].
    + inversion H; subst. reflexivity.
    + rewrite nth_error_map in Hk. destruct (nth_error ks k) as [c|] eqn:Ek; [|discriminate].
      simpl in Hk. inversion Hk; subst ns. apply in_map_iff in Hin as ([q s'] & Heq & Hin).
      simpl in Heq. inversion Heq; subst. simpl. rewrite Ek.
      rewrite Forall_forall in IH. apply (IH c); [eapply nth_error_In; eauto | assumption].
  - destruct p as [|k p]; simpl.
    + intro H. inversion H; subst. left. reflexivity.
    + destruct (nth_error ks k) as [c|] eqn:Ek; [|discriminate]. intro H. right.
      exists k, (nodes c). split; [rewrite nth_error_map, Ek; reflexivity|].
      apply in_map_iff. exists (p, s). split; [reflexivity|].
      rewrite Forall_forall in IH. apply (IH c); [eapply nth_error_In; eauto | assumption].
Qed.

Lemma positions_nodes t : positions t = map fst (nodes t).
Proof.
  induction t as [l i o ks IH] using tree_ind'. simpl. f_equal.
  rewrite concat_map. f_equal.
  generalize 0. induction ks as [|c ks IHks]; intro n; simpl; [reflexivity|].
  inversion IH; subst. rewrite IHks by assumption. f_equal.
  rewrite H1. rewrite !map_map. reflexivity.
Qed.

Lemma positions_spec t p : In p (positions t) <-> valid t p.
Proof.
  rewrite positions_nodes, in_map_iff. unfold valid. split.
  - intros ([q s] & <- & H). apply nodes_spec in H. simpl. congruence.
  - intro H. destruct (subtree t p) as [s|] eqn:E; [|contradiction].
    exists (p, s). split; [reflexivity | apply nodes_spec; assumption].
Qed.

(* --- sortedness: pre-order listing is strictly increasing w.r.t. pre_lt --- *)

Lemma sorted_app {A} (R : A -> A -> Prop) l1 l2 :
  StronglySorted R l1 -> StronglySorted R l2 ->
  (forall x y, In x l1 -> In y l2 -> R x y) -> StronglySorted R (l1 ++ l2).
Proof.
  induction l1 as [|a l1 IH]; intros H1 H2 H; simpl; [assumption|].
  inversion H1; subst. constructor.
  - apply IH; [assumption|assumption|]. intros; apply H; simpl; auto.
  - apply Forall_app. split; [assumption|]. apply Forall_forall. intros y Hy. apply H; simpl; auto.
Qed.

Lemma sorted_map_cons i l :
  StronglySorted pre_lt l -> StronglySorted pre_lt (map (cons i) l).
Proof.
  induction 1 as [|a l Hs IH Hf]; simpl; constructor; [assumption|].
  apply Forall_forall. intros y Hy. apply in_map_iff in Hy as (z & <- & Hz).
  apply pre_lt_cons. rewrite Forall_forall in Hf. auto.
Qed.

Lemma sorted_children (pss : list (list path)) i0 :
  Forall (StronglySorted pre_lt) pss ->
  StronglySorted pre_lt (concat (mapi_from (fun i c => map (cons i) c) i0 pss)).
Proof.
  revert i0; induction pss as [|ps pss IH]; intros i0 H; simpl; [constructor|].
  inversion H; subst. apply sorted_app.
  - apply sorted_map_cons; assumption.
  - apply IH; assumption.
  - intros x y Hx Hy. apply in_map_iff in Hx as (x' & <- & _).
    apply in_concat_mapi in Hy as (k & c & _ & Hy). apply in_map_iff in Hy as (y' & <- & _).
    apply pre_lt_head. lia.
Qed.

Lemma positions_sorted t : StronglySorted pre_lt (positions t).
Proof.
  induction t as [l i o ks IH] using tree_ind'. simpl. constructor.
  - apply sorted_children. apply Forall_map. assumption.
  - apply Forall_forall. intros y Hy. apply pre_lt_nil.
    apply in_concat_mapi in Hy as (k & c & _ & Hy). apply in_map_iff in Hy as (y' & <- & _). discriminate.
Qed.

Lemma sorted_NoDup {A} (R : A -> A -> Prop) l :
  (forall x, ~ R x x) -> StronglySorted R l -> NoDup l.
Proof.
  intros Hirr. induction 1 as [|a l Hs IH Hf]; constructor; [|assumption].
  intro Hin. rewrite Forall_forall in Hf. apply (Hirr a). auto.
Qed.

Lemma positions_NoDup t : NoDup (positions t).
Proof. eapply sorted_NoDup; [apply pre_lt_irrefl | apply positions_sorted]. Qed.

(* splitting a sorted list at an element: everything before is smaller, everything after larger *)
Lemma sorted_split {A} (R : A -> A -> Prop) l1 x l2 :
  StronglySorted R (l1 ++ x :: l2) ->
  (forall y, In y l1 -> R y x) /\ (forall y, In y l2 -> R x y).
Proof.
  induction l1 as [|a l1 IH]; simpl; intro H; inversion H; subst.
  - split; [contradiction|]. rewrite Forall_forall in H3. assumption.
  - apply IH in H2 as [H2a H2b]. split; [|assumption].
    intros y [<-|Hy]; [|auto]. rewrite Forall_forall in H3. apply H3. apply in_app_iff. simpl; auto.
Qed.

(* --- Python get_subtree vs. subtree --- *)
From ISLA Require Import Preds.

Lemma shape_ok_kids t c : shape_ok t = true -> In c (kids t) -> shape_ok c = true.
Proof.
  destruct t as [l i o ks]; simpl. intros H Hin. apply andb_true_iff in H as [_ H].
  rewrite forallb_forall in H. auto.
Qed.

Lemma py_get_subtree_valid t : shape_ok t = true ->
  forall p s, subtree t p = Some s -> py_get_subtree t p = Ok (Some s).
Proof.
  induction t as [l i o ks IH] using tree_ind'. intros Hs p s.
  destruct p as [|k p]; simpl; [congruence|].
  destruct (nth_error ks k) as [c|] eqn:Ek; [|discriminate]. intro H.
  assert (Hin : In c ks) by (eapply nth_error_In; eauto).
  simpl in Hs. apply andb_true_iff in Hs as [Ho Hks].
  destruct o.
  - destruct ks; [destruct k; discriminate | discriminate].
  - destruct ks as [|c0 ks0] eqn:Eks; [destruct k; discriminate|].
    rewrite <- Eks in *. rewrite Ek.
    rewrite Forall_forall in IH. apply IH; [assumption| |assumption].
    rewrite forallb_forall in Hks. auto.
Qed.

Lemma subtree_app t p q : subtree t (p ++ q) =
  match subtree t p with Some s => subtree s q | None => None end.
Proof.
  revert t; induction p as [|k p IH]; intro t; simpl; [reflexivity|].
  destruct (nth_error (kids t) k); [apply IH | reflexivity].
Qed.

Lemma subtree_shape_ok t p s : shape_ok t = true -> subtree t p = Some s -> shape_ok s = true.
Proof.
  revert t; induction p as [|k p IH]; intros t Hs; simpl.
  - congruence.
  - destruct (nth_error (kids t) k) as [c|] eqn:Ek; [|discriminate].
    apply IH. eapply shape_ok_kids; eauto. eapply nth_error_In; eauto.
Qed.

Lemma valid_prefix t p q : valid t (p ++ q) -> valid t p.
Proof. unfold valid. rewrite subtree_app. destruct (subtree t p); congruence. Qed.
