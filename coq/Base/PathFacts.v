(* Facts about paths: deciders vs. relations, order properties. *)
From ISLA Require Import Path.

Lemma path_eqb_eq p q : path_eqb p q = true <-> p = q.
Proof.
  revert q; induction p as [|a p IH]; intros [|b q]; simpl; split; intro H;
    try reflexivity; try discriminate.
  - apply andb_true_iff in H as [H1 H2]. apply Nat.eqb_eq in H1. apply IH in H2. congruence.
  - inversion H; subst. rewrite Nat.eqb_refl. simpl. apply IH. reflexivity.
Qed.

Lemma path_eqb_refl p : path_eqb p p = true.
Proof. apply path_eqb_eq; reflexivity. Qed.

Lemma path_eqb_neq p q : path_eqb p q = false <-> p <> q.
Proof.
  split; intro H.
  - intro E. apply path_eqb_eq in E. congruence.
  - destruct (path_eqb p q) eqn:E; [|reflexivity]. apply path_eqb_eq in E. contradiction.
Qed.

Lemma prefixb_spec p q : prefixb p q = true <-> prefix p q.
Proof.
  revert q; induction p as [|a p IH]; intros q; simpl.
  - split; [intros _; exists q; reflexivity | reflexivity].
  - destruct q as [|b q].
    + split; [discriminate | intros [r Hr]; discriminate].
    + rewrite andb_true_iff, Nat.eqb_eq, IH. split.
      * intros [-> [r ->]]. exists r. reflexivity.
      * intros [r Hr]. simpl in Hr. inversion Hr; subst. split; [reflexivity | exists r; reflexivity].
Qed.

Lemma prefix_refl p : prefix p p.
Proof. exists []. rewrite app_nil_r. reflexivity. Qed.

Lemma prefix_nil p : prefix [] p.
Proof. exists p. reflexivity. Qed.

Lemma prefix_cons a p q : prefix (a :: p) (a :: q) <-> prefix p q.
Proof.
  split; intros [r Hr]; exists r; simpl in *; congruence.
Qed.

Lemma prefix_cons_inv a b p q : prefix (a :: p) (b :: q) -> a = b /\ prefix p q.
Proof. intros [r Hr]. simpl in Hr. inversion Hr; subst. split; [reflexivity | exists r; reflexivity]. Qed.

Lemma prefix_firstn p q : prefix q p <-> firstn (length q) p = q.
Proof.
  split.
  - intros [r ->]. rewrite firstn_app, Nat.sub_diag, firstn_all. simpl. apply app_nil_r.
  - intro H. exists (skipn (length q) p). rewrite <- H at 1. symmetry. apply firstn_skipn.
Qed.

Lemma prefix_trans p q r : prefix p q -> prefix q r -> prefix p r.
Proof. intros [a ->] [b ->]. exists (a ++ b). apply app_assoc_reverse. Qed.

Lemma prefix_length p q : prefix p q -> length p <= length q.
Proof. intros [r ->]. rewrite app_length. lia. Qed.

Lemma sprefix_prefix p q : sprefix p q -> prefix p q.
Proof. intros (a & r & ->). exists (a :: r). reflexivity. Qed.

Lemma sprefix_iff p q : sprefix p q <-> prefix p q /\ p <> q.
Proof.
  split.
  - intros (a & r & ->). split; [exists (a :: r); reflexivity|].
    intro E. apply (f_equal (@length nat)) in E. rewrite app_length in E. simpl in E. lia.
  - intros [[r ->] Hne]. destruct r as [|a r]; [rewrite app_nil_r in Hne; contradiction|].
    exists a, r. reflexivity.
Qed.

(* --- doc_lt --- *)

Lemma doc_ltb_spec p q : doc_ltb p q = true <-> doc_lt p q.
Proof.
  revert q; induction p as [|a p IH]; intros q.
  - simpl. split; [discriminate|]. intros (r & x & y & p' & q' & H & _).
    destruct r; discriminate.
  - destruct q as [|b q]; simpl.
    + split; [discriminate|]. intros (r & x & y & p' & q' & _ & H & _). destruct r; discriminate.
    + destruct (Nat.ltb_spec a b) as [Hab|Hab].
      * split; [|reflexivity]. intros _. exists [], a, b, p, q. auto.
      * destruct (Nat.ltb_spec b a) as [Hba|Hba].
        -- split; [discriminate|]. intros (r & x & y & p' & q' & H1 & H2 & Hxy).
           destruct r as [|c r]; simpl in *; inversion H1; inversion H2; subst; lia.
        -- assert (a = b) by lia. subst b. rewrite IH. split.
           ++ intros (r & x & y & p' & q' & -> & -> & Hxy). exists (a :: r), x, y, p', q'. auto.
           ++ intros (r & x & y & p' & q' & H1 & H2 & Hxy).
              destruct r as [|c r]; simpl in *; inversion H1; inversion H2; subst; [lia|].
              exists r, x, y, p', q'. auto.
Qed.

Lemma doc_lt_cons a p q : doc_lt (a :: p) (a :: q) <-> doc_lt p q.
Proof.
  rewrite <- !doc_ltb_spec. simpl. rewrite Nat.ltb_irrefl. reflexivity.
Qed.

Lemma doc_lt_head a b p q : a < b -> doc_lt (a :: p) (b :: q).
Proof. intro H. exists [], a, b, p, q. auto. Qed.

Lemma doc_lt_cons_inv a b p q : doc_lt (a :: p) (b :: q) -> a < b \/ (a = b /\ doc_lt p q).
Proof.
  rewrite <- !doc_ltb_spec. simpl.
  destruct (Nat.ltb_spec a b); [auto|]. destruct (Nat.ltb_spec b a); [discriminate|].
  intro. right. split; [lia | assumption].
Qed.

Lemma doc_lt_nil_l q : ~ doc_lt [] q.
Proof. rewrite <- doc_ltb_spec. simpl. discriminate. Qed.
Lemma doc_lt_nil_r p : ~ doc_lt p [].
Proof. rewrite <- doc_ltb_spec. destruct p; simpl; discriminate. Qed.

Lemma doc_lt_irrefl p : ~ doc_lt p p.
Proof.
  rewrite <- doc_ltb_spec. induction p as [|a p IH]; simpl; [discriminate|].
  rewrite Nat.ltb_irrefl. assumption.
Qed.

Lemma doc_lt_trans p q r : doc_lt p q -> doc_lt q r -> doc_lt p r.
Proof.
  revert q r; induction p as [|a p IH]; intros q r H1 H2.
  - exfalso; eapply doc_lt_nil_l; eauto.
  - destruct q as [|b q]; [exfalso; eapply doc_lt_nil_r; eauto|].
    destruct r as [|c r]; [exfalso; eapply doc_lt_nil_r; eauto|].
    apply doc_lt_cons_inv in H1. apply doc_lt_cons_inv in H2.
    destruct H1 as [H1|[-> H1]], H2 as [H2|[-> H2]].
    + apply doc_lt_head; lia.
    + apply doc_lt_head; lia.
    + apply doc_lt_head; lia.
    + apply doc_lt_cons. eapply IH; eauto.
Qed.

Lemma doc_lt_asym p q : doc_lt p q -> ~ doc_lt q p.
Proof. intros H1 H2. eapply doc_lt_irrefl. eapply doc_lt_trans; eauto. Qed.

(* neither node below the other *)
Lemma doc_lt_not_prefix p q : doc_lt p q -> ~ prefix p q /\ ~ prefix q p.
Proof.
  revert q; induction p as [|a p IH]; intros q H.
  - exfalso; eapply doc_lt_nil_l; eauto.
  - destruct q as [|b q]; [exfalso; eapply doc_lt_nil_r; eauto|].
    apply doc_lt_cons_inv in H as [H|[-> H]].
    + split; intro P; apply prefix_cons_inv in P as [E _]; lia.
    + apply IH in H as [H1 H2]. split; intro P; apply prefix_cons_inv in P as [_ P]; auto.
Qed.

(* the four relative positions of two nodes are exhaustive *)
Lemma position_cases p q : prefix p q \/ prefix q p \/ doc_lt p q \/ doc_lt q p.
Proof.
  revert q; induction p as [|a p IH]; intros q.
  - left. apply prefix_nil.
  - destruct q as [|b q]; [right; left; apply prefix_nil|].
    destruct (Nat.lt_total a b) as [H|[->|H]].
    + right; right; left. apply doc_lt_head; assumption.
    + destruct (IH q) as [H|[H|[H|H]]].
      * left. apply prefix_cons; assumption.
      * right; left. apply prefix_cons; assumption.
      * right; right; left. apply doc_lt_cons; assumption.
      * right; right; right. apply doc_lt_cons; assumption.
    + right; right; right. apply doc_lt_head; assumption.
Qed.

(* document order is preserved when descending on either side *)
Lemma doc_lt_app_l p q r : doc_lt p q -> doc_lt (p ++ r) q.
Proof.
  intros (c & a & b & p' & q' & -> & -> & H).
  exists c, a, b, (p' ++ r), q'. rewrite <- app_assoc. simpl. auto.
Qed.
Lemma doc_lt_app_r p q r : doc_lt p q -> doc_lt p (q ++ r).
Proof.
  intros (c & a & b & p' & q' & -> & -> & H).
  exists c, a, b, p', (q' ++ r). rewrite <- app_assoc. simpl. auto.
Qed.

Lemma doc_lt_prepend c p q : doc_lt (c ++ p) (c ++ q) <-> doc_lt p q.
Proof. induction c as [|a c IH]; simpl; [reflexivity|]. rewrite doc_lt_cons. assumption. Qed.

(* --- pre-order --- *)

Lemma pre_lt_nil q : q <> [] -> pre_lt [] q.
Proof. intro H. left. destruct q as [|a q]; [contradiction|]. exists a, q. reflexivity. Qed.

Lemma sprefix_cons a p q : sprefix (a :: p) (a :: q) <-> sprefix p q.
Proof.
  split; intros (x & r & H); exists x, r; simpl in *; congruence.
Qed.

Lemma pre_lt_cons a p q : pre_lt (a :: p) (a :: q) <-> pre_lt p q.
Proof. unfold pre_lt. rewrite sprefix_cons, doc_lt_cons. reflexivity. Qed.

Lemma pre_lt_head a b p q : a < b -> pre_lt (a :: p) (b :: q).
Proof. intro. right. apply doc_lt_head. assumption. Qed.

Lemma pre_lt_irrefl p : ~ pre_lt p p.
Proof.
  intros [H|H]; [apply sprefix_iff in H as [_ H]; auto | eapply doc_lt_irrefl; eauto].
Qed.

Lemma pre_lt_cons_inv a b p q : pre_lt (a :: p) (b :: q) -> a < b \/ (a = b /\ pre_lt p q).
Proof.
  intros [H|H].
  - destruct H as (x & r & H). simpl in H. inversion H; subst. right. split; [reflexivity|].
    left. exists x, r. reflexivity.
  - apply doc_lt_cons_inv in H as [H|[-> H]]; [left; assumption|]. right. split; [reflexivity|right; assumption].
Qed.

Lemma pre_lt_nil_r p : ~ pre_lt p [].
Proof.
  intros [(x & r & H)|H]; [destruct p; discriminate | eapply doc_lt_nil_r; eauto].
Qed.

Lemma pre_lt_trans p q r : pre_lt p q -> pre_lt q r -> pre_lt p r.
Proof.
  revert q r; induction p as [|a p IH]; intros q r H1 H2.
  - apply pre_lt_nil. intros ->. eapply pre_lt_nil_r; eauto.
  - destruct q as [|b q]; [exfalso; eapply pre_lt_nil_r; eauto|].
    destruct r as [|c r]; [exfalso; eapply pre_lt_nil_r; eauto|].
    apply pre_lt_cons_inv in H1. apply pre_lt_cons_inv in H2.
    destruct H1 as [H1|[-> H1]], H2 as [H2|[-> H2]]; try (apply pre_lt_head; lia).
    apply pre_lt_cons. eapply IH; eauto.
Qed.

Lemma pre_total p q : p = q \/ pre_lt p q \/ pre_lt q p.
Proof.
  destruct (position_cases p q) as [H|[H|[H|H]]].
  - destruct (list_eq_dec Nat.eq_dec p q) as [->|N]; [auto|]. right; left; left. apply sprefix_iff; auto.
  - destruct (list_eq_dec Nat.eq_dec p q) as [->|N]; [auto|]. right; right; left. apply sprefix_iff; auto.
  - right; left; right; assumption.
  - right; right; right; assumption.
Qed.
