(* Python outcomes: a value or a raised exception (classified). *)
Inductive exn :=
  TypeErr | IndexErr | AssertErr | ValueErr | RuntimeErr | ZeroDivErr | KeyErr
| AttrErr | SyntaxErr | SemanticErr | StopIter | TimeoutErr | DomainErr | NotImpl | OtherErr.

Inductive res (A : Type) := Ok (a : A) | Raise (e : exn).
Arguments Ok {A} a.
Arguments Raise {A} e.

Definition bind {A B} (r : res A) (f : A -> res B) : res B :=
  match r with Ok a => f a | Raise e => Raise e end.

Definition exn_eqb (a b : exn) : bool :=
  match a, b with
  | TypeErr, TypeErr | IndexErr, IndexErr | AssertErr, AssertErr | ValueErr, ValueErr
  | RuntimeErr, RuntimeErr | ZeroDivErr, ZeroDivErr | KeyErr, KeyErr | AttrErr, AttrErr
  | SyntaxErr, SyntaxErr | SemanticErr, SemanticErr | StopIter, StopIter
  | TimeoutErr, TimeoutErr | DomainErr, DomainErr | NotImpl, NotImpl | OtherErr, OtherErr => true
  | _, _ => false
  end.

Definition res_eqb {A} (eqb : A -> A -> bool) (x y : res A) : bool :=
  match x, y with
  | Ok a, Ok b => eqb a b
  | Raise e, Raise f => exn_eqb e f
  | _, _ => false
  end.

(* generic mismatch reporter used by generated cases.v files:
   indices (from 0) of cases on which the model disagrees with the recorded
   implementation result *)
From Coq Require Import List NArith.
Import ListNotations.
Fixpoint mismatches_from {C} (ok : C -> bool) (i : N) (cs : list C) : list N :=
  match cs with
  | [] => []
  | c :: cs' => if ok c then mismatches_from ok (N.succ i) cs'
                else i :: mismatches_from ok (N.succ i) cs'
  end.
Definition mismatches {C} (ok : C -> bool) (cs : list C) : list N := mismatches_from ok 0%N cs.
