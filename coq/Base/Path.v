(* Paths into derivation trees: lists of child indices.
   Model side: boolean functions.  Spec side: declarative relations. *)
From Coq Require Export List Arith Bool NArith Lia.
Export ListNotations.

Definition path := list nat.

Fixpoint path_eqb (p q : path) : bool :=
  match p, q with
  | [], [] => true
  | a :: p', b :: q' => Nat.eqb a b && path_eqb p' q'
  | _, _ => false
  end.

(* ---- specification vocabulary ---- *)

(* [prefix p q]: p is a (non-strict) prefix of q, i.e. node q lies in the
   subtree rooted at node p. *)
Definition prefix (p q : path) : Prop := exists r, q = p ++ r.
Definition sprefix (p q : path) : Prop := exists a r, q = p ++ a :: r.

(* strictly earlier in document order, neither node below the other *)
Definition doc_lt (p q : path) : Prop :=
  exists r a b p' q', p = r ++ a :: p' /\ q = r ++ b :: q' /\ a < b.

(* pre-order ("occurs at or before") = lexicographic order on paths *)
Definition pre_lt (p q : path) : Prop := sprefix p q \/ doc_lt p q.
Definition pre_le (p q : path) : Prop := p = q \/ pre_lt p q.

(* boolean deciders used by specs' executable counterparts *)
Fixpoint prefixb (p q : path) : bool :=
  match p, q with
  | [], _ => true
  | a :: p', b :: q' => Nat.eqb a b && prefixb p' q'
  | _ :: _, [] => false
  end.

Fixpoint doc_ltb (p q : path) : bool :=
  match p, q with
  | a :: p', b :: q' =>
      if Nat.ltb a b then true else if Nat.ltb b a then false else doc_ltb p' q'
  | _, _ => false
  end.
