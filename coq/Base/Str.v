(* Strings as lists of Unicode code points (N).  Model of helpers.is_nonterminal. *)
From Coq Require Export List NArith Bool.
Export ListNotations.

Definition chr := N.
Definition str := list chr.

Fixpoint str_eqb (s t : str) : bool :=
  match s, t with
  | [], [] => true
  | a :: s', b :: t' => N.eqb a b && str_eqb s' t'
  | _, _ => false
  end.

Lemma str_eqb_eq s t : str_eqb s t = true <-> s = t.
Proof.
  revert t; induction s as [|a s IH]; intros [|b t]; simpl; split; intro H;
    try reflexivity; try discriminate.
  - apply andb_true_iff in H as [H1 H2]. apply N.eqb_eq in H1. apply IH in H2. congruence.
  - inversion H; subst. rewrite N.eqb_refl. simpl. apply IH. reflexivity.
Qed.

Lemma str_eqb_refl s : str_eqb s s = true.
Proof. apply str_eqb_eq. reflexivity. Qed.

Lemma str_eqb_neq s t : str_eqb s t = false <-> s <> t.
Proof.
  split; intro H.
  - intro E. apply str_eqb_eq in E. congruence.
  - destruct (str_eqb s t) eqn:E; [|reflexivity]. apply str_eqb_eq in E. contradiction.
Qed.

Definition c_lt : chr := 60%N.   (* '<' *)
Definition c_gt : chr := 62%N.   (* '>' *)
Definition c_sp : chr := 32%N.   (* ' ' *)

(* RE_NONTERMINAL = re.compile(r"(<[^<> ]*>)"); is_nonterminal(s) = RE_NONTERMINAL.match(s):
   a PREFIX match: '<', then characters other than '<', '>', ' ', then '>' *)
Fixpoint nt_body (s : str) : bool :=
  match s with
  | [] => false
  | c :: s' =>
      if N.eqb c c_gt then true
      else if N.eqb c c_lt || N.eqb c c_sp then false
      else nt_body s'
  end.

Definition is_nt (s : str) : bool :=
  match s with
  | c :: s' => N.eqb c c_lt && nt_body s'
  | [] => false
  end.
