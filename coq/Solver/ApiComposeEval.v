(* C18 (proof extension) — CROSS-PROPERTY COMPOSITION, part 2: the evaluator.
   The Api model's `eval` is instantiated with the C03 model of evaluator.evaluate
   (EvalAtoms.m_evaluate: instantiate the global constant, dispatch, evaluate_legacy; concrete
   SMT-atom family string (in)equality / str.len / true / false), and `sat` with the
   specification semantics of Logic/Semantics.v (`sat atom_denote t cst phi`, i.e.
   [cst |-> t] |= phi).  The evaluator premise of the ApiFacts theorems is DERIVED from
   EvalMexprCheck.eval_correct_mexpr_atoms (C03) and ApiInst.models_inst (instantiating the constant
   by the reference tree preserves |=; proved here for C18), on the fragment C03 covers:

     isla_guard cst phi t  :=  cst occurs free in phi, no quantifier / match expression of phi
                               binds cst (cst_unbound), parse_dec (lbl t) = None (the root label
                               is not a numeral), and for the instantiated formula phi' :
                               no numeric quantifier, narrowb t, wfmb t [] phi'   (all boolean).

   shape_ok, closedness, uniqueness of ids and term_leavesb are NOT in the guard: they are derived
   from `good g t` and from the fresh numbering of the Earley instance. *)
From ISLA Require Import Grammar GrammarFacts Earley.
From ISLA Require Import Semantics Eval EvalAtoms EvalFacts MatchFacts EvalMexprFacts EvalMexprCheck.
From ISLA Require Import Api ApiFacts FreshIds ApiCompose ApiInst.
From Coq Require Import Lia.

Definition tv_of (x : TV) : tv :=
  match x with Eval.TT => Api.TT | Eval.FF => Api.FF | Eval.UU => Api.UU end.

(* evaluator.evaluate(phi, t, grammar) for the solver's constraint phi with global constant cst *)
Definition isla_eval (cst : var) (phi : formula atom) (t : tree) : res tv :=
  match m_evaluate t cst phi with Ok x => Ok (tv_of x) | Raise e => Raise e end.

(* t |= phi *)
Definition isla_sat (cst : var) (phi : formula atom) (t : tree) : Prop := sat atom_denote t cst phi.

Definition m_inst (t : tree) (cst : var) (phi : formula atom) : res (formula atom) :=
  inst_const atom atom_inst t cst phi.

Definition isla_guard (cst : var) (phi : formula atom) (t : tree) : bool :=
  existsb (var_eqb cst) (fvars atom atom_free phi) && cst_unbound cst phi &&
  match parse_dec (lbl t) with None => true | Some _ => false end &&
  match m_inst t cst phi with
  | Ok phi' => negb (has_numq atom phi') && narrowb t && wfmb t [] phi'
  | Raise _ => false
  end.

(* ---- what `good` gives for the tree-side hypotheses of C03 ---- *)
Lemma wf_shape_ok g t : wf_tree g t -> shape_ok t = true.
Proof.
  induction t as [l i o ks IH] using tree_ind'. intro Hwf.
  inversion Hwf as [A i' HA HD | w i' Hw | A i' ks' HA Hne Hin Hall | A i' HA Hin | A i' j HA Hin]; subst;
    try reflexivity.
  simpl. apply forallb_forall. intros k Hk. rewrite Forall_forall in IH, Hall. apply IH; auto.
Qed.

Lemma wf_term_leaves g t : wf_tree g t -> term_leavesb t = true.
Proof.
  induction t as [l i o ks IH] using tree_ind'. intro Hwf.
  inversion Hwf as [A i' HA HD | w i' Hw | A i' ks' HA Hne Hin Hall | A i' HA Hin | A i' j HA Hin]; subst;
    simpl; try (rewrite HA; reflexivity); try (rewrite orb_true_r; reflexivity).
  rewrite HA. simpl. apply forallb_forall. intros k Hk. rewrite Forall_forall in IH, Hall. apply IH; auto.
Qed.

(* ---- C03 composed: on a closed valid tree with pairwise different ids that passes the guard,
        evaluate() is definite and agrees with the specification semantics of the UNINSTANTIATED
        constraint ---- *)
Theorem isla_eval_ok g cst phi t :
  good g t -> NoDup (ids t) -> isla_guard cst phi t = true ->
  eval_definite_at (isla_eval cst phi) t /\ eval_correct_at (isla_sat cst phi) (isla_eval cst phi) t.
Proof.
  intros [Hwf [Hcl Hl]] Hu Hgd. unfold isla_guard in Hgd.
  apply andb_true_iff in Hgd as [Hgd G4]. apply andb_true_iff in Hgd as [Hgd G3].
  apply andb_true_iff in Hgd as [G1 G2].
  destruct (parse_dec (lbl t)) eqn:PD; [discriminate|].
  destruct (m_inst t cst phi) as [phi'|e] eqn:EI; [|discriminate].
  apply andb_true_iff in G4 as [G4 G6]. apply andb_true_iff in G4 as [G4 G5]. apply negb_true_iff in G4.
  pose proof (eval_correct_mexpr_atoms t phi' (wf_shape_ok g t Hwf) Hcl Hu (narrowb_spec t G5)
                (wf_term_leaves g t Hwf) (wfmb_spec t phi' [] G6)) as (HT & HF & HU & HR).
  assert (Hev : m_evaluate t cst phi = m_legacy t phi').
  { unfold m_evaluate, evaluate. rewrite G1. unfold m_inst in EI. rewrite EI, G4. reflexivity. }
  assert (Hbr : isla_sat cst phi t <-> models atom_denote t env_empty phi').
  { unfold isla_sat, sat. apply (models_inst t cst Hu PD phi phi' G2 EI). }
  unfold eval_definite_at, eval_correct_at, isla_eval. rewrite Hev.
  destruct (m_legacy t phi') as [[| |]|e] eqn:E.
  - split; [left; reflexivity|]. simpl. split; [intros _; apply Hbr, HT; reflexivity | reflexivity].
  - split; [right; reflexivity|]. simpl. split; [discriminate|].
    intro S. apply Hbr in S. exfalso. apply (proj1 HF eq_refl). exact S.
  - contradiction.
  - exfalso. exact (HR e eq_refl).
Qed.

(* ====================================================================================== *)
(* parser AND evaluator concrete                                                           *)
(* ====================================================================================== *)
Section Composed.
  Variable g : grammar.
  Variables fxA fxB : bool.
  Variable fuelf : str -> nat.
  Variable cst : var.
  Variable phi : formula atom.
  Hypothesis Hg : gram_ok g.
  Hypothesis Hgd : guards fxA fxB g.

  Notation P := (earley_first fxA fxB fuelf g).
  Notation EV := (isla_eval cst phi).
  Notation SAT := (isla_sat cst phi).

  (* the fragment condition for the string s: the tree the parser returns for s passes the guard *)
  Definition guard_on (s : str) : Prop := forall t, P ASTART s = Some t -> isla_guard cst phi t = true.

  Lemma composed_eval_ok s : guard_on s -> eval_ok_on SAT P EV s.
  Proof.
    intros Hgs t Ht. destruct (earley_sound_at g fxA fxB fuelf Hg Hgd s t Ht) as [Hgood _].
    exact (isla_eval_ok g cst phi t Hgood (earley_first_uniq g fxA fxB fuelf s t Ht) (Hgs t Ht)).
  Qed.

  (* check(str) = true  <->  the first Earley tree of s exists and satisfies phi (specification) *)
  Theorem check_str_spec_composed s : guard_on s ->
    (check_str P EV s = Ok true <-> exists t, P ASTART s = Some t /\ SAT t).
  Proof.
    intros Hgs. apply check_str_spec_at. intros t Ht. exact (proj2 (composed_eval_ok s Hgs t Ht)).
  Qed.

  (* ... otherwise false; check(str) never raises *)
  Theorem check_str_total_composed s : guard_on s ->
    (check_str P EV s = Ok true /\ (exists t, P ASTART s = Some t /\ SAT t)) \/
    (check_str P EV s = Ok false /\ ~ (exists t, P ASTART s = Some t /\ SAT t)).
  Proof. intros Hgs. apply check_str_total_at. exact (composed_eval_ok s Hgs). Qed.

  Theorem parse_api_ok_composed s t : guard_on s ->
    (parse_api P EV s ASTART false = Ok t <-> P ASTART s = Some t /\ SAT t).
  Proof.
    intros Hgs. apply parse_api_ok_at. intros t' Ht'. exact (proj2 (composed_eval_ok s Hgs t' Ht')).
  Qed.

  Theorem parse_api_semantic_composed s : guard_on s ->
    (parse_api P EV s ASTART false = Raise SemanticErr <-> exists t, P ASTART s = Some t /\ ~ SAT t).
  Proof. intros Hgs. apply parse_api_semantic_at. exact (composed_eval_ok s Hgs). Qed.

  Theorem parse_api_syntax_composed s : fuel_ok fuelf g s -> no_oof fxA fxB fuelf g s -> guard_on s ->
    (parse_api P EV s ASTART false = Raise SyntaxErr <-> ~ L g ASTART s).
  Proof.
    intros Hf Hno Hgs.
    exact (parse_api_syntax_at g SAT P EV s (earley_sound_at g fxA fxB fuelf Hg Hgd s)
             (earley_complete_at g fxA fxB fuelf Hg Hgd s Hf Hno) (composed_eval_ok s Hgs)).
  Qed.

  (* the complete verdict table of parse() and check(str) for one string, language-level *)
  Theorem parse_api_spec_composed s : fuel_ok fuelf g s -> no_oof fxA fxB fuelf g s -> guard_on s ->
    (L g ASTART s /\ exists t, P ASTART s = Some t /\ good g t /\ yield t = s /\
       ((SAT t /\ parse_api P EV s ASTART false = Ok t /\ check_str P EV s = Ok true) \/
        (~ SAT t /\ parse_api P EV s ASTART false = Raise SemanticErr /\ check_str P EV s = Ok false))) \/
    (~ L g ASTART s /\ P ASTART s = None /\
       parse_api P EV s ASTART false = Raise SyntaxErr /\ check_str P EV s = Ok false).
  Proof.
    intros Hf Hno Hgs.
    pose proof (earley_none_iff g fxA fxB fuelf Hg Hgd s Hf Hno) as Hnone.
    destruct (P ASTART s) as [t|] eqn:HP.
    - left. destruct (earley_sound_at g fxA fxB fuelf Hg Hgd s t HP) as [Hgood Hy].
      assert (HL : L g ASTART s).
      { destruct Hgood as [Hwf [Hcl Hl]]. pose proof (wf_closed_yield g t Hwf Hcl) as HL.
        rewrite Hl, Hy in HL. exact HL. }
      split; [exact HL|]. exists t. split; [reflexivity|]. split; [exact Hgood|]. split; [exact Hy|].
      assert (Hok : eval_definite_at EV t /\ eval_correct_at SAT EV t).
      { apply (composed_eval_ok s Hgs). exact HP. }
      destruct Hok as [Hd Hc]. unfold Api.check_str. rewrite parse_api_unfold, HP.
      destruct (check_tree_cases_at SAT EV t Hd Hc) as [[C S]|[C S]]; rewrite C; [left|right]; auto.
    - right. assert (HnL : ~ L g ASTART s) by (apply Hnone; reflexivity).
      split; [exact HnL|]. split; [reflexivity|]. unfold Api.check_str. rewrite parse_api_unfold, HP. auto.
  Qed.
End Composed.
