(* C01 — proof extension, MODEL part: rules for three steps that were premises of
   solve_sound_partial (SolveSound.v): tree insertion, removal of universal quantifiers over OPEN
   in-trees, definite verdicts of the semantic predicate count.  Definitions only (proofs:
   SolveSoundMore.v).

   Rule                     Python (isla/solver.py)
   r_insert                 eliminate_existential_formula: insertion_result in insert_tree(inserted_tree,
                            existential_formula.in_variable, methods); resulting_tree =
                            state.tree.replace_path(find_node(in_variable), insertion_result);
                            new_formula = instantiated_formula & self.formula[constant := new_tree]
                                          & instantiated_original_constraint
                            — the WHOLE original formula self.formula is re-conjoined (lines 2173-2179).
                            The instantiated body and the re-anchored remaining conjuncts
                            (substitute_expressions(tree_substitution), located by ids) are abstracted
                            to "any clause list that contains (env0 cst, phi)": soundness does not
                            depend on them.
   r_drop_infeasible        remove_infeasible_universal_quantifiers on in-trees that may be open:
                            all current matches are instantiated (all_matches_matched) and no open
                            leaf of the in-tree might match.  In the solver every matched node is in
                            ForallFormula.already_matched, so for a quantifier without match
                            expression quantified_formula_might_match(leaf) = reachable(leaf.value, T)
                            for EVERY open leaf (also those labelled T): guard no_leaf_reaches
                            (link to the C06 model: qmm3_false_no_reach in SolveSoundMore.v).  With a
                            match expression the test also calls can_extend_leaf_to_make_quantifier_
                            match_parent, whose completeness is not proved in C06: the rule carries the
                            SEMANTIC guard me_settled (a failed match of an existing node stays failed).
   r_eval_stable_g          like r_eval_stable, the verdict has to survive every GRAMMAR-VALID
                            completion only: used for count (eliminate_all_ready_semantic_predicate_
                            formulas, evaluation_result.is_boolean()), whose definite verdicts rest on
                            grammar reachability (isla_predicates.count: C14 count_decide). *)
From ISLA Require Export PredStable.
From ISLA Require Insert InsertFacts Eval3 FixedLen.

(* ---- grammar-aware stability ---- *)
Definition stable_g (g : grammar) (t : tree) (b : env) (f : cform) : Prop :=
  forall t', compl t t' -> wf_tree g t' -> models satom_denote t b f -> models satom_denote t' b f.

Inductive eval_step_stable_g (g : grammar) : cstate -> cstate -> Prop :=
| r_eval_stable_g cs1 cs2 b f t : evaluable f -> models satom_denote t b f -> stable_g g t b f ->
    eval_step_stable_g g (cs1 ++ (b, f) :: cs2, t) (cs1 ++ cs2, t).

(* ---- removal of a universal quantifier whose in-tree may still be open ---- *)
(* no open leaf at or below p0 reaches the nonterminal T in the grammar graph (computed
   reachability of the C06 model, Eval3.reachb) *)
Definition no_leaf_reaches (g : grammar) (t : tree) (p0 : path) (T : str) : Prop :=
  forall leaf n, subtree t leaf = Some n -> opn n = true -> prefix p0 leaf ->
    Eval3.reachb g (lbl n) T = false.

(* match expressions: a node of the current domain that does not match now does not match in any
   completion (what can_extend_leaf_to_make_quantifier_match_parent is meant to decide) *)
Definition me_settled (t : tree) (b : env) (v w : var) (m : option mexpr) : Prop :=
  match m with
  | None => True
  | Some me =>
      forall q s t2 P, in_dom t b (InVar w) (vtype v) q -> subtree t q = Some s ->
        In (t2, P) (me_trees me) -> smatch t2 s P q = None ->
        forall s', compl s s' -> smatch t2 s' P q = None
  end.

Inductive infeasible_drop (g : grammar) : cstate -> cstate -> Prop :=
| r_drop_infeasible cs1 cs2 b v w m body t p0 s0 :
    b w = Some (VPos p0) -> subtree t p0 = Some s0 -> is_nt (vtype v) = true ->
    (forall q b', qmatch t b v w m q b' -> In (b', body) (cs1 ++ cs2)) ->
    no_leaf_reaches g t p0 (vtype v) -> me_settled t b v w m ->
    infeasible_drop g (cs1 ++ (b, FForall v (InVar w) m body) :: cs2, t) (cs1 ++ cs2, t).

(* ---- tree insertion ---- *)
(* host = the in-variable's subtree; res = an insertion result: grammar-valid, same root label as
   the host — two of the four conjuncts of the C13 specifications `inserted` / `inserted_lossy`
   (SolveSoundMore.v: insert_step_of_inserted, insert_step_of_lossy, insert_tree_step,
   insert_tree_step_any_mask); the state tree gets res at the host's place; the new constraint
   contains the original formula phi anchored at the root.  `ins` (the inserted tree: an open
   node of the quantified type or a match-expression prefix tree) does not occur in the guards. *)
Inductive insert_step (g : grammar) (cst : var) (phi : cform) : cstate -> cstate -> Prop :=
| r_insert cs1 cs2 b v w m body t p0 host res t1 cs' :
    b w = Some (VPos p0) -> subtree t p0 = Some host ->
    wf_tree g res -> lbl res = lbl host ->
    Insert.replace_at t p0 res = Some t1 ->
    In (env0 cst, phi) cs' ->
    insert_step g cst phi (cs1 ++ (b, FExists v (InVar w) m body) :: cs2, t) (cs', t1).

(* ---- step relations judged against the INITIAL problem ---- *)
(* a refinement step: keeps the root label and grammar validity, never adds solutions
   (sound_rel of SolveSound.v plus the root label) *)
Definition refines (g : grammar) (R : cstate -> cstate -> Prop) : Prop :=
  forall s s', R s s' ->
    lbl (snd s') = lbl (snd s) /\ (wf_tree g (snd s) -> wf_tree g (snd s')) /\
    (forall t', Sol g s' t' -> Sol g s t').

(* the invariant of the abstract solver: the state tree is grammar-valid, rooted in the start
   symbol, and every solution of the state solves the initial problem.  (Insertion moves nodes, so a
   solution of the new state is in general NOT a completion of the old state tree: the invariant
   is relative to the initial state, not to the predecessor.) *)
Definition inv (g : grammar) (start : str) (i0 : N) (cst : var) (phi : cform) (s : cstate) : Prop :=
  wf_tree g (snd s) /\ lbl (snd s) = start /\
  forall t', Sol g s t' -> Sol g (init_state start i0 cst phi) t'.

Definition preserves (I : cstate -> Prop) (R : cstate -> cstate -> Prop) : Prop :=
  forall s s', R s s' -> I s -> I s'.
