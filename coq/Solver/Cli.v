(* C19 — model of the decision logic of isla/cli.py for the commands
   solve, check, parse, repair, mutate (as of the pinned /repo tree, bugs included).
   No proofs in this file.

   What is modelled (function by function, same order of checks as the Python code):
     argparse FileType("r")            -> [argparse_files]   (unopenable file: usage error 2)
     read_files                        -> [read_files]       (dict keyed by file name; read() may raise)
     ensure_grammar_present            -> [grammar_present]
     ensure_constraint_present         -> [constraint_present]
     assert_path_is_dir (solve -d)     -> [odir]
     parse_grammar                     -> [parse_grammar]
     read_predicates                   -> [read_predicates]
     parse_constraint                  -> [parse_constraint]
     parse_cost_computer_spec + ISLaSolver(...) (solve) -> [a_wv], [solver_init]
     get_input_string                  -> [get_input]
     do_check / check / parse / repair / mutate / solve -> [do_check] ... [run]

   What is NOT modelled and enters as parameters (they are the subject of other
   properties): BNF parsing (C11), ISLa parsing (C07), Python extension files, JSON tree
   decoding (C17), the Earley parser (C10), the evaluator (C03), the solver (C01/C02),
   repair and mutate (C18).  They are functions passed to the model ([oracles]).

   The two small repairs proposed for get_input_string (proposed_fixes/C19-*.diff) are
   modelled by the flags [fx_empty] and [fx_json]; [pinned] is the unchanged tree. *)
From ISLA Require Export Str Outcome.
From Coq Require Export ZArith.

(* ------------------------------------------------------------------ *)
(* file names and their classification by suffix                        *)
(* ------------------------------------------------------------------ *)

(* Python str.endswith *)
Definition ends_with (s suf : str) : bool :=
  let n := length s in
  let m := length suf in
  if Nat.leb m n then str_eqb (skipn (n - m) s) suf else false.

Definition suf_bnf  : str := [46; 98; 110; 102]%N.        (* ".bnf"  *)
Definition suf_py   : str := [46; 112; 121]%N.            (* ".py"   *)
Definition suf_isla : str := [46; 105; 115; 108; 97]%N.   (* ".isla" *)
Definition nl : chr := 10%N.

Definition is_grammar_name (n : str) : bool := ends_with n suf_bnf || ends_with n suf_py.
Definition is_constraint_name (n : str) : bool := ends_with n suf_isla.
(* get_input_string: not .bnf and not .isla and not .py *)
Definition is_input_name (n : str) : bool :=
  negb (ends_with n suf_bnf) && negb (ends_with n suf_isla) && negb (ends_with n suf_py).

(* ------------------------------------------------------------------ *)
(* command line                                                         *)
(* ------------------------------------------------------------------ *)

Inductive cmd := Solve | Check | Parse | Repair | Mutate.

Inductive fstat :=
| Unopenable            (* missing, a directory, unreadable: argparse's FileType raises *)
| Undecodable           (* opens, but read() raises UnicodeDecodeError *)
| Text (content : str).

Record file := File { fname : str; fstate : fstat }.

Inductive odir  := DirNone | DirOk | DirBad.      (* solve -d *)
Inductive ofile := OutNone | OutOk | OutBad.      (* parse/repair/mutate -o ; OutBad: open(...,"w") raises *)
Inductive wvec  := WvOk | WvLen | WvNum.          (* solve -w *)

Record args := Args {
  a_cmd : cmd;
  a_grammar : option str;       (* -g *)
  a_constraints : list str;     (* -c (action=append); [] = option absent *)
  a_input : option str;         (* -i (not available for solve) *)
  a_files : list file;          (* FILES, in command-line order *)
  a_num : Z;                    (* solve -n *)
  a_tree : bool;                (* solve -T *)
  a_pretty : bool;              (* solve/parse -p *)
  a_wv : wvec;
  a_outdir : odir;
  a_outfile : ofile
}.

(* ------------------------------------------------------------------ *)
(* observable outcome                                                   *)
(* ------------------------------------------------------------------ *)

Inductive exit_kind :=
| Exit (code : Z)
| Traceback (e : exn)      (* an exception other than SystemExit leaves main() *)
| OutOfFuel.               (* solve -n <= 0 on a solver that never stops: not observable *)

Inductive out_item :=
| MsgSat         (* "input satisfies the ISLa constraint" *)
| MsgNotSat      (* "input does not satisfy the ISLa constraint" *)
| MsgNoParse     (* "input could not be parsed" *)
| Line (s : str).

Inductive err_kind :=
| SeNone
| SeUsage        (* usage / "you must specify" / "found n inputs" / "does not exist or is no directory" *)
| SeFormat       (* "... occurred while processing a provided file" / "... while parsing the constraint" / weight vector *)
| SeNoParse      (* "input could not be parsed" on stderr (repair, mutate) *)
| SeNoRepair     (* "sorry, I could not repair this input" *)
| SeUnsat        (* "UNSAT" *)
| SeSolveExn.    (* "An exception (...) occurred during constraint solving" *)

Record outcome := Outcome { o_exit : exit_kind; o_stdout : list out_item; o_stderr : err_kind }.

Definition USAGE_ERROR : Z := 2.
Definition DATA_FORMAT_ERROR : Z := 65.

Definition usage_error  := Outcome (Exit USAGE_ERROR) [] SeUsage.
Definition format_error := Outcome (Exit DATA_FORMAT_ERROR) [] SeFormat.
Definition traceback e  := Outcome (Traceback e) [] SeNone.

(* a stage either continues with a value or ends the process *)
Inductive step (A : Type) := Cont (a : A) | Stop (o : outcome).
Arguments Cont {A} a.
Arguments Stop {A} o.
Definition sbind {A B} (s : step A) (f : A -> step B) : step B :=
  match s with Cont a => f a | Stop o => Stop o end.
Notation "'do' x <- s ;; f" := (sbind s (fun x => f)) (at level 200, x name, s at level 100, f at level 200).

(* which proposed repairs of get_input_string are present in the tree *)
Record fixes := Fixes { fx_empty : bool; fx_json : bool }.
Definition pinned := Fixes false false.
Definition repaired := Fixes true true.

(* Python truthiness of an optional string argument:  `if args.grammar:` *)
Definition truthy (o : option str) : option str :=
  match o with Some (c :: s) => Some (c :: s) | _ => None end.

Section Model.
  (* ---------------- oracles: the library behind the CLI ---------------- *)
  Variables G F T : Type.          (* grammar part, formula, derivation tree *)
  Definition gram := list G.       (* `grammar |= part` for each part, in order *)

  Inductive pyout := PyExn (e : exn) | PyExit65 | PyOk (g : option G).
  Inductive jout  := JNotJson | JRaise (e : exn) | JTree (t : T).
  Inductive chk   := ChkTrue | ChkFalse | ChkUnknown | ChkRaise (e : exn).
  Inductive sev   := SolTree (t : T) | SolStop | SolTimeout | SolExn (e : exn).
  Inductive rep   := RepOk (t : T) | RepFail | RepExn (e : exn).

  Record oracles := Oracles {
    bnf : str -> option G;                  (* parse_bnf; None = any exception *)
    pyext : str -> pyout;                   (* process_python_extension: raises | sys.exit(65) | grammar? *)
    isla : gram -> str -> option F;         (* parse_isla with the predicates; None = any exception *)
    ftrue : F;                              (* isla_shortcuts.true() *)
    fand : F -> F -> F;                     (* Formula.__and__ *)
    json_in : gram -> str -> jout;          (* json.loads | from_parse_tree + tree_is_valid assertion | tree *)
    parse_api : gram -> F -> str -> option T;   (* ISLaSolver(g,f).parse(inp, skip_check=True) under safe *)
    check_api : gram -> F -> T -> chk;      (* ISLaSolver(g,f,preds).check(tree): True|False/SemanticError|Unknown|other *)
    solver_init : gram -> F -> option exn;  (* solve: GrammarGraph.from_grammar + ISLaSolver(...) raise? *)
    solve_api : gram -> F -> list sev;      (* results of the successive solver.solve() calls *)
    repair_api : gram -> F -> T -> rep;     (* ISLaSolver(...).repair(tree): Success|Failure|raises *)
    mutate_api : gram -> F -> T -> res T;   (* ISLaSolver(...).mutate(tree) *)
    to_str : T -> str;                      (* str(tree) *)
    to_json : bool -> T -> str              (* derivation_tree_to_json(tree, pretty) *)
  }.

  Variable O : oracles.
  Variable fx : fixes.

  (* ---------------- argparse + read_files ---------------- *)

  Definition unopenable (f : file) : bool := match fstate f with Unopenable => true | _ => false end.

  Definition argparse_files (fs : list file) : step unit :=
    if existsb unopenable fs then Stop usage_error else Cont tt.

  (* {io.name: io.read() for io in files}: a dict; a repeated name keeps its first position.
     read() happens for every argument, in order *)
  Fixpoint has_name (n : str) (d : list (str * str)) : bool :=
    match d with [] => false | (m, _) :: d' => str_eqb n m || has_name n d' end.

  Fixpoint read_files_acc (fs : list file) (acc : list (str * str)) : step (list (str * str)) :=
    match fs with
    | [] => Cont acc
    | f :: fs' =>
        match fstate f with
        | Text c => read_files_acc fs' (if has_name (fname f) acc then acc else acc ++ [(fname f, c)])
        | _ => Stop (traceback OtherErr)       (* UnicodeDecodeError, not caught *)
        end
    end.
  Definition read_files (fs : list file) := read_files_acc fs [].

  Definition names_with (p : str -> bool) (d : list (str * str)) : list (str * str) :=
    filter (fun nc => p (fst nc)) d.

  (* ---------------- ensure_*_present ---------------- *)

  Definition grammar_present (a : args) (d : list (str * str)) : bool :=
    match truthy (a_grammar a) with
    | Some _ => true
    | None => existsb (fun nc => is_grammar_name (fst nc)) d
    end.

  Definition constraint_present (a : args) (d : list (str * str)) : bool :=
    match a_constraints a with
    | _ :: _ => true
    | [] => existsb (fun nc => is_constraint_name (fst nc)) d
    end.

  (* ---------------- parse_grammar ---------------- *)

  Fixpoint grammar_files (l : list (str * str)) (acc : gram) : step gram :=
    match l with
    | [] => Cont acc
    | (n, c) :: l' =>
        if ends_with n suf_bnf then
          match bnf O c with
          | Some g => grammar_files l' (acc ++ [g])
          | None => Stop format_error
          end
        else
          match pyext O c with
          | PyExn _ => Stop format_error            (* caught by `except Exception` *)
          | PyExit65 => Stop format_error           (* sys.exit(DATA_FORMAT_ERROR) inside *)
          | PyOk (Some g) => grammar_files l' (acc ++ [g])
          | PyOk None => grammar_files l' acc       (* .value_or({}) *)
          end
    end.

  Definition parse_grammar (a : args) (d : list (str * str)) : step gram :=
    match truthy (a_grammar a) with
    | Some s => match bnf O s with Some g => Cont [g] | None => Stop format_error end
    | None =>
        do g <- grammar_files (names_with is_grammar_name d) [] ;;
        match g with
        | [] => Stop usage_error                    (* "Could not find any grammar definition" *)
        | _ => Cont g
        end
    end.

  (* ---------------- read_predicates: the FIRST .py file is executed (again), unprotected ---- *)

  Definition read_predicates (d : list (str * str)) : step unit :=
    match names_with (fun n => ends_with n suf_py) d with
    | [] => Cont tt
    | (_, c) :: _ =>
        match pyext O c with
        | PyExn e => Stop (traceback e)
        | PyExit65 => Stop format_error
        | PyOk _ => Cont tt
        end
    end.

  (* ---------------- parse_constraint ---------------- *)

  (* constraint = true(); for c in sources: constraint &= parse_isla(c) ; any exception -> 65 *)
  Fixpoint fold_constraints (g : gram) (cs : list str) (acc : F) : option F :=
    match cs with
    | [] => Some acc
    | c :: cs' =>
        match isla O g c with
        | Some f => fold_constraints g cs' (fand O acc f)
        | None => None
        end
    end.

  Definition constraint_sources (a : args) (d : list (str * str)) : list str :=
    a_constraints a ++ map snd (names_with is_constraint_name d).

  Definition parse_constraint (a : args) (d : list (str * str)) (g : gram) : step F :=
    match fold_constraints g (constraint_sources a d) (ftrue O) with
    | Some f => Cont f
    | None => Stop format_error
    end.

  (* ---------------- get_input_string ---------------- *)

  Inductive input_res := InTree (t : T) | InFail.

  (* inp[:-1] if inp[-1] == "\n" else inp     (inp non-empty) *)
  Definition strip_nl (s : str) : str :=
    match rev s with
    | c :: r => if N.eqb c nl then rev r else s
    | [] => s
    end.

  Definition input_text (a : args) (d : list (str * str)) : step str :=
    match truthy (a_input a) with
    | Some s => Cont s
    | None =>
        match names_with is_input_name d with
        | [(_, c)] =>
            match c with
            | [] => if fx_empty fx then Cont [] else Stop (traceback IndexErr)   (* inp[-1] *)
            | _ => Cont (strip_nl c)
            end
        | _ => Stop usage_error                  (* "found n inputs" *)
        end
    end.

  Definition parse_text (g : gram) (f : F) (s : str) : input_res :=
    match parse_api O g f s with Some t => InTree t | None => InFail end.

  Definition get_input (a : args) (d : list (str * str)) (g : gram) (f : F) : step input_res :=
    do s <- input_text a d ;;
    match json_in O g s with
    | JTree t => Cont (InTree t)
    | JRaise e => if fx_json fx then Cont (parse_text g f s) else Stop (traceback e)
    | JNotJson => Cont (parse_text g f s)
    end.

  (* ---------------- the common front part ---------------- *)

  Definition needs_constraint (c : cmd) : bool := match c with Solve => false | _ => true end.

  Definition front (a : args) : step (list (str * str) * gram * F) :=
    do _ <- argparse_files (a_files a) ;;
    do d <- read_files (a_files a) ;;
    if negb (grammar_present a d) then Stop usage_error else
    if needs_constraint (a_cmd a) && negb (constraint_present a d) then Stop usage_error else
    if match a_cmd a, a_outdir a with Solve, DirBad => true | _, _ => false end then Stop usage_error else
    do g <- parse_grammar a d ;;
    do _ <- read_predicates d ;;
    do f <- parse_constraint a d g ;;
    Cont (d, g, f).

  (* ---------------- do_check ---------------- *)

  (* (code, msg, maybe_tree) or the process ends *)
  Definition do_check (a : args) : step (Z * out_item * option T) :=
    do dgf <- front a ;;
    let '(d, g, f) := dgf in
    do r <- get_input a d g f ;;
    match r with
    | InFail => Cont (1%Z, MsgNoParse, None)
    | InTree t =>
        match check_api O g f t with
        | ChkTrue => Cont (0%Z, MsgSat, Some t)
        | ChkFalse => Cont (1%Z, MsgNotSat, None)
        | ChkUnknown => Stop (traceback OtherErr)      (* UnknownResultError is not caught *)
        | ChkRaise e => Stop (traceback e)
        end
    end.

  Definition finish {A} (s : step A) (k : A -> outcome) : outcome :=
    match s with Cont a => k a | Stop o => o end.

  Definition run_check (a : args) : outcome :=
    finish (do_check a) (fun r => let '(code, msg, _) := r in Outcome (Exit code) [msg] SeNone).

  (* writing a result: to the -o file or to stdout *)
  Definition write_result (a : args) (s : str) : outcome :=
    match a_outfile a with
    | OutNone => Outcome (Exit 0) [Line s] SeNone
    | OutOk => Outcome (Exit 0) [] SeNone
    | OutBad => traceback OtherErr                     (* open(..., "w") raises OSError *)
    end.

  Definition run_parse (a : args) : outcome :=
    finish (do_check a) (fun r =>
      let '(code, msg, mt) := r in
      match mt with
      | Some t => write_result a (to_json O (a_pretty a) t)
      | None => Outcome (Exit code) [msg] SeNone
      end).

  Definition run_repair (a : args) : outcome :=
    finish (do dgf <- front a ;; let '(d, g, f) := dgf in
            do r <- get_input a d g f ;; Cont (g, f, r))
      (fun gfr => let '(g, f, r) := gfr in
       match r with
       | InFail => Outcome (Exit 1) [] SeNoParse
       | InTree t =>
           match repair_api O g f t with
           | RepExn e => traceback e
           | RepFail => Outcome (Exit 1) [] SeNoRepair
           | RepOk t' => write_result a (to_str O t')
           end
       end).

  Definition run_mutate (a : args) : outcome :=
    finish (do dgf <- front a ;; let '(d, g, f) := dgf in
            do r <- get_input a d g f ;; Cont (g, f, r))
      (fun gfr => let '(g, f, r) := gfr in
       match r with
       | InFail => Outcome (Exit 1) [] SeNoParse
       | InTree t =>
           match mutate_api O g f t with
           | Raise e => traceback e
           | Ok t' => write_result a (to_str O t')
           end
       end).

  (* ---------------- solve ---------------- *)

  Definition render (a : args) (t : T) : str :=
    if a_tree a then to_json O (a_pretty a) t else to_str O t.

  (* i = 0; while not (0 < n <= i): try: tree = solver.solve() ... ; i += 1
     The list of events is the fuel: running out of recorded events is OutOfFuel. *)
  Fixpoint solve_loop (a : args) (evs : list sev) (i : Z) (acc : list out_item) : outcome :=
    if (0 <? a_num a)%Z && (a_num a <=? i)%Z then Outcome (Exit 0) acc SeNone else
    match evs with
    | [] => Outcome OutOfFuel acc SeNone
    | SolTree t :: evs' =>
        solve_loop a evs' (i + 1)%Z
          (match a_outdir a with DirNone => acc ++ [Line (render a t)] | _ => acc end)
    | SolStop :: _ => Outcome (Exit 0) acc SeUnsat
    | SolTimeout :: _ => Outcome (Exit 0) acc SeNone
    | SolExn _ :: _ => Outcome (Exit 1) acc SeSolveExn
    end.

  Definition run_solve (a : args) : outcome :=
    finish (front a) (fun dgf => let '(_, g, f) := dgf in
      match a_wv a with
      | WvLen | WvNum => format_error
      | WvOk =>
          match solver_init O g f with
          | Some e => traceback e
          | None => solve_loop a (solve_api O g f) 0%Z []
          end
      end).

  Definition run (a : args) : outcome :=
    match a_cmd a with
    | Solve => run_solve a
    | Check => run_check a
    | Parse => run_parse a
    | Repair => run_repair a
    | Mutate => run_mutate a
    end.

End Model.

Arguments bnf {G F T} o _.
Arguments pyext {G F T} o _.
Arguments isla {G F T} o _ _.
Arguments ftrue {G F T} o.
Arguments fand {G F T} o _ _.
Arguments json_in {G F T} o _ _.
Arguments parse_api {G F T} o _ _ _.
Arguments check_api {G F T} o _ _ _.
Arguments solver_init {G F T} o _ _.
Arguments solve_api {G F T} o _ _.
Arguments repair_api {G F T} o _ _ _.
Arguments mutate_api {G F T} o _ _ _.
Arguments to_str {G F T} o _.
Arguments to_json {G F T} o _ _.
Arguments grammar_files {G F T} O l acc.
Arguments parse_grammar {G F T} O a d.
Arguments read_predicates {G F T} O d.
Arguments fold_constraints {G F T} O g cs acc.
Arguments parse_constraint {G F T} O a d g.
Arguments parse_text {G F T} O g f s.
Arguments get_input {G F T} O fx a d g f.
Arguments front {G F T} O a.
Arguments do_check {G F T} O fx a.
Arguments run_check {G F T} O fx a.
Arguments run_parse {G F T} O fx a.
Arguments run_repair {G F T} O fx a.
Arguments run_mutate {G F T} O fx a.
Arguments render {G F T} O a t.
Arguments solve_loop {G F T} O a evs i acc.
Arguments run_solve {G F T} O a.
Arguments run {G F T} O fx a.
Arguments PyExn {G} e.
Arguments PyExit65 {G}.
Arguments PyOk {G} g.
Arguments JNotJson {T}.
Arguments JRaise {T} e.
Arguments JTree {T} t.
Arguments SolTree {T} t.
Arguments SolStop {T}.
Arguments SolTimeout {T}.
Arguments SolExn {T} e.
Arguments RepOk {T} t.
Arguments RepFail {T}.
Arguments RepExn {T} e.
Arguments InTree {T} t.
Arguments InFail {T}.

(* ------------------------------------------------------------------ *)
(* comparison of outcomes (used by the correspondence check)            *)
(* ------------------------------------------------------------------ *)

Definition exit_eqb (x y : exit_kind) : bool :=
  match x, y with
  | Exit a, Exit b => Z.eqb a b
  | Traceback e, Traceback f => exn_eqb e f
  | OutOfFuel, OutOfFuel => true
  | _, _ => false
  end.

Definition item_eqb (x y : out_item) : bool :=
  match x, y with
  | MsgSat, MsgSat | MsgNotSat, MsgNotSat | MsgNoParse, MsgNoParse => true
  | Line s, Line t => str_eqb s t
  | _, _ => false
  end.

Fixpoint items_eqb (x y : list out_item) : bool :=
  match x, y with
  | [], [] => true
  | a :: x', b :: y' => item_eqb a b && items_eqb x' y'
  | _, _ => false
  end.

Definition err_eqb (x y : err_kind) : bool :=
  match x, y with
  | SeNone, SeNone | SeUsage, SeUsage | SeFormat, SeFormat | SeNoParse, SeNoParse
  | SeNoRepair, SeNoRepair | SeUnsat, SeUnsat | SeSolveExn, SeSolveExn => true
  | _, _ => false
  end.

Definition outcome_eqb (x y : outcome) : bool :=
  exit_eqb (o_exit x) (o_exit y) && items_eqb (o_stdout x) (o_stdout y) && err_eqb (o_stderr x) (o_stderr y).

(* table lookups for the correspondence check: oracles given as finite tables *)
Fixpoint lookup {K V} (eqb : K -> K -> bool) (k : K) (tbl : list (K * V)) (dflt : V) : V :=
  match tbl with
  | [] => dflt
  | (k', v) :: tbl' => if eqb k k' then v else lookup eqb k tbl' dflt
  end.

Fixpoint natlist_eqb (x y : list nat) : bool :=
  match x, y with
  | [], [] => true
  | a :: x', b :: y' => Nat.eqb a b && natlist_eqb x' y'
  | _, _ => false
  end.

(* ------------------------------------------------------------------ *)
(* classes of recorded findings (guards of the _partial theorems)       *)
(* Each is a predicate over the command line and the library's answers. *)
(* ------------------------------------------------------------------ *)
Section Classes.
  Variables G F T : Type.
  Variable O : oracles G F T.
  Variable fx : fixes.

  Definition uses_input (c : cmd) : bool := match c with Solve => false | _ => true end.

  Definition dict_of (a : args) : list (str * str) :=
    match read_files (a_files a) with Cont d => d | Stop _ => [] end.

  (* a FILES argument that is not valid UTF-8 *)
  Definition K_undecodable (a : args) : bool :=
    existsb (fun f => match fstate f with Undecodable => true | _ => false end) (a_files a).

  (* --grammar given AND the first .py file raises when executed: read_predicates is unprotected *)
  Definition K_pyext_raises (a : args) : bool :=
    match truthy (a_grammar a), names_with (fun n => ends_with n suf_py) (dict_of a) with
    | Some _, (_, c) :: _ => match pyext O c with PyExn _ => true | _ => false end
    | _, _ => false
    end.

  (* the input comes from a file and that file is empty *)
  Definition K_empty_input (a : args) : bool :=
    uses_input (a_cmd a) && negb (fx_empty fx) &&
    match truthy (a_input a), names_with is_input_name (dict_of a) with
    | None, [(_, [])] => true
    | _, _ => false
    end.

  Definition gf_of (a : args) : option (list (str * str) * gram G * F) :=
    match front O a with Cont x => Some x | Stop _ => None end.

  (* the input text is JSON but not a derivation tree of the grammar (e.g. the number 12) *)
  Definition K_json_nontree (a : args) : bool :=
    uses_input (a_cmd a) && negb (fx_json fx) &&
    match gf_of a with
    | Some (d, g, _) =>
        match input_text fx a d with
        | Cont s => match json_in O g s with JRaise _ => true | _ => false end
        | Stop _ => false
        end
    | None => false
    end.

  Definition tree_of (a : args) : option (gram G * F * T) :=
    match gf_of a with
    | Some (d, g, f) =>
        match get_input O fx a d g f with Cont (InTree t) => Some (g, f, t) | _ => None end
    | None => None
    end.

  (* solver.check raises (UnknownResultError for an open tree / unevaluable predicate, or anything else) *)
  Definition K_check_raises (a : args) : bool :=
    match a_cmd a, tree_of a with
    | (Check | Parse), Some (g, f, t) =>
        match check_api O g f t with ChkUnknown | ChkRaise _ => true | _ => false end
    | _, _ => false
    end.

  (* solver.repair / solver.mutate raise: not caught by the CLI (solve() exceptions are) *)
  Definition K_api_raises (a : args) : bool :=
    match a_cmd a, tree_of a with
    | Repair, Some (g, f, t) => match repair_api O g f t with RepExn _ => true | _ => false end
    | Mutate, Some (g, f, t) => match mutate_api O g f t with Raise _ => true | _ => false end
    | _, _ => false
    end.

  (* solve: the grammar parses as BNF but GrammarGraph / ISLaSolver reject it (no <start>, undefined nonterminal) *)
  Definition K_solver_init (a : args) : bool :=
    match a_cmd a, a_wv a, gf_of a with
    | Solve, WvOk, Some (_, g, f) => match solver_init O g f with Some _ => true | None => false end
    | _, _, _ => false
    end.

  (* -o names a file that cannot be opened for writing *)
  Definition K_outfile (a : args) : bool :=
    match a_cmd a, a_outfile a with
    | (Parse | Repair | Mutate), OutBad => true
    | _, _ => false
    end.

  (* first applicable class, as a number (0 = none) — used by the correspondence check *)
  Definition kclass (a : args) : nat :=
    if K_undecodable a then 1 else if K_pyext_raises a then 2 else if K_empty_input a then 3
    else if K_json_nontree a then 4 else if K_check_raises a then 5 else if K_api_raises a then 6
    else if K_solver_init a then 7 else if K_outfile a then 8 else 0.

  Definition tb_guard (a : args) : bool :=
    negb (K_undecodable a) && negb (K_pyext_raises a) && negb (K_empty_input a) &&
    negb (K_json_nontree a) && negb (K_check_raises a) && negb (K_api_raises a) &&
    negb (K_solver_init a) && negb (K_outfile a).
End Classes.

(* stdout as text: every item is print()ed, i.e. followed by a newline.
   The three fixed messages are passed in (the harness takes them from the strings in cli.py's contract). *)
Fixpoint stdout_text (m_sat m_notsat m_noparse : str) (items : list out_item) : str :=
  match items with
  | [] => []
  | it :: items' =>
      (match it with MsgSat => m_sat | MsgNotSat => m_notsat | MsgNoParse => m_noparse | Line s => s end)
      ++ [nl] ++ stdout_text m_sat m_notsat m_noparse items'
  end.

Definition is_tb (o : outcome) : bool := match o_exit o with Traceback _ => true | _ => false end.
