(* C01 — soundness of the abstract rule system of Rules.v with respect to the specification
   semantics (Logic/Semantics.v).  local soundness per rule, then solve_sound_partial. *)
From ISLA Require Export Rules.
From Coq Require Import Lia Relations.

(* ------------------------------------------------------------------ *)
(* completion                                                          *)
(* ------------------------------------------------------------------ *)
Definition compl_kids : list tree -> list tree -> Prop :=
  fix go (ks ks' : list tree) {struct ks} : Prop :=
    match ks, ks' with
    | [], [] => True
    | k :: r, k' :: r' => compl k k' /\ go r r'
    | _, _ => False
    end.

Lemma compl_unfold l i o ks t' :
  compl (Node l i o ks) t' =
  (if o then ks = [] /\ lbl t' = l
   else lbl t' = l /\ tid t' = i /\ opn t' = false /\ compl_kids ks (kids t')).
Proof. reflexivity. Qed.

Lemma compl_kids_F2 ks : forall ks', compl_kids ks ks' <-> Forall2 compl ks ks'.
Proof.
  induction ks as [|k r IH]; intros [|k' r']; simpl; split; intro H.
  - constructor.
  - exact I.
  - contradiction.
  - inversion H.
  - contradiction.
  - inversion H.
  - destruct H as [H1 H2]. constructor; [assumption | apply IH; assumption].
  - inversion H as [|x y l l' H1 H2]; subst. split; [assumption | apply IH; assumption].
Qed.

Lemma compl_lbl t t' : compl t t' -> lbl t' = lbl t.
Proof. destruct t as [l i o ks]. rewrite compl_unfold. destruct o; simpl; tauto. Qed.

Lemma compl_refl_closed t : is_openT t = false -> compl t t.
Proof.
  induction t as [l i o ks IH] using tree_ind'. intro H. simpl in H.
  apply Bool.orb_false_iff in H as [Ho Hk]. subst o. rewrite compl_unfold. simpl.
  repeat split. apply compl_kids_F2.
  induction ks as [|k r IHr]; constructor.
  - inversion IH as [|x y Hx Hy]; subst. apply Hx. simpl in Hk.
    apply Bool.orb_false_iff in Hk. tauto.
  - inversion IH as [|x y Hx Hy]; subst. apply IHr; [assumption|]. simpl in Hk.
    apply Bool.orb_false_iff in Hk. tauto.
Qed.

Lemma compl_trans t : forall t' t'', compl t t' -> compl t' t'' -> compl t t''.
Proof.
  induction t as [l i o ks IH] using tree_ind'. intros t' t'' H1 H2.
  rewrite compl_unfold in *. destruct o.
  - destruct H1 as [Hk Hl]. split; [assumption|]. rewrite (compl_lbl _ _ H2). assumption.
  - destruct H1 as (Hl & Hi & Ho & Hks). destruct t' as [l' i' o' ks']. simpl in Hl, Hi, Ho, Hks. subst l' i' o'.
    rewrite compl_unfold in H2. destruct H2 as (Hl2 & Hi2 & Ho2 & Hks2).
    repeat split; try assumption.
    apply compl_kids_F2. apply compl_kids_F2 in Hks, Hks2.
    revert Hks2. generalize (kids t''). clear Hl2 Hi2 Ho2.
    induction Hks as [|k k' r r' Hk Hr IHr]; intros l2 H2; inversion H2 as [|x y l1 l2' Hx Hy]; subst.
    + constructor.
    + inversion IH as [|x0 y0 Hx0 Hy0]; subst. constructor.
      * eapply Hx0; eassumption.
      * apply IHr; assumption.
Qed.

Lemma F2_nth {A B} (R : A -> B -> Prop) l l' : Forall2 R l l' ->
  forall i x, nth_error l i = Some x -> exists y, nth_error l' i = Some y /\ R x y.
Proof.
  induction 1 as [|a b r r' Hab Hr IH]; intros [|i] x Hx; simpl in *; try discriminate.
  - inversion Hx; subst. eauto.
  - apply IH. assumption.
Qed.

Lemma F2_length {A B} (R : A -> B -> Prop) l l' : Forall2 R l l' -> length l = length l'.
Proof. induction 1; simpl; congruence. Qed.

Lemma compl_subtree p : forall t t' s, compl t t' -> subtree t p = Some s ->
  exists s', subtree t' p = Some s' /\ compl s s'.
Proof.
  induction p as [|i p IH]; intros t t' s Hc Hs; simpl in *.
  - inversion Hs; subst. eauto.
  - destruct t as [l i0 o ks]. simpl in Hs. rewrite compl_unfold in Hc. destruct o.
    + destruct Hc as [-> _]. destruct i; discriminate.
    + destruct Hc as (_ & _ & _ & Hks). apply compl_kids_F2 in Hks.
      destruct (nth_error ks i) as [c|] eqn:Ec; [|discriminate].
      destruct (F2_nth _ _ _ Hks i c Ec) as (c' & Ec' & Hcc). rewrite Ec'.
      eapply IH; eassumption.
Qed.

Lemma compl_closed_eq s : forall s', compl s s' -> is_openT s = false -> s' = s.
Proof.
  induction s as [l i o ks IH] using tree_ind'. intros s' Hc Ho. simpl in Ho.
  apply Bool.orb_false_iff in Ho as [Ho Hk]. subst o. rewrite compl_unfold in Hc.
  destruct Hc as (Hl & Hi & Hop & Hks). destruct s' as [l' i' o' ks']. simpl in Hl, Hi, Hop, Hks. subst.
  f_equal. apply compl_kids_F2 in Hks.
  induction Hks as [|k k' r r' Hkk Hr IHr]; [reflexivity|].
  inversion IH as [|x y Hx Hy]; subst. simpl in Hk. apply Bool.orb_false_iff in Hk as [Hk1 Hk2].
  f_equal; [apply Hx; assumption | apply IHr; assumption].
Qed.

(* below a closed subtree nothing changes *)
Lemma compl_below_closed t t' p0 s0 q : compl t t' -> subtree t p0 = Some s0 ->
  is_openT s0 = false -> prefix p0 q -> subtree t' q = subtree t q.
Proof.
  intros Hc Hs Ho [r ->]. rewrite !subtree_app, Hs.
  destruct (compl_subtree p0 t t' s0 Hc Hs) as (s0' & Hs' & Hc'). rewrite Hs'.
  rewrite (compl_closed_eq s0 s0' Hc' Ho). reflexivity.
Qed.

(* quantifier domains only grow under completion *)
Lemma in_dom_compl t t' b w T q : compl t t' ->
  in_dom t b (InVar w) T q -> in_dom t' b (InVar w) T q.
Proof.
  intros Hc (p0 & s & Hin & Hp & Hs & Hl).
  destruct (compl_subtree q t t' s Hc Hs) as (s' & Hs' & Hcs).
  exists p0, s'. simpl in *. repeat split; try assumption.
  rewrite (compl_lbl _ _ Hcs). assumption.
Qed.

(* ... and do not change inside a closed in-tree *)
Lemma in_dom_closed t t' b w T q p0 s0 : compl t t' ->
  b w = Some (VPos p0) -> subtree t p0 = Some s0 -> is_openT s0 = false ->
  in_dom t' b (InVar w) T q -> in_dom t b (InVar w) T q /\ subtree t' q = subtree t q.
Proof.
  intros Hc Hb Hs Ho (p1 & s & Hin & Hp & Hsq & Hl). simpl in Hin.
  rewrite Hb in Hin. inversion Hin; subst p1.
  pose proof (compl_below_closed t t' p0 s0 q Hc Hs Ho Hp) as E. split; [|assumption].
  exists p0, s. simpl. rewrite <- E. auto.
Qed.

(* ------------------------------------------------------------------ *)
(* clause lists                                                        *)
(* ------------------------------------------------------------------ *)
Lemma holds_app t cs1 cs2 : holds t (cs1 ++ cs2) <-> holds t cs1 /\ holds t cs2.
Proof.
  unfold holds. split.
  - intro H. split; intros b f Hin; apply H; apply in_or_app; auto.
  - intros [H1 H2] b f Hin. apply in_app_or in Hin as [Hin|Hin]; auto.
Qed.

Lemma holds_cons t b f cs : holds t ((b, f) :: cs) <-> models satom_denote t b f /\ holds t cs.
Proof.
  unfold holds. split.
  - intro H. split; [apply H; left; reflexivity | intros b' f' Hin; apply H; right; assumption].
  - intros [H1 H2] b' f' [E|Hin]; [inversion E; subst; assumption | auto].
Qed.

Lemma holds_mid t cs1 b f cs2 :
  holds t (cs1 ++ (b, f) :: cs2) <-> models satom_denote t b f /\ holds t (cs1 ++ cs2).
Proof. rewrite !holds_app, holds_cons. tauto. Qed.

(* conjunction / disjunction / negation of the specification semantics *)
Section Conn.
  Variable c : tree.
  Notation M := (models satom_denote c).

  Lemma models_and b fs : M b (FAnd fs) <-> forall f, In f fs -> M b f.
  Proof.
    simpl. induction fs as [|x l IH]; simpl.
    - split; [intros _ f [] | auto].
    - rewrite IH. split.
      + intros [H1 H2] f [<-|Hin]; auto.
      + intro H. split; [apply H; auto | intros f Hin; apply H; auto].
  Qed.

  Lemma models_or b fs : M b (FOr fs) <-> exists f, In f fs /\ M b f.
  Proof.
    simpl. induction fs as [|x l IH]; simpl.
    - split; [tauto | intros (f & [] & _)].
    - rewrite IH. split.
      + intros [H|(f & Hin & H)]; [exists x; auto | exists f; auto].
      + intros (f & [<-|Hin] & H); [left; assumption | right; exists f; auto].
  Qed.

  Lemma nnf_step_sound b f f' : nnf_step f f' -> M b f' -> M b f.
  Proof.
    intros Hs H. destruct Hs as [f|fs|fs|v i m body|v i m body].
    - simpl. intro Hn. apply Hn. exact H.
    - apply models_or in H as (x & Hin & Hx). apply in_map_iff in Hin as (y & <- & Hy).
      change (~ M b (FAnd fs)). intro Ha. apply Hx. apply (proj1 (models_and b fs) Ha). assumption.
    - change (~ M b (FOr fs)). intro Ho. apply models_or in Ho as (x & Hin & Hx).
      apply (proj1 (models_and b (map FNot fs)) H (FNot x)); [apply in_map; assumption | assumption].
    - change (~ M b (FForall v i m body)). intro Ha. simpl in H, Ha. destruct m as [me|].
      + destruct H as (q & s & t2 & P & bs & Hd & Hs & Hin & Hm & Hn). apply Hn. eapply Ha; eassumption.
      + destruct H as (q & Hd & Hn). apply Hn. apply Ha. assumption.
    - change (~ M b (FExists v i m body)). intro He. simpl in H, He. destruct m as [me|].
      + destruct He as (q & s & t2 & P & bs & Hd & Hs & Hin & Hm & Hb).
        apply (H q s t2 P bs Hd Hs Hin Hm). assumption.
      + destruct He as (q & Hd & Hb). apply (H q Hd). assumption.
  Qed.
End Conn.

(* ------------------------------------------------------------------ *)
(* match-expression matching is stable under completion                *)
(* ------------------------------------------------------------------ *)
(* a successful match never looks below an open leaf: where the match tree has children the tree
   must have the same number of children (an open leaf has none), where it has none only the
   label is compared *)
Lemma smatch_compl t2 : forall s s' P q bs, compl s s' ->
  smatch t2 s P q = Some bs -> smatch t2 s' P q = Some bs.
Proof.
  induction t2 as [l2 i2 o2 ks2 IH] using tree_ind'. intros s s' P q bs Hc Hm.
  simpl in Hm |- *. rewrite (compl_lbl _ _ Hc).
  destruct (negb (str_eqb (lbl s) l2)) eqn:El; [discriminate|]. simpl in Hm |- *.
  destruct s as [l i o ks]. rewrite compl_unfold in Hc. destruct o.
  - (* s is an open leaf: ks = [] *)
    destruct Hc as [-> _]. simpl in Hm.
    destruct ks2 as [|k2 r2].
    + simpl in Hm |- *. destruct P as [|[v [|j r]] [|y P']]; try assumption;
        destruct (kids s'); assumption.
    + simpl in Hm. discriminate.
  - destruct Hc as (_ & _ & _ & Hks). apply compl_kids_F2 in Hks. simpl in Hm.
    assert (Hlen : length (kids s') = length ks) by (symmetry; eapply F2_length; eassumption).
    rewrite Hlen.
    destruct (negb (length ks2 =? 0) && negb (length ks =? length ks2)) eqn:Eg; [discriminate|].
    assert (Hgo : forall (ks2' ks ks' : list tree) (i0 : nat) (res : list (var * path)),
               Forall (fun k2 => forall s s' P q bs, compl s s' ->
                          smatch k2 s P q = Some bs -> smatch k2 s' P q = Some bs) ks2' ->
               Forall2 compl ks ks' ->
               (fix go (ks' ks : list tree) (i : nat) {struct ks'} : option (list (var * path)) :=
                  match ks', ks with
                  | k' :: r', k :: r =>
                      match smatch k' k (restrict P i) (q ++ [i]), go r' r (S i) with
                      | Some a, Some b => Some (a ++ b)
                      | _, _ => None
                      end
                  | _, _ => Some []
                  end) ks2' ks i0 = Some res ->
               (fix go (ks' ks : list tree) (i : nat) {struct ks'} : option (list (var * path)) :=
                  match ks', ks with
                  | k' :: r', k :: r =>
                      match smatch k' k (restrict P i) (q ++ [i]), go r' r (S i) with
                      | Some a, Some b => Some (a ++ b)
                      | _, _ => None
                      end
                  | _, _ => Some []
                  end) ks2' ks' i0 = Some res).
    { clear. induction ks2' as [|k2 r2 IHr]; intros ks ks' i0 res HF H2 Hres.
      - destruct ks'; assumption.
      - inversion HF as [|x y Hx Hy]; subst.
        destruct H2 as [|k k' r r' Hk Hr].
        + assumption.
        + destruct (smatch k2 k (restrict P i0) (q ++ [i0])) as [a|] eqn:Ea; [|discriminate].
          rewrite (Hx _ _ _ _ _ Hk Ea).
          match type of Hres with match ?X with _ => _ end = _ => destruct X as [b0|] eqn:Eb end;
            [|discriminate].
          rewrite (IHr r r' (S i0) b0 Hy Hr Eb). assumption. }
    destruct P as [|[v [|j r]] [|y P']];
      try (eapply Hgo; [exact IH | exact Hks | exact Hm]).
    assumption.
Qed.

Lemma qmatch_compl t t' b v w m q b' : compl t t' ->
  qmatch t b v w m q b' -> qmatch t' b v w m q b'.
Proof.
  intros Hc [Hd Hm]. split; [eapply in_dom_compl; eassumption|].
  destruct m as [me|]; [|assumption].
  destruct Hm as (s & t2 & P & bs & Hs & Hin & Hsm & Hb).
  destruct (compl_subtree q t t' s Hc Hs) as (s' & Hs' & Hcs).
  exists s', t2, P, bs. repeat split; try assumption. eapply smatch_compl; eassumption.
Qed.
