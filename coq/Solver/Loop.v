(* C02 — model of the control skeleton of ISLaSolver.solve()  (src/isla/solver.py, `def solve`).

   MODEL FILE: definitions only, no proofs (Solver/LoopFacts.v has spec + proofs).

   Python (abridged, in program order):

     def solve(self):
         if self.timeout_seconds is not None and self.start_time is None:      (begin)
             self.start_time = int(time.time())
         while self.queue:                                                       (loop)
             self.step_cnt += 1
             if self.timeout_seconds is not None:
                 if int(time.time()) - self.start_time > self.timeout_seconds:
                     raise TimeoutError(self.timeout_seconds)
             if self.solutions:
                 return self.solutions.pop(0)
             cost, state = heapq.heappop(self.queue)
             ... eliminate / expand `state`, push successors on self.queue ...   (process)
             self.solutions.extend(self.process_new_states(result_states))
         if self.solutions:                                                      (finish)
             return self.solutions.pop(0)
         else:
             raise StopIteration()

   Abstracted (Section variables, i.e. explicit premises of every exported theorem):
     Qu, pop   : the queue and its discipline (Python: a heapq of (cost, state); `pop q = None`
                 iff the queue is empty).  Any discipline is allowed.
     process   : everything between `heappop` and `solutions.extend`: takes the popped state and
                 the remaining queue, returns the new queue (pushes, re-costing) and either the
                 list of new solutions or an exception (ANY exception, including
                 StopIteration/TimeoutError coming from inside, e.g. from the nested solve() of
                 the unsat check).  `solutions.extend` runs only when nothing was raised.
     clk       : the k-th value of int(time.time()) read BY THE SKELETON (reads made inside
                 `process` are not part of this stream).  *)
From Coq Require Import List ZArith NArith Bool.
From ISLA Require Import Outcome.
Import ListNotations.

(* outcome of one solve() call; OFuel = the call did not return within the given fuel
   (divergence of the search is possible in Python, too) *)
Inductive outcome (Tr : Type) := OTree (t : Tr) | ORaise (e : exn) | OFuel.
Arguments OTree {Tr} t.
Arguments ORaise {Tr} e.
Arguments OFuel {Tr}.

Section Loop.
  Variables St Tr Qu : Type.
  Variable pop : Qu -> option (St * Qu).
  Variable process : St -> Qu -> Qu * res (list Tr).
  Variable clk : nat -> Z.

  Record solver := mkSolver {
    queue : Qu;               (* self.queue *)
    sols : list Tr;           (* self.solutions (pending, FIFO) *)
    start : option Z;         (* self.start_time *)
    timeout : option Z;       (* self.timeout_seconds *)
    tick : nat;               (* number of skeleton clock reads so far *)
    steps : N                 (* self.step_cnt *)
  }.

  Definition set_queue (st : solver) (q : Qu) :=
    mkSolver q (sols st) (start st) (timeout st) (tick st) (steps st).
  Definition set_sols (st : solver) (l : list Tr) :=
    mkSolver (queue st) l (start st) (timeout st) (tick st) (steps st).
  Definition set_start (st : solver) (z : Z) :=
    mkSolver (queue st) (sols st) (Some z) (timeout st) (tick st) (steps st).
  Definition read_tick (st : solver) :=
    mkSolver (queue st) (sols st) (start st) (timeout st) (S (tick st)) (steps st).
  Definition bump (st : solver) :=
    mkSolver (queue st) (sols st) (start st) (timeout st) (tick st) (N.succ (steps st)).

  (* if self.timeout_seconds is not None and self.start_time is None: start_time = int(time()) *)
  Definition begin (st : solver) : solver :=
    match timeout st, start st with
    | Some _, None => read_tick (set_start st (clk (tick st)))
    | _, _ => st
    end.

  (* after the while loop *)
  Definition finish (st : solver) : outcome Tr * solver :=
    match sols st with
    | t :: ts => (OTree t, set_sols st ts)
    | [] => (ORaise StopIter, st)
    end.

  (* the timeout test of one iteration: None = no exception, continue with the state;
     `int - None` is a TypeError in Python *)
  Definition timeout_test (st : solver) : res bool * solver :=
    match timeout st with
    | None => (Ok false, st)
    | Some tmo =>
        match start st with
        | None => (Raise TypeErr, read_tick st)
        | Some s0 => (Ok (Z.ltb tmo (clk (tick st) - s0)), read_tick st)
        end
    end.

  Fixpoint loop (fuel : nat) (st : solver) : outcome Tr * solver :=
    match pop (queue st) with
    | None => finish st                                   (* while self.queue: — empty *)
    | Some (s, q') =>
        let st1 := bump st in                             (* self.step_cnt += 1 *)
        match timeout_test st1 with
        | (Raise e, st2) => (ORaise e, st2)
        | (Ok true, st2) => (ORaise TimeoutErr, st2)      (* raise TimeoutError *)
        | (Ok false, st2) =>
            match sols st2 with
            | t :: ts => (OTree t, set_sols st2 ts)       (* pending solution first *)
            | [] =>
                match fuel with
                | O => (OFuel, st2)
                | S f =>
                    match process s q' with               (* heappop; eliminate; push; collect *)
                    | (q'', Raise e) => (ORaise e, set_queue st2 q'')   (* popped state is lost,
                                                           pushes made before the crash stay *)
                    | (q'', Ok new) => loop f (set_sols (set_queue st2 q'') (sols st2 ++ new))
                    end
                end
            end
        end
    end.

  Definition solve (fuel : nat) (st : solver) : outcome Tr * solver := loop fuel (begin st).

  (* a call history: one fuel value per solve() call; result: outcome and state after each call *)
  Fixpoint run (st : solver) (fuels : list nat) : list (outcome Tr * solver) :=
    match fuels with
    | [] => []
    | f :: fs => let r := solve f st in r :: run (snd r) fs
    end.

  Definition outcomes (st : solver) (fuels : list nat) : list (outcome Tr) :=
    map fst (run st fuels).

  (* the solver as the constructor leaves it *)
  Definition init (q : Qu) (tmo : option Z) : solver := mkSolver q [] None tmo 0 0%N.
End Loop.

Arguments queue {Tr Qu} s.
Arguments sols {Tr Qu} s.
Arguments start {Tr Qu} s.
Arguments timeout {Tr Qu} s.
Arguments tick {Tr Qu} s.
Arguments steps {Tr Qu} s.
Arguments init {Tr Qu} q tmo.

(* ------------------------------------------------------------------------------------------
   Instance used by the correspondence check (harness/c02.py): states and solutions are
   numbered by the harness in the order in which the implementation created them; the queue
   is a list of (priority, state id); `pop` takes the entry of minimal priority (the first
   one on ties) — priorities are the OBSERVED pop ranks, i.e. the heap order is taken from
   the observation, not modelled; `process` is the table of OBSERVED per-state results.
   ------------------------------------------------------------------------------------------ *)
Definition tq := list (N * N).

Fixpoint tmin (best : N * N) (q : tq) : N * N :=
  match q with
  | [] => best
  | e :: q' => tmin (if N.ltb (fst e) (fst best) then e else best) q'
  end.

Fixpoint tremove (x : N * N) (q : tq) : tq :=
  match q with
  | [] => []
  | e :: q' => if (N.eqb (fst e) (fst x) && N.eqb (snd e) (snd x))%bool then q' else e :: tremove x q'
  end.

Definition tpop (q : tq) : option (N * tq) :=
  match q with
  | [] => None
  | e :: q' => let m := tmin e q' in Some (snd m, tremove m q)
  end.

Definition ttable := list (N * (tq * res (list N))).

Fixpoint tlookup (s : N) (tb : ttable) : option (tq * res (list N)) :=
  match tb with
  | [] => None
  | (k, r) :: tb' => if N.eqb k s then Some r else tlookup s tb'
  end.

(* observed result of processing state s: the pushed entries and the ids of the new solutions *)
Definition tprocess (tb : ttable) (s : N) (q : tq) : tq * res (list N) :=
  match tlookup s tb with
  | Some (pushed, r) => (q ++ pushed, r)
  | None => (q, Raise OtherErr)
  end.

(* observed clock readings; after the recorded ones the clock stands still *)
Definition tclk (rs : list Z) (n : nat) : Z := nth n rs (last rs 0%Z).

(* what the harness observes after each call *)
Record obs := mkObs {
  o_out : outcome N; o_qlen : N; o_nsols : N; o_steps : N; o_start : option Z }.

Definition outcome_eqb (a b : outcome N) : bool :=
  match a, b with
  | OTree x, OTree y => N.eqb x y
  | ORaise e, ORaise f => exn_eqb e f
  | OFuel, OFuel => true
  | _, _ => false
  end.

Definition optZ_eqb (a b : option Z) : bool :=
  match a, b with
  | Some x, Some y => Z.eqb x y
  | None, None => true
  | _, _ => false
  end.

Definition tsolver := solver N tq.

Definition obs_of (r : outcome N * tsolver) : obs :=
  mkObs (fst r) (N.of_nat (length (queue (snd r)))) (N.of_nat (length (sols (snd r))))
        (steps (snd r)) (start (snd r)).

Definition obs_eqb (a b : obs) : bool :=
  (outcome_eqb (o_out a) (o_out b) && N.eqb (o_qlen a) (o_qlen b) && N.eqb (o_nsols a) (o_nsols b)
   && N.eqb (o_steps a) (o_steps b) && optZ_eqb (o_start a) (o_start b))%bool.

(* one correspondence case: configured timeout, initial queue, skeleton clock readings,
   process table, and per call (fuel, observation) *)
Definition tcase := (option Z * tq * list Z * ttable * list (nat * obs))%type.

Definition trun (c : tcase) : list obs :=
  let '(tmo, q0, rs, tb, calls) := c in
  map obs_of (run N N tq tpop (tprocess tb) (tclk rs) (init q0 tmo) (map fst calls)).

Fixpoint obs_list_eqb (a b : list obs) : bool :=
  match a, b with
  | [], [] => true
  | x :: a', y :: b' => (obs_eqb x y && obs_list_eqb a' b')%bool
  | _, _ => false
  end.

Definition tcase_ok (c : tcase) : bool :=
  let '(_, _, _, _, calls) := c in obs_list_eqb (trun c) (map snd calls).

(* class predicates of the recorded finding classes (over the observed process table) *)
Definition raises (e : exn) (r : N * (tq * res (list N))) : bool :=
  match snd (snd r) with Raise f => exn_eqb e f | Ok _ => false end.
(* a TimeoutError that comes from inside `process` (nested solve() of the unsat check) *)
Definition K_inner_timeout (tb : ttable) : bool := existsb (raises TimeoutErr) tb.
(* a StopIteration that comes from inside `process` *)
Definition K_inner_stop (tb : ttable) : bool := existsb (raises StopIter) tb.
(* any crash of `process` *)
Definition K_crash (tb : ttable) : bool :=
  existsb (fun r : N * (tq * res (list N)) => match snd (snd r) with Raise _ => true | Ok _ => false end) tb.
