(* C18 (proof extension) — instantiating the global constant preserves the specification semantics.
   evaluate() first replaces the constant cst by the reference tree
   (formula.substitute_expressions({cst: t}); model Eval.inst_const with the concrete atom_inst)
   and evaluates the instantiated formula under the EMPTY assignment.  The specification
   (Semantics.sat) evaluates the uninstantiated formula under [cst |-> root position].  This file
   proves that both agree:
       models t [cst |-> []] phi  <->  models t {} (inst phi)
   for trees with pairwise different node ids (a tree argument denotes the positions holding its
   id) whose root label is not a numeral, and formulas in which no quantifier and no match
   expression binds cst again (cst_unbound; substitute_expressions substitutes below a re-binding
   quantifier as well, so the guard is needed). *)
From ISLA Require Import Semantics Eval EvalAtoms EvalFacts MatchFacts.
From Coq Require Import Lia.

Definition vars_ne (cst : var) (P : list (var * path)) : bool :=
  forallb (fun vp : var * path => negb (var_eqb (fst vp) cst)) P.

Fixpoint cst_unbound (cst : var) (f : formula atom) {struct f} : bool :=
  match f with
  | FSmt _ | FSPred _ _ | FSemPred _ _ => true
  | FNot g => cst_unbound cst g
  | FAnd fs | FOr fs => forallb (cst_unbound cst) fs
  | FForall v i m b | FExists v i m b =>
      negb (var_eqb v cst) &&
      match m with
      | None => true
      | Some me => forallb (fun tp : tree * list (var * path) => vars_ne cst (snd tp)) (me_trees me)
      end && cst_unbound cst b
  | FForallInt v b | FExistsInt v b => negb (var_eqb v cst) && cst_unbound cst b
  end.

(* the variables bound by a successful match are variables of P *)
Lemma restrict_fst P i v : In v (map fst (restrict P i)) -> In v (map fst P).
Proof.
  unfold restrict. rewrite !in_map_iff. intros ([v' p] & Hv & Hin). simpl in Hv. subst v'.
  apply in_flat_map in Hin as ([w q] & HinP & Hq). simpl in Hq.
  destruct q as [|j r]; [contradiction|]. destruct (Nat.eqb j i); [|contradiction].
  destruct Hq as [Hq|[]]. exists (w, j :: r). split; [inversion Hq; reflexivity | exact HinP].
Qed.

Lemma smatch_vars m : forall t P here bs, smatch m t P here = Some bs ->
  forall v, In v (map fst bs) -> In v (map fst P).
Proof.
  induction m as [l' i' o' ks' IH] using tree_ind'. intros t P here bs. rewrite smatch_unfold.
  destruct (negb (str_eqb (lbl t) l') || _); [discriminate|].
  assert (Hgo : forall ks i bs', s_go P here ks' ks i = Some bs' ->
                forall v, In v (map fst bs') -> In v (map fst P)).
  { clear bs. induction IH as [|k' r' Hk _ IHr]; intros ks i bs' H v Hv.
    - simpl in H. inversion H; subst. contradiction.
    - destruct ks as [|k r]; [simpl in H; inversion H; subst; contradiction|].
      rewrite s_go_cons in H.
      destruct (smatch k' k (restrict P i) (here ++ [i])) as [a|] eqn:E1; [|discriminate].
      destruct (s_go P here r' r (S i)) as [b|] eqn:E2; [|discriminate].
      inversion H; subst. rewrite map_app, in_app_iff in Hv. destruct Hv as [Hv|Hv].
      + apply (restrict_fst P i). exact (Hk k (restrict P i) (here ++ [i]) a E1 v Hv).
      + exact (IHr r (S i) b E2 v Hv). }
  destruct P as [|[v0 [|j r]] [|y P']]; intros H v Hv; try (exact (Hgo _ _ _ H v Hv)).
  inversion H; subst. simpl in Hv. destruct Hv as [<-|[]]. left. reflexivity.
Qed.

Section Inst.
  Variable t : tree.
  Variable cst : var.
  Hypothesis Huniq : uniq_ids t.
  Hypothesis Hnum : parse_dec (lbl t) = None.

  Notation mdl := (models atom_denote t).
  Notation inst := (inst_const atom atom_inst t cst).

  (* b and b' agree except that b also binds cst to the root *)
  Definition R (b b' : env) : Prop := b cst = Some (VPos []) /\ forall v, v <> cst -> b v = b' v.

  Lemma R_upd b b' v x : R b b' -> var_eqb v cst = false -> R (upd b v x) (upd b' v x).
  Proof.
    intros [H1 H2] Hv. apply var_eqb_neq in Hv. split.
    - unfold upd. destruct (var_eqb cst v) eqn:E; [apply var_eqb_eq in E; congruence | exact H1].
    - intros w Hw. unfold upd. destruct (var_eqb w v); [reflexivity | apply H2; exact Hw].
  Qed.

  Lemma R_upd_pos bs : forall b b', R b b' -> (forall v, In v (map fst bs) -> var_eqb v cst = false) ->
    R (upd_pos b bs) (upd_pos b' bs).
  Proof.
    induction bs as [|[v p] bs IH]; intros b b' HR Hv; simpl; [exact HR|].
    apply R_upd; [apply IH; [exact HR | intros w Hw; apply Hv; right; exact Hw] | apply Hv; left; reflexivity].
  Qed.

  Lemma R_init : R (upd env_empty cst (VPos [])) env_empty.
  Proof.
    split.
    - unfold upd. rewrite var_eqb_refl. reflexivity.
    - intros v Hv. unfold upd. apply var_eqb_neq in Hv. rewrite Hv. reflexivity.
  Qed.

  Lemma tenv_cst b b' : R b b' -> tenv t b cst = Some t.
  Proof. intros [H _]. unfold tenv. rewrite H. reflexivity. Qed.

  Lemma tenv_other b b' v : R b b' -> v <> cst -> tenv t b v = tenv t b' v.
  Proof. intros [_ H] Hv. unfold tenv. rewrite (H v Hv). reflexivity. Qed.

  (* ---- arguments ---- *)
  Lemma in_pos_inst b b' i p : R b b' -> (in_pos t b i p <-> in_pos t b' (inst_in t cst i) p).
  Proof.
    intros HR. destruct i as [v|u]; simpl; [|reflexivity].
    destruct (var_eqb v cst) eqn:E.
    - apply var_eqb_eq in E. subst v. simpl. rewrite (pos_of_root t Huniq p). destruct HR as [H _].
      rewrite H. split; [intro X; inversion X; reflexivity | intros ->; reflexivity].
    - simpl. apply var_eqb_neq in E. destruct HR as [_ H]. rewrite (H v E). reflexivity.
  Qed.

  Lemma arg_pos_inst b b' a p : R b b' -> (arg_pos t b a p <-> arg_pos t b' (inst_arg t cst a) p).
  Proof.
    intros HR. destruct a as [v|s|u]; simpl; try reflexivity.
    destruct (var_eqb v cst) eqn:E.
    - apply var_eqb_eq in E. subst v. simpl. rewrite (pos_of_root t Huniq p). destruct HR as [H _].
      rewrite H. split; [intro X; inversion X; reflexivity | intros ->; reflexivity].
    - simpl. apply var_eqb_neq in E. destruct HR as [_ H]. rewrite (H v E). reflexivity.
  Qed.

  Lemma num_val_inst b b' a k : R b b' -> (num_val b a k <-> num_val b' (inst_arg t cst a) k).
  Proof.
    intros HR. destruct a as [v|s|u]; simpl; try reflexivity.
    destruct (var_eqb v cst) eqn:E.
    - apply var_eqb_eq in E. subst v. simpl. destruct HR as [H _]. rewrite H, Hnum.
      split; discriminate.
    - simpl. apply var_eqb_neq in E. destruct HR as [_ H]. rewrite (H v E). reflexivity.
  Qed.

  Lemma inst_arg_str a : match inst_arg t cst a with PStr s => a = PStr s | _ => match a with PStr _ => False | _ => True end end.
  Proof. destruct a as [v|s|u]; simpl; auto. destruct (var_eqb v cst); exact I. Qed.

  Lemma in_dom_inst b b' i T q : R b b' -> (in_dom t b i T q <-> in_dom t b' (inst_in t cst i) T q).
  Proof.
    intros HR. unfold in_dom. split; intros (p0 & s & H1 & H2); exists p0, s;
      (split; [apply (in_pos_inst b b' i p0 HR); exact H1 | exact H2]).
  Qed.

  Lemma spred_inst b b' n args : R b b' ->
    (spred_sem t b n args <-> spred_sem t b' n (map (inst_arg t cst) args)).
  Proof.
    intros HR.
    destruct args as [|a1 [|a2 [|a3 [|a4 [|a5 r]]]]]; simpl; try reflexivity.
    - split; intros (p & q & H1 & H2 & H3); exists p, q;
        (split; [apply (arg_pos_inst b b' a1 p HR); exact H1 |
         split; [apply (arg_pos_inst b b' a2 q HR); exact H2 | exact H3]]).
    - pose proof (inst_arg_str a1) as Ha. destruct (inst_arg t cst a1) as [v|s|u] eqn:E1.
      + destruct a1; try contradiction; reflexivity.
      + subst a1. split; intros (Hn & k & p & q & H0 & H1 & H2 & H3); (split; [exact Hn|]); exists k, p, q;
          (split; [exact H0 | split; [apply (arg_pos_inst b b' a2 p HR); exact H1 |
           split; [apply (arg_pos_inst b b' a3 q HR); exact H2 | exact H3]]]).
      + destruct a1; try contradiction; reflexivity.
    - pose proof (inst_arg_str a1) as Ha1. pose proof (inst_arg_str a2) as Ha2.
      destruct (inst_arg t cst a1) as [v|s|u] eqn:E1.
      + destruct a1; try contradiction; reflexivity.
      + subst a1. destruct (inst_arg t cst a2) as [v2|s2|u2] eqn:E2.
        * destruct a2; try contradiction; reflexivity.
        * subst a2. split; intros (Hn & o & p & q & H0 & H1 & H2 & H3); (split; [exact Hn|]); exists o, p, q;
            (split; [exact H0 | split; [apply (arg_pos_inst b b' a3 p HR); exact H1 |
             split; [apply (arg_pos_inst b b' a4 q HR); exact H2 | exact H3]]]).
        * destruct a2; try contradiction; reflexivity.
      + destruct a1; try contradiction; reflexivity.
  Qed.

  Lemma sempred_inst b b' n args : R b b' ->
    (sempred_sem t b n args <-> sempred_sem t b' n (map (inst_arg t cst) args)).
  Proof.
    intros HR.
    destruct args as [|a1 [|a2 [|a3 [|a4 r]]]]; simpl; try reflexivity.
    pose proof (inst_arg_str a2) as Ha. destruct (inst_arg t cst a2) as [v|s|u] eqn:E1.
    - destruct a2; try contradiction; reflexivity.
    - subst a2. split; intros (Hn & p & s0 & k & H1 & H2 & H3 & H4); (split; [exact Hn|]); exists p, s0, k;
        (split; [apply (arg_pos_inst b b' a1 p HR); exact H1 | split; [exact H2 |
         split; [apply (num_val_inst b b' a3 k HR); exact H3 | exact H4]]]).
    - destruct a2; try contradiction; reflexivity.
  Qed.

  (* ---- atoms ---- *)
  Lemma sterm_inst_den b b' s u : R b b' ->
    (sterm_den (tenv t b) s u <-> sterm_den (tenv t b') (sterm_inst cst t s) u).
  Proof.
    intros HR. destruct s as [v|w]; simpl; [|reflexivity].
    destruct (var_eqb v cst) eqn:E.
    - apply var_eqb_eq in E. subst v. simpl. rewrite (tenv_cst b b' HR). split.
      + intros (t0 & H1 & H2). inversion H1; subst. reflexivity.
      + intros ->. exists t. auto.
    - simpl. apply var_eqb_neq in E. rewrite (tenv_other b b' v HR E). reflexivity.
  Qed.

  Definition subst_atom (x : atom) : atom :=
    match x with
    | AStr neg s u => AStr neg (sterm_inst cst t s) (sterm_inst cst t u)
    | ALen op s n => ALen op (sterm_inst cst t s) n
    | ABool bb => ABool bb
    end.

  Lemma subst_atom_den b b' x : R b b' ->
    (atom_denote x (tenv t b) <-> atom_denote (subst_atom x) (tenv t b')).
  Proof.
    intros HR. destruct x as [neg s u|op s n|bb]; simpl; [| |reflexivity].
    - split; intros (u1 & w1 & H1 & H2 & H3); exists u1, w1;
        (split; [apply (sterm_inst_den b b' s u1 HR); exact H1 |
         split; [apply (sterm_inst_den b b' u w1 HR); exact H2 | exact H3]]).
    - split; intros (u1 & H1 & H2); exists u1;
        (split; [apply (sterm_inst_den b b' s u1 HR); exact H1 | exact H2]).
  Qed.

  Lemma sterm_ground_den e e' s u : sterm_vars s = [] -> (sterm_den e s u <-> sterm_den e' s u).
  Proof. destruct s; simpl; [discriminate | reflexivity]. Qed.

  Lemma ground_den e e' y : atom_free y = [] -> (atom_denote y e <-> atom_denote y e').
  Proof.
    destruct y as [neg s u|op s n|bb]; simpl; intro Hf; [| |reflexivity].
    - assert (Hs : sterm_vars s = [] /\ sterm_vars u = []).
      { destruct (sterm_vars s ++ sterm_vars u) as [|v l] eqn:E.
        - apply app_eq_nil in E. exact E.
        - exfalso. assert (Hin : In v (nodup_vars (v :: l))) by (apply nodup_vars_In; left; reflexivity).
          rewrite Hf in Hin. contradiction. }
      destruct Hs as [Hs Hu].
      split; intros (u1 & w1 & H1 & H2 & H3); exists u1, w1;
        (split; [apply (sterm_ground_den e e' s u1 Hs) + apply (sterm_ground_den e' e s u1 Hs); exact H1 |
         split; [apply (sterm_ground_den e e' u w1 Hu) + apply (sterm_ground_den e' e u w1 Hu); exact H2 | exact H3]]).
    - split; intros (u1 & H1 & H2); exists u1;
        (split; [apply (sterm_ground_den e e' s u1 Hf) + apply (sterm_ground_den e' e s u1 Hf); exact H1 | exact H2]).
  Qed.

  Lemma atom_inst_den b b' x y : R b b' -> atom_inst cst t x = Ok y ->
    (atom_denote x (tenv t b) <-> atom_denote y (tenv t b')).
  Proof.
    intros HR. unfold atom_inst. destruct (is_openT t); [discriminate|].
    fold (subst_atom x). rewrite (subst_atom_den b b' x HR).
    destruct (existsb (var_eqb cst) (atom_free x) && is_nil (atom_free (subst_atom x))) eqn:C.
    - apply andb_true_iff in C as [_ C]. destruct (atom_free (subst_atom x)) eqn:Hf; [|discriminate].
      destruct (atom_sound t (subst_atom x) [] env_empty (inv_empty t)) as [[E D]|[E D]].
      { intros v Hv. rewrite Hf in Hv. contradiction. }
      + rewrite E. intro H. inversion H; subst. simpl.
        rewrite (ground_den (tenv t b') (tenv t env_empty) _ Hf). tauto.
      + rewrite E. intro H. inversion H; subst. simpl.
        rewrite (ground_den (tenv t b') (tenv t env_empty) _ Hf). split; [contradiction | discriminate].
    - intro H. inversion H; subst. reflexivity.
  Qed.

  (* ---- the formula induction ---- *)
  Theorem models_inst_gen f : forall f' b b', R b b' -> cst_unbound cst f = true -> inst f = Ok f' ->
    (mdl b f <-> mdl b' f').
  Proof.
    induction f as [x|n args|n args|g IH|fs IH|fs IH|v i m body IH|v i m body IH|v body IH|v body IH]
      using formula_ind'; intros f' b b' HR Hub Hi; simpl in Hi.
    - destruct (atom_inst cst t x) as [y|e] eqn:E; [|discriminate]. inversion Hi; subst. simpl.
      exact (atom_inst_den b b' x y HR E).
    - inversion Hi; subst. simpl. exact (spred_inst b b' n args HR).
    - inversion Hi; subst. simpl. exact (sempred_inst b b' n args HR).
    - destruct (inst g) as [g'|e] eqn:E; [|discriminate]. inversion Hi; subst. simpl.
      simpl in Hub. rewrite (IH g' b b' HR Hub eq_refl). reflexivity.
    - destruct (mapM inst fs) as [l|e] eqn:E; [|discriminate]. inversion Hi; subst. simpl. simpl in Hub.
      clear Hi. revert l E Hub. induction IH as [|x fs' Hx _ IHfs]; intros l E Hub; simpl in E.
      + inversion E; subst. reflexivity.
      + destruct (inst x) as [x'|e] eqn:Ex; [|discriminate].
        destruct (mapM inst fs') as [l'|e] eqn:El; [|discriminate]. inversion E; subst.
        simpl in Hub. apply andb_true_iff in Hub as [Hub1 Hub2].
        rewrite (Hx x' b b' HR Hub1 eq_refl), (IHfs l' eq_refl Hub2). reflexivity.
    - destruct (mapM inst fs) as [l|e] eqn:E; [|discriminate]. inversion Hi; subst. simpl. simpl in Hub.
      clear Hi. revert l E Hub. induction IH as [|x fs' Hx _ IHfs]; intros l E Hub; simpl in E.
      + inversion E; subst. reflexivity.
      + destruct (inst x) as [x'|e] eqn:Ex; [|discriminate].
        destruct (mapM inst fs') as [l'|e] eqn:El; [|discriminate]. inversion E; subst.
        simpl in Hub. apply andb_true_iff in Hub as [Hub1 Hub2].
        rewrite (Hx x' b b' HR Hub1 eq_refl), (IHfs l' eq_refl Hub2). reflexivity.
    - destruct (inst body) as [body'|e] eqn:E; [|discriminate]. inversion Hi; subst. simpl in Hub.
      apply andb_true_iff in Hub as [Hub Hub3]. apply andb_true_iff in Hub as [Hub1 Hub2].
      apply negb_true_iff in Hub1. simpl. destruct m as [me|].
      + split; intros H q s t2 P bs Hd Hs Hin Hm.
        * assert (HR' : R (upd_pos (upd b v (VPos q)) bs) (upd_pos (upd b' v (VPos q)) bs)).
          { apply R_upd_pos; [apply R_upd; assumption|]. intros w Hw.
            pose proof (smatch_vars t2 s P q bs Hm w Hw) as HwP.
            rewrite forallb_forall in Hub2. specialize (Hub2 (t2, P) Hin). simpl in Hub2.
            unfold vars_ne in Hub2. rewrite forallb_forall in Hub2.
            apply in_map_iff in HwP as ([w' p'] & Hw' & HinP). simpl in Hw'. subst w'.
            specialize (Hub2 (w, p') HinP). simpl in Hub2. apply negb_true_iff in Hub2. exact Hub2. }
          apply (IH body' _ _ HR' Hub3 eq_refl). apply (H q s t2 P bs); try assumption.
          apply (in_dom_inst b b' i (vtype v) q HR). exact Hd.
        * assert (HR' : R (upd_pos (upd b v (VPos q)) bs) (upd_pos (upd b' v (VPos q)) bs)).
          { apply R_upd_pos; [apply R_upd; assumption|]. intros w Hw.
            pose proof (smatch_vars t2 s P q bs Hm w Hw) as HwP.
            rewrite forallb_forall in Hub2. specialize (Hub2 (t2, P) Hin). simpl in Hub2.
            unfold vars_ne in Hub2. rewrite forallb_forall in Hub2.
            apply in_map_iff in HwP as ([w' p'] & Hw' & HinP). simpl in Hw'. subst w'.
            specialize (Hub2 (w, p') HinP). simpl in Hub2. apply negb_true_iff in Hub2. exact Hub2. }
          apply (IH body' _ _ HR' Hub3 eq_refl). apply (H q s t2 P bs); try assumption.
          apply (in_dom_inst b b' i (vtype v) q HR). exact Hd.
      + split; intros H q Hd.
        * apply (IH body' _ _ (R_upd b b' v (VPos q) HR Hub1) Hub3 eq_refl). apply H.
          apply (in_dom_inst b b' i (vtype v) q HR). exact Hd.
        * apply (IH body' _ _ (R_upd b b' v (VPos q) HR Hub1) Hub3 eq_refl). apply H.
          apply (in_dom_inst b b' i (vtype v) q HR). exact Hd.
    - destruct (inst body) as [body'|e] eqn:E; [|discriminate]. inversion Hi; subst. simpl in Hub.
      apply andb_true_iff in Hub as [Hub Hub3]. apply andb_true_iff in Hub as [Hub1 Hub2].
      apply negb_true_iff in Hub1. simpl. destruct m as [me|].
      + split; intros (q & s & t2 & P & bs & Hd & Hs & Hin & Hm & H); exists q, s, t2, P, bs.
        * assert (HR' : R (upd_pos (upd b v (VPos q)) bs) (upd_pos (upd b' v (VPos q)) bs)).
          { apply R_upd_pos; [apply R_upd; assumption|]. intros w Hw.
            pose proof (smatch_vars t2 s P q bs Hm w Hw) as HwP.
            rewrite forallb_forall in Hub2. specialize (Hub2 (t2, P) Hin). simpl in Hub2.
            unfold vars_ne in Hub2. rewrite forallb_forall in Hub2.
            apply in_map_iff in HwP as ([w' p'] & Hw' & HinP). simpl in Hw'. subst w'.
            specialize (Hub2 (w, p') HinP). simpl in Hub2. apply negb_true_iff in Hub2. exact Hub2. }
          split; [apply (in_dom_inst b b' i (vtype v) q HR); exact Hd|].
          repeat (split; [assumption|]). apply (IH body' _ _ HR' Hub3 eq_refl). exact H.
        * assert (HR' : R (upd_pos (upd b v (VPos q)) bs) (upd_pos (upd b' v (VPos q)) bs)).
          { apply R_upd_pos; [apply R_upd; assumption|]. intros w Hw.
            pose proof (smatch_vars t2 s P q bs Hm w Hw) as HwP.
            rewrite forallb_forall in Hub2. specialize (Hub2 (t2, P) Hin). simpl in Hub2.
            unfold vars_ne in Hub2. rewrite forallb_forall in Hub2.
            apply in_map_iff in HwP as ([w' p'] & Hw' & HinP). simpl in Hw'. subst w'.
            specialize (Hub2 (w, p') HinP). simpl in Hub2. apply negb_true_iff in Hub2. exact Hub2. }
          split; [apply (in_dom_inst b b' i (vtype v) q HR); exact Hd|].
          repeat (split; [assumption|]). apply (IH body' _ _ HR' Hub3 eq_refl). exact H.
      + split; intros (q & Hd & H); exists q.
        * split; [apply (in_dom_inst b b' i (vtype v) q HR); exact Hd|].
          apply (IH body' _ _ (R_upd b b' v (VPos q) HR Hub1) Hub3 eq_refl). exact H.
        * split; [apply (in_dom_inst b b' i (vtype v) q HR); exact Hd|].
          apply (IH body' _ _ (R_upd b b' v (VPos q) HR Hub1) Hub3 eq_refl). exact H.
    - destruct (inst body) as [body'|e] eqn:E; [|discriminate]. inversion Hi; subst. simpl in Hub.
      apply andb_true_iff in Hub as [Hub1 Hub3]. apply negb_true_iff in Hub1. simpl.
      split; intros H k; apply (IH body' _ _ (R_upd b b' v (VNum k) HR Hub1) Hub3 eq_refl); apply H.
    - destruct (inst body) as [body'|e] eqn:E; [|discriminate]. inversion Hi; subst. simpl in Hub.
      apply andb_true_iff in Hub as [Hub1 Hub3]. apply negb_true_iff in Hub1. simpl.
      split; intros (k & H); exists k; apply (IH body' _ _ (R_upd b b' v (VNum k) HR Hub1) Hub3 eq_refl); exact H.
  Qed.

  Theorem models_inst f f' : cst_unbound cst f = true -> inst f = Ok f' ->
    (mdl (upd env_empty cst (VPos [])) f <-> mdl env_empty f').
  Proof. intros Hub Hi. exact (models_inst_gen f f' _ _ R_init Hub Hi). Qed.
End Inst.
